(* Result monad used by every generated / hand-written model function.
   [Err] carries the Python exception class the real code would raise
   ("ValueError", "ZeroDivisionError", "RuntimeError", ...). *)
From Coq Require Import String List ZArith Bool.
Import ListNotations.

Inductive res (A : Type) : Type :=
| Ok (a : A)
| Err (exn : string).
Arguments Ok {A} a.
Arguments Err {A} exn.

Definition bind {A B} (m : res A) (f : A -> res B) : res B :=
  match m with Ok a => f a | Err e => Err e end.

Notation "x <- m ;; k" := (bind m (fun x => k))
  (at level 61, m at next level, right associativity).
Notation "' pat <- m ;; k" := (bind m (fun x => match x with pat => k end))
  (at level 61, pat pattern, m at next level, right associativity).

Definition guard (b : bool) (exn : string) : res unit :=
  if b then Ok tt else Err exn.

Definition is_ok {A} (m : res A) : bool := match m with Ok _ => true | Err _ => false end.

(* Python-style checks emitted by the translators *)
Definition guard_nz (d : Z) : res unit := guard (negb (Z.eqb d 0)) "ZeroDivisionError"%string.

Lemma bind_ok {A B} (m : res A) (f : A -> res B) b :
  bind m f = Ok b -> exists a, m = Ok a /\ f a = Ok b.
Proof. destruct m; simpl; intros H; [eauto|discriminate]. Qed.

Lemma guard_ok b e u : guard b e = Ok u -> b = true.
Proof. destruct b; simpl; congruence. Qed.

Lemma guard_true e : guard true e = Ok tt. Proof. reflexivity. Qed.

(* monadic fold used for translated [for] loops *)
Fixpoint mfold {A S} (f : S -> A -> res S) (l : list A) (s : S) : res S :=
  match l with
  | [] => Ok s
  | a :: l' => s' <- f s a ;; mfold f l' s'
  end.

Lemma mfold_app {A S} (f : S -> A -> res S) l1 l2 s :
  mfold f (l1 ++ l2) s = (s' <- mfold f l1 s ;; mfold f l2 s').
Proof.
  revert s; induction l1 as [|a l1 IH]; intros s; simpl; [reflexivity|].
  destruct (f s a); simpl; auto.
Qed.

(* range(n) over Z *)
Definition zrange (n : Z) : list Z := map Z.of_nat (seq 0 (Z.to_nat n)).

(* same list as [zrange n], built without unary naturals (for 2^16-element sweeps) *)
Definition zupto (n : Z) : list Z :=
  fst (Z.iter n (fun p => let z := Z.pred (snd p) in (z :: fst p, z)) ([], n)).

(* bounded while loop for translated [while] statements; exhausting the fuel is an error value *)
Fixpoint mwhile {S} (fuel : nat) (cond : S -> res bool) (body : S -> res S) (s : S) : res S :=
  match fuel with
  | O => Err "OutOfFuel"%string
  | Datatypes.S f =>
    c <- cond s ;;
    if c then (s' <- body s ;; mwhile f cond body s') else Ok s
  end.
