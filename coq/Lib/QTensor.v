(* Records for quanto's quantized tensor classes and the small Python helpers the translated
   quantizer / optimizer code uses. Codes are kept as values of the working number type F (every
   8-bit code is exactly representable in float16 / bfloat16 / float32). *)
From Coq Require Import String List ZArith Bool.
From QV Require Import Lib.Res Lib.Tensor Lib.ND Lib.Num.
Import ListNotations.
Open Scope Z_scope.

Record qbytes (F : Type) := QBytes {
  qb_qtype : qtype; qb_axis : option Z; qb_size : list Z; qb_stride : list Z;
  qb_data : tensor F; qb_scale : tensor F }.
Arguments QBytes {F}. Arguments qb_qtype {F}. Arguments qb_axis {F}. Arguments qb_size {F}.
Arguments qb_stride {F}. Arguments qb_data {F}. Arguments qb_scale {F}.

Record qbits (F : Type) := QBits {
  qz_qtype : qtype; qz_axis : option Z; qz_group : option Z; qz_size : list Z; qz_stride : list Z;
  qz_data : tensor F; qz_scale : tensor F; qz_zp : tensor F }.
Arguments QBits {F}. Arguments qz_qtype {F}. Arguments qz_axis {F}. Arguments qz_group {F}.
Arguments qz_size {F}. Arguments qz_stride {F}. Arguments qz_data {F}. Arguments qz_scale {F}.
Arguments qz_zp {F}.

Definition oz_eqb (a : option Z) (b : Z) : bool := match a with Some x => x =? b | None => false end.
Definition oz_in (a : option Z) (l : list Z) : bool := match a with Some x => zmem x l | None => false end.
Definition py_index_opt {A} (l : list A) (i : option Z) : res A :=
  match i with Some i => py_index l i | None => Err "TypeError"%string end.

(* torch.squeeze(t).ndim *)
Definition sq_ndim {A} (t : tensor A) : Z := zlen (filter (fun d => negb (d =? 1)) (shape t)).

(* strides of a contiguous tensor of this shape (the model's tensors are contiguous) *)
Fixpoint contig_strides (sh : list Z) : list Z :=
  match sh with [] => [] | _ :: rest => prodZ rest :: contig_strides rest end.
Definition t_stride {A} (t : tensor A) : list Z := contig_strides (shape t).

Definition zrange2 (a b : Z) : list Z := map (fun i => a + i) (zrange (b - a)).

Fixpoint list_remove (l : list Z) (x : Z) : res (list Z) :=
  match l with
  | [] => Err "ValueError"%string
  | y :: l' => if y =? x then Ok l' else r <- list_remove l' x ;; Ok (y :: r)
  end.
Definition list_remove_opt (l : list Z) (x : option Z) : res (list Z) :=
  match x with Some x => list_remove l x | None => Err "ValueError"%string end.

Inductive qany (F : Type) := QB (q : qbytes F) | QZ (q : qbits F).
Arguments QB {F}. Arguments QZ {F}.

(* the two built-in range optimizers; family membership is what quantize_weight tests *)
Inductive optkind := AbsmaxOpt | MaxOpt.
Definition opt_is_sym (o : option optkind) : bool := match o with Some AbsmaxOpt => true | _ => false end.
Definition opt_is_aff (o : option optkind) : bool := match o with Some MaxOpt => true | _ => false end.

(* reshape with at most one -1 entry (inferred), as torch does *)
Definition t_reshape_py {A} (sh : list Z) (t : tensor A) : res (tensor A) :=
  let known := prodZ (filter (fun d => negb (d =? -1)) sh) in
  let nneg := zlen (filter (fun d => d =? -1) sh) in
  if nneg =? 0 then t_reshape sh t
  else if (nneg =? 1) && negb (known =? 0) && (numel t mod known =? 0) then
    t_reshape (map (fun d => if d =? -1 then numel t / known else d) sh) t
  else Err "RuntimeError"%string.

(* int8 tensor subtraction: exact integer difference, then two's-complement wrap *)
Definition ti8_sub {F} `{Num F} (a b : tensor F) : res (tensor F) :=
  r <- tf_sub a b ;; Ok (tf_cast SInt8 r).
