(* The numeric interface the translated element-wise code is written against.  It has two
   instances: exact real arithmetic (Proofs/) and bit-exact IEEE arithmetic through Flocq
   (Float/F.v, executable).  Also the qtype table of optimum/quanto/tensor/qtype.py. *)
From Coq Require Import String List ZArith Bool.
From Flocq Require Import Core IEEE754.BinarySingleNaN.
From QV Require Import Lib.Res Lib.Tensor Lib.ND.
Import ListNotations.
Open Scope Z_scope.

(* where the codes of a quantized tensor are stored *)
Inductive storage := SInt8 | SUInt8 | SE4M3 | SE5M2.

(* Python floats (momentum, 1.0 - momentum): IEEE binary64, computed by Flocq *)
Global Instance Hp53 : Prec_gt_0 53 := eq_refl.
Global Instance Hpe53 : Prec_lt_emax 53 1024 := eq_refl.
Definition b64 := binary_float 53 1024.
Definition b64_lit (m e : Z) : b64 := binary_normalize 53 1024 Hp53 Hpe53 mode_NE m e false.
Definition b64_add : b64 -> b64 -> b64 := Bplus mode_NE.
Definition b64_sub : b64 -> b64 -> b64 := Bminus mode_NE.
Definition b64_mul : b64 -> b64 -> b64 := Bmult mode_NE.

Class Num (F : Type) := {
  n_of_b64 : b64 -> F;                   (* a Python float combined with a tensor of this dtype *)
  n_of_Z : Z -> F;                       (* a Python int combined with a tensor of this dtype *)
  n_add : F -> F -> F;
  n_sub : F -> F -> F;
  n_mul : F -> F -> F;
  n_div : F -> F -> F;
  n_max : F -> F -> F;                   (* torch.maximum / amax: NaN propagates *)
  n_min : F -> F -> F;
  n_neg : F -> F;
  n_abs : F -> F;
  n_rint : F -> F;                       (* torch.round: to nearest integer, ties to even *)
  n_cast : storage -> F -> F;            (* value held after .to(<storage dtype>) and back *)
  n_mul_py : F -> b64 -> F;              (* tensor element * Python float: computed in the op-math type (float32 for
                                            float16/bfloat16 tensors), the scalar rounded to that type first *)
  n_nan_to_num : F -> F;                 (* torch.nan_to_num(x, nan=0.0): NaN -> 0, +-inf -> +-largest finite *)
  n_eqb : F -> F -> bool;
}.

Definition n_clamp {F} `{Num F} (lo hi x : F) : F := n_min (n_max x lo) hi.

Record qtype := QT {
  q_name : string; q_isfloat : bool; q_bits : Z; q_min : Z; q_max : Z; q_storage : storage }.

(* dtype_info(qtype.dtype).min/max : the range of the STORAGE dtype *)
Definition st_min (s : storage) : Z :=
  match s with SInt8 => -128 | SUInt8 => 0 | SE4M3 => -448 | SE5M2 => -57344 end.
Definition st_max (s : storage) : Z :=
  match s with SInt8 => 127 | SUInt8 => 255 | SE4M3 => 448 | SE5M2 => 57344 end.

Definition qint2 := QT "qint2" false 2 (-2) 1 SInt8.
Definition qint4 := QT "qint4" false 4 (-8) 7 SInt8.
Definition qint8 := QT "qint8" false 8 (-128) 127 SInt8.
Definition qfloat8_e4m3fn := QT "qfloat8_e4m3fn" true 8 (-448) 448 SE4M3.
Definition qfloat8_e5m2 := QT "qfloat8_e5m2" true 8 (-57344) 57344 SE5M2.
Definition qtypes := [qint2; qint4; qint8; qfloat8_e4m3fn; qfloat8_e5m2].
Definition qtype_eqb (a b : qtype) : bool := String.eqb (q_name a) (q_name b).

(* ---- tensor-level float operations with torch broadcasting --------------------------------- *)
Section TF.
Context {F : Type} `{Num F}.
Definition f0 : F := n_of_Z 0.
Definition tf_div (a b : tensor F) := t_bcast2 n_div f0 f0 a b.
Definition tf_mul (a b : tensor F) := t_bcast2 n_mul f0 f0 a b.
Definition tf_add (a b : tensor F) := t_bcast2 n_add f0 f0 a b.
Definition tf_sub (a b : tensor F) := t_bcast2 n_sub f0 f0 a b.
Definition tf_neg (a : tensor F) := t_map n_neg a.
Definition tf_abs (a : tensor F) := t_map n_abs a.
Definition tf_round (a : tensor F) := t_map n_rint a.
Definition tf_clamp (lo hi : Z) (a : tensor F) := t_map (n_clamp (n_of_Z lo) (n_of_Z hi)) a.
Definition tf_clamp_max (hi : Z) (a : tensor F) := t_map (fun x => n_min x (n_of_Z hi)) a.
Definition tf_clamp_min (lo : Z) (a : tensor F) := t_map (fun x => n_max x (n_of_Z lo)) a.
Definition tf_nan_to_num (a : tensor F) := t_map n_nan_to_num a.
Definition tf_eq_int (a : tensor F) (k : Z) : tensor bool := t_map (fun x => n_eqb x (n_of_Z k)) a.
Definition tf_where (c : tensor bool) (a b : tensor F) : res (tensor F) :=
  if shape_eqb (shape c) (shape a) && shape_eqb (shape a) (shape b) then
    Ok (T (shape a) (map (fun p : bool * F * F => if fst (fst p) then snd (fst p) else snd p)
                         (combine (combine (data c) (data a)) (data b))))
  else Err "Unsupported:broadcast"%string.
Definition tf_cast (s : storage) (a : tensor F) := t_map (n_cast s) a.
Definition tf_div_int (a : tensor F) (k : Z) := t_map (fun x => n_div x (n_of_Z k)) a.
Definition tf_mul_int (a : tensor F) (k : Z) := t_map (fun x => n_mul x (n_of_Z k)) a.
Definition tf_mul_py (a : tensor F) (k : b64) := t_map (fun x => n_mul_py x k) a.
Definition tf_amax (rd : list Z) (a : tensor F) := t_reduce n_max f0 rd a.
Definition tf_amin (rd : list Z) (a : tensor F) := t_reduce n_min f0 rd a.
Definition tf_max_all (a : tensor F) := t_reduce_all n_max a.
Definition tf_all_eq_int (a : tensor F) (k : Z) : bool := forallb (fun x => n_eqb x (n_of_Z k)) (data a).
End TF.
