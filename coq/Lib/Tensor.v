(* The vocabulary the translators print: an executable model of the torch
   operations quanto's index/bit code uses.  Tensors are row-major flat lists
   with an explicit shape; integers are unbounded Z (Python ints), uint8 / int16 /
   int32 wrap-around is written into each operation explicitly.
   Everything here is MODELLED (trusted, tied to torch by the correspondence runs). *)
From Coq Require Import String List ZArith Bool Lia.
From QV Require Import Lib.Res.
Import ListNotations.
Open Scope Z_scope.

Record tensor (A : Type) : Type := T { shape : list Z; data : list A }.
Arguments T {A} shape data.
Arguments shape {A} t.
Arguments data {A} t.

Definition prodZ (l : list Z) : Z := fold_right Z.mul 1 l.
Definition numel {A} (t : tensor A) : Z := prodZ (shape t).
Definition zlen {A} (l : list A) : Z := Z.of_nat (length l).

(* ---- Python list / tuple helpers on shapes ------------------------------------------- *)
Definition norm_idx (len i : Z) : Z := if i <? 0 then Z.max 0 (len + i) else Z.min i len.

Definition py_slice {A} (l : list A) (start stop : option Z) : list A :=
  let len := zlen l in
  let s := match start with None => 0 | Some s => norm_idx len s end in
  let e := match stop with None => len | Some e => norm_idx len e end in
  firstn (Z.to_nat (e - s)) (skipn (Z.to_nat s) l).

(* l[i] with Python negative indexing; IndexError outside *)
Definition py_index {A} (l : list A) (i : Z) : res A :=
  let len := zlen l in
  let j := if i <? 0 then len + i else i in
  if (0 <=? j) && (j <? len) then
    match nth_error l (Z.to_nat j) with Some a => Ok a | None => Err "IndexError"%string end
  else Err "IndexError"%string.

(* ---- dim-0 structure: leading dimension, and the number of elements of one "row"%string ---------- *)
Definition dim0 {A} (t : tensor A) : Z := hd 1 (shape t).
Definition tailshape {A} (t : tensor A) : list Z := tl (shape t).
Definition stride0 {A} (t : tensor A) : Z := prodZ (tl (shape t)).

(* well-formed: at least one dimension, non-negative dims, data length = numel *)
Definition wf {A} (t : tensor A) : Prop :=
  shape t <> [] /\ Forall (fun d => 0 <= d) (shape t) /\ zlen (data t) = numel t.

Definition wfb {A} (t : tensor A) : bool :=
  match shape t with [] => false | _ => true end
  && forallb (fun d => 0 <=? d) (shape t) && (zlen (data t) =? numel t).

(* ---- element-wise ---------------------------------------------------------------------- *)
Definition t_map {A B} (f : A -> B) (t : tensor A) : tensor B := T (shape t) (map f (data t)).

Fixpoint zip_with {A B C} (f : A -> B -> C) (a : list A) (b : list B) : list C :=
  match a, b with
  | x :: a', y :: b' => f x y :: zip_with f a' b'
  | _, _ => []
  end.

Definition shape_eqb (a b : list Z) : bool :=
  (length a =? length b)%nat && forallb (fun p => fst p =? snd p) (combine a b).

(* same-shape binary op; anything needing broadcasting is outside this model *)
Definition t_zip {A B C} (f : A -> B -> C) (a : tensor A) (b : tensor B) : res (tensor C) :=
  if shape_eqb (shape a) (shape b) then Ok (T (shape a) (zip_with f (data a) (data b)))
  else Err "Unsupported:broadcast"%string.

(* ---- uint8 arithmetic ------------------------------------------------------------------- *)
Definition u8 (z : Z) : Z := z mod 256.
Definition u8_shl (x k : Z) : Z := if k <? 0 then 0 else if 8 <=? k then 0 else u8 (x * 2 ^ k).
Definition u8_shr (x k : Z) : Z := if k <? 0 then 0 else if 8 <=? k then 0 else Z.shiftr x k.
Definition u8_and (x m : Z) : Z := Z.land x (u8 m).
Definition u8_or (x y : Z) : Z := Z.lor x y.

Definition t_shl (t : tensor Z) (k : Z) : tensor Z := t_map (fun x => u8_shl x k) t.
Definition t_shr (t : tensor Z) (k : Z) : tensor Z := t_map (fun x => u8_shr x k) t.
Definition t_and (t : tensor Z) (m : Z) : tensor Z := t_map (fun x => u8_and x m) t.
Definition t_mul_u8 (t : tensor Z) (k : Z) : tensor Z := t_map (fun x => u8 (x * k)) t.
Definition t_floordiv_u8 (t : tensor Z) (k : Z) : tensor Z := t_map (fun x => x / k) t.
Definition t_to_u8 (t : tensor Z) : tensor Z := t_map u8 t.

(* ---- constructors ------------------------------------------------------------------------ *)
Definition t_zeros (sh : list Z) : res (tensor Z) :=
  if forallb (fun d => 0 <=? d) sh then Ok (T sh (repeat 0 (Z.to_nat (prodZ sh))))
  else Err "RuntimeError"%string.

(* ---- dim-0 slicing, in-place or on a dim-0 prefix, concatenation (on the flat row-major data:
        row r occupies positions r*stride0 .. (r+1)*stride0-1) ------------------------------------- *)
Definition slice_bounds (len : Z) (start stop : option Z) : Z * Z :=
  let s := match start with None => 0 | Some s => norm_idx len s end in
  let e := match stop with None => len | Some e => norm_idx len e end in
  (s, Z.max 0 (e - s)).

Definition t_slice0 {A} (t : tensor A) (start stop : option Z) : tensor A :=
  let '(s, n) := slice_bounds (dim0 t) start stop in
  let w := stride0 t in
  T (n :: tailshape t) (firstn (Z.to_nat (n * w)) (skipn (Z.to_nat (s * w)) (data t))).

(* packed[:stop] |= x   (x must have exactly the shape of the addressed view) *)
Definition t_ior_slice0 (p : tensor Z) (stop : option Z) (x : tensor Z) : res (tensor Z) :=
  let '(_, n) := slice_bounds (dim0 p) None stop in
  let k := Z.to_nat (n * stride0 p) in
  if shape_eqb (n :: tailshape p) (shape x) then
    Ok (T (shape p) (zip_with u8_or (firstn k (data p)) (data x) ++ skipn k (data p)))
  else Err "RuntimeError"%string.

(* torch.cat(list) along dim 0: all trailing shapes must agree, list non-empty *)
Definition t_cat0 {A} (ts : list (tensor A)) : res (tensor A) :=
  match ts with
  | [] => Err "RuntimeError"%string
  | t0 :: _ =>
    if forallb (fun t => shape_eqb (tailshape t) (tailshape t0)
                         && match shape t with [] => false | _ => true end) ts
    then Ok (T (fold_right Z.add 0 (map dim0 ts) :: tailshape t0) (concat (map data ts)))
    else Err "RuntimeError"%string
  end.

(* ---- decidable equality, used by the correspondence evaluations ---------------------------- *)
Fixpoint zlist_eqb (a b : list Z) : bool :=
  match a, b with
  | [], [] => true
  | x :: a', y :: b' => (x =? y) && zlist_eqb a' b'
  | _, _ => false
  end.
Definition t_eqb (a b : tensor Z) : bool := zlist_eqb (shape a) (shape b) && zlist_eqb (data a) (data b).
Definition res_t_eqb (a b : res (tensor Z)) : bool :=
  match a, b with
  | Ok x, Ok y => t_eqb x y
  | Err _, Err _ => true
  | _, _ => false
  end.
Fixpoint failing_from {A} (chk : A -> bool) (l : list A) (i : nat) : list nat :=
  match l with
  | [] => []
  | a :: l' => if chk a then failing_from chk l' (S i) else i :: failing_from chk l' (S i)
  end.
Definition failing {A} (chk : A -> bool) (l : list A) : list nat := failing_from chk l 0.
