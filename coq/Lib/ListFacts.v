(* Generic list facts used by the tensor-level proofs. *)
From Coq Require Import List ZArith Bool Lia Arith.
From QV Require Import Lib.Res Lib.Tensor.
Import ListNotations.

Lemma zip_with_length {A B C} (f : A -> B -> C) a b :
  length (zip_with f a b) = Nat.min (length a) (length b).
Proof. revert b; induction a as [|x a IH]; intros [|y b]; simpl; auto. Qed.

Lemma nth_zip_with {A B C} (f : A -> B -> C) a b i da db dc :
  (i < length a)%nat -> (i < length b)%nat ->
  nth i (zip_with f a b) dc = f (nth i a da) (nth i b db).
Proof.
  revert b i; induction a as [|x a IH]; intros [|y b] [|i]; simpl; intros; try lia; auto.
  apply IH; lia.
Qed.

Lemma nth_firstn {A} (l : list A) n i d : (i < n)%nat -> nth i (firstn n l) d = nth i l d.
Proof.
  revert n i; induction l as [|x l IH]; intros [|n] [|i]; simpl; intros; try lia; auto.
  apply IH; lia.
Qed.

Lemma nth_skipn {A} (l : list A) n i d : nth i (skipn n l) d = nth (n + i) l d.
Proof.
  revert n; induction l as [|x l IH]; intros [|n]; simpl; auto.
  destruct i; reflexivity.
Qed.

Lemma nth_map_seq {A} (f : nat -> A) n i d : (i < n)%nat -> nth i (map f (seq 0 n)) d = f i.
Proof.
  intros H. rewrite nth_indep with (d' := f 0%nat) by (rewrite map_length, seq_length; lia).
  rewrite map_nth. rewrite seq_nth by lia. reflexivity.
Qed.

Lemma nth_map0 (f : Z -> Z) l i : f 0%Z = 0%Z -> nth i (map f l) 0%Z = f (nth i l 0%Z).
Proof. intros H. rewrite <- H at 1. apply map_nth. Qed.

Lemma nth_beyond {A} (l : list A) i d : (length l <= i)%nat -> nth i l d = d.
Proof. apply nth_overflow. Qed.

Lemma nth_In_or_default {A} (l : list A) i d : In (nth i l d) l \/ nth i l d = d.
Proof.
  destruct (Nat.lt_ge_cases i (length l)); [left; apply nth_In; auto | right; apply nth_overflow; auto].
Qed.

(* concatenation of k blocks of equal length B *)
Lemma nth_concat_uniform {A} (ls : list (list A)) B j d :
  Forall (fun l => length l = B) ls -> (0 < B)%nat ->
  nth j (concat ls) d = nth (j mod B) (nth (j / B) ls []) d.
Proof.
  intros HF HB. revert j. induction HF as [|l ls Hl _ IH]; intros j; simpl.
  - destruct (j / B)%nat, (j mod B)%nat, j; reflexivity.
  - destruct (Nat.lt_ge_cases j B) as [Hj|Hj].
    + rewrite app_nth1 by lia. rewrite Nat.div_small, Nat.mod_small by lia. reflexivity.
    + rewrite app_nth2 by lia. rewrite IH. rewrite Hl.
      replace j with ((j - B) + 1 * B)%nat at 3 4 by lia.
      rewrite Nat.div_add, Nat.mod_add by lia.
      replace (((j - B) / B + 1))%nat with (S ((j - B) / B)) by lia. reflexivity.
Qed.

Lemma concat_length_uniform {A} (ls : list (list A)) B :
  Forall (fun l => length l = B) ls -> length (concat ls) = (length ls * B)%nat.
Proof. induction 1 as [|l ls Hl _ IH]; simpl; [reflexivity|]. rewrite app_length; lia. Qed.

Lemma zrange_length n : length (zrange n) = Z.to_nat n.
Proof. unfold zrange. rewrite map_length, seq_length. reflexivity. Qed.

Lemma zrange_nat (n : nat) : zrange (Z.of_nat n) = map Z.of_nat (seq 0 n).
Proof. unfold zrange. rewrite Nat2Z.id. reflexivity. Qed.

Lemma In_zrange n x : (0 <= x < n)%Z -> In x (zrange n).
Proof.
  intros H. unfold zrange. apply in_map_iff. exists (Z.to_nat x). split; [lia|].
  apply in_seq. lia.
Qed.

(* a finite sweep over 0..n-1 lifted to a universally quantified statement *)
Lemma sweep_sound (P : Z -> bool) n :
  forallb P (zrange n) = true -> forall x, (0 <= x < n)%Z -> P x = true.
Proof. intros H x Hx. rewrite forallb_forall in H. apply H, In_zrange, Hx. Qed.

Lemma mfold_snoc {A S} (f : S -> A -> res S) l a s s' :
  mfold f l s = Ok s' -> mfold f (l ++ [a]) s = f s' a.
Proof.
  intros H. rewrite mfold_app, H. simpl. destruct (f s' a); reflexivity.
Qed.

Lemma prodZ_nonneg l : Forall (fun d => 0 <= d)%Z l -> (0 <= prodZ l)%Z.
Proof. induction 1; simpl; lia. Qed.

Lemma shape_eqb_refl l : shape_eqb l l = true.
Proof.
  unfold shape_eqb. rewrite Nat.eqb_refl. simpl.
  induction l as [|x l IH]; simpl; [reflexivity|]. rewrite Z.eqb_refl. exact IH.
Qed.

Lemma shape_eqb_eq a b : shape_eqb a b = true -> a = b.
Proof.
  unfold shape_eqb. rewrite andb_true_iff, Nat.eqb_eq. intros [Hl H]. revert b Hl H.
  induction a as [|x a IH]; intros [|y b]; simpl; intros; try lia; auto.
  apply andb_true_iff in H. destruct H as [H1 H2]. apply Z.eqb_eq in H1. subst. f_equal.
  apply IH; auto.
Qed.

Lemma forallb_nonneg l : Forall (fun d => 0 <= d)%Z l -> forallb (fun d => 0 <=? d)%Z l = true.
Proof. induction 1; simpl; auto. apply andb_true_iff; split; [lia|auto]. Qed.

(* boolean comparison goals: go through the Prop form so that zify sees [Z.of_nat] positivity *)
Ltac bsolve :=
  match goal with
  | |- true = _ => symmetry; bsolve
  | |- false = _ => symmetry; bsolve
  | |- (_ <? _)%Z = true => apply Z.ltb_lt; lia
  | |- (_ <? _)%Z = false => apply Z.ltb_ge; lia
  | |- (_ <=? _)%Z = true => apply Z.leb_le; lia
  | |- (_ <=? _)%Z = false => apply Z.leb_gt; lia
  | |- (_ >? _)%Z = true => apply Z.gtb_lt; lia
  | |- (_ >? _)%Z = false => rewrite Z.gtb_ltb; apply Z.ltb_ge; lia
  | |- (_ =? _)%Z = true => apply Z.eqb_eq; lia
  | |- (_ =? _)%Z = false => apply Z.eqb_neq; lia
  end.
