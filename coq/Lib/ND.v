(* N-dimensional structure on the flat row-major tensors of Lib/Tensor.v: mixed-radix index maps,
   broadcasting binary operations, reductions with keepdim, reshape, permute.
   All of it is executable (vm_compute) and MODELLED after torch (tied by correspondence). *)
From Coq Require Import String List ZArith Bool Lia.
From QV Require Import Lib.Res Lib.Tensor.
Import ListNotations.
Open Scope Z_scope.

Fixpoint unravel (dims : list Z) (j : Z) : list Z :=
  match dims with
  | [] => []
  | d :: rest => let p := prodZ rest in (j / p) :: unravel rest (j mod p)
  end.

Fixpoint ravel (dims idx : list Z) : Z :=
  match dims, idx with
  | d :: rest, i :: is_ => i * prodZ rest + ravel rest is_
  | _, _ => 0
  end.

Definition zget {A} (l : list A) (i : Z) (d : A) : A := nth (Z.to_nat i) l d.
Definition rank {A} (t : tensor A) : Z := zlen (shape t).

Fixpoint map2 {A B C} (f : A -> B -> C) (a : list A) (b : list B) : list C :=
  match a, b with
  | x :: a', y :: b' => f x y :: map2 f a' b'
  | _, _ => []
  end.

Fixpoint mapi_from {A B} (f : Z -> A -> B) (k : Z) (l : list A) : list B :=
  match l with [] => [] | x :: l' => f k x :: mapi_from f (k + 1) l' end.
Definition mapi {A B} (f : Z -> A -> B) (l : list A) : list B := mapi_from f 0 l.

Definition zmem (k : Z) (l : list Z) : bool := existsb (Z.eqb k) l.

(* ---- broadcasting (torch semantics restricted to: equal ranks, or one 0-dim operand) -------- *)
Definition bcompat (a b : list Z) : bool :=
  (length a =? length b)%nat && forallb (fun p => (fst p =? snd p) || (fst p =? 1) || (snd p =? 1)) (combine a b).
Definition bshape (a b : list Z) : list Z := map2 (fun x y => if x =? 1 then y else x) a b.
Definition bidx (dims idx : list Z) : list Z := map2 (fun d i => if d =? 1 then 0 else i) dims idx.

Definition t_bcast2 {A B C} (f : A -> B -> C) (da : A) (db : B) (a : tensor A) (b : tensor B)
  : res (tensor C) :=
  match shape a, shape b with
  | _, [] => Ok (T (shape a) (map (fun x => f x (hd db (data b))) (data a)))
  | [], _ => Ok (T (shape b) (map (fun y => f (hd da (data a)) y) (data b)))
  | sa, sb =>
    if bcompat sa sb then
      let rs := bshape sa sb in
      Ok (T rs (map (fun j => let idx := unravel rs j in
                              f (zget (data a) (ravel sa (bidx sa idx)) da)
                                (zget (data b) (ravel sb (bidx sb idx)) db))
                    (zrange (prodZ rs))))
    else Err "RuntimeError"%string
  end.

(* ---- reductions with keepdim=True over a list of (non-negative) dims --------------------------- *)
Definition red_shape (sh rd : list Z) : list Z := mapi (fun k d => if zmem k rd then 1 else d) sh.
Definition proj (sh rd : list Z) (j : Z) : Z :=
  ravel (red_shape sh rd) (mapi (fun k i => if zmem k rd then 0 else i) (unravel sh j)).

(* members of output cell o: the input positions that project onto it *)
Definition members (sh rd : list Z) (o : Z) : list Z :=
  filter (fun j => proj sh rd j =? o) (zrange (prodZ sh)).

Definition fold1 {A} (f : A -> A -> A) (l : list A) : res A :=
  match l with [] => Err "RuntimeError"%string | x :: l' => Ok (fold_left f l' x) end.

Fixpoint mmap {A B} (f : A -> res B) (l : list A) : res (list B) :=
  match l with
  | [] => Ok []
  | a :: l' => b <- f a ;; bs <- mmap f l' ;; Ok (b :: bs)
  end.

(* torch: an empty dim list means "reduce over every dimension" *)
Definition t_reduce {A} (f : A -> A -> A) (d : A) (rd0 : list Z) (t : tensor A) : res (tensor A) :=
  let sh := shape t in
  let rd := match rd0 with [] => zrange (zlen sh) | _ => rd0 end in
  let rs := red_shape sh rd in
  cells <- mmap (fun o => fold1 f (map (fun j => zget (data t) j d) (members sh rd o))) (zrange (prodZ rs)) ;;
  Ok (T rs cells).

Definition t_reduce_all {A} (f : A -> A -> A) (t : tensor A) : res (tensor A) :=
  x <- fold1 f (data t) ;; Ok (T [] [x]).

(* ---- reshape / permute ---------------------------------------------------------------------- *)
Definition t_reshape {A} (sh : list Z) (t : tensor A) : res (tensor A) :=
  if (prodZ sh =? numel t) && forallb (fun d => 0 <=? d) sh then Ok (T sh (data t))
  else Err "RuntimeError"%string.

Definition pidx {A} (p : list Z) (l : list A) (d : A) : list A := map (fun k => zget l k d) p.

Definition is_perm (p : list Z) : bool :=
  forallb (fun k => zmem k p) (zrange (zlen p)) && forallb (fun k => (0 <=? k) && (k <? zlen p)) p.

(* out[idx] = in[src] where src[p[q]] = idx[q] : output dim q is input dim p[q] *)
Definition inv_at (p : list Z) (k : Z) : Z :=
  fold_right (fun q acc => if zget p q 0 =? k then q else acc) 0 (zrange (zlen p)).

Definition t_permute {A} (d : A) (p : list Z) (t : tensor A) : res (tensor A) :=
  let sh := shape t in
  if is_perm p && (zlen p =? zlen sh) then
    let rs := pidx p sh 0 in
    Ok (T rs (map (fun j => let idx := unravel rs j in
                            let src := map (fun k => zget idx (inv_at p k) 0) (zrange (zlen p)) in
                            zget (data t) (ravel sh src) d)
                  (zrange (prodZ rs))))
  else Err "RuntimeError"%string.
