(* Mixed-radix facts for Lib/ND.v: ravel / unravel are inverse on in-bounds indices; element
   access of a broadcast result. No bound on rank or sizes. *)
From Coq Require Import String List ZArith Bool Lia Arith.
From QV Require Import Lib.Res Lib.Tensor Lib.ListFacts Lib.ND.
Import ListNotations.
Open Scope Z_scope.

Definition pos_dims (dims : list Z) : Prop := Forall (fun d => 0 < d) dims.

Inductive in_bounds : list Z -> list Z -> Prop :=
| ib_nil : in_bounds [] []
| ib_cons d ds i is_ : 0 <= i < d -> in_bounds ds is_ -> in_bounds (d :: ds) (i :: is_).

Lemma prodZ_pos dims : pos_dims dims -> 0 < prodZ dims.
Proof. induction 1; simpl; lia. Qed.

Lemma unravel_in_bounds dims j : pos_dims dims -> 0 <= j < prodZ dims -> in_bounds dims (unravel dims j).
Proof.
  intros Hp. revert j. induction Hp as [|d ds Hd Hds IH]; intros j Hj; simpl.
  - constructor.
  - pose proof (prodZ_pos ds Hds) as Hpp. simpl in Hj. constructor.
    + split; [apply Z.div_pos; lia|]. apply Z.div_lt_upper_bound; lia.
    + apply IH. apply Z.mod_pos_bound. lia.
Qed.

Lemma ravel_unravel dims j : pos_dims dims -> 0 <= j < prodZ dims -> ravel dims (unravel dims j) = j.
Proof.
  intros Hp. revert j. induction Hp as [|d ds Hd Hds IH]; intros j Hj; simpl in *.
  - lia.
  - pose proof (prodZ_pos ds Hds) as Hpp. rewrite IH by (apply Z.mod_pos_bound; lia).
    rewrite (Z.div_mod j (prodZ ds)) at 3 by lia. lia.
Qed.

Lemma ravel_bounds dims idx : in_bounds dims idx -> 0 <= ravel dims idx < prodZ dims.
Proof.
  induction 1 as [|d ds i is_ Hi Hib IH]; simpl; [lia|]. nia.
Qed.

Lemma unravel_ravel dims idx : in_bounds dims idx -> unravel dims (ravel dims idx) = idx.
Proof.
  induction 1 as [|d ds i is_ Hi Hib IH]; simpl; [reflexivity|].
  pose proof (ravel_bounds ds is_ Hib) as Hb.
  assert (Hp : 0 < prodZ ds) by lia.
  f_equal.
  - rewrite Z.add_comm, Z.div_add by lia. rewrite Z.div_small by lia. lia.
  - rewrite Z.add_comm, Z.mod_add by lia. rewrite Z.mod_small by lia. exact IH.
Qed.

(* a size-1 dimension can only be indexed by 0, so the broadcast index map is the identity on the
   larger operand *)
Lemma bidx_id dims idx : in_bounds dims idx -> bidx dims idx = idx.
Proof.
  induction 1 as [|d ds i is_ Hi Hib IH]; simpl; [reflexivity|]. unfold bidx in *. simpl.
  rewrite IH. destruct (d =? 1) eqn:E; [|reflexivity]. apply Z.eqb_eq in E. f_equal. lia.
Qed.

Lemma zget_map_zrange {A} (f : Z -> A) n j d : 0 <= j < n -> zget (map f (zrange n)) j d = f j.
Proof.
  intros Hj. unfold zget, zrange. rewrite map_map.
  rewrite nth_map_seq by lia. f_equal. lia.
Qed.

Lemma zrange_len n : zlen (zrange n) = Z.max 0 n.
Proof. unfold zlen. rewrite zrange_length. lia. Qed.
