(* Mixed-radix facts for Lib/ND.v: ravel / unravel are inverse on in-bounds indices; element
   access of a broadcast result. No bound on rank or sizes. *)
From Coq Require Import String List ZArith Bool Lia Arith.
From QV Require Import Lib.Res Lib.Tensor Lib.ListFacts Lib.ND.
Import ListNotations.
Open Scope Z_scope.

Definition pos_dims (dims : list Z) : Prop := Forall (fun d => 0 < d) dims.

Inductive in_bounds : list Z -> list Z -> Prop :=
| ib_nil : in_bounds [] []
| ib_cons d ds i is_ : 0 <= i < d -> in_bounds ds is_ -> in_bounds (d :: ds) (i :: is_).

Lemma prodZ_pos dims : pos_dims dims -> 0 < prodZ dims.
Proof. induction 1; simpl; lia. Qed.

Lemma unravel_in_bounds dims j : pos_dims dims -> 0 <= j < prodZ dims -> in_bounds dims (unravel dims j).
Proof.
  intros Hp. revert j. induction Hp as [|d ds Hd Hds IH]; intros j Hj; simpl.
  - constructor.
  - pose proof (prodZ_pos ds Hds) as Hpp. simpl in Hj. constructor.
    + split; [apply Z.div_pos; lia|]. apply Z.div_lt_upper_bound; lia.
    + apply IH. apply Z.mod_pos_bound. lia.
Qed.

Lemma ravel_unravel dims j : pos_dims dims -> 0 <= j < prodZ dims -> ravel dims (unravel dims j) = j.
Proof.
  intros Hp. revert j. induction Hp as [|d ds Hd Hds IH]; intros j Hj; simpl in *.
  - lia.
  - pose proof (prodZ_pos ds Hds) as Hpp. rewrite IH by (apply Z.mod_pos_bound; lia).
    rewrite (Z.div_mod j (prodZ ds)) at 3 by lia. lia.
Qed.

Lemma ravel_bounds dims idx : in_bounds dims idx -> 0 <= ravel dims idx < prodZ dims.
Proof.
  induction 1 as [|d ds i is_ Hi Hib IH]; simpl; [lia|]. nia.
Qed.

Lemma unravel_ravel dims idx : in_bounds dims idx -> unravel dims (ravel dims idx) = idx.
Proof.
  induction 1 as [|d ds i is_ Hi Hib IH]; simpl; [reflexivity|].
  pose proof (ravel_bounds ds is_ Hib) as Hb.
  assert (Hp : 0 < prodZ ds) by lia.
  f_equal.
  - rewrite Z.add_comm, Z.div_add by lia. rewrite Z.div_small by lia. lia.
  - rewrite Z.add_comm, Z.mod_add by lia. rewrite Z.mod_small by lia. exact IH.
Qed.

(* a size-1 dimension can only be indexed by 0, so the broadcast index map is the identity on the
   larger operand *)
Lemma bidx_id dims idx : in_bounds dims idx -> bidx dims idx = idx.
Proof.
  induction 1 as [|d ds i is_ Hi Hib IH]; simpl; [reflexivity|]. unfold bidx in *. simpl.
  rewrite IH. destruct (d =? 1) eqn:E; [|reflexivity]. apply Z.eqb_eq in E. f_equal. lia.
Qed.

Lemma zget_map_zrange {A} (f : Z -> A) n j d : 0 <= j < n -> zget (map f (zrange n)) j d = f j.
Proof.
  intros Hj. unfold zget, zrange. rewrite map_map.
  rewrite nth_map_seq by lia. f_equal. lia.
Qed.

Lemma zrange_len n : zlen (zrange n) = Z.max 0 n.
Proof. unfold zlen. rewrite zrange_length. lia. Qed.

(* ---- permutations of a 3-d tensor: (1,2,0) followed by (2,0,1) is the identity ------------------- *)
Lemma map_zget_id {A} (l : list A) d : map (fun j => zget l j d) (zrange (zlen l)) = l.
Proof.
  unfold zrange, zlen. rewrite Nat2Z.id, map_map.
  apply nth_ext with (d := d) (d' := d); [rewrite map_length, seq_length; reflexivity|].
  intros i Hi. rewrite map_length, seq_length in Hi. rewrite nth_map_seq by exact Hi.
  unfold zget. rewrite Nat2Z.id. reflexivity.
Qed.

Lemma in_bounds3 a b c idx : in_bounds [a; b; c] idx ->
  exists x y z, idx = [x; y; z] /\ 0 <= x < a /\ 0 <= y < b /\ 0 <= z < c.
Proof.
  intros H. inversion H as [|? ? x ? Hx H1]; subst. inversion H1 as [|? ? y ? Hy H2]; subst.
  inversion H2 as [|? ? z ? Hz H3]; subst. inversion H3; subst. exists x, y, z. auto.
Qed.

Lemma permute_120_data {A} (d : A) a b c (dt : list A) :
  t_permute d [1; 2; 0] (T [a; b; c] dt) =
  Ok (T [b; c; a]
        (map (fun j => let idx := unravel [b; c; a] j in
                       zget dt (ravel [a; b; c] [zget idx 2 0; zget idx 0 0; zget idx 1 0]) d)
             (zrange (prodZ [b; c; a])))).
Proof. reflexivity. Qed.

Lemma permute_201_data {A} (d : A) a b c (dt : list A) :
  t_permute d [2; 0; 1] (T [b; c; a] dt) =
  Ok (T [a; b; c]
        (map (fun j => let idx := unravel [a; b; c] j in
                       zget dt (ravel [b; c; a] [zget idx 1 0; zget idx 2 0; zget idx 0 0]) d)
             (zrange (prodZ [a; b; c])))).
Proof. reflexivity. Qed.

Theorem permute_roundtrip3 {A} (d : A) a b c (dt : list A) :
  0 < a -> 0 < b -> 0 < c -> zlen dt = a * b * c ->
  (t1 <- t_permute d [1; 2; 0] (T [a; b; c] dt) ;; t_permute d [2; 0; 1] t1) = Ok (T [a; b; c] dt).
Proof.
  intros Ha Hb Hc Hl. rewrite permute_120_data. cbn [bind]. rewrite permute_201_data.
  f_equal. f_equal.
  assert (Hp1 : pos_dims [a; b; c]) by (repeat constructor; assumption).
  assert (Hp2 : pos_dims [b; c; a]) by (repeat constructor; assumption).
  assert (EN : prodZ [a; b; c] = zlen dt) by (cbn [prodZ fold_right]; lia).
  assert (EN2 : prodZ [b; c; a] = prodZ [a; b; c]) by (cbn [prodZ fold_right]; lia).
  transitivity (map (fun j => zget dt j d) (zrange (zlen dt))); [|apply map_zget_id]. rewrite <- EN.
  apply map_ext_in. intros j Hj. apply in_map_iff in Hj. destruct Hj as (k & <- & Hk). apply in_seq in Hk.
  assert (Hr : 0 <= Z.of_nat k < prodZ [a; b; c]) by lia.
  cbv zeta.
  pose proof (unravel_in_bounds _ _ Hp1 Hr) as Hib.
  destruct (in_bounds3 _ _ _ _ Hib) as (x & y & z & Eidx & Hx & Hy & Hz).
  rewrite Eidx.
  change (zget [x; y; z] 1 0) with y. change (zget [x; y; z] 2 0) with z. change (zget [x; y; z] 0 0) with x.
  assert (Hib2 : in_bounds [b; c; a] [y; z; x]) by (constructor; [assumption|constructor; [assumption|constructor; [assumption|constructor]]]).
  pose proof (ravel_bounds _ _ Hib2) as Hrb.
  rewrite zget_map_zrange by exact Hrb. cbv zeta.
  rewrite (unravel_ravel _ _ Hib2).
  change (zget [y; z; x] 2 0) with x. change (zget [y; z; x] 0 0) with y. change (zget [y; z; x] 1 0) with z.
  rewrite <- Eidx. rewrite (ravel_unravel _ _ Hp1 Hr). reflexivity.
Qed.

(* moving a leading dimension of size 1 to the end does not move data *)
Theorem permute_120_unit {A} (d : A) b c (dt : list A) :
  0 < b -> 0 < c -> zlen dt = b * c ->
  t_permute d [1; 2; 0] (T [1; b; c] dt) = Ok (T [b; c; 1] dt).
Proof.
  intros Hb Hc Hl. rewrite permute_120_data. f_equal. f_equal.
  assert (Hp : pos_dims [b; c; 1]) by (repeat constructor; lia).
  assert (EN : prodZ [b; c; 1] = zlen dt) by (cbn [prodZ fold_right]; lia).
  transitivity (map (fun j => zget dt j d) (zrange (zlen dt))); [|apply map_zget_id]. rewrite <- EN.
  apply map_ext_in. intros j Hj. apply in_map_iff in Hj. destruct Hj as (k & <- & Hk). apply in_seq in Hk.
  assert (Hr : 0 <= Z.of_nat k < prodZ [b; c; 1]) by lia.
  cbv zeta. pose proof (unravel_in_bounds _ _ Hp Hr) as Hib.
  destruct (in_bounds3 _ _ _ _ Hib) as (y & z & x & Eidx & Hy & Hz & Hx).
  rewrite Eidx.
  change (zget [y; z; x] 2 0) with x. change (zget [y; z; x] 0 0) with y. change (zget [y; z; x] 1 0) with z.
  f_equal. rewrite <- (ravel_unravel _ _ Hp Hr), Eidx. cbn [ravel prodZ fold_right]. lia.
Qed.

(* ---- reductions ----------------------------------------------------------------------------- *)
Lemma mmap_ok {A B} (f : A -> res B) l ys : mmap f l = Ok ys -> Forall2 (fun x y => f x = Ok y) l ys.
Proof.
  revert ys. induction l as [|a l IH]; intros ys H; simpl in H.
  - injection H as <-. constructor.
  - destruct (f a) eqn:Ea; simpl in H; [|discriminate]. destruct (mmap f l) eqn:El; simpl in H; [|discriminate].
    injection H as <-. constructor; [exact Ea | apply IH; reflexivity].
Qed.

Lemma Forall2_zget {B} (P : Z -> B -> Prop) n (ys : list B) d :
  Forall2 P (zrange n) ys -> forall o, 0 <= o < n -> P o (zget ys o d).
Proof.
  unfold zrange. intros H o Ho.
  assert (G : forall (l : list nat) ys, Forall2 P (map Z.of_nat l) ys ->
              forall i, (i < length l)%nat -> P (Z.of_nat (nth i l 0%nat)) (nth i ys d)).
  { clear. intros l. induction l as [|a l IH]; intros ys H i Hi; simpl in *; [lia|].
    inversion H as [|? y ? ys' Hy Hr]; subst. destruct i as [|i']; [exact Hy|]. apply (IH ys' Hr i'). lia. }
  specialize (G _ _ H (Z.to_nat o)). rewrite seq_length in G.
  specialize (G ltac:(lia)). rewrite seq_nth in G by lia. simpl in G. rewrite Z2Nat.id in G by lia. exact G.
Qed.

Definition eff_dims (sh rd0 : list Z) : list Z := match rd0 with [] => zrange (zlen sh) | _ => rd0 end.

Theorem t_reduce_spec {A} (f : A -> A -> A) (d : A) rd0 (t r : tensor A) :
  t_reduce f d rd0 t = Ok r ->
  let rd := eff_dims (shape t) rd0 in
  shape r = red_shape (shape t) rd /\
  forall o, 0 <= o < prodZ (red_shape (shape t) rd) ->
    exists j0 js, members (shape t) rd o = j0 :: js /\
      zget (data r) o d = fold_left f (map (fun j => zget (data t) j d) js) (zget (data t) j0 d).
Proof.
  unfold t_reduce, eff_dims.
  set (rd := match rd0 with [] => zrange (zlen (shape t)) | _ :: _ => rd0 end). intros H.
  destruct (mmap _ (zrange (prodZ (red_shape (shape t) rd)))) as [cells|] eqn:E; simpl in H; [|discriminate].
  injection H as <-. split; [reflexivity|]. intros o Ho. cbn [data].
  pose proof (Forall2_zget _ _ _ d (mmap_ok _ _ _ E) o Ho) as Hc. cbv beta in Hc.
  unfold fold1 in Hc. destruct (members (shape t) rd o) as [|j0 js] eqn:Em; simpl in Hc; [discriminate|].
  injection Hc as Hc. exists j0, js. split; [reflexivity|]. symmetry. exact Hc.
Qed.

(* the broadcast partner of element j is the reduction cell j projects onto *)
Lemma mapi_from_length {A B} (f : Z -> A -> B) k l : length (mapi_from f k l) = length l.
Proof. revert k. induction l; intros; simpl; auto. Qed.

Lemma bidx_red_shape_from (sh idx rd : list Z) k :
  in_bounds sh idx ->
  bidx (mapi_from (fun k d => if zmem k rd then 1 else d) k sh) idx
  = mapi_from (fun k i => if zmem k rd then 0 else i) k idx.
Proof.
  intros H. revert k. induction H as [|d ds i is_ Hi Hib IH]; intros k; [reflexivity|].
  cbn [mapi_from]. unfold bidx in *. cbn [map2]. rewrite IH. f_equal.
  destruct (zmem k rd); [reflexivity|]. destruct (d =? 1) eqn:E; [|reflexivity].
  apply Z.eqb_eq in E. lia.
Qed.

Theorem sidx_eq_proj (sh rd : list Z) j :
  pos_dims sh -> 0 <= j < prodZ sh -> ravel (red_shape sh rd) (bidx (red_shape sh rd) (unravel sh j)) = proj sh rd j.
Proof.
  intros Hp Hj. unfold proj, red_shape, mapi.
  rewrite (bidx_red_shape_from sh (unravel sh j) rd 0 (unravel_in_bounds _ _ Hp Hj)). reflexivity.
Qed.

Lemma In_members sh rd j : 0 <= j < prodZ sh -> In j (members sh rd (proj sh rd j)).
Proof.
  intros Hj. unfold members. apply filter_In. split; [apply In_zrange; exact Hj | apply Z.eqb_refl].
Qed.

Lemma Forall2_len {A B} (P : A -> B -> Prop) l1 l2 : Forall2 P l1 l2 -> length l1 = length l2.
Proof. induction 1; simpl; auto. Qed.

Lemma t_reduce_length {A} (f : A -> A -> A) d rd0 (t r : tensor A) :
  t_reduce f d rd0 t = Ok r -> zlen (data r) = Z.max 0 (prodZ (shape r)).
Proof.
  unfold t_reduce. intros H.
  destruct (mmap _ _) as [cells|] eqn:Em in H; cbn [bind] in H; [|discriminate H].
  injection H as <-. cbn [data shape].
  pose proof (Forall2_len _ _ _ (mmap_ok _ _ _ Em)) as HF. rewrite zrange_length in HF.
  change (zlen cells) with (Z.of_nat (length cells)). revert HF.
  generalize (prodZ (red_shape (shape t) match rd0 with [] => zrange (zlen (shape t)) | _ :: _ => rd0 end)).
  intros n HF. rewrite <- HF.
  destruct (Z.le_gt_cases 0 n) as [Hn|Hn].
  - rewrite Z.max_r by exact Hn. apply Z2Nat.id. exact Hn.
  - rewrite Z.max_l by lia. destruct n; simpl; lia.
Qed.

Lemma proj_in_bounds_from (sh idx rd : list Z) k :
  in_bounds sh idx ->
  in_bounds (mapi_from (fun k d => if zmem k rd then 1 else d) k sh)
            (mapi_from (fun k i => if zmem k rd then 0 else i) k idx).
Proof.
  intros H. revert k. induction H as [|d ds i is_ Hi Hib IH]; intros k; cbn [mapi_from]; constructor.
  - destruct (zmem k rd); lia.
  - apply IH.
Qed.

Lemma proj_range sh rd j : pos_dims sh -> 0 <= j < prodZ sh -> 0 <= proj sh rd j < prodZ (red_shape sh rd).
Proof.
  intros Hp Hj. unfold proj, red_shape, mapi. apply ravel_bounds.
  apply proj_in_bounds_from. apply unravel_in_bounds; assumption.
Qed.
