(* Glue for the correspondence runs of the numeric core: evaluate the generated functions in a
   concrete float format from bit patterns, and observe results as bit patterns / code bytes. *)
From Coq Require Import String List ZArith Bool.
From QV Require Import Lib.Res Lib.Tensor Lib.ND Lib.Num Lib.QTensor Float.F.
Import ListNotations.
Open Scope Z_scope.

Record fmt := Fmt { fl : Type; fnum : Num fl; fof : Z -> fl; fto : fl -> Z; fcode : storage -> fl -> Z }.
Definition F32 := Fmt f32 Num32 f32_of_bits f32_to_bits f32_code.
Definition F16 := Fmt f16 Num16 f16_of_bits f16_to_bits f16_code.
Definition BF16 := Fmt bf16 NumB16 bf16_of_bits bf16_to_bits bf16_code.

Definition dec (f : fmt) (t : tensor Z) : tensor (fl f) := t_map (fof f) t.
Definition enc (f : fmt) (t : tensor (fl f)) : tensor Z := t_map (fto f) t.
Definition codes (f : fmt) (s : storage) (t : tensor (fl f)) : tensor Z := t_map (fcode f s) t.

(* what the harness observes of a quantized tensor: kind (0 = QBytes, 1 = QBits), size, code bytes,
   scale bits, zero-point bytes (empty for QBytes), axis (-9 for None), group size (-9 for None) *)
Record obs := Obs { o_kind : Z; o_size : list Z; o_codes : tensor Z; o_scale : tensor Z;
                    o_zp : tensor Z; o_axis : Z; o_group : Z }.
Definition oz (a : option Z) : Z := match a with Some x => x | None => -9 end.

Definition observe (f : fmt) (q : qany (fl f)) : obs :=
  match q with
  | QB b => Obs 0 (qb_size b) (codes f (q_storage (qb_qtype b)) (qb_data b)) (enc f (qb_scale b))
                (T [0] []) (oz (qb_axis b)) (-9)
  | QZ z => Obs 1 (qz_size z) (codes f SUInt8 (qz_data z)) (enc f (qz_scale z))
                (codes f SInt8 (qz_zp z)) (oz (qz_axis z)) (oz (qz_group z))
  end.

Definition obs_eqb (a b : obs) : bool :=
  (o_kind a =? o_kind b) && zlist_eqb (o_size a) (o_size b) && t_eqb (o_codes a) (o_codes b)
  && t_eqb (o_scale a) (o_scale b) && t_eqb (o_zp a) (o_zp b) && (o_axis a =? o_axis b)
  && (o_group a =? o_group b).

Definition res_obs_eqb (a b : res obs) : bool :=
  match a, b with
  | Ok x, Ok y => obs_eqb x y
  | Err e1, Err e2 => String.eqb e1 e2
  | _, _ => false
  end.

(* ---- check functions used by the generated cases files (the generated module is a parameter so
        that this file stays static) ---------------------------------------------------------- *)
Section Checks.
Variable f : fmt.
Existing Instance fnum.
Variable quantize_weight : tensor (fl f) -> qtype -> option Z -> option Z -> option optkind -> res (qany (fl f)).
Variable sym_forward : tensor (fl f) -> qtype -> option Z -> tensor (fl f) -> res (qbytes (fl f)).
Variable quantize_activation : tensor (fl f) -> qtype -> tensor (fl f) -> res (qbytes (fl f)).
Variable qbytes_dequantize : qbytes (fl f) -> res (tensor (fl f)).
Variable qbits_dequantize : qbits (fl f) -> res (tensor (fl f)).
Variable absmax_scale : tensor (fl f) -> qtype -> option Z -> res (tensor (fl f)).

Definition deq_any (q : qany (fl f)) : res (tensor (fl f)) :=
  match q with QB b => qbytes_dequantize b | QZ z => qbits_dequantize z end.

Definition with_deq (r : res (qany (fl f))) : res (obs * tensor Z) :=
  q <- r ;; d <- deq_any q ;; Ok (observe f q, enc f d).

Definition obsd_eqb (a b : res (obs * tensor Z)) : bool :=
  match a, b with
  | Ok (x, dx), Ok (y, dy) => obs_eqb x y && t_eqb dx dy
  | Err e1, Err e2 => String.eqb e1 e2
  | _, _ => false
  end.

Definition chk_qw (c : tensor Z * qtype * option Z * option Z * option optkind * res (obs * tensor Z)) : bool :=
  let '(t, q, axis, gs, o, expected) := c in
  obsd_eqb (with_deq (quantize_weight (dec f t) q axis gs o)) expected.

Definition chk_sym (c : tensor Z * qtype * option Z * tensor Z * res (obs * tensor Z)) : bool :=
  let '(t, q, axis, s, expected) := c in
  obsd_eqb (with_deq (b <- sym_forward (dec f t) q axis (dec f s) ;; Ok (QB b))) expected.

Definition chk_act (c : tensor Z * qtype * tensor Z * res (obs * tensor Z)) : bool :=
  let '(t, q, s, expected) := c in
  obsd_eqb (with_deq (b <- quantize_activation (dec f t) q (dec f s) ;; Ok (QB b))) expected.

Definition chk_absmax (c : tensor Z * qtype * option Z * res (tensor Z)) : bool :=
  let '(t, q, axis, expected) := c in
  res_t_eqb (s <- absmax_scale (dec f t) q axis ;; Ok (enc f s)) expected.
End Checks.

(* ---- exhaustive 16-bit sweeps, compared by per-block checksums --------------------------------- *)
Definition cksum (l : list Z) : Z := fold_left (fun acc v => (acc * 31 + v + 7) mod 1000000007) l 0.

Section Sweep.
Variable f : fmt.
Variable sym_forward : tensor (fl f) -> qtype -> option Z -> tensor (fl f) -> res (qbytes (fl f)).
Variable qbytes_dequantize : qbytes (fl f) -> res (tensor (fl f)).
(* all 65536 bit patterns of a 16-bit format, 256 blocks of 256, one scalar scale *)
Definition sweep16 (q : qtype) (sbits : Z) : list Z :=
  let s := dec f (T [] [sbits]) in
  map (fun blk =>
         let t := T [256] (map (fun i => blk * 256 + i) (zupto 256)) in
         match (b <- sym_forward (dec f t) q None s ;; d <- qbytes_dequantize b ;;
                Ok (data (codes f (q_storage q) (qb_data b)) ++ data (enc f d))) with
         | Ok l => cksum l
         | Err _ => -1
         end) (zupto 256).
End Sweep.

(* ---- calibration scale histories ------------------------------------------------------------------ *)
Section Ema.
Variable f : fmt.
Variable updated_scale : tensor (fl f) -> tensor (fl f) -> b64 -> res (tensor (fl f)).
(* fold the generated _updated_scale over the per-batch range scales, from the initial buffer 1.0 *)
Definition ema_fold (news : list Z) (mm me : Z) : res Z :=
  r <- mfold (fun s n => updated_scale s (dec f (T [] [n])) (b64_lit mm me)) news
             (T [] [@n_of_Z _ (fnum f) 1]) ;;
  Ok (hd 0 (data (enc f r))).
Definition chk_ema (c : list Z * Z * Z * Z) : bool :=
  let '(news, mm, me, expected) := c in
  match ema_fold news mm me with Ok b => b =? expected | Err _ => false end.
End Ema.
