(* Bit-exact IEEE arithmetic for the working dtypes (float32 / float16 / bfloat16) and the float8
   storage formats, on top of Flocq's BinarySingleNaN.  Executable under vm_compute.
   What is MODELLED here (trusted, checked by the exhaustive correspondence sweeps):
   - torch computes float16/bfloat16 element-wise ops in float32 and rounds once more; for + - * /
     this equals one correctly rounded operation (innocuous double rounding), which is what we use;
   - float -> int8 conversion of an out-of-range or NaN value ([cast_wrap], this build: wrap mod 256, NaN -> 0);
   - e4m3fn (no infinities, max 448) is Flocq's (prec 4, emax 9) format at half scale. *)
From Coq Require Import ZArith Bool List.
From Flocq Require Import Core IEEE754.BinarySingleNaN.
From QV Require Import Lib.Num.
Open Scope Z_scope.

(* the concrete formats *)
Definition Hp24 : Prec_gt_0 24 := eq_refl. Definition Hpe24 : Prec_lt_emax 24 128 := eq_refl.
Definition Hp11 : Prec_gt_0 11 := eq_refl. Definition Hpe11 : Prec_lt_emax 11 16 := eq_refl.
Definition Hp8 : Prec_gt_0 8 := eq_refl.   Definition Hpe8 : Prec_lt_emax 8 128 := eq_refl.
Definition Hp3 : Prec_gt_0 3 := eq_refl.   Definition Hpe3 : Prec_lt_emax 3 16 := eq_refl.
Definition Hp4 : Prec_gt_0 4 := eq_refl.   Definition Hpe4 : Prec_lt_emax 4 9 := eq_refl.


Section Fmt.
Variables prec emax : Z.
Context (Hp : Prec_gt_0 prec) (Hpe : Prec_lt_emax prec emax).
Variable ew : Z.  (* exponent field width: emax = 2^(ew-1) *)

Notation fl := (binary_float prec emax).
Definition mw := prec - 1.
Definition femin := 3 - emax - prec.

Definition of_bits (b : Z) : fl :=
  let s := Z.testbit b (mw + ew) in
  let e := (b / 2 ^ mw) mod 2 ^ ew in
  let m := b mod 2 ^ mw in
  if e =? 2 ^ ew - 1 then (if m =? 0 then B754_infinity s else B754_nan)
  else if e =? 0 then
    (if m =? 0 then B754_zero s
     else binary_normalize prec emax Hp Hpe mode_NE (if s then - m else m) femin s)
  else binary_normalize prec emax Hp Hpe mode_NE
         (if s then - (m + 2 ^ mw) else m + 2 ^ mw) (e - (emax - 1) - mw) s.

Definition to_bits (x : fl) : Z :=
  let sb (s : bool) := if s then 2 ^ (mw + ew) else 0 in
  match x with
  | B754_zero s => sb s
  | B754_infinity s => sb s + (2 ^ ew - 1) * 2 ^ mw
  | B754_nan => (2 ^ ew - 1) * 2 ^ mw + 2 ^ (mw - 1)
  | B754_finite s m e _ =>
    if Zpos m <? 2 ^ mw then sb s + Zpos m
    else sb s + (e - femin + 1) * 2 ^ mw + (Zpos m - 2 ^ mw)
  end.

Definition fof_Z (z : Z) : fl := binary_normalize prec emax Hp Hpe mode_NE z 0 false.

(* exact integer value of a float that holds an integer; None for nan/inf *)
Definition to_Z (x : fl) : option Z :=
  match x with
  | B754_zero _ => Some 0
  | B754_finite s m e _ =>
    let v := if 0 <=? e then Zpos m * 2 ^ e else Zpos m / 2 ^ (- e) in
    Some (if s then - v else v)
  | _ => None
  end.

Definition fmax (x y : fl) : fl :=
  match x, y with
  | B754_nan, _ | _, B754_nan => B754_nan
  | _, _ => if Bltb x y then y else x
  end.
Definition fmin (x y : fl) : fl :=
  match x, y with
  | B754_nan, _ | _, B754_nan => B754_nan
  | _, _ => if Bltb y x then y else x
  end.

(* float -> int8 / uint8 as observed on this torch build: in-range integers exactly (every
   theorem only relies on that part); otherwise wrap modulo 256, NaN and infinities to 0 *)
Definition cast_wrap (signed : bool) (x : fl) : fl :=
  match to_Z x with
  | None => fof_Z 0
  | Some v => if 2147483648 <=? Z.abs v then fof_Z 0
              else fof_Z (if signed then (v + 128) mod 256 - 128 else v mod 256)
  end.

(* conversion to a narrower float format (p2, e2) and back, saturating nothing (IEEE overflow to inf) *)
Section Narrow.
Variables p2 e2 : Z.
Context (Hp2 : Prec_gt_0 p2) (Hpe2 : Prec_lt_emax p2 e2).
Definition narrow (shift : Z) (x : fl) : binary_float p2 e2 :=
  match x with
  | B754_zero s => B754_zero s
  | B754_infinity s => B754_infinity s
  | B754_nan => B754_nan
  | B754_finite s m e _ =>
    binary_normalize p2 e2 Hp2 Hpe2 mode_NE (if s then Zneg m else Zpos m) (e + shift) s
  end.
Definition widen (shift : Z) (y : binary_float p2 e2) : fl :=
  match y with
  | B754_zero s => B754_zero s
  | B754_infinity s => B754_infinity s
  | B754_nan => B754_nan
  | B754_finite s m e _ =>
    binary_normalize prec emax Hp Hpe mode_NE (if s then Zneg m else Zpos m) (e + shift) s
  end.
End Narrow.

End Fmt.

Definition e5m2 := binary_float 3 16.
Definition e4m3c := binary_float 4 9.   (* container of e4m3fn at half scale *)

(* e4m3fn byte of a container value (value_e4m3 = 2 * container value) *)
Definition e4m3_to_bits (x : e4m3c) : Z :=
  match x with
  | B754_zero s => if s then 128 else 0
  | B754_nan => 127
  | B754_infinity s => (if s then 128 else 0) + 127   (* no infinity in e4m3fn: NaN pattern *)
  | B754_finite s m e _ =>
    (if s then 128 else 0) + (if Zpos m <? 8 then Zpos m else (e + 1 + 10) * 8 + (Zpos m - 8))
  end.

Section Inst.
Variables prec emax : Z.
Context (Hp : Prec_gt_0 prec) (Hpe : Prec_lt_emax prec emax).
Notation fl := (binary_float prec emax).

Definition cast_storage (s : storage) (x : fl) : fl :=
  match s with
  | SInt8 => cast_wrap prec emax Hp Hpe true x
  | SUInt8 => cast_wrap prec emax Hp Hpe false x
  | SE5M2 => widen prec emax Hp Hpe 3 16 0 (narrow prec emax 3 16 Hp3 Hpe3 0 x)
  | SE4M3 => widen prec emax Hp Hpe 4 9 1 (narrow prec emax 4 9 Hp4 Hpe4 (-1) x)
  end.

(* the byte actually stored *)
Definition code_byte (s : storage) (x : fl) : Z :=
  match s with
  | SInt8 => match to_Z prec emax x with
             | Some v => if 2147483648 <=? Z.abs v then 0 else (v + 128) mod 256 - 128 | None => 0 end
  | SUInt8 => match to_Z prec emax x with
              | Some v => if 2147483648 <=? Z.abs v then 0 else v mod 256 | None => 0 end
  | SE5M2 => to_bits 3 16 5 (narrow prec emax 3 16 Hp3 Hpe3 0 x)
  | SE4M3 => e4m3_to_bits (narrow prec emax 4 9 Hp4 Hpe4 (-1) x)
  end.

Definition of_b64 (x : b64) : fl :=
  match x with
  | B754_zero s => B754_zero s
  | B754_infinity s => B754_infinity s
  | B754_nan => B754_nan
  | B754_finite s m e _ =>
    binary_normalize prec emax Hp Hpe mode_NE (if s then Zneg m else Zpos m) e s
  end.

Definition fmaxfloat : fl := @Bmax_float prec emax Hp Hpe.
Definition nan_to_num (x : fl) : fl :=
  match x with
  | B754_nan => B754_zero false
  | B754_infinity s => if s then Bopp fmaxfloat else fmaxfloat
  | _ => x
  end.

(* element * Python float, as torch computes it: in float32 with the scalar rounded to float32 *)
Definition b64_to_f32 (x : b64) : binary_float 24 128 :=
  match x with
  | B754_zero s => B754_zero s
  | B754_infinity s => B754_infinity s
  | B754_nan => B754_nan
  | B754_finite s m e _ =>
    binary_normalize 24 128 Hp24 Hpe24 mode_NE (if s then Zneg m else Zpos m) e s
  end.
Definition mul_py (x : fl) (k : b64) : fl :=
  narrow 24 128 prec emax Hp Hpe 0
    (@Bmult 24 128 Hp24 Hpe24 mode_NE (narrow prec emax 24 128 Hp24 Hpe24 0 x) (b64_to_f32 k)).

Global Instance NumFl : Num fl := {
  n_of_b64 := of_b64;
  n_mul_py := mul_py;
  n_nan_to_num := nan_to_num;
  n_of_Z := fof_Z prec emax Hp Hpe;
  n_add := Bplus mode_NE;
  n_sub := Bminus mode_NE;
  n_mul := Bmult mode_NE;
  n_div := Bdiv mode_NE;
  n_max := fmax prec emax;
  n_min := fmin prec emax;
  n_neg := Bopp;
  n_abs := Babs;
  n_rint := Bnearbyint mode_NE;
  n_cast := cast_storage;
  n_eqb := Beqb;
}.
End Inst.

Definition f32 := binary_float 24 128.
Definition f16 := binary_float 11 16.
Definition bf16 := binary_float 8 128.
Definition Num32 : Num f32 := NumFl 24 128 Hp24 Hpe24.
Definition Num16 : Num f16 := NumFl 11 16 Hp11 Hpe11.
Definition NumB16 : Num bf16 := NumFl 8 128 Hp8 Hpe8.
Definition f32_of_bits := of_bits 24 128 Hp24 Hpe24 8.
Definition f16_of_bits := of_bits 11 16 Hp11 Hpe11 5.
Definition bf16_of_bits := of_bits 8 128 Hp8 Hpe8 8.
Definition f32_to_bits := to_bits 24 128 8.
Definition f16_to_bits := to_bits 11 16 5.
Definition bf16_to_bits := to_bits 8 128 8.
Definition f32_code := code_byte 24 128.
Definition f16_code := code_byte 11 16.
Definition bf16_code := code_byte 8 128.
