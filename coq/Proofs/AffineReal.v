(* Exact-arithmetic content of C02: with a range [lo, hi] containing zero, scale (hi-lo)/L and
   zero-point round(-lo/scale), the affine code clamp(round(x/scale) + zp, 0, L) dequantizes to
   within half a step of x; the zero-point lies in [0, L] (it fits the storage type, no wrap) and the
   lower clamp never bites.  L = 2^bits - 1. *)
From Coq Require Import ZArith Reals Lra Lia.
From Flocq Require Import Core.
From QV Require Import Proofs.RealNum.
Open Scope R_scope.

Lemma Znearest_bounds (y : R) (lo hi : Z) : IZR lo <= y <= IZR hi -> (lo <= ZnearestE y <= hi)%Z.
Proof.
  intros [H1 H2]. split.
  - apply Z.le_trans with (Zfloor y); [apply Zfloor_lub; exact H1 | apply Znearest_ge_floor].
  - apply Z.le_trans with (Zceil y); [apply Znearest_le_ceil | apply Zceil_glb; exact H2].
Qed.

Lemma ZnearestE_opp (z : R) : ZnearestE (- z) = (- ZnearestE z)%Z.
Proof.
  apply eq_IZR. rewrite opp_IZR, <- !(round_FIX_IZR ZnearestE).
  apply (round_NE_opp radix2 (FIX_exp 0)).
Qed.

Theorem affine_half_step (L : Z) (a z : R) :
  (0 <= L)%Z -> 0 <= z <= IZR L -> - z <= a <= IZR L - z ->
  let zp := ZnearestE z in
  let c := clampZ 0 L (ZnearestE a + zp) in
  (0 <= zp <= L)%Z /\ (0 <= ZnearestE a + zp)%Z /\ Rabs (IZR (c - zp) - a) <= / 2.
Proof.
  intros HL Hz Ha zp c.
  assert (Hzp : (0 <= zp <= L)%Z) by (apply Znearest_bounds; simpl; lra).
  pose proof (Znearest_half (fun x => negb (Z.even x)) z) as Hhz. fold ZnearestE in Hhz. fold zp in Hhz.
  pose proof (Znearest_half (fun x => negb (Z.even x)) a) as Hha. fold ZnearestE in Hha.
  set (n := ZnearestE a) in *.
  apply Rabs_le_inv in Hhz. apply Rabs_le_inv in Hha.
  (* lower clamp never bites: n >= round(-z) = -zp *)
  assert (Hlow : (0 <= n + zp)%Z).
  { assert (Hm : (ZnearestE (- z) <= n)%Z) by (apply (@Zrnd_le ZnearestE _); lra).
    rewrite ZnearestE_opp in Hm. fold zp in Hm. lia. }
  split; [exact Hzp|]. split; [exact Hlow|].
  unfold c, clampZ. rewrite Z.max_l by lia.
  destruct (Z_le_gt_dec (n + zp) L) as [Hle|Hgt].
  - rewrite Z.min_l by lia. replace (n + zp - zp)%Z with n by lia. apply Rabs_le. lra.
  - rewrite Z.min_r by lia. rewrite minus_IZR.
    assert (IZR L + 1 <= IZR n + IZR zp).
    { rewrite <- plus_IZR. change 1 with (IZR 1). rewrite <- plus_IZR. apply IZR_le. lia. }
    apply Rabs_le. lra.
Qed.
