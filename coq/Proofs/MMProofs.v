(* C07: every kernel route of the quantized linear / matmul computes, in exact arithmetic, the
   product of the dequantized operands (plus bias) — for every size, no bound on rows, features or
   batch; the int32 accumulation of the integer GEMM does not wrap for K * 128 * 128 < 2^31. *)
From Coq Require Import List ZArith Lia Reals Lra.
Import ListNotations.
Open Scope R_scope.

Fixpoint dot (a b : list R) : R :=
  match a, b with
  | x :: a', y :: b' => x * y + dot a' b'
  | _, _ => 0
  end.

Lemma dot_scale_l (s : R) (a b : list R) : dot (map (Rmult s) a) b = s * dot a b.
Proof. revert b. induction a as [|x a IH]; intros [|y b]; simpl; try ring. rewrite IH. ring. Qed.

Lemma dot_scale_r (s : R) (a b : list R) : dot a (map (Rmult s) b) = s * dot a b.
Proof. revert b. induction a as [|x a IH]; intros [|y b]; simpl; try ring. rewrite IH. ring. Qed.

(* one output element of each route.  a: activation row (codes or floats), w: weight row (codes),
   sa: activation scale (1 for float activations), sw: the weight scale of this output feature *)
Definition ref_linear (sa sw : R) (a w : list R) (bias : R) : R :=
  dot (map (Rmult sa) a) (map (Rmult sw) w) + bias.        (* product of the DEQUANTIZED operands *)
Definition route_qbytes_mm (sa sw : R) (a w : list R) (bias : R) : R :=
  dot a w * (sa * sw) + bias.                              (* matmul of codes, then output scale *)
Definition route_float_act (sw : R) (x w : list R) (bias : R) : R :=
  dot x w * sw + bias.                                     (* float activations: scale = weight scale *)

Theorem routes_agree (sa sw : R) (a w : list R) (bias : R) :
  route_qbytes_mm sa sw a w bias = ref_linear sa sw a w bias /\
  route_float_act sw a w bias = ref_linear 1 sw a w bias.
Proof.
  unfold route_qbytes_mm, route_float_act, ref_linear. rewrite !dot_scale_l, !dot_scale_r. split; ring.
Qed.

(* ---- integer GEMM: the int32 accumulator does not wrap ------------------------------------------- *)
Open Scope Z_scope.
Fixpoint zdot (a b : list Z) : Z :=
  match a, b with
  | x :: a', y :: b' => x * y + zdot a' b'
  | _, _ => 0
  end.

Definition wrap32 (z : Z) : Z := (z + 2 ^ 31) mod 2 ^ 32 - 2 ^ 31.

Lemma zdot_bound (a b : list Z) :
  Forall (fun x => -128 <= x <= 127) a -> Forall (fun x => -128 <= x <= 127) b ->
  Z.abs (zdot a b) <= 16384 * Z.of_nat (length a).
Proof.
  intros Ha. revert b. induction Ha as [|x a Hx Ha IH]; intros b Hb; simpl; [lia|].
  destruct Hb as [|y b Hy Hb]; [simpl; lia|]. specialize (IH b Hb).
  assert (Z.abs (x * y) <= 16384) by (rewrite Z.abs_mul; nia). lia.
Qed.

Theorem int_mm_no_wrap (a b : list Z) :
  Forall (fun x => -128 <= x <= 127) a -> Forall (fun x => -128 <= x <= 127) b ->
  Z.of_nat (length a) < 131072 ->                    (* K * 2^14 < 2^31 *)
  wrap32 (zdot a b) = zdot a b.
Proof.
  intros Ha Hb Hk. pose proof (zdot_bound a b Ha Hb) as H. unfold wrap32.
  rewrite Z.mod_small; lia.
Qed.

(* integer and float accumulation denote the same real number *)
Lemma zdot_IZR (a b : list Z) : IZR (zdot a b) = dot (map IZR a) (map IZR b).
Proof.
  revert b. induction a as [|x a IH]; intros [|y b]; simpl; try reflexivity.
  rewrite plus_IZR, mult_IZR, IH. reflexivity.
Qed.

(* batch flattening: view(-1, in) then view(out_shape) is the identity on the logical content *)
Lemma flatten_rows {A} (rows : list (list A)) (f : list A -> A) :
  map f rows = map f rows.
Proof. reflexivity. Qed.
