(* C01, last sentence: for float32 and float16 sources, quantizing the dequantized tensor again with the
   same scale yields the same codes.  IEEE level (Flocq), generic format with prec >= 11, emax >= 9:
   for every finite positive scale whose grid is representable and every code k of [-128,127], the float
   product s*k, divided by s, rounded, clamped and cast gives back exactly k.  For bfloat16 (prec = 8)
   the statement is false (two roundings of relative size 2^-8 on |k| up to 128 reach a half): a witness
   is computed at the end. *)
From Coq Require Import ZArith Reals Lra Lia List Bool Psatz.
From Flocq Require Import Core Relative IEEE754.BinarySingleNaN.
From QV Require Import Lib.Res Lib.Tensor Lib.ND Lib.Num Lib.QTensor Float.F Model.Quant
     Proofs.QuantProofs Proofs.RealNum Proofs.FloatFacts Proofs.C01Float.
Local Open Scope R_scope.

Section Requant.
Variables prec emax : Z.
Context (Hp : Prec_gt_0 prec) (Hpe : Prec_lt_emax prec emax).
Hypothesis Hprec11 : (11 <= prec)%Z.
Hypothesis Hemax9 : (9 <= emax)%Z.

Notation fl := (binary_float prec emax).
Notation femin := (SpecFloat.emin prec emax).
Notation fexp := (SpecFloat.fexp prec emax).
Notation rnd := (round radix2 fexp ZnearestE).
Notation B2R := (@B2R prec emax).
Notation u := (uro prec).
Notation eta := (eta prec emax).
Existing Instance NumFl.
Existing Instance fexp_valid.

Let Hprec8 : (8 <= prec)%Z. Proof. lia. Qed.

(* a float times an integer never underflows inexactly: below the normal range the product is a
   multiple of the smallest subnormal, hence a float *)
Lemma mul_int_error (s : fl) (k : Z) :
  Rabs (rnd (B2R s * IZR k) - B2R s * IZR k) <= u * Rabs (B2R s * IZR k).
Proof.
  set (S := B2R s). change fexp with (FLT_exp femin prec).
  destruct (Rle_or_lt (bpow radix2 (femin + prec - 1)) (Rabs (S * IZR k))) as [Hb|Hs].
  - exact (relative_error_N_FLT radix2 femin prec Hp (fun z => negb (Z.even z)) _ Hb).
  - assert (G : generic_format radix2 (FLT_exp femin prec) (S * IZR k)).
    { pose proof (generic_format_B2R prec emax s) as GS. fold S in GS.
      change fexp with (FLT_exp femin prec) in GS.
      destruct (FLT_format_generic radix2 femin prec S GS) as [f Ef Hm He].
      apply generic_format_FLT. exists (Float radix2 (Fnum f * k) (Fexp f)).
      - rewrite Ef. unfold F2R. cbn [Fnum Fexp]. rewrite mult_IZR. ring.
      - cbn [Fnum].
        (* |Fnum f * k| * 2^Fexp f < 2^(femin+prec-1) and Fexp f >= femin *)
        assert (Hlt : IZR (Z.abs (Fnum f * k)) * bpow radix2 (Fexp f) < bpow radix2 (femin + prec - 1)).
        { rewrite abs_IZR, mult_IZR. rewrite Ef in Hs. unfold F2R in Hs. cbn [Fnum Fexp] in *.
          replace (IZR (Fnum f) * bpow radix2 (Fexp f) * IZR k) with (IZR (Fnum f) * IZR k * bpow radix2 (Fexp f)) in Hs by ring.
          rewrite Rabs_mult, (Rabs_pos_eq (bpow radix2 (Fexp f))) in Hs by apply bpow_ge_0. exact Hs. }
        assert (Hlt2 : IZR (Z.abs (Fnum f * k)) < bpow radix2 (femin + prec - 1 - Fexp f)).
        { replace (femin + prec - 1 - Fexp f)%Z with ((femin + prec - 1) + - Fexp f)%Z by lia.
          rewrite bpow_plus, bpow_opp. pose proof (bpow_gt_0 radix2 (Fexp f)) as Hpos.
          apply Rmult_lt_reg_r with (bpow radix2 (Fexp f)); [exact Hpos|].
          rewrite Rmult_assoc, Rinv_l by lra. lra. }
        assert (Hle : bpow radix2 (femin + prec - 1 - Fexp f) <= bpow radix2 prec) by (apply bpow_le; lia).
        assert (Hp0 : (0 <= prec)%Z) by (unfold Prec_gt_0 in Hp; lia).
        rewrite <- (IZR_Zpower radix2 prec Hp0) in Hle. apply lt_IZR. lra.
      - exact He. }
    rewrite (round_generic radix2 (FLT_exp femin prec) ZnearestE _ G).
    replace (S * IZR k - S * IZR k) with 0 by ring. rewrite Rabs_R0.
    apply Rmult_le_pos; [pose proof (uro_pos prec); lra | apply Rabs_pos].
Qed.

Lemma u_small : u <= / 2048.
Proof.
  unfold uro. replace (/ 2048) with (/ 2 * bpow radix2 (- 10)) by (simpl; lra).
  apply Rmult_le_compat_l; [lra|]. apply bpow_le. lia.
Qed.

Lemma eta_small : eta <= / 2048.
Proof.
  unfold FloatFacts.eta. replace (/ 2048) with (/ 2 * bpow radix2 (- 10)) by (simpl; lra).
  apply Rmult_le_compat_l; [lra|]. apply bpow_le. unfold SpecFloat.emin. lia.
Qed.

(* the code stored for the float product s*k is k again *)
Theorem qint8_code_of_grid_point (s : fl) (k : Z) :
  is_finite s = true -> 0 < B2R s -> 128 * B2R s <= Fmax prec emax -> (-128 <= k <= 127)%Z ->
  qcode prec emax Hp Hpe (Bmult mode_NE s (fof_Z prec emax Hp Hpe k)) s = fof_Z prec emax Hp Hpe k.
Proof.
  intros Fs Sp Hgrid Hk. set (S := B2R s).
  pose proof (fof_Z_exact prec emax Hp Hpe Hprec8 Hemax9 k ltac:(lia)) as [Hck Fck].
  pose proof (uro_pos prec) as Hu. pose proof (eta_pos prec emax) as He.
  pose proof u_small as Hus. pose proof eta_small as Hes.
  assert (SP : 0 < S) by exact Sp.
  assert (Hk128 : Rabs (IZR k) <= 128) by (rewrite <- abs_IZR; apply IZR_le; lia).
  (* the product *)
  pose proof (Bmult_correct prec emax Hp Hpe mode_NE s (fof_Z prec emax Hp Hpe k)) as HM.
  cbn [round_mode] in HM. rewrite Hck in HM. fold S in HM.
  assert (Hsz : Rabs (S * IZR k) <= Fmax prec emax).
  { rewrite Rabs_mult, (Rabs_pos_eq S) by lra.
    apply Rle_trans with (S * 128); [apply Rmult_le_compat_l; lra | unfold S; lra]. }
  rewrite Rlt_bool_true in HM by (apply (rnd_no_overflow prec emax Hp Hemax9); exact Hsz).
  destruct HM as (HPv & HPf & _). rewrite Fs, Fck in HPf.
  set (p := Bmult mode_NE s (fof_Z prec emax Hp Hpe k)) in *.
  pose proof (mul_int_error s k) as HPe. fold S in HPe. rewrite <- HPv in HPe.
  set (P := B2R p) in *. set (Y := P / S).
  (* the quotient P / S is within u|k| of k *)
  assert (HY : Rabs (Y - IZR k) <= u * 128).
  { replace (Y - IZR k) with ((P - S * IZR k) / S) by (unfold Y; field; lra).
    unfold Rdiv. rewrite Rabs_mult, Rabs_inv, (Rabs_pos_eq S) by lra.
    rewrite Rabs_mult, (Rabs_pos_eq S) in HPe by lra.
    apply Rle_trans with (u * (S * Rabs (IZR k)) * / S).
    - apply Rmult_le_compat_r; [apply Rlt_le, Rinv_0_lt_compat; lra | exact HPe].
    - replace (u * (S * Rabs (IZR k)) * / S) with (u * Rabs (IZR k)) by (field; lra).
      apply Rmult_le_compat_l; lra. }
  assert (HYabs : Rabs Y <= 129).
  { replace Y with ((Y - IZR k) + IZR k) by ring. eapply Rle_trans; [apply Rabs_triang|]. nra. }
  rewrite qcode_unfold.
  destruct (div_nan_to_num prec emax Hp Hpe Hprec8 Hemax9 p s HPf Fs Sp) as [FQ HQ].
  fold P S Y in HQ.
  set (q := nan_to_num prec emax Hp Hpe (Bdiv mode_NE p s)) in *.
  assert (HQv : B2R q = rnd Y).
  { destruct HQ as [HQ|[[HY1 _]|[HY1 _]]]; [exact HQ| |]; exfalso;
      [rewrite Rabs_pos_eq in HYabs by lra | rewrite Rabs_left in HYabs by lra]; lra. }
  rewrite (clamp_chain prec emax Hp Hpe Hprec8 Hemax9 q FQ).
  assert (Hn : ZnearestE (B2R q) = k).
  { apply Znearest_imp. rewrite HQv.
    pose proof (rnd_err prec emax Hp Y) as Herr.
    replace (rnd Y - IZR k) with ((rnd Y - Y) + (Y - IZR k)) by ring.
    eapply Rle_lt_trans; [apply Rabs_triang|]. nra. }
  rewrite Hn. unfold clampZ. f_equal. lia.
Qed.

(* requantization is stable: the codes of the dequantized value are the codes *)
Theorem qint8_requant_stable (x s : fl) :
  is_finite x = true -> is_finite s = true -> 0 < B2R s -> 128 * B2R s <= Fmax prec emax ->
  qcode prec emax Hp Hpe (qdeq prec emax Hp Hpe x s) s = qcode prec emax Hp Hpe x s.
Proof.
  intros Fx Fs Sp Hgrid.
  destruct (qint8_code_float prec emax Hp Hpe Hprec8 Hemax9 x s Fx Fs Sp) as (k & Hk & Ec & _).
  unfold qdeq, symdq. fold (qcode prec emax Hp Hpe x s). rewrite Ec. cbn [n_mul NumFl].
  exact (qint8_code_of_grid_point s k Fs Sp Hgrid Hk).
Qed.

End Requant.
