(* C05, the re-quantizing class (_softmax, where) in exact arithmetic: the implementations compute the float
   operation on the dequantized operand and re-quantize the result with a stated scale (1/qmax for softmax, the
   input's scale for where).  Element level, qint8:
   - an element within the range of the output grid comes back within HALF A STEP of the float result;
   - softmax outputs lie in [0, 1] = [0, 127 * (1/127)]: never saturated, error <= 1/254;
   - where() keeps the elements selected from the quantized input EXACTLY (s*k re-quantizes to k) and brings the
     elements taken from [other] within half a step when they fit the grid of the input scale; beyond it they
     saturate (known finding F22). *)
From Coq Require Import List Reals Lra Lia ZArith.
From Flocq Require Import Core.
From QV Require Import Lib.Res Lib.Tensor Lib.Num Proofs.QuantProofs Proofs.RealNum.
Import ListNotations.
Local Open Scope R_scope.

Lemma symq_int8_R (x s : R) : symq qint8 x s = IZR (clampZ (-128) 127 (ZnearestE (x / s))).
Proof. unfold symq, post. cbn. apply clamp_IZR. Qed.

Theorem requant_half_step_R (y s : R) : 0 < s -> -128 * s <= y <= 127 * s ->
  Rabs (symdq qint8 y s - y) <= s / 2.
Proof.
  intros Hs Hy. destruct (sym_int8_nearest_R y s Hs) as (k & Hk & Ek & Hnear).
  set (v := ZnearestE (y / s)).
  assert (Hq : IZR (-128) <= y / s <= IZR 127).
  { split; apply Rmult_le_reg_r with s; try lra; unfold Rdiv; rewrite Rmult_assoc, Rinv_l by lra; lra. }
  assert (Hv : (-128 <= v <= 127)%Z).
  { split.
    - apply Z.le_trans with (Zfloor (y / s)); [apply Zfloor_lub; lra | apply Znearest_ge_floor].
    - apply Z.le_trans with (Zceil (y / s)); [apply Znearest_le_ceil | apply Zceil_glb; lra]. }
  specialize (Hnear v Hv).
  pose proof (Znearest_half (fun z => negb (Z.even z)) (y / s)) as Hh. fold ZnearestE in Hh. fold v in Hh.
  assert (Rabs (s * IZR v - y) <= s / 2).
  { replace (s * IZR v - y) with (s * (IZR v - y / s)) by (field; lra).
    rewrite Rabs_mult, (Rabs_pos_eq s) by lra. rewrite Rabs_minus_sym in Hh. nra. }
  lra.
Qed.

(* softmax: the output scale is 1/127 and every output lies in [0, 1] *)
Theorem requant_softmax_R (y : R) : 0 <= y <= 1 -> Rabs (symdq qint8 y (/ 127) - y) <= / 254.
Proof.
  intros Hy. pose proof (requant_half_step_R y (/ 127) ltac:(lra) ltac:(lra)) as H. lra.
Qed.

(* where: an element selected from the quantized input is s*k for its code k, and re-quantizes to k *)
Theorem requant_where_kept_R (s : R) (k : Z) : 0 < s -> (-128 <= k <= 127)%Z ->
  symq qint8 (s * IZR k) s = IZR k /\ symdq qint8 (s * IZR k) s = s * IZR k.
Proof.
  intros Hs Hk.
  assert (E : symq qint8 (s * IZR k) s = IZR k).
  { rewrite symq_int8_R. replace (s * IZR k / s) with (IZR k) by (field; lra).
    rewrite (@Zrnd_IZR ZnearestE _ k). unfold clampZ. f_equal. lia. }
  split; [exact E|]. unfold symdq. rewrite E. reflexivity.
Qed.

(* where: an element taken from [other] that fits the grid of the input scale *)
Theorem requant_where_other_R (y s : R) : 0 < s -> Rabs y <= 127 * s -> Rabs (symdq qint8 y s - y) <= s / 2.
Proof. intros Hs Hy. apply Rabs_le_inv in Hy. apply requant_half_step_R; lra. Qed.

(* ... and one that does not fit saturates to the end of the grid: the shape of known finding F22 *)
Theorem requant_where_saturates_R : exists y s : R, 0 < s /\ s / 2 < Rabs (symdq qint8 y s - y).
Proof.
  exists 1000, 1. split; [lra|].
  destruct (sym_int8_saturates_R 1000 1 ltac:(lra)) as [H _].
  unfold symdq. rewrite (H ltac:(lra)). cbn. rewrite Rabs_left; lra.
Qed.
