(* Structure of the (generated) affine quantizer / dequantizer for any number type, and the
   exact-arithmetic half-step theorem for its element-level functions. *)
From Coq Require Import String List ZArith Bool Lia Reals Lra.
From Flocq Require Import Core.
From QV Require Import Lib.Res Lib.Tensor Lib.ListFacts Lib.ND Lib.NDFacts Lib.Num Lib.QTensor Model.Quant
     Proofs.QuantProofs Proofs.RealNum Proofs.AffineReal.
Import ListNotations.
Open Scope Z_scope.

Section Generic.
Context {F : Type} `{NF : Num F}.

(* element-level functions: code of x under (scale s, zero-point zp); value of a code *)
Definition affq (bits : Z) (x s zp : F) : F :=
  n_cast SUInt8 (n_clamp (n_of_Z 0) (n_of_Z (2 ^ bits - 1))
                         (n_add (n_rint (n_nan_to_num (n_div x s))) zp)).
Definition affdq (s c zp : F) : F :=
  n_mul s (n_cast SInt8 (n_sub (n_cast SInt8 c) (n_cast SInt8 zp))).

(* without grouping (or on an already grouped tensor): element j is quantized with the scale and
   zero-point of its own cell *)
Theorem affine_forward_elementwise base q axis scale zp z :
  affine_forward base q axis None scale zp = Ok z ->
  shape base <> [] -> pos_dims (shape base) -> bsub (shape scale) (shape base) -> shape zp = shape scale ->
  let sj := fun j => zget (data scale) (sidx (shape base) (shape scale) j) f0 in
  let zj := fun j => zget (data zp) (sidx (shape base) (shape scale) j) f0 in
  qz_data z = T (shape base)
                (map (fun j => affq (q_bits q) (zget (data base) j f0) (sj j) (zj j)) (zrange (numel base))).
Proof.
  intros H Hne Hp Hb Hz sj zj. unfold affine_forward in H. mstep H. mstep H. cbn [bind] in H.
  mstep H. mstep H. mstep H. injection H as <-. cbn [qz_data].
  unfold tf_div in B. rewrite (bcast2_right n_div f0 f0 base scale Hne Hb Hp) in B. injection B as <-.
  unfold tf_add, tf_round, tf_nan_to_num, t_map in B0. cbn [shape data] in B0.
  assert (Hb2 : bsub (shape zp) (shape base)) by (rewrite Hz; exact Hb).
  rewrite (bcast2_right n_add f0 f0 (T (shape base) _) zp Hne Hb2 Hp) in B0. injection B0 as <-.
  unfold tf_cast, tf_clamp, t_map, affq, numel. cbn [shape data]. rewrite !map_map. f_equal.
  apply map_ext_in. intros j Hj.
  apply in_map_iff in Hj. destruct Hj as (k & <- & Hk). apply in_seq in Hk.
  rewrite zget_map_zrange by lia. unfold zj, sj. rewrite Hz. reflexivity.
Qed.

Lemma qbits_dequantize_eq (t : qbits F) :
  qbits_dequantize t =
  (i8 <- ti8_sub (tf_cast SInt8 (qz_data t)) (tf_cast SInt8 (qz_zp t)) ;;
   dqt <- tf_mul (qz_scale t) i8 ;;
   match qz_axis t with None => Ok dqt | Some _ => ungroup dqt (qz_axis t) (qz_size t) end).
Proof.
  unfold qbits_dequantize. destruct (ti8_sub _ _); cbn [bind]; [|reflexivity].
  destruct (q_isfloat (qz_qtype t)); destruct (tf_mul _ _); cbn [bind]; try reflexivity;
    destruct (qz_axis t); cbn; try reflexivity; destruct (ungroup _ _ _); reflexivity.
Qed.

End Generic.

(* ---- exact arithmetic: half a step ------------------------------------------------------------- *)
Open Scope R_scope.

(* the element-level content of C02: if the scale s > 0 and the zero-point zp = round(-lo/s) come from
   a range [lo, hi] that contains zero and the element, with s = (hi - lo)/(2^bits - 1), then the code
   is an integer of [0, 2^bits-1], the zero-point too (no int8 wrap), and the dequantized value is
   within half a step of x *)
Theorem affine_element_half_step (bits : Z) (x lo hi : R) :
  (1 <= bits <= 7)%Z -> lo <= 0 <= hi -> lo <= x <= hi -> lo < hi ->
  let L := (2 ^ bits - 1)%Z in
  let s := (hi - lo) / IZR L in
  let zp := IZR (ZnearestE (- lo / s)) in
  exists c zi : Z, (0 <= c <= L)%Z /\ (0 <= zi <= L)%Z /\ zp = IZR zi /\
    affq bits x s zp = IZR c /\ Rabs (affdq s (IZR c) zp - x) <= s / 2.
Proof.
  intros Hb H0 Hx Hlt L s zp.
  assert (HL : (1 <= L)%Z) by (unfold L; assert (2 ^ 1 <= 2 ^ bits)%Z by (apply Z.pow_le_mono_r; lia); lia).
  assert (HLr : 1 <= IZR L) by (apply IZR_le in HL; exact HL).
  assert (Hs : 0 < s) by (unfold s; apply Rdiv_lt_0_compat; lra).
  assert (Ez : - lo / s = IZR L * (- lo / (hi - lo))) by (unfold s; field; lra).
  assert (Hzr : 0 <= - lo / s <= IZR L).
  { assert (0 <= - lo / (hi - lo) <= 1).
    { split; [apply Rmult_le_pos; [lra | apply Rlt_le, Rinv_0_lt_compat; lra]|].
      apply Rmult_le_reg_r with (hi - lo); [lra|]. unfold Rdiv. rewrite Rmult_assoc, Rinv_l by lra. lra. }
    rewrite Ez. nra. }
  assert (Har : - (- lo / s) <= x / s <= IZR L - (- lo / s)).
  { assert (EL : IZR L = (hi - lo) / s) by (unfold s; field; lra).
    rewrite EL. unfold Rdiv. split.
    - replace (- (- lo * / s)) with (lo * / s) by ring. apply Rmult_le_compat_r; [apply Rlt_le, Rinv_0_lt_compat; lra | lra].
    - replace ((hi - lo) * / s - - lo * / s) with (hi * / s) by ring.
      apply Rmult_le_compat_r; [apply Rlt_le, Rinv_0_lt_compat; lra | lra]. }
  destruct (affine_half_step L (x / s) (- lo / s) ltac:(lia) Hzr Har) as (Hzp & Hlow & Hhalf).
  set (zi := ZnearestE (- lo / s)) in *. set (n := ZnearestE (x / s)) in *.
  set (c := clampZ 0 L (n + zi)) in *.
  assert (Hc : (0 <= c <= L)%Z) by (unfold c, clampZ; lia).
  exists c, zi. split; [exact Hc|]. split; [exact Hzp|]. split; [reflexivity|].
  assert (Eq : affq bits x s zp = IZR c).
  { unfold affq, zp. cbn [n_cast n_clamp n_of_Z n_add n_rint n_nan_to_num n_div NumR r_cast n_min n_max].
    fold n zi. rewrite <- plus_IZR. fold L. rewrite clamp_IZR. reflexivity. }
  split; [exact Eq|].
  unfold affdq, zp. cbn [n_mul n_cast n_sub NumR r_cast]. fold zi.
  rewrite <- minus_IZR.
  replace (s * IZR (c - zi) - x) with (s * (IZR (c - zi) - x / s)) by (field; lra).
  rewrite Rabs_mult, (Rabs_pos_eq s) by lra. nra.
Qed.
