(* C05, move class, for PROGRAMS: every data-movement op that quanto forwards to the payload of a per-tensor
   quantized tensor (view / reshape, transpose / permute, select, slice, unsqueeze, expand, split chunks) is a
   *gather*: its result holds, at every position, the operand's element at an index computed from the operand's shape
   and the op's arguments only.  Every gather is a movement (Model/QOps.v), movements are closed under composition,
   so for EVERY sequence of such ops, of any length, running the sequence on the payload and dequantizing equals
   running it on the dequantized tensor - element for element, for any number type.  cat / stack of operands that
   share their scale (the condition the implementation tests) is a movement of the list of payloads. *)
From Coq Require Import String List ZArith Bool Lia.
From QV Require Import Lib.Res Lib.Tensor Lib.ListFacts Lib.ND Lib.NDFacts Lib.Num Lib.QTensor Model.QOps.
Import ListNotations.
Open Scope Z_scope.

Definition mover := forall A, A -> tensor A -> res (tensor A).

(* ---- gathers ------------------------------------------------------------------------------------------ *)
(* [plan sh] decides, from the operand's shape only, whether the op applies and if so the result shape and, for each
   result position, the flat index of the operand element it holds *)
Definition gather (plan : list Z -> res (list Z * list Z)) : mover :=
  fun A d t => '(sh, idx) <- plan (shape t) ;; Ok (T sh (map (fun k => zget (data t) k d) idx)).

Lemma gather_movement plan : movement (gather plan).
Proof.
  intros A B f d t. unfold gather, t_map. cbn [shape data].
  destruct (plan (shape t)) as [[sh idx]|e]; cbn [bind]; [|reflexivity].
  f_equal. f_equal. cbn [data]. rewrite map_map. apply map_ext. intros k. apply zget_map.
Qed.

(* the movers of the vocabulary, as gathers *)
Definition plan_expand (target : list Z) (sh0 : list Z) : res (list Z * list Z) :=
  (* torch aligns the shapes from the right: missing leading dimensions of the operand count as 1 *)
  let sh := (repeat 1 (Z.to_nat (zlen target - zlen sh0)) ++ sh0)%list in
  if (zlen sh0 <=? zlen target) && forallb (fun p => (snd p =? fst p) || (snd p =? 1)) (combine target sh)
     && forallb (fun x => 0 <=? x) target then
    Ok (target, map (fun j => ravel sh (bidx sh (unravel target j))) (zrange (prodZ target)))
  else Err "RuntimeError"%string.
Definition t_expand (target : list Z) : mover := gather (plan_expand target).

Definition plan_select0 (i : Z) (sh : list Z) : res (list Z * list Z) :=
  match sh with
  | [] => Err "IndexError"%string
  | d0 :: rest =>
    let i' := if i <? 0 then i + d0 else i in
    if (0 <=? i') && (i' <? d0) then Ok (rest, map (fun j => i' * prodZ rest + j) (zrange (prodZ rest)))
    else Err "IndexError"%string
  end.
Definition t_select0 (i : Z) : mover := gather (plan_select0 i).

Definition plan_unsqueeze0 (sh : list Z) : res (list Z * list Z) := Ok (1 :: sh, zrange (prodZ sh)).
Definition t_unsqueeze0 : mover := gather plan_unsqueeze0.

Lemma expand_movement target : movement (t_expand target). Proof. apply gather_movement. Qed.
Lemma select0_movement i : movement (t_select0 i). Proof. apply gather_movement. Qed.
Lemma unsqueeze0_movement : movement t_unsqueeze0. Proof. apply gather_movement. Qed.

(* ---- closure under composition: programs ----------------------------------------------------------------- *)
Lemma movement_compose (g h : mover) : movement g -> movement h ->
  movement (fun A d t => r <- g A d t ;; h A d r).
Proof.
  intros Hg Hh A B f d t. rewrite Hg. destruct (g A d t) as [r|e]; cbn [bind]; [|reflexivity]. apply Hh.
Qed.

Fixpoint run (ops : list mover) : mover :=
  fun A d t => match ops with [] => Ok t | g :: rest => r <- g A d t ;; run rest A d r end.

Theorem program_movement (ops : list mover) : Forall movement ops -> movement (run ops).
Proof.
  induction 1 as [|g rest Hg _ IH]; intros A B f d t; cbn [run].
  - reflexivity.
  - exact (movement_compose g (run rest) Hg IH A B f d t).
Qed.

(* the statement of C05 for programs of data-movement ops on a per-tensor quantized tensor *)
Theorem program_commutes_with_dequantize {F : Type} `{NF : Num F} (ops : list mover) (s : F) (data : tensor F) :
  Forall movement ops ->
  run ops F (n_mul s f0) (deq_scalar s data) = (moved <- run ops F f0 data ;; Ok (deq_scalar s moved)).
Proof. intros H. apply move_commutes_with_dequantize. apply program_movement. exact H. Qed.

(* ---- cat along the first dimension of payloads that share their scale ---------------------------------- *)
Lemma forallb_map_shape {A B} (f : A -> B) (ts : list (tensor A)) (p : list Z -> bool) :
  forallb (fun t => p (shape t)) (map (t_map f) ts) = forallb (fun t => p (shape t)) ts.
Proof. induction ts as [|t ts IH]; [reflexivity|]. cbn [map forallb]. rewrite IH. reflexivity. Qed.

Theorem cat0_commutes_with_map {A B} (f : A -> B) (ts : list (tensor A)) :
  t_cat0 (map (t_map f) ts) = (r <- t_cat0 ts ;; Ok (t_map f r)).
Proof.
  destruct ts as [|t0 ts]; [reflexivity|]. unfold t_cat0. cbn [map].
  change (tailshape (t_map f t0)) with (tailshape t0).
  set (p := fun sh : list Z => shape_eqb (tl sh) (tailshape t0) && match sh with [] => false | _ => true end).
  change (forallb _ (t_map f t0 :: map (t_map f) ts)) with (forallb (fun t => p (shape t)) (map (t_map f) (t0 :: ts))).
  change (forallb _ (t0 :: ts)) with (forallb (fun t => p (shape t)) (t0 :: ts)).
  rewrite forallb_map_shape. destruct (forallb _ (t0 :: ts)); cbn [bind]; [|reflexivity].
  unfold t_map. cbn [shape data]. f_equal. f_equal.
  - f_equal. change (dim0 {| shape := shape t0; data := map f (data t0) |}) with (dim0 t0). f_equal.
    rewrite map_map. f_equal.
  - cbn [map concat data]. rewrite map_app, concat_map, !map_map. reflexivity.
Qed.

Theorem cat0_commutes_with_dequantize {F : Type} `{NF : Num F} (s : F) (payloads : list (tensor F)) :
  t_cat0 (map (deq_scalar s) payloads) = (r <- t_cat0 payloads ;; Ok (deq_scalar s r)).
Proof. apply cat0_commutes_with_map. Qed.

(* non-vacuity: a concrete program on a 2x3 payload: unsqueeze, expand to (2,2,3), select index 1, slice rows 0..1 *)
Example program_example :
  run [t_unsqueeze0; t_expand [2; 2; 3]; t_select0 1; (fun A _ t => Ok (t_slice0 t (Some 0) (Some 1)))] Z 0
      (T [2; 3] [10; 11; 12; 13; 14; 15]) = Ok (T [1; 3] [10; 11; 12]).
Proof. vm_compute. reflexivity. Qed.
