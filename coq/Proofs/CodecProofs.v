From Coq Require Import String Ascii List ZArith Bool Lia DecimalString DecimalZ DecimalPos.
From QV Require Import Model.Codec.
Import ListNotations.
Open Scope string_scope.

Definition okc (c : ascii) : bool :=
  existsb (Ascii.eqb c) ["0"; "1"; "2"; "3"; "4"; "5"; "6"; "7"; "8"; "9"; "-"]%char.

Fixpoint all_ok (s : string) : bool :=
  match s with EmptyString => true | String c r => okc c && all_ok r end.

Lemma all_ok_uint d : all_ok (NilEmpty.string_of_uint d) = true.
Proof. induction d; cbn; auto. Qed.

Lemma uint_nonempty d : d <> Decimal.Nil -> NilEmpty.string_of_uint d <> "".
Proof. destruct d; cbn; congruence. Qed.

Lemma to_uint_nonnil p : Pos.to_uint p <> Decimal.Nil.
Proof. apply Unsigned.to_uint_nonnil. Qed.

Lemma to_int_cases z :
  (exists d, Z.to_int z = Decimal.Pos d /\ d <> Decimal.Nil) \/ (exists d, Z.to_int z = Decimal.Neg d /\ d <> Decimal.Nil).
Proof.
  destruct z as [|p|p]; cbn.
  - left. eexists. split; [reflexivity|discriminate].
  - left. eexists. split; [reflexivity|apply to_uint_nonnil].
  - right. eexists. split; [reflexivity|apply to_uint_nonnil].
Qed.

Lemma nz_uint d : d <> Decimal.Nil -> NilZero.string_of_uint d = NilEmpty.string_of_uint d.
Proof. destruct d; try reflexivity. congruence. Qed.

Lemma show_Z_ok z : all_ok (show_Z z) = true /\ show_Z z <> "".
Proof.
  unfold show_Z. destruct (to_int_cases z) as [[d [-> Hd]]|[d [-> Hd]]]; cbn [NilZero.string_of_int]; rewrite nz_uint by exact Hd.
  - split; [apply all_ok_uint|apply uint_nonempty; exact Hd].
  - split; [cbn; apply all_ok_uint|discriminate].
Qed.

Theorem parse_show_Z z : parse_Z (show_Z z) = Some z.
Proof.
  unfold parse_Z, show_Z. rewrite NilZero.isi.
  - cbn. f_equal. apply DecimalZ.of_to.
  - destruct (to_int_cases z) as [[d [-> Hd]]|[d [-> Hd]]]; congruence.
  - destruct (to_int_cases z) as [[d [-> Hd]]|[d [-> Hd]]]; congruence.
Qed.

Lemma okc_not c x : okc c = true -> okc x = false -> Ascii.eqb c x = false.
Proof. intros H1 H2. destruct (Ascii.eqb_spec c x); [subst; congruence|reflexivity]. Qed.

Lemma ltrim_ok s : all_ok s = true -> ltrim s = s.
Proof.
  destruct s as [|c r]; [reflexivity|]. cbn. intros H. apply andb_prop in H. destruct H as [Hc _].
  rewrite (okc_not c " "%char Hc eq_refl). reflexivity.
Qed.

Lemma ltrim_space s : ltrim (" " ++ s) = ltrim s.
Proof. reflexivity. Qed.

Lemma split_nocomma a : all_ok a = true -> split a = [a].
Proof.
  induction a as [|c r IH]; [reflexivity|]. cbn. intros H. apply andb_prop in H. destruct H as [Hc Hr].
  rewrite (okc_not c ","%char Hc eq_refl), (IH Hr). reflexivity.
Qed.

Lemma split_app a r : all_ok a = true -> split (a ++ String "," r) = a :: split r.
Proof.
  induction a as [|c a IH]; [reflexivity|]. cbn. intros H. apply andb_prop in H. destruct H as [Hc Ha].
  rewrite (okc_not c ","%char Hc eq_refl), (IH Ha). reflexivity.
Qed.

(* splitting what join printed gives back the pieces (all but the first carry the separator's space) *)
Lemma split_join x l :
  split (join ", " (map show_Z (x :: l))) = show_Z x :: map (fun z => " " ++ show_Z z) l.
Proof.
  revert x. induction l as [|y l IH]; intros x.
  - cbn. apply split_nocomma, show_Z_ok.
  - change (join ", " (map show_Z (x :: y :: l))) with (show_Z x ++ String "," (" " ++ join ", " (map show_Z (y :: l)))).
    rewrite split_app by apply show_Z_ok. f_equal.
    change (" " ++ join ", " (map show_Z (y :: l))) with (String " " (join ", " (map show_Z (y :: l)))).
    cbn [split]. change (Ascii.eqb " " ",") with false. cbv iota. rewrite IH. reflexivity.
Qed.

Lemma parse_all_spaced l : parse_all (map (fun z => " " ++ show_Z z) l) = Some l.
Proof.
  induction l as [|z l IH]; [reflexivity|]. cbn [map parse_all]. rewrite ltrim_space, ltrim_ok by apply show_Z_ok.
  rewrite parse_show_Z, IH. reflexivity.
Qed.

Lemma parse_all_join x l : parse_all (split (join ", " (map show_Z (x :: l)))) = Some (x :: l).
Proof.
  rewrite split_join. cbn [parse_all]. rewrite ltrim_ok by apply show_Z_ok. rewrite parse_show_Z, parse_all_spaced. reflexivity.
Qed.

Lemma unsnoc_app a c : unsnoc (a ++ String c "") = Some (a, c).
Proof.
  induction a as [|x a IH]; [reflexivity|]. cbn [append unsnoc]. rewrite IH.
  destruct (a ++ String c "") eqn:E; [destruct a; discriminate|reflexivity].
Qed.

Lemma join_first x l : exists r, join ", " (map show_Z (x :: l)) = show_Z x ++ r.
Proof. destruct l; cbn; [exists ""; symmetry; apply append_nil_r || idtac|eexists; reflexivity]. 
  induction (show_Z x); cbn; congruence. Qed.

Lemma nonempty_body x l : is_empty (ltrim (join ", " (map show_Z (x :: l)))) = false.
Proof.
  destruct (join_first x l) as [r ->]. destruct (show_Z_ok x) as [Hok Hne].
  destruct (show_Z x) as [|c s]; [congruence|]. cbn in Hok. apply andb_prop in Hok. destruct Hok as [Hc _].
  cbn. rewrite (okc_not c " "%char Hc eq_refl). reflexivity.
Qed.

Lemma app_assoc_s (a b c : string) : (a ++ b) ++ c = a ++ (b ++ c).
Proof. induction a; cbn; congruence. Qed.

Lemma first_char_Z z : exists c s, show_Z z = String c s /\ okc c = true.
Proof.
  destruct (show_Z_ok z) as [Hok Hne]. destruct (show_Z z) as [|c s]; [congruence|].
  cbn in Hok. apply andb_prop in Hok. exists c, s. split; [reflexivity|tauto].
Qed.

Theorem parse_show v : parse (show v) = Some v.
Proof.
  destruct v as [z| |l|l].
  - (* int *)
    cbn [show]. destruct (first_char_Z z) as [c [s [E Hc]]]. unfold parse. rewrite E.
    rewrite (okc_not c "["%char Hc eq_refl), (okc_not c "("%char Hc eq_refl), (okc_not c "N"%char Hc eq_refl).
    rewrite <- E, parse_show_Z. reflexivity.
  - reflexivity.
  - (* list *)
    destruct l as [|x l]; [reflexivity|].
    cbn [show]. change ("[" ++ join ", " (map show_Z (x :: l)) ++ "]") with (String "[" (join ", " (map show_Z (x :: l)) ++ "]")).
    unfold parse. change (Ascii.eqb "[" "[") with true. cbv iota. rewrite unsnoc_app. change (Ascii.eqb "]" "]") with true. cbv iota.
    unfold parse_list_body. rewrite nonempty_body, parse_all_join. reflexivity.
  - (* tuple *)
    destruct l as [|x [|y l]]; [reflexivity| |].
    + cbn [show]. change ("(" ++ show_Z x ++ ",)") with (String "(" (show_Z x ++ ("," ++ ")"))).
      rewrite <- app_assoc_s.
      unfold parse. change (Ascii.eqb "(" "[") with false. change (Ascii.eqb "(" "(") with true. cbv iota. rewrite unsnoc_app.
      change (Ascii.eqb ")" ")") with true. cbv iota. unfold parse_tuple_body.
      assert (Hne : is_empty (ltrim (show_Z x ++ ",")) = false).
      { destruct (first_char_Z x) as [c [s [E Hc]]]. rewrite E. cbn. rewrite (okc_not c " "%char Hc eq_refl). reflexivity. }
      rewrite Hne. change (show_Z x ++ ",") with (show_Z x ++ String "," ""). rewrite split_app by apply show_Z_ok.
      cbn [split List.rev app ltrim is_empty parse_all]. rewrite ltrim_ok by apply show_Z_ok. rewrite parse_show_Z. reflexivity.
    + cbn [show]. change ("(" ++ join ", " (map show_Z (x :: y :: l)) ++ ")") with (String "(" (join ", " (map show_Z (x :: y :: l)) ++ ")")).
      unfold parse. change (Ascii.eqb "(" "[") with false. change (Ascii.eqb "(" "(") with true. cbv iota. rewrite unsnoc_app.
      change (Ascii.eqb ")" ")") with true. cbv iota. unfold parse_tuple_body. rewrite nonempty_body.
      cbv zeta. rewrite split_join. 
      (* the last piece is " " ++ show_Z of the last element: not empty after trimming *)
      set (pieces := show_Z x :: map (fun z => " " ++ show_Z z) (y :: l)).
      assert (Hlast : exists z init, List.rev pieces = (" " ++ show_Z z) :: init /\ init <> []).
      { unfold pieces. destruct (exists_last (l := y :: l)) as [l' [z E]]; [discriminate|]. rewrite E.
        rewrite map_app. cbn [map]. change (show_Z x :: (app (map (fun z0 => " " ++ show_Z z0) l') [" " ++ show_Z z])) with (app (show_Z x :: map (fun z0 => " " ++ show_Z z0) l') [" " ++ show_Z z]).
        rewrite rev_app_distr. cbn [List.rev app]. exists z. eexists. split; [reflexivity|].
        intros H. apply (f_equal (@length string)) in H. rewrite app_length in H. cbn in H. lia. }
      destruct Hlast as [z [init [E Hinit]]]. rewrite E.
      assert (Hz : is_empty (ltrim (" " ++ show_Z z)) = false).
      { rewrite ltrim_space. rewrite ltrim_ok by apply show_Z_ok. destruct (show_Z_ok z) as [_ Hne]. destruct (show_Z z); [congruence|reflexivity]. }
      rewrite Hz. destruct init; [congruence|].
      unfold pieces. cbn [parse_all]. rewrite ltrim_ok by apply show_Z_ok. rewrite parse_show_Z, parse_all_spaced. reflexivity.
Qed.
Print Assumptions parse_show.
