(* C06: the invariant [qb_inv] (reported size = payload shape, scale broadcastable along the declared axis) is kept by
   every way the op implementations build their result:
   - same layout (rescale: mul / div; sign: neg / relu; copies: detach / clone / _to_copy / copy_): size, stride and axis
     are the operand's, payload and scale keep their shapes;
   - moved payload (move class, per-tensor): size of the moved payload (Model/QOps.v, rewrap_preserves_inv);
   - 2-D transpose [aten.t] of a PER-AXIS tensor: payload and scale are transposed and the axis flips 0 <-> -1.
   By induction the invariant holds after every program of such steps. *)
From Coq Require Import String List ZArith Bool Lia.
From QV Require Import Lib.Res Lib.Tensor Lib.ListFacts Lib.ND Lib.Num Lib.QTensor Model.QOps.
Import ListNotations.
Open Scope Z_scope.

Lemma zlist_eqb_eq (a b : list Z) : zlist_eqb a b = true <-> a = b.
Proof.
  revert b. induction a as [|x a IH]; intros [|y b]; cbn; split; intros H; try reflexivity; try discriminate H.
  - apply andb_true_iff in H. destruct H as [H1 H2]. apply Z.eqb_eq in H1. apply IH in H2. subst. reflexivity.
  - injection H as -> ->. rewrite Z.eqb_refl. apply IH. reflexivity.
Qed.

Section Inv.
Context {F : Type}.

(* same-layout results *)
Definition rewrap_same (q : qbytes F) (data' scale' : tensor F) : qbytes F :=
  QBytes (qb_qtype q) (qb_axis q) (qb_size q) (qb_stride q) data' scale'.

Theorem same_layout_preserves_inv (q : qbytes F) (data' scale' : tensor F) :
  shape data' = shape (qb_data q) -> shape scale' = shape (qb_scale q) ->
  qb_inv q = true -> qb_inv (rewrap_same q data' scale') = true.
Proof. intros Hd Hs H. unfold qb_inv, rewrap_same in *. cbn [qb_data qb_size qb_axis qb_scale]. rewrite Hd, Hs. exact H. Qed.

(* aten.t on a 2-D tensor: transposed payload, reversed size / stride, transposed scale, flipped axis *)
Definition flip_axis (a : option Z) : option Z :=
  match a with Some 0 => Some (-1) | Some (-1) => Some 0 | x => x end.

Definition rewrap_t (q : qbytes F) (data' scale' : tensor F) : qbytes F :=
  QBytes (qb_qtype q) (flip_axis (qb_axis q)) (rev (qb_size q)) (rev (qb_stride q)) data' scale'.

Theorem transpose2d_preserves_inv (q : qbytes F) (d0 d1 : Z) (data' scale' : tensor F) :
  qb_size q = [d0; d1] -> shape data' = [d1; d0] ->
  (qb_axis q = None -> shape scale' = shape (qb_scale q)) ->
  (qb_axis q <> None -> shape scale' = rev (shape (qb_scale q))) ->
  qb_inv q = true -> qb_inv (rewrap_t q data' scale') = true.
Proof.
  intros Hsz Hd Hn Hs H. unfold qb_inv, rewrap_t in *. cbn [qb_data qb_size qb_axis qb_scale].
  apply andb_true_iff in H. destruct H as [_ H2]. rewrite Hsz in *. cbn [rev app]. rewrite Hd.
  apply andb_true_iff. split; [cbn; rewrite !Z.eqb_refl; reflexivity|].
  destruct (qb_axis q) as [a|] eqn:Ea.
  - rewrite (Hs ltac:(discriminate)).
    destruct a as [|p|p]; cbn [scale_fits flip_axis] in *.
    + (* axis 0 -> -1: scale [d0; 1] -> [1; d0] *)
      apply zlist_eqb_eq in H2. rewrite H2. reflexivity || (cbn; rewrite !Z.eqb_refl; reflexivity).
    + discriminate H2.
    + destruct p; try discriminate H2. cbn [scale_fits flip_axis] in *.
      (* axis -1 -> 0: scale [1; d1] -> [d1; 1] *)
      apply zlist_eqb_eq in H2. rewrite H2. cbn. rewrite !Z.eqb_refl. reflexivity.
  - rewrite (Hn eq_refl). exact H2.
Qed.

(* copy_ from a source of the same size quantized along ANOTHER axis (after the repair F37): the destination takes the
   source's codes, scale and axis and keeps its size / stride *)
Definition rewrap_adopt (q src : qbytes F) (data' : tensor F) : qbytes F :=
  QBytes (qb_qtype q) (qb_axis src) (qb_size q) (qb_stride q) data' (qb_scale src).

Theorem adopt_preserves_inv (q src : qbytes F) (data' : tensor F) :
  qb_size q = qb_size src -> shape data' = shape (qb_data src) ->
  qb_inv src = true -> qb_inv (rewrap_adopt q src data') = true.
Proof.
  intros Hsz Hd H. unfold qb_inv, rewrap_adopt in *. cbn [qb_data qb_size qb_axis qb_scale]. rewrite Hd, Hsz. exact H.
Qed.

(* every step of a program is one of the four re-wraps: the invariant holds along any program *)
Inductive step : qbytes F -> qbytes F -> Prop :=
| step_adopt q src data' : qb_size q = qb_size src -> shape data' = shape (qb_data src) -> qb_inv src = true ->
    step q (rewrap_adopt q src data')
| step_same q data' scale' : shape data' = shape (qb_data q) -> shape scale' = shape (qb_scale q) ->
    step q (rewrap_same q data' scale')
| step_move q moved : qb_axis q = None -> step q (rewrap_moved q moved)
| step_t q d0 d1 data' scale' : qb_size q = [d0; d1] -> shape data' = [d1; d0] ->
    (qb_axis q = None -> shape scale' = shape (qb_scale q)) ->
    (qb_axis q <> None -> shape scale' = rev (shape (qb_scale q))) ->
    step q (rewrap_t q data' scale').

Inductive steps : qbytes F -> qbytes F -> Prop :=
| steps_refl q : steps q q
| steps_cons q1 q2 q3 : step q1 q2 -> steps q2 q3 -> steps q1 q3.

Theorem invariant_along_programs (q q' : qbytes F) : steps q q' -> qb_inv q = true -> qb_inv q' = true.
Proof.
  induction 1 as [q|q1 q2 q3 H12 _ IH]; intros H; [exact H|]. apply IH.
  destruct H12 as [q src data' Hsz Hd Hsrc|q data' scale' Hd Hs|q moved Ha|q d0 d1 data' scale' Hsz Hd Hn Hs].
  - exact (adopt_preserves_inv q src data' Hsz Hd Hsrc).
  - exact (same_layout_preserves_inv q data' scale' Hd Hs H).
  - exact (rewrap_preserves_inv q moved Ha H).
  - exact (transpose2d_preserves_inv q d0 d1 data' scale' Hsz Hd Hn Hs H).
Qed.
End Inv.

(* non-vacuity: a per-axis (axis 0) 3x2 tensor, transposed by aten.t *)
Example transpose2d_example :
  let q := QBytes qint8 (Some 0) [3; 2] [2; 1] (T [3; 2] (repeat 0 6)) (T [3; 1] [1; 2; 3]) in
  qb_inv q = true /\ qb_inv (rewrap_t q (T [2; 3] (repeat 0 6)) (T [1; 3] [1; 2; 3])) = true.
Proof. vm_compute. split; reflexivity. Qed.

(* the variant that adopts the source's scale but KEEPS the destination's axis (what copy_ would do without the axis
   assignment) breaks the invariant: a per-tensor 3x2 destination receiving a source quantized along its first axis *)
Example adopt_stale_axis_refuted :
  let q := QBytes qint8 None [3; 2] [2; 1] (T [3; 2] (repeat 0 6)) (T [] [5]) in
  let src := QBytes qint8 (Some 0) [3; 2] [2; 1] (T [3; 2] (repeat 1 6)) (T [3; 1] [1; 2; 3]) in
  qb_inv q = true /\ qb_inv src = true /\
  qb_inv (QBytes (qb_qtype q) (qb_axis q) (qb_size q) (qb_stride q) (qb_data src) (qb_scale src)) = false /\
  qb_inv (rewrap_adopt q src (qb_data src)) = true.
Proof. vm_compute. repeat split; reflexivity. Qed.
