(* C14: what the (generated) configuration checks of quantize_weight / quantize_activation / the
   quantizers / group accept and reject, and the automatic group size — for every shape, every
   argument value and any number type. *)
From Coq Require Import String List ZArith Bool Lia.
From QV Require Import Lib.Res Lib.Tensor Lib.ListFacts Lib.ND Lib.Num Lib.QTensor Model.Quant Proofs.QuantProofs.
Import ListNotations.
Open Scope Z_scope.

Ltac Zify.zify_post_hook ::= Z.div_mod_to_equations.

(* ---- automatic group size ---------------------------------------------------------------------- *)
Definition gs_of (n : Z) : option Z :=
  if n >? 128 then
    if n mod 128 =? 0 then Some 128
    else if n mod 96 =? 0 then Some 96
    else if n mod 64 =? 0 then Some 64
    else if n mod 32 =? 0 then Some 32
    else None
  else None.

Lemma gs_of_sound n g : gs_of n = Some g ->
  In g [128; 96; 64; 32] /\ n mod g = 0 /\ 128 < n /\ 0 < g <= n.
Proof.
  unfold gs_of. destruct (n >? 128) eqn:E0; [|discriminate]. apply Z.gtb_lt in E0.
  destruct (n mod 128 =? 0) eqn:E1; [intros H; injection H as <-; apply Z.eqb_eq in E1; simpl; intuition lia|].
  destruct (n mod 96 =? 0) eqn:E2; [intros H; injection H as <-; apply Z.eqb_eq in E2; simpl; intuition lia|].
  destruct (n mod 64 =? 0) eqn:E3; [intros H; injection H as <-; apply Z.eqb_eq in E3; simpl; intuition lia|].
  destruct (n mod 32 =? 0) eqn:E4; [intros H; injection H as <-; apply Z.eqb_eq in E4; simpl; intuition lia|].
  discriminate.
Qed.

Section Generic.
Context {F : Type} `{NF : Num F}.

Theorem auto_group_size_spec (w : tensor F) out rest :
  shape w = out :: rest -> out <> 0 ->
  auto_group_size w = Ok (gs_of (numel w / out)).
Proof.
  intros Hs Ho. unfold auto_group_size. rewrite Hs.
  change (py_index (out :: rest) 0) with
    (if (0 <=? 0) && (0 <? Z.of_nat (S (length rest))) then
       match nth_error (out :: rest) (Z.to_nat 0) with Some a => Ok a | None => Err "IndexError"%string end
     else Err "IndexError"%string).
  replace (0 <? Z.of_nat (S (length rest))) with true by bsolve.
  cbn [Z.leb Z.compare andb Z.to_nat nth_error bind].
  unfold guard_nz at 1. replace (out =? 0) with false by bsolve. cbn [negb guard bind].
  set (n := numel w / out). unfold gs_of.
  destruct (n >? 128) eqn:E0; [|reflexivity].
  cbn [mwhile bind guard_nz Z.eqb negb guard].
  destruct (n mod 128 =? 0) eqn:E1; cbn [negb andb bind]; [rewrite E1; reflexivity|].
  change (128 >? 32) with true. cbn [bind].
  change (128 - 32) with 96. cbn [guard_nz Z.eqb negb guard bind].
  destruct (n mod 96 =? 0) eqn:E2; cbn [negb andb bind]; [rewrite E2; reflexivity|].
  change (96 >? 32) with true. cbn [bind]. change (96 - 32) with 64. cbn [guard_nz Z.eqb negb guard bind].
  destruct (n mod 64 =? 0) eqn:E3; cbn [negb andb bind]; [rewrite E3; reflexivity|].
  change (64 >? 32) with true. cbn [bind]. change (64 - 32) with 32. cbn [guard_nz Z.eqb negb guard bind].
  destruct (n mod 32 =? 0) eqn:E4; cbn [negb andb bind]; [rewrite E4; reflexivity|].
  change (32 >? 32) with false. cbn [bind guard_nz Z.eqb negb guard]. rewrite E4. reflexivity.
Qed.

(* ---- group accepts exactly the divisors ------------------------------------------------------- *)
Lemma group_ok_shape (base : tensor F) axis g r :
  group base axis g = Ok r ->
  oz_in axis [0; -1] = true /\
  exists d, py_index_opt (shape base) axis = Ok d /\ d <> 0 /\
    (0 < g <= numel base / d /\ g <> 0 /\ (numel base / d) mod g = 0).
Proof.
  unfold group. intros H. mstep H. mstep H. mstep H. rewrite negb_involutive in G.
  split; [exact G|]. exists v. split; [reflexivity|].
  destruct (g <=? 0) eqn:Eg0; cbn [bind] in H; [discriminate H|]. apply Z.leb_gt in Eg0.
  destruct (g >? numel base / v) eqn:Eg; cbn [bind] in H; [discriminate H|].
  mstep H. mstep B0. injection B0 as <-. mstep H. bprop. repeat split; assumption || lia.
Qed.

Lemma group_rejects (base : tensor F) axis g d :
  oz_in axis [0; -1] = true -> py_index_opt (shape base) axis = Ok d -> d <> 0 ->
  (g <= 0 \/ numel base / d < g \/ (numel base / d) mod g <> 0) ->
  group base axis g = Err "ValueError"%string.
Proof.
  intros Ha Hd Hd0 Hbad. unfold group. rewrite Ha. cbn [negb guard bind]. rewrite Hd. cbn [bind].
  unfold guard_nz at 1. replace (d =? 0) with false by bsolve. cbn [negb guard bind].
  destruct (g <=? 0) eqn:Eg0; cbn [bind negb guard]; [reflexivity|]. apply Z.leb_gt in Eg0.
  destruct (g >? numel base / d) eqn:Eg; cbn [bind negb guard]; [reflexivity|].
  unfold guard_nz at 1. replace (g =? 0) with false by bsolve. cbn [negb guard bind].
  destruct Hbad as [Hb|[Hb|Hb]]; [lia|bprop; lia|].
  replace (numel base / d mod g =? 0) with false by bsolve. reflexivity.
Qed.

(* ---- the quantizers keep exactly what they were asked --------------------------------------------- *)
Lemma affine_forward_fields base q axis gs scale zp z :
  affine_forward base q axis gs scale zp = Ok z ->
  qz_qtype z = q /\ qz_axis z = axis /\ qz_group z = gs /\ qz_size z = shape base /\
  qz_scale z = scale /\ qz_zp z = zp /\
  existsb (qtype_eqb q) [qint2; qint4] = true /\ oz_in axis [0; -1] = true.
Proof.
  unfold affine_forward. intros H. mstep H. mstep H. rewrite negb_involutive in G, G0.
  repeat mstep H. injection H as <-. cbn. repeat split; assumption.
Qed.

Lemma affine_forward_rejects base q axis gs scale zp :
  existsb (qtype_eqb q) [qint2; qint4] = false \/ oz_in axis [0; -1] = false ->
  affine_forward base q axis gs scale zp = Err "ValueError"%string.
Proof.
  intros [H|H]; unfold affine_forward; [rewrite H; reflexivity|].
  destruct (existsb (qtype_eqb q) [qint2; qint4]); [|reflexivity]. cbn [negb guard bind]. rewrite H. reflexivity.
Qed.

Lemma sym_forward_axis base q axis scale r :
  sym_forward base q axis scale = Ok r ->
  match axis with
  | None => qb_axis r = None /\ rank scale <= 0
  | Some a => (qb_axis r = Some 0 \/ qb_axis r = Some (-1)) /\ rank base <> 1 /\ rank scale = rank base
              /\ (a = 0 \/ a = -1 \/ a = rank base - 1) /\ sq_ndim scale <= 1
  end.
Proof.
  unfold sym_forward. intros H. mstep H.
  assert (Hax : qb_axis r = v).
  { mstep H. destruct (q_isfloat q); cbn [negb bind] in H; injection H as <-; reflexivity. }
  clear H. rewrite Hax. clear Hax r.
  destruct axis as [a|]; cbn [oz_eqb] in B.
  - repeat mstep B.
    assert (Ev : v = v0) by congruence. subst v0. clear B.
    rewrite !negb_involutive in *. bprop.
    destruct (a =? rank base - 1) eqn:Ea; injection B0 as <-; cbn [oz_in zmem existsb] in G0; bprop.
    + repeat split; auto; lia.
    + assert (a = 0 \/ a = -1).
      { apply orb_true_iff in G0. destruct G0 as [G0|G0]; [apply Z.eqb_eq in G0; lia|].
        apply orb_true_iff in G0. destruct G0 as [G0|G0]; [apply Z.eqb_eq in G0; lia|discriminate]. }
      repeat split; try lia. destruct H; subst; auto.
  - mstep B. injection B as <-. bprop. split; [reflexivity|lia].
Qed.

(* ---- quantize_weight: accepted configurations are honoured ----------------------------------- *)
Theorem quantize_weight_accepts t q axis gs o r :
  quantize_weight t q axis gs o = Ok r ->
  oz_in axis [0; -1] = true /\
  (q_bits q = 8 ->
     gs = None /\ (o = None \/ opt_is_sym o = true) /\
     exists b, r = QB b /\ qb_qtype b = q /\ qb_size b = shape t) /\
  (q_bits q <> 8 ->
     (o = None \/ opt_is_aff o = true) /\
     exists z, r = QZ z /\ qz_qtype z = q /\ qz_axis z = axis /\ qz_group z = gs /\ qz_size z = shape t
               /\ existsb (qtype_eqb q) [qint2; qint4] = true
               /\ forall g, gs = Some g ->
                    exists d, py_index_opt (shape t) axis = Ok d /\ d <> 0 /\
                              0 < g <= numel t / d /\ g <> 0 /\ (numel t / d) mod g = 0).
Proof.
  unfold quantize_weight. intros H. mstep H. rewrite negb_involutive in G. split; [exact G|].
  destruct (q_bits q =? 8) eqn:E8; bprop.
  - split; [|intros; congruence]. intros _.
    mstep H. destruct gs as [g|]; [discriminate H|]. split; [reflexivity|].
    split.
    { destruct o as [k|]; [right|left; reflexivity].
      cbn in B. mstep B. rewrite negb_involutive in G0. exact G0. }
    repeat mstep H. injection H as <-. eexists. split; [reflexivity|].
    destruct (sym_forward_data _ _ _ _ _ B3) as (D & _ & _ & _ & Hq & Hsz). split; assumption.
  - split; [intros; congruence|]. intros _.
    mstep H. split.
    { destruct o as [k|]; [right|left; reflexivity].
      cbn in B. mstep B. rewrite negb_involutive in G0. exact G0. }
    mstep H. destruct v0 as [scale zp]. mstep H. injection H as <-.
    destruct (affine_forward_fields _ _ _ _ _ _ _ B1) as (F1 & F2 & F3 & F4 & _ & _ & F7 & _).
    eexists. split; [reflexivity|]. repeat split; try assumption.
    intros g ->.
    (* the optimizer grouped the tensor: group succeeded, hence g is an admissible divisor *)
    unfold apply_aff_optimizer in B0. destruct v as [[|]|]; try discriminate B0.
    unfold aff_opt_call in B0. mstep B0. cbn [bind] in B0. mstep B0. mstep B2.
    destruct (group_ok_shape _ _ _ _ B3) as (_ & d & Hd & Hd0 & H1 & H2 & H3).
    exists d. repeat split; assumption || lia.
Qed.

(* ---- quantize_weight / quantize_activation: every unsupported class is a ValueError -------------- *)
Theorem quantize_weight_rejects_axis t q axis gs o :
  oz_in axis [0; -1] = false -> quantize_weight t q axis gs o = Err "ValueError"%string.
Proof. intros H. unfold quantize_weight. rewrite H. reflexivity. Qed.

Theorem quantize_weight_rejects_group_8bit t q axis g o :
  oz_in axis [0; -1] = true -> q_bits q = 8 -> quantize_weight t q axis (Some g) o = Err "ValueError"%string.
Proof.
  intros Ha H8. unfold quantize_weight. rewrite Ha, H8. cbn [negb guard bind Z.eqb Pos.eqb].
  destruct o as [[|]|]; reflexivity.
Qed.

Theorem quantize_weight_rejects_optimizer_family t q axis gs :
  oz_in axis [0; -1] = true ->
  (q_bits q = 8 -> quantize_weight t q axis gs (Some MaxOpt) = Err "ValueError"%string) /\
  (q_bits q <> 8 -> quantize_weight t q axis gs (Some AbsmaxOpt) = Err "ValueError"%string).
Proof.
  intros Ha. split; intros H8; unfold quantize_weight; rewrite Ha; cbn [negb guard bind].
  - rewrite H8. reflexivity.
  - replace (q_bits q =? 8) with false by bsolve. reflexivity.
Qed.

Theorem quantize_weight_rejects_bad_group t q axis g o d :
  oz_in axis [0; -1] = true -> q_bits q <> 8 -> (o = None \/ o = Some MaxOpt) ->
  py_index_opt (shape t) axis = Ok d -> d <> 0 ->
  (g <= 0 \/ numel t / d < g \/ (numel t / d) mod g <> 0) ->
  quantize_weight t q axis (Some g) o = Err "ValueError"%string.
Proof.
  intros Ha H8 Ho Hd Hd0 Hbad. unfold quantize_weight. rewrite Ha. cbn [negb guard bind].
  replace (q_bits q =? 8) with false by bsolve.
  assert (E : apply_aff_optimizer (Some MaxOpt) t (q_bits q) axis (Some g) = Err "ValueError"%string).
  { unfold apply_aff_optimizer, aff_opt_call. rewrite Ha. cbn [negb guard bind].
    rewrite (group_rejects t axis g d Ha Hd Hd0 Hbad). reflexivity. }
  destruct Ho as [->| ->]; cbn [bind opt_is_aff negb guard]; rewrite E; reflexivity.
Qed.

Theorem quantize_activation_rejects_nonscalar t q scale :
  numel scale <> 1 -> quantize_activation t q scale = Err "ValueError"%string.
Proof.
  intros H. unfold quantize_activation. replace (numel scale =? 1) with false by bsolve. reflexivity.
Qed.

Theorem quantize_activation_accepts t q scale r :
  quantize_activation t q scale = Ok r ->
  numel scale = 1 /\ rank scale <= 0 /\ qb_qtype r = q /\ qb_axis r = None /\ qb_size r = shape t /\ qb_scale r = scale.
Proof.
  unfold quantize_activation. intros H. mstep H. rewrite negb_involutive in G. bprop. mstep H. injection H as <-.
  destruct (sym_forward_data _ _ _ _ _ B) as (D & _ & _ & Hs & Hq & Hsz).
  pose proof (sym_forward_axis _ _ _ _ _ B) as [Hax Hr]. repeat split; assumption.
Qed.

End Generic.
