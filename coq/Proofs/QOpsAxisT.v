(* C05, the one op that keeps a PER-AXIS quantized tensor quantized while moving data: aten.t (2-D transpose).
   The implementation transposes the payload, transposes the scale ((a,1) -> (1,a): the same flat values) and flips
   the axis.  Theorem: for any number type and any a x b matrix quantized along its first axis, transposing the
   dequantized matrix equals dequantizing the transposed payload with the transposed scale - element for element. *)
From Coq Require Import String List ZArith Bool Lia.
From QV Require Import Lib.Res Lib.Tensor Lib.ListFacts Lib.ND Lib.NDFacts Lib.Num Lib.QTensor Proofs.QuantProofs.
Import ListNotations.
Open Scope Z_scope.

Section AxisT.
Context {F : Type} `{NF : Num F}.

(* dequantization of a tensor of shape sh with a scale of shape ssh (dims 1 or equal): element j meets the scale
   value at its own axis index (the form proved for the generated dequantizer in C01_tensor_axis) *)
Definition deq_axis (sh ssh : list Z) (sd dd : list F) : tensor F :=
  T sh (map (fun j => n_mul (zget sd (sidx sh ssh j) f0) (zget dd j f0)) (zrange (prodZ sh))).

Definition src2 (a b j : Z) : Z := (j mod a) * b + j / a.   (* position, in the a x b matrix, of element j of its transpose *)

Lemma permute_10_data {A} (d : A) a b (dt : list A) :
  t_permute d [1; 0] (T [a; b] dt) =
  Ok (T [b; a] (map (fun j => zget dt (ravel [a; b] [zget (unravel [b; a] j) 1 0; zget (unravel [b; a] j) 0 0]) d)
                    (zrange (prodZ [b; a])))).
Proof. reflexivity. Qed.

Lemma ravel_unravel_t a b j : 0 < a -> 0 <= j ->
  ravel [a; b] [zget (unravel [b; a] j) 1 0; zget (unravel [b; a] j) 0 0] = src2 a b j.
Proof.
  intros Ha Hj. unfold src2. cbn [unravel ravel prodZ fold_right]. unfold zget. cbn [Z.to_nat nth Pos.to_nat Pos.iter_op Nat.add].
  rewrite !Z.mul_1_r, !Z.div_1_r, Z.add_0_r. reflexivity.
Qed.

Lemma src2_range a b j : 0 < a -> 0 < b -> 0 <= j < b * a -> 0 <= src2 a b j < a * b.
Proof.
  intros Ha Hb Hj. unfold src2.
  assert (H1 : 0 <= j mod a < a) by (apply Z.mod_pos_bound; lia).
  assert (H2 : 0 <= j / a < b) by (split; [apply Z.div_pos; lia | apply Z.div_lt_upper_bound; lia]).
  nia.
Qed.

(* the scale index of element j of the transposed tensor, and of its source element in the original *)
Lemma sidx_t a b j : 0 < a -> 0 <= j -> sidx [b; a] [1; a] j = j mod a.
Proof.
  intros Ha Hj. unfold sidx. cbn [unravel bidx map2 ravel prodZ fold_right].
  rewrite !Z.mul_1_r, Z.div_1_r. replace (1 =? 1) with true by reflexivity. cbn iota.
  destruct (Z.eqb_spec a 1) as [E|E].
  - subst a. rewrite Z.mod_1_r. lia.
  - lia.
Qed.

Lemma sidx_src a b j : 0 < a -> 0 < b -> 0 <= j < b * a -> sidx [a; b] [a; 1] (src2 a b j) = j mod a.
Proof.
  intros Ha Hb Hj. unfold sidx, src2.
  assert (H1 : 0 <= j mod a < a) by (apply Z.mod_pos_bound; lia).
  assert (H2 : 0 <= j / a < b) by (split; [apply Z.div_pos; lia | apply Z.div_lt_upper_bound; lia]).
  cbn [unravel bidx map2 ravel prodZ fold_right]. rewrite !Z.mul_1_r.
  assert (Hd : (j mod a * b + j / a) / b = j mod a).
  { rewrite Z.div_add_l by lia. rewrite (Z.div_small (j / a) b) by lia. lia. }
  rewrite Hd. replace (1 =? 1) with true by reflexivity. cbn iota. destruct (Z.eqb_spec a 1) as [E|E].
  - subst a. rewrite Z.mod_1_r. lia.
  - lia.
Qed.

Theorem transpose2d_commutes_with_dequantize (a b : Z) (sd dd : list F) :
  0 < a -> 0 < b -> zlen dd = a * b ->
  t_permute f0 [1; 0] (deq_axis [a; b] [a; 1] sd dd) =
  (moved <- t_permute f0 [1; 0] (T [a; b] dd) ;; Ok (deq_axis [b; a] [1; a] sd (data moved))).
Proof.
  intros Ha Hb Hlen. unfold deq_axis. rewrite !permute_10_data. cbn [bind data].
  f_equal. f_equal. replace (prodZ [b; a]) with (b * a) by (cbn; lia).
  apply map_ext_in. intros j Hj. apply in_map_iff in Hj. destruct Hj as (k & <- & Hk). apply in_seq in Hk.
  set (j := Z.of_nat k) in *. assert (Hjr : 0 <= j < b * a) by (unfold j; lia).
  rewrite (ravel_unravel_t a b j Ha ltac:(lia)).
  pose proof (src2_range a b j Ha Hb Hjr) as Hs.
  replace (prodZ [a; b]) with (a * b) by (cbn; lia).
  rewrite (zget_map_zrange _ (a * b) (src2 a b j) f0 Hs).
  rewrite (zget_map_zrange _ (b * a) j f0 Hjr).
  rewrite (ravel_unravel_t a b j Ha ltac:(lia)).
  rewrite (sidx_src a b j Ha Hb Hjr), (sidx_t a b j Ha ltac:(lia)). reflexivity.
Qed.
End AxisT.
