From Coq Require Import List ZArith Ring Reals Lia.
From QV Require Import Model.Grad.
Import ListNotations.

Section Adjoint.
Variable A : Type.
Variables (zero one : A) (add mul sub : A -> A -> A) (opp : A -> A).
Hypothesis Aring : ring_theory zero one add mul sub opp (@eq A).
Add Ring Ar : Aring.

Notation bsum := (bsum A zero add).
Notation "x + y" := (add x y). Notation "x * y" := (mul x y). Notation "x - y" := (sub x y).

Lemma bsum_ext n f g : (forall i, (i < n)%nat -> f i = g i) -> bsum n f = bsum n g.
Proof. induction n as [|n IH]; intros H; [reflexivity|]. cbn. rewrite IH, H; auto. Qed.

Lemma bsum_add n f g : bsum n (fun i => f i + g i) = bsum n f + bsum n g.
Proof. induction n as [|n IH]; cbn; [ring|rewrite IH; ring]. Qed.

Lemma bsum_sub n f g : bsum n (fun i => f i - g i) = bsum n f - bsum n g.
Proof. induction n as [|n IH]; cbn; [ring|rewrite IH; ring]. Qed.

Lemma bsum_scal n c f : bsum n (fun i => c * f i) = c * bsum n f.
Proof. induction n as [|n IH]; cbn; [ring|rewrite IH; ring]. Qed.

Lemma bsum_zero n : bsum n (fun _ => zero) = zero.
Proof. induction n as [|n IH]; cbn; [reflexivity|rewrite IH; ring]. Qed.

Lemma bsum_swap n m (f : nat -> nat -> A) : bsum n (fun i => bsum m (fun j => f i j)) = bsum m (fun j => bsum n (fun i => f i j)).
Proof.
  induction n as [|n IH]; cbn.
  - symmetry. apply bsum_zero.
  - rewrite IH, <- bsum_add. reflexivity.
Qed.

Notation lin_forward := (lin_forward A zero add mul).
Notation pairing := (pairing A zero add mul).
Notation grad_input := (grad_input A zero add mul).
Notation grad_weight := (grad_weight A zero add mul).
Notation grad_bias := (grad_bias A zero add).

(* The forward is affine in each of X, W, b; the gradient of an affine map is THE vector g with
   L(v + dv) - L(v) = <g, dv> for every dv.  The three backward formulas are exactly that, for every
   number of rows N (any leading shape), M, K, operands and upstream gradient G. *)
Theorem grad_input_adjoint N M K (X dX W : mat A) (b : vec A) (G : mat A) :
  pairing N M G (lin_forward K (fun n k => X n k + dX n k) W b) - pairing N M G (lin_forward K X W b)
  = bsum N (fun n => bsum K (fun k => grad_input M G W n k * dX n k)).
Proof.
  unfold pairing. rewrite <- bsum_sub. apply bsum_ext. intros n _.
  rewrite <- bsum_sub. unfold grad_input, lin_forward.
  transitivity (bsum M (fun m => bsum K (fun k => G n m * W m k * dX n k))).
  - apply bsum_ext. intros m _.
    transitivity (G n m * (bsum K (fun k => (X n k + dX n k) * W m k) - bsum K (fun k => X n k * W m k))); [ring|].
    rewrite <- bsum_sub, <- bsum_scal. apply bsum_ext. intros k _. ring.
  - rewrite bsum_swap. apply bsum_ext. intros k _.
    transitivity (bsum M (fun m => dX n k * (G n m * W m k))); [apply bsum_ext; intros; ring|]. rewrite bsum_scal. ring.
Qed.

Theorem grad_weight_adjoint N M K (X W dW : mat A) (b : vec A) (G : mat A) :
  pairing N M G (lin_forward K X (fun m k => W m k + dW m k) b) - pairing N M G (lin_forward K X W b)
  = bsum M (fun m => bsum K (fun k => grad_weight N G X m k * dW m k)).
Proof.
  unfold pairing. rewrite <- bsum_sub.
  transitivity (bsum N (fun n => bsum M (fun m => bsum K (fun k => G n m * X n k * dW m k)))).
  - apply bsum_ext. intros n _. rewrite <- bsum_sub. apply bsum_ext. intros m _. unfold lin_forward.
    transitivity (G n m * (bsum K (fun k => X n k * (W m k + dW m k)) - bsum K (fun k => X n k * W m k))); [ring|].
    rewrite <- bsum_sub, <- bsum_scal. apply bsum_ext. intros k _. ring.
  - rewrite bsum_swap. apply bsum_ext. intros m _. rewrite bsum_swap. apply bsum_ext. intros k _.
    unfold grad_weight. transitivity (bsum N (fun n => dW m k * (G n m * X n k))); [apply bsum_ext; intros; ring|]. rewrite bsum_scal. ring.
Qed.

Theorem grad_bias_adjoint N M K (X W : mat A) (b db : vec A) (G : mat A) :
  pairing N M G (lin_forward K X W (fun m => b m + db m)) - pairing N M G (lin_forward K X W b)
  = bsum M (fun m => grad_bias N G m * db m).
Proof.
  unfold pairing. rewrite <- bsum_sub.
  transitivity (bsum N (fun n => bsum M (fun m => G n m * db m))).
  - apply bsum_ext. intros n _. rewrite <- bsum_sub. apply bsum_ext. intros m _. unfold lin_forward. ring.
  - rewrite bsum_swap. apply bsum_ext. intros m _. unfold grad_bias.
    transitivity (bsum N (fun n => db m * G n m)); [apply bsum_ext; intros; ring|]. rewrite bsum_scal. ring.
Qed.

(* uniqueness: a family g that pairs like the gradient against every direction IS the gradient *)
Lemma bsum_delta n (g : nat -> A) i : (i < n)%nat -> bsum n (fun j => g j * (if Nat.eqb j i then one else zero)) = g i.
Proof.
  induction n as [|n IH]; intros H; [inversion H|]. cbn.
  destruct (Nat.eqb_spec n i) as [->|Hne].
  - assert (E : bsum i (fun j => g j * (if Nat.eqb j i then one else zero)) = zero).
    { transitivity (bsum i (fun _ => zero)); [|apply bsum_zero]. apply bsum_ext. intros j Hj. destruct (Nat.eqb_spec j i); [subst; exfalso; clear -Hj; lia|ring]. }
    rewrite E. ring.
  - rewrite IH; [ring|]. clear -H Hne. lia.
Qed.

Theorem gradient_unique n (g h : nat -> A) :
  (forall d : nat -> A, bsum n (fun j => g j * d j) = bsum n (fun j => h j * d j)) -> forall i, (i < n)%nat -> g i = h i.
Proof.
  intros H i Hi. specialize (H (fun j => if Nat.eqb j i then one else zero)). cbv beta in H. rewrite !bsum_delta in H by exact Hi. exact H.
Qed.
End Adjoint.

(* instances: the reals (the property) and the integers (the executable model run against the implementation) *)
Definition grad_input_adjoint_R := grad_input_adjoint R 0%R 1%R Rplus Rmult Rminus Ropp RTheory.
Definition grad_weight_adjoint_R := grad_weight_adjoint R 0%R 1%R Rplus Rmult Rminus Ropp RTheory.
Definition grad_bias_adjoint_R := grad_bias_adjoint R 0%R 1%R Rplus Rmult Rminus Ropp RTheory.
Definition grad_input_adjoint_Z := grad_input_adjoint Z 0%Z 1%Z Z.add Z.mul Z.sub Z.opp Zth.
Print Assumptions grad_input_adjoint_Z.
Print Assumptions grad_weight_adjoint_R.
