(* Facts about the Flocq-backed float model of Float/F.v, for a generic format (prec, emax):
   small integers are exact, max/min/clamp on finite values, rounding error u|x| + eta,
   exactness of the int8 cast on in-range integers. *)
From Coq Require Import ZArith Reals Lra Lia List Bool Psatz.
From Flocq Require Import Core IEEE754.BinarySingleNaN.
From QV Require Import Lib.Num Float.F.
Open Scope R_scope.

Section FF.
Variables prec emax : Z.
Context (Hp : Prec_gt_0 prec) (Hpe : Prec_lt_emax prec emax).
Hypothesis Hprec8 : (8 <= prec)%Z.
Hypothesis Hemax9 : (9 <= emax)%Z.

Notation fl := (binary_float prec emax).
Notation femin := (SpecFloat.emin prec emax).
Notation fexp := (SpecFloat.fexp prec emax).
Notation rnd := (round radix2 fexp ZnearestE).
Notation B2R := (@B2R prec emax).

Definition uro : R := / 2 * bpow radix2 (- prec + 1).     (* unit roundoff 2^-prec *)
Definition eta : R := / 2 * bpow radix2 femin.            (* half the smallest subnormal *)

Instance fexp_valid : Valid_exp fexp := FLT_exp_valid femin prec.
Lemma femin_eq : femin = (3 - emax - prec)%Z. Proof. reflexivity. Qed.

Lemma uro_pos : 0 < uro. Proof. unfold uro. pose proof (bpow_gt_0 radix2 (- prec + 1)). lra. Qed.
Lemma eta_pos : 0 < eta. Proof. unfold eta. pose proof (bpow_gt_0 radix2 femin). lra. Qed.

(* |round x - x| <= u |x| + eta  for every real x *)
Lemma rnd_err (x : R) : Rabs (rnd x - x) <= uro * Rabs x + eta.
Proof.
  pose proof (error_le_half_ulp radix2 fexp (fun z => negb (Z.even z)) x) as H.
  change fexp with (FLT_exp femin prec) in *.
  destruct (Rle_or_lt (bpow radix2 (femin + prec - 1)) (Rabs x)) as [Hb|Hs].
  - pose proof (ulp_FLT_le radix2 femin prec x Hb) as Hu.
    pose proof eta_pos. unfold uro. fold ZnearestE in H.
    replace (- prec + 1)%Z with (1 - prec)%Z by lia. nra.
  - assert (Hs' : Rabs x < bpow radix2 (femin + prec)).
    { eapply Rlt_le_trans; [exact Hs|]. apply bpow_le. lia. }
    pose proof (ulp_FLT_small radix2 femin prec x Hs') as Hu.
    fold ZnearestE in H. rewrite Hu in H. unfold eta.
    pose proof uro_pos. pose proof (Rabs_pos x). nra.
Qed.

(* small integers are floats *)
Lemma small_int_format (k : Z) : (Z.abs k <= 255)%Z -> generic_format radix2 fexp (IZR k).
Proof.
  intros Hk. change fexp with (FLT_exp femin prec). apply generic_format_FLT. exists (Float radix2 k 0).
  - unfold F2R. simpl. ring.
  - simpl. apply Z.le_lt_trans with 255%Z; [exact Hk|].
    apply Z.lt_le_trans with (2 ^ 8)%Z; [reflexivity|].
    apply Z.pow_le_mono_r; lia.
  - cbn [Fexp]. rewrite femin_eq. lia.
Qed.

Lemma bpow_emax_big : 512 <= bpow radix2 emax.
Proof. change 512 with (bpow radix2 9). apply bpow_le. exact Hemax9. Qed.

Lemma fof_Z_exact (k : Z) : (Z.abs k <= 255)%Z ->
  B2R (fof_Z prec emax Hp Hpe k) = IZR k /\ is_finite (fof_Z prec emax Hp Hpe k) = true.
Proof.
  intros Hk. unfold fof_Z.
  pose proof (binary_normalize_correct prec emax Hp Hpe mode_NE k 0 false) as H.
  cbv zeta in H.
  assert (E : F2R (Float radix2 k 0) = IZR k) by (unfold F2R; simpl; ring).
  rewrite E in H. simpl round_mode in H.
  rewrite (round_generic radix2 fexp ZnearestE (IZR k) (small_int_format k Hk)) in H.
  rewrite Rlt_bool_true in H.
  - destruct H as (H1 & H2 & _). split; assumption.
  - pose proof bpow_emax_big. rewrite <- abs_IZR.
    apply Rle_lt_trans with 255; [apply IZR_le; exact Hk | lra].
Qed.

(* max / min on finite floats *)
Lemma fmax_finite (a b : fl) : is_finite a = true -> is_finite b = true ->
  B2R (fmax prec emax a b) = Rmax (B2R a) (B2R b) /\ is_finite (fmax prec emax a b) = true.
Proof.
  intros Fa Fb.
  assert (E : fmax prec emax a b = if Bltb a b then b else a).
  { destruct a; try discriminate Fa; destruct b; try discriminate Fb; reflexivity. }
  rewrite E, (Bltb_correct prec emax a b Fa Fb).
  destruct (Rlt_bool_spec (B2R a) (B2R b)) as [H|H];
    [rewrite Rmax_right by lra | rewrite Rmax_left by lra]; split; (reflexivity || assumption).
Qed.

Lemma fmin_finite (a b : fl) : is_finite a = true -> is_finite b = true ->
  B2R (fmin prec emax a b) = Rmin (B2R a) (B2R b) /\ is_finite (fmin prec emax a b) = true.
Proof.
  intros Fa Fb.
  assert (E : fmin prec emax a b = if Bltb b a then b else a).
  { destruct a; try discriminate Fa; destruct b; try discriminate Fb; reflexivity. }
  rewrite E, (Bltb_correct prec emax b a Fb Fa).
  destruct (Rlt_bool_spec (B2R b) (B2R a)) as [H|H];
    [rewrite Rmin_right by lra | rewrite Rmin_left by lra]; split; (reflexivity || assumption).
Qed.

(* max / min against an infinity (the float quotient overflowed) *)
Lemma fmax_inf_l (sgn : bool) (b : fl) : is_finite b = true ->
  fmax prec emax (B754_infinity sgn) b = if sgn then b else B754_infinity false.
Proof. intros Fb. destruct b; try discriminate Fb; destruct sgn; reflexivity. Qed.

Lemma fmin_pinf_l (b : fl) : is_finite b = true -> fmin prec emax (B754_infinity false) b = b.
Proof. intros Fb. destruct b as [s| | |s m e H]; try discriminate Fb; destruct s; reflexivity. Qed.

(* a finite float whose value is the integer k converts to exactly k *)
Lemma to_Z_exact (x : fl) (k : Z) : is_finite x = true -> B2R x = IZR k -> to_Z prec emax x = Some k.
Proof.
  intros Fx Hx. destruct x as [s| | |s m e Hb]; try discriminate Fx.
  - simpl in Hx. change 0 with (IZR 0) in Hx. apply eq_IZR in Hx. subst k. reflexivity.
  - cbn [to_Z]. unfold BinarySingleNaN.B2R, F2R in Hx. cbn [Fnum Fexp] in Hx.
    destruct (Z.leb_spec 0 e) as [He|He].
    + rewrite <- IZR_Zpower in Hx by exact He. rewrite <- mult_IZR in Hx. apply eq_IZR in Hx.
      f_equal. rewrite <- Hx. change (Zpower radix2 e) with (2 ^ e)%Z. destruct s; cbn [cond_Zopp]; lia.
    + assert (Hpw : bpow radix2 e * bpow radix2 (- e) = 1).
      { rewrite <- bpow_plus. replace (e + - e)%Z with 0%Z by lia. reflexivity. }
      assert (Hm : IZR (cond_Zopp s (Z.pos m)) = IZR k * bpow radix2 (- e)).
      { rewrite <- Hx. rewrite Rmult_assoc, Hpw. ring. }
      rewrite <- IZR_Zpower in Hm by lia. rewrite <- mult_IZR in Hm. apply eq_IZR in Hm.
      change (Zpower radix2 (- e)) with (2 ^ (- e))%Z in Hm.
      assert (Hpp : (0 < 2 ^ (- e))%Z) by (apply Z.pow_pos_nonneg; lia).
      f_equal. destruct s; cbn [cond_Zopp] in Hm.
      * assert (Z.pos m = (- k) * 2 ^ (- e))%Z by lia. rewrite H, Z.div_mul by lia. lia.
      * rewrite Hm, Z.div_mul by lia. reflexivity.
Qed.

Lemma cast_int8_exact (x : fl) (k : Z) : is_finite x = true -> B2R x = IZR k -> (-128 <= k <= 127)%Z ->
  cast_wrap prec emax Hp Hpe true x = fof_Z prec emax Hp Hpe k /\ code_byte prec emax SInt8 x = k.
Proof.
  intros Fx Hx Hk. unfold cast_wrap, code_byte. rewrite (to_Z_exact x k Fx Hx).
  replace (2147483648 <=? Z.abs k)%Z with false by (symmetry; apply Z.leb_gt; lia).
  replace ((k + 128) mod 256 - 128)%Z with k by (rewrite Z.mod_small by lia; lia).
  split; reflexivity.
Qed.

End FF.
