From Coq Require Import String Ascii List ZArith Bool Lia.
From QV Require Import Model.Codec Proofs.CodecProofs Model.Serial.
Import ListNotations.
Open Scope string_scope.

Lemma strip_app p s : strip p (p ++ s) = Some s.
Proof. induction p as [|a p IH]; [reflexivity|]. cbn. rewrite Ascii.eqb_refl. exact IH. Qed.

Lemma strip_app2 p a b : strip (p ++ a) (p ++ b) = strip a b.
Proof. induction p as [|c p IH]; [reflexivity|]. cbn. rewrite Ascii.eqb_refl. exact IH. Qed.

Lemma strip_eq p s n : strip p s = Some n -> s = p ++ n.
Proof.
  revert s. induction p as [|a p IH]; intros s; cbn; [congruence|].
  destruct s as [|b s]; [discriminate|]. destruct (Ascii.eqb_spec a b); [subst|discriminate]. intros H. f_equal. apply IH. exact H.
Qed.

Lemma collect_app p d1 d2 :
  collect p (d1 ++ d2)%list = (fst (collect p d1) ++ fst (collect p d2), snd (collect p d1) ++ snd (collect p d2))%list.
Proof.
  induction d1 as [|[k v] d1 IH]; cbn [app collect].
  - destruct (collect p d2); reflexivity.
  - rewrite IH. destruct (collect p d1) as [m1 r1], (collect p d2) as [m2 r2]. cbn [fst snd].
    destruct (strip p k); reflexivity.
Qed.

Lemma collect_free p d : prefix_free p d -> collect p d = ([], d).
Proof.
  induction 1 as [|[k v] d Hk _ IH]; [reflexivity|]. cbn [collect]. rewrite IH. cbn in Hk. rewrite Hk. reflexivity.
Qed.

Lemma collect_addp p fs : collect p (addp p fs) = (fs, []).
Proof.
  unfold addp. induction fs as [|[n v] fs IH]; [reflexivity|]. cbn [map collect fst snd]. rewrite IH, strip_app. reflexivity.
Qed.

(* keys under a longer prefix that the shorter one's own fields do not carry *)
Lemma collect_other p q fs : Forall (fun nv => strip q (fst nv) = None) fs -> collect (p ++ q) (addp p fs) = ([], addp p fs).
Proof.
  unfold addp. induction 1 as [|[n v] fs Hn _ IH]; [reflexivity|]. cbn [map collect fst snd] in *. rewrite IH, strip_app2, Hn. reflexivity.
Qed.

Lemma pop_free p n d : prefix_free p d -> forall d2, pop (p ++ n) (d ++ d2)%list = match pop (p ++ n) d2 with Some (v, r) => Some (v, d ++ r)%list | None => None end.
Proof.
  induction 1 as [|[k v] d Hk _ IH]; intros d2; cbn [app pop].
  - destruct (pop (p ++ n) d2) as [[? ?]|]; reflexivity.
  - cbn in Hk. destruct (String.eqb_spec (p ++ n) k) as [E|_].
    + subst k. rewrite strip_app in Hk. discriminate.
    + rewrite IH. destruct (pop (p ++ n) d2) as [[? ?]|]; reflexivity.
Qed.

Lemma pop_head k v d : pop k ((k, v) :: d) = Some (v, d).
Proof. cbn. rewrite String.eqb_refl. reflexivity. Qed.

Lemma prefix_free_longer p q d : prefix_free p d -> prefix_free (p ++ q) d.
Proof.
  induction 1 as [|[k v] d Hk _ IH]; constructor; [|exact IH]. cbn in *.
  destruct (strip (p ++ q) k) eqn:E; [|reflexivity]. apply strip_eq in E. subst k.
  assert (H : (p ++ q) ++ s = p ++ (q ++ s)) by (clear; induction p; cbn; congruence).
  rewrite H, strip_app in Hk. discriminate.
Qed.

Lemma show_opt_parse o : (v <- parse (show_opt o) ;; as_opt_int v) = Some o.
Proof. destruct o as [z|]; unfold show_opt; rewrite parse_show; reflexivity. Qed.

Ltac meta_solve :=
  unfold meta_val, meta_str; cbn [assoc String.eqb Ascii.eqb Bool.eqb fst snd];
  repeat (rewrite ?parse_show, ?show_opt_parse; cbn [as_int as_seq as_opt_int]).

(* ---- PackedTensor: loading what was saved under a prefix returns it and removes exactly its keys ---- *)
Theorem packed_roundtrip p t pre post :
  prefix_free p pre -> prefix_free p post ->
  load_packed p (pre ++ addp p (flat_packed t) ++ post)%list = Some (t, (pre ++ post)%list).
Proof.
  intros Hpre Hpost. unfold load_packed.
  rewrite (pop_free p "_data" pre Hpre). cbn [flat_packed addp map fst snd app]. rewrite pop_head. cbn [as_tensor].
  rewrite collect_app, (collect_free p pre Hpre). cbn [fst snd].
  change ((p ++ "bits", LS (show (PInt (pk_bits t)))) :: (p ++ "size", LS (show (PList (pk_size t)))) :: (p ++ "stride", LS (show (PTuple (pk_stride t)))) :: post)
    with (addp p [("bits", LS (show (PInt (pk_bits t)))); ("size", LS (show (PList (pk_size t)))); ("stride", LS (show (PTuple (pk_stride t))))] ++ post)%list.
  rewrite collect_app, collect_addp, (collect_free p post Hpost). cbn [fst snd app length Nat.eqb negb].
  meta_solve. destruct t; reflexivity.
Qed.

Theorem qbytes_roundtrip p t pre post :
  prefix_free p pre -> prefix_free p post ->
  load_qbytes p (pre ++ addp p (flat_qbytes t) ++ post)%list = Some (t, (pre ++ post)%list).
Proof.
  intros Hpre Hpost. unfold load_qbytes.
  rewrite (pop_free p "_data" pre Hpre). cbn [flat_qbytes addp map fst snd app]. rewrite pop_head. cbn [as_tensor].
  rewrite (pop_free p "_scale" pre Hpre), pop_head. cbn [as_tensor].
  rewrite collect_app, (collect_free p pre Hpre). cbn [fst snd].
  change ((p ++ "qtype", LS (qb_qtype t)) :: (p ++ "axis", LS (show_opt (qb_axis t))) :: (p ++ "size", LS (show (PList (qb_size t)))) :: (p ++ "stride", LS (show (PList (qb_stride t)))) :: post)
    with (addp p [("qtype", LS (qb_qtype t)); ("axis", LS (show_opt (qb_axis t))); ("size", LS (show (PList (qb_size t)))); ("stride", LS (show (PList (qb_stride t))))] ++ post)%list.
  rewrite collect_app, collect_addp, (collect_free p post Hpost). cbn [fst snd app length Nat.eqb negb].
  meta_solve. destruct t; reflexivity.
Qed.

Lemma addp_addp p q fs : addp p (addp q fs) = addp (p ++ q) fs.
Proof.
  unfold addp. induction fs as [|[n v] fs IH]; [reflexivity|]. cbn [map fst snd]. rewrite IH. f_equal. f_equal.
  clear. induction p; cbn; congruence.
Qed.

Theorem qbits_roundtrip p t pre post :
  prefix_free p pre -> prefix_free p post ->
  load_qbits p (pre ++ addp p (flat_qbits t) ++ post)%list = Some (t, (pre ++ post)%list).
Proof.
  intros Hpre Hpost. unfold load_qbits, flat_qbits.
  unfold addp at 1. rewrite map_app. fold (addp p (addp "_data." (flat_packed (qi_data t)))). fold (addp p (flat_qbits_own t)).
  rewrite addp_addp, <- app_assoc.
  (* the payload *)
  assert (Hown : prefix_free (p ++ "_data.") (addp p (flat_qbits_own t) ++ post)%list).
  { apply Forall_app. split; [|apply prefix_free_longer; exact Hpost].
    cbn [flat_qbits_own addp map fst snd]. repeat constructor; cbn [fst]; rewrite strip_app2; reflexivity. }
  rewrite (packed_roundtrip (p ++ "_data.") (qi_data t) pre _ (prefix_free_longer p "_data." pre Hpre) Hown).
  rewrite (pop_free p "_scale" pre Hpre). cbn [flat_qbits_own addp map fst snd app]. rewrite pop_head. cbn [as_tensor].
  rewrite (pop_free p "_zeropoint" pre Hpre), pop_head. cbn [as_tensor].
  rewrite collect_app, (collect_free p pre Hpre). cbn [fst snd].
  change ((p ++ "qtype", LS (qi_qtype t)) :: (p ++ "axis", LS (show_opt (qi_axis t))) :: (p ++ "group_size", LS (show_opt (qi_group t))) :: (p ++ "size", LS (show (PList (qi_size t)))) :: (p ++ "stride", LS (show (PList (qi_stride t)))) :: post)
    with (addp p [("qtype", LS (qi_qtype t)); ("axis", LS (show_opt (qi_axis t))); ("group_size", LS (show_opt (qi_group t))); ("size", LS (show (PList (qi_size t)))); ("stride", LS (show (PList (qi_stride t))))] ++ post)%list.
  rewrite collect_app, collect_addp, (collect_free p post Hpost). cbn [fst snd app length Nat.eqb negb].
  meta_solve. destruct t; reflexivity.
Qed.
Print Assumptions qbits_roundtrip.
