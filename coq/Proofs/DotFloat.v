(* C07, "within the floating-point error of one accumulation": the rounding error of a sum of products
   evaluated in IEEE arithmetic (Flocq), for ANY format and ANY order of accumulation.
   An accumulation is a tree: leaves are rounded products a*b, inner nodes are rounded additions of two partial
   sums or fused multiply-adds a*b + partial sum (one rounding).  Every kernel route of quanto's matmul (blocked,
   vectorised, pairwise or sequential, with or without FMA) is such a tree over the same K products.
   Theorem [sumtree_error]: whenever the float result is finite (no overflow anywhere),
       | fl(T) - sum a_i*b_i |  <=  ((1+u)^h - 1) * sum |a_i*b_i|  +  n * (1+u)^h * eta
   h = height of the tree (roundings on the longest path, <= K), n = number of nodes, u = 2^-prec, eta = half the
   smallest subnormal.  The audit's bound ((K+2)u + ...) * sum|x||w| is an instance (first order in u). *)
From Coq Require Import ZArith Reals Lra Lia List Bool Psatz.
From Flocq Require Import Core Relative IEEE754.BinarySingleNaN.
From QV Require Import Lib.Num Float.F Proofs.FloatFacts.
Local Open Scope R_scope.

Section Dot.
Variables prec emax : Z.
Context (Hp : Prec_gt_0 prec) (Hpe : Prec_lt_emax prec emax).

Notation fl := (binary_float prec emax).
Notation fexp := (SpecFloat.fexp prec emax).
Notation rnd := (round radix2 fexp ZnearestE).
Notation B2R := (@B2R prec emax).
Notation u := (uro prec).
Notation eta := (eta prec emax).
Existing Instance fexp_valid.

Inductive sumtree :=
| SProd (a b : fl)
| SAdd (l r : sumtree)
| SFma (a b : fl) (acc : sumtree).

Fixpoint feval (t : sumtree) : fl :=
  match t with
  | SProd a b => Bmult mode_NE a b
  | SAdd l r => Bplus mode_NE (feval l) (feval r)
  | SFma a b acc => Bfma mode_NE a b (feval acc)
  end.

Fixpoint reval (t : sumtree) : R :=
  match t with
  | SProd a b => B2R a * B2R b
  | SAdd l r => reval l + reval r
  | SFma a b acc => B2R a * B2R b + reval acc
  end.

Fixpoint aeval (t : sumtree) : R :=
  match t with
  | SProd a b => Rabs (B2R a * B2R b)
  | SAdd l r => aeval l + aeval r
  | SFma a b acc => Rabs (B2R a * B2R b) + aeval acc
  end.

Fixpoint height (t : sumtree) : nat :=
  match t with
  | SProd _ _ => 1
  | SAdd l r => S (Nat.max (height l) (height r))
  | SFma _ _ acc => S (height acc)
  end.

Fixpoint size (t : sumtree) : nat :=
  match t with
  | SProd _ _ => 1
  | SAdd l r => S (size l + size r)
  | SFma _ _ acc => S (size acc)
  end.

Lemma reval_le_aeval t : Rabs (reval t) <= aeval t.
Proof.
  induction t as [a b|l IHl r IHr|a b acc IH]; cbn [reval aeval].
  - lra.
  - eapply Rle_trans; [apply Rabs_triang|]. lra.
  - eapply Rle_trans; [apply Rabs_triang|]. lra.
Qed.

Lemma aeval_nonneg t : 0 <= aeval t.
Proof. eapply Rle_trans; [apply Rabs_pos | apply (reval_le_aeval t)]. Qed.

(* ---- a finite result has finite operands and is the rounded exact result ------------------------------ *)
Lemma overflow_not_finite (x : fl) (s : bool) : B2SF x = binary_overflow prec emax mode_NE s -> is_finite x = false.
Proof. intros H. rewrite <- is_finite_SF_B2SF, H. reflexivity. Qed.

Lemma Bmult_finite (a b : fl) : is_finite (Bmult mode_NE a b) = true ->
  is_finite a = true /\ is_finite b = true /\ B2R (Bmult mode_NE a b) = rnd (B2R a * B2R b).
Proof.
  intros F. pose proof (Bmult_correct prec emax Hp Hpe mode_NE a b) as H. cbn [round_mode] in H.
  destruct (Rlt_bool_spec (Rabs (rnd (B2R a * B2R b))) (bpow radix2 emax)) as [_|_].
  - destruct H as (H1 & H2 & _). rewrite F in H2. symmetry in H2. apply andb_true_iff in H2.
    destruct H2 as [Fa Fb]. repeat split; assumption.
  - apply overflow_not_finite in H. congruence.
Qed.

Lemma Bplus_finite (a b : fl) : is_finite (Bplus mode_NE a b) = true ->
  is_finite a = true /\ is_finite b = true /\ B2R (Bplus mode_NE a b) = rnd (B2R a + B2R b).
Proof.
  intros F.
  assert (Fab : is_finite a = true /\ is_finite b = true).
  { destruct a as [sa|sa| |sa ma ea Ha]; destruct b as [sb|sb| |sb mb eb Hb]; cbn [Bplus is_finite] in F |- *;
      try (split; reflexivity); try discriminate F.
    destruct (Bool.eqb sa sb); discriminate F. }
  destruct Fab as [Fa Fb]. split; [exact Fa|]. split; [exact Fb|].
  pose proof (Bplus_correct prec emax Hp Hpe mode_NE a b Fa Fb) as H. cbn [round_mode] in H.
  destruct (Rlt_bool_spec (Rabs (rnd (B2R a + B2R b))) (bpow radix2 emax)) as [_|_].
  - exact (proj1 H).
  - destruct H as [H _]. apply overflow_not_finite in H. congruence.
Qed.

Lemma Bfma_finite (a b c : fl) : is_finite (Bfma mode_NE a b c) = true ->
  is_finite a = true /\ is_finite b = true /\ is_finite c = true /\
  B2R (Bfma mode_NE a b c) = rnd (B2R a * B2R b + B2R c).
Proof.
  intros F.
  assert (Fabc : is_finite a = true /\ is_finite b = true /\ is_finite c = true).
  { destruct a as [sa|sa| |sa ma ea Ha]; destruct b as [sb|sb| |sb mb eb Hb]; destruct c as [sc|sc| |sc mc ec Hc];
      cbn [Bfma is_finite] in F |- *; try (repeat split; reflexivity); try discriminate F;
      try (destruct (Bool.eqb (xorb sa sb) sc); discriminate F). }
  destruct Fabc as (Fa & Fb & Fc). repeat split; try assumption.
  pose proof (Bfma_correct prec emax Hp Hpe mode_NE a b c Fa Fb Fc) as H. cbv zeta in H. cbn [round_mode] in H.
  destruct (Rlt_bool_spec (Rabs (rnd (B2R a * B2R b + B2R c))) (bpow radix2 emax)) as [_|_].
  - exact (proj1 H).
  - apply overflow_not_finite in H. congruence.
Qed.

(* ---- the bound ------------------------------------------------------------------------------------- *)
Definition g (h : nat) : R := (1 + u) ^ h - 1.

Lemma pow1u_ge_1 (h : nat) : 1 <= (1 + u) ^ h.
Proof. apply pow_R1_Rle. pose proof (uro_pos prec). lra. Qed.

Lemma pow1u_mono (h k : nat) : (h <= k)%nat -> (1 + u) ^ h <= (1 + u) ^ k.
Proof. intros H. apply Rle_pow; [pose proof (uro_pos prec); lra | exact H]. Qed.

Lemma g_nonneg h : 0 <= g h. Proof. unfold g. pose proof (pow1u_ge_1 h). lra. Qed.
Lemma g_mono h k : (h <= k)%nat -> g h <= g k.
Proof. intros H. unfold g. pose proof (pow1u_mono h k H). lra. Qed.
Lemma g_step h : (1 + u) * g h + u = g (S h).
Proof. unfold g. simpl. ring. Qed.

Definition bound (t : sumtree) : R := g (height t) * aeval t + INR (size t) * (1 + u) ^ height t * eta.

(* one rounded combination of two partial results whose errors obey their bounds *)
Lemma combine_step (x y rx ry ax ay ex ey : R) (hx hy h : nat) (nx ny : R) :
  Rabs (x - rx) <= g hx * ax + nx * (1 + u) ^ hx * eta ->
  Rabs (y - ry) <= g hy * ay + ny * (1 + u) ^ hy * eta ->
  Rabs rx <= ax -> Rabs ry <= ay -> 0 <= nx -> 0 <= ny ->
  (hx <= h)%nat -> (hy <= h)%nat ->
  Rabs (rnd (x + y) - (rx + ry)) <= g (S h) * (ax + ay) + (1 + nx + ny) * (1 + u) ^ (S h) * eta.
Proof.
  intros Ex Ey Hax Hay Hnx Hny Hhx Hhy.
  pose proof (uro_pos prec) as Hu. pose proof (eta_pos prec emax) as He.
  pose proof (rnd_err prec emax Hp (x + y)) as Hr.
  pose proof (g_mono hx h Hhx) as Gx. pose proof (g_mono hy h Hhy) as Gy.
  pose proof (pow1u_mono hx h Hhx) as Px. pose proof (pow1u_mono hy h Hhy) as Py.
  pose proof (g_nonneg hx) as G0x. pose proof (g_nonneg hy) as G0y. pose proof (g_nonneg h) as G0.
  pose proof (pow1u_ge_1 h) as P1. pose proof (pow1u_ge_1 hx) as P1x. pose proof (pow1u_ge_1 hy) as P1y.
  assert (Hax0 : 0 <= ax) by (eapply Rle_trans; [apply Rabs_pos | exact Hax]).
  assert (Hay0 : 0 <= ay) by (eapply Rle_trans; [apply Rabs_pos | exact Hay]).
  (* weaken both error bounds to height h *)
  assert (Ex' : Rabs (x - rx) <= g h * ax + nx * (1 + u) ^ h * eta).
  { eapply Rle_trans; [exact Ex|]. apply Rplus_le_compat; [apply Rmult_le_compat_r; assumption|].
    apply Rmult_le_compat_r; [lra|]. apply Rmult_le_compat_l; assumption. }
  assert (Ey' : Rabs (y - ry) <= g h * ay + ny * (1 + u) ^ h * eta).
  { eapply Rle_trans; [exact Ey|]. apply Rplus_le_compat; [apply Rmult_le_compat_r; assumption|].
    apply Rmult_le_compat_r; [lra|]. apply Rmult_le_compat_l; assumption. }
  set (dx := Rabs (x - rx)) in *. set (dy := Rabs (y - ry)) in *.
  assert (Hxy : Rabs (x + y) <= ax + ay + dx + dy).
  { replace (x + y) with ((rx + ry) + ((x - rx) + (y - ry))) by ring.
    eapply Rle_trans; [apply Rabs_triang|].
    assert (Rabs (rx + ry) <= ax + ay) by (eapply Rle_trans; [apply Rabs_triang|]; lra).
    assert (Rabs ((x - rx) + (y - ry)) <= dx + dy) by apply Rabs_triang. lra. }
  assert (Hmain : Rabs (rnd (x + y) - (rx + ry)) <= u * (ax + ay) + (1 + u) * (dx + dy) + eta).
  { replace (rnd (x + y) - (rx + ry)) with ((rnd (x + y) - (x + y)) + ((x - rx) + (y - ry))) by ring.
    eapply Rle_trans; [apply Rabs_triang|].
    assert (Rabs ((x - rx) + (y - ry)) <= dx + dy) by apply Rabs_triang.
    assert (u * Rabs (x + y) <= u * (ax + ay + dx + dy)) by (apply Rmult_le_compat_l; lra).
    lra. }
  eapply Rle_trans; [exact Hmain|].
  rewrite <- (g_step h). simpl pow.
  set (P := (1 + u) ^ h) in *.
  assert (Hd : (1 + u) * (dx + dy) <= (1 + u) * (g h * (ax + ay) + (nx + ny) * P * eta)).
  { apply Rmult_le_compat_l; [lra|]. lra. }
  assert (Hone : eta <= (1 + u) * P * eta).
  { assert (1 <= (1 + u) * P) by nra. nra. }
  replace (((1 + u) * g h + u) * (ax + ay) + (1 + nx + ny) * ((1 + u) * P) * eta)
    with (u * (ax + ay) + (1 + u) * (g h * (ax + ay) + (nx + ny) * P * eta) + (1 + u) * P * eta) by ring.
  lra.
Qed.

Theorem sumtree_error (t : sumtree) : is_finite (feval t) = true ->
  Rabs (B2R (feval t) - reval t) <= bound t.
Proof.
  pose proof (uro_pos prec) as Hu. pose proof (eta_pos prec emax) as He.
  induction t as [a b|l IHl r IHr|a b acc IH]; intros F; unfold bound; cbn [feval reval aeval height size] in *.
  - destruct (Bmult_finite a b F) as (_ & _ & E). rewrite E.
    pose proof (rnd_err prec emax Hp (B2R a * B2R b)) as Hr.
    assert (0 <= u * eta) by (apply Rmult_le_pos; lra).
    unfold g. simpl. lra.
  - destruct (Bplus_finite _ _ F) as (Fl & Fr & E). rewrite E.
    specialize (IHl Fl). specialize (IHr Fr). unfold bound in IHl, IHr.
    pose proof (combine_step (B2R (feval l)) (B2R (feval r)) (reval l) (reval r) (aeval l) (aeval r) 0 0
                  (height l) (height r) (Nat.max (height l) (height r)) (INR (size l)) (INR (size r))
                  IHl IHr (reval_le_aeval l) (reval_le_aeval r) (pos_INR _) (pos_INR _)
                  (Nat.le_max_l _ _) (Nat.le_max_r _ _)) as H.
    eapply Rle_trans; [exact H|]. rewrite S_INR, plus_INR. right. ring.
  - destruct (Bfma_finite _ _ _ F) as (_ & _ & Fc & E). rewrite E.
    specialize (IH Fc). unfold bound in IH.
    (* the exact product is a partial result of height 0 with no error *)
    assert (E0 : Rabs (B2R a * B2R b - B2R a * B2R b) <= g 0 * Rabs (B2R a * B2R b) + 0 * (1 + u) ^ 0 * eta).
    { replace (B2R a * B2R b - B2R a * B2R b) with 0 by ring. rewrite Rabs_R0. unfold g. simpl. lra. }
    pose proof (combine_step (B2R a * B2R b) (B2R (feval acc)) (B2R a * B2R b) (reval acc)
                  (Rabs (B2R a * B2R b)) (aeval acc) 0 0 0%nat (height acc) (height acc) 0 (INR (size acc))
                  E0 IH (Rle_refl _) (reval_le_aeval acc) (Rle_refl _) (pos_INR _)
                  (Nat.le_0_l _) (Nat.le_refl _)) as H.
    eapply Rle_trans; [exact H|]. rewrite S_INR. right. ring.
Qed.

(* a sequential dot product (the textbook loop) is such a tree of height K *)
Fixpoint seq_tree (first : fl * fl) (rest : list (fl * fl)) : sumtree :=
  match rest with
  | nil => SProd (fst first) (snd first)
  | p :: rest' => SAdd (seq_tree first rest') (SProd (fst p) (snd p))
  end.

Lemma seq_tree_height first rest : height (seq_tree first rest) = S (length rest).
Proof.
  induction rest as [|p rest IH]; [reflexivity|]. cbn [seq_tree height length]. rewrite IH.
  rewrite Nat.max_l by lia. reflexivity.
Qed.

End Dot.
