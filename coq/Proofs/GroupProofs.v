(* group / ungroup (optimum/quanto/tensor/qbits/group.py as generated): ungroup inverts group for
   every shape, both axes and every admissible group size. *)
From Coq Require Import String List ZArith Bool Lia.
From QV Require Import Lib.Res Lib.Tensor Lib.ListFacts Lib.ND Lib.NDFacts Lib.Num Lib.QTensor Model.Quant
     Proofs.QuantProofs.
Import ListNotations.
Open Scope Z_scope.

Lemma prodZ_app l1 l2 : prodZ (l1 ++ l2) = prodZ l1 * prodZ l2.
Proof. induction l1 as [|x l IH]; simpl; [destruct (prodZ l2); reflexivity|]. rewrite IH. ring. Qed.

Lemma pos_dims_nonneg sh : pos_dims sh -> forallb (fun d => 0 <=? d) sh = true.
Proof. induction 1; simpl; [reflexivity|]. apply andb_true_iff. split; [apply Z.leb_le; lia|assumption]. Qed.

Section Generic.
Context {F : Type} `{NF : Num F}.

Lemma reshape_ok (sh : list Z) (t : tensor F) :
  prodZ sh = numel t -> forallb (fun d => 0 <=? d) sh = true -> t_reshape sh t = Ok (T sh (data t)).
Proof. intros H1 H2. unfold t_reshape. rewrite H1, Z.eqb_refl, H2. reflexivity. Qed.

Lemma reshape_py_plain (sh : list Z) (t : tensor F) :
  forallb (fun d => negb (d =? -1)) sh = true ->
  t_reshape_py sh t = t_reshape sh t.
Proof.
  intros H. unfold t_reshape_py.
  assert (E : filter (fun d => d =? -1) sh = []).
  { induction sh as [|d sh IH]; [reflexivity|]. simpl in *. apply andb_true_iff in H. destruct H as [H1 H2].
    apply negb_true_iff in H1. rewrite H1. apply IH, H2. }
  rewrite E. reflexivity.
Qed.

(* ---- axis 0: grouping is a pure reshape --------------------------------------------------------- *)
Theorem group_ungroup_axis0 (base : tensor F) d0 rest g :
  shape base = d0 :: rest -> pos_dims (d0 :: rest) -> zlen (data base) = numel base ->
  0 < g -> g <= prodZ rest -> prodZ rest mod g = 0 ->
  exists G, group base (Some 0) g = Ok G /\ shape G = [numel base / g; g] /\ data G = data base /\
            ungroup G (Some 0) (shape base) = Ok base.
Proof.
  intros Hs Hp Hl Hg Hle Hm.
  assert (Hd0 : 0 < d0) by (inversion Hp; assumption).
  assert (Hrest : pos_dims rest) by (inversion Hp; assumption).
  pose proof (prodZ_pos rest Hrest) as Hpr.
  assert (Hnum : numel base = d0 * prodZ rest) by (unfold numel; rewrite Hs; reflexivity).
  assert (Hper : numel base / d0 = prodZ rest) by (rewrite Hnum, Z.mul_comm, Z.div_mul by lia; reflexivity).
  assert (Hng : numel base mod g = 0).
  { rewrite Hnum. rewrite Z.mul_mod by lia. rewrite Hm, Z.mul_0_r. apply Z.mod_0_l. lia. }
  assert (Hgn : g * (numel base / g) = numel base) by (rewrite <- Z.div_exact in Hng by lia; lia).
  exists (T [numel base / g; g] (data base)).
  split.
  - unfold group. rewrite Hs. cbn [oz_in zmem existsb Z.eqb orb negb guard bind py_index_opt].
    change (py_index (d0 :: rest) 0) with
      (if (0 <=? 0) && (0 <? Z.of_nat (S (length rest))) then
         match nth_error (d0 :: rest) (Z.to_nat 0) with Some a => Ok a | None => Err "IndexError"%string end
       else Err "IndexError"%string).
    replace (0 <? Z.of_nat (S (length rest))) with true by bsolve.
    cbn [Z.leb Z.compare andb Z.to_nat nth_error bind].
    unfold guard_nz at 1. replace (d0 =? 0) with false by bsolve. cbn [negb guard bind].
    rewrite Hper.
    replace (g <=? 0) with false by bsolve. replace (g >? prodZ rest) with false by bsolve.
    unfold guard_nz at 1. replace (g =? 0) with false by bsolve. cbn [negb guard bind].
    rewrite Hm. cbn [Z.eqb negb guard bind].
    unfold guard_nz at 1. replace (g =? 0) with false by bsolve. cbn [negb guard bind oz_eqb Z.eqb].
    unfold t_reshape_py. cbn [filter Z.eqb negb Pos.eqb prodZ fold_right zlen length].
    replace (g =? -1) with false by bsolve. cbn [negb filter prodZ fold_right zlen length Z.of_nat Pos.of_succ_nat Z.eqb Pos.eqb andb].
    rewrite Z.mul_1_r. replace (g =? 0) with false by bsolve. rewrite Hng. cbn [negb andb Z.eqb map].
    replace (g =? -1) with false by bsolve.
    cbn [Pos.eqb].
    rewrite reshape_ok; [reflexivity | cbn [prodZ fold_right]; lia |].
    cbn [forallb]. rewrite andb_true_r. apply andb_true_iff. split; apply Z.leb_le; [apply Z.div_pos; lia | lia].
  - split; [reflexivity|]. split; [reflexivity|].
    unfold ungroup. cbn [shape].
    destruct (shape_eqb [numel base / g; g] (shape base)) eqn:Esh.
    + apply shape_eqb_eq in Esh. destruct base as [sb db]. cbn [shape data] in *. rewrite Esh. reflexivity.
    + cbn [oz_eqb Z.eqb].
      rewrite reshape_py_plain.
      * rewrite reshape_ok; [destruct base as [sb db]; reflexivity | | apply pos_dims_nonneg; rewrite Hs; exact Hp].
        change (prodZ (shape base)) with (numel base).
        change (numel (T [numel base / g; g] (data base))) with (numel base / g * (g * 1)). lia.
      * rewrite Hs. apply forallb_forall. intros x Hx. apply negb_true_iff, Z.eqb_neq.
        unfold pos_dims in Hp. rewrite Forall_forall in Hp. specialize (Hp x Hx). lia.
Qed.

(* ---- last axis: reshape, permute (1,2,0), reshape; inverted by reshape, permute (2,0,1), reshape --- *)
Lemma py_index_last (init : list Z) (dl : Z) : py_index (init ++ [dl]) (-1) = Ok dl.
Proof.
  unfold py_index. cbn [Z.ltb Z.compare]. unfold zlen. rewrite app_length. cbn [length].
  replace (0 <=? Z.of_nat (length init + 1) + -1) with true by bsolve.
  replace (Z.of_nat (length init + 1) + -1 <? Z.of_nat (length init + 1)) with true by bsolve.
  cbn [andb]. replace (Z.to_nat (Z.of_nat (length init + 1) + -1)) with (length init) by lia.
  rewrite nth_error_app2 by lia. rewrite Nat.sub_diag. reflexivity.
Qed.

Theorem group_ungroup_axis_last (base : tensor F) init dl g :
  shape base = init ++ [dl] -> pos_dims (init ++ [dl]) -> zlen (data base) = numel base ->
  0 < g -> g <= prodZ init -> prodZ init mod g = 0 ->
  exists G, group base (Some (-1)) g = Ok G /\ shape G = [g; dl * (prodZ init / g)] /\
            ungroup G (Some (-1)) (shape base) = Ok base.
Proof.
  intros Hs Hp Hl Hg Hle Hm.
  assert (Hdl : 0 < dl).
  { unfold pos_dims in Hp. rewrite Forall_forall in Hp. apply Hp. apply in_or_app. right. left. reflexivity. }
  assert (Hnum : numel base = prodZ init * dl).
  { unfold numel. rewrite Hs, prodZ_app. cbn [prodZ fold_right]. lia. }
  assert (Hper : numel base / dl = prodZ init) by (rewrite Hnum, Z.div_mul by lia; reflexivity).
  set (ag := prodZ init / g).
  assert (Hag : prodZ init = g * ag) by (unfold ag; apply Z.div_exact in Hm; lia).
  assert (Hag1 : 1 <= ag) by nia.
  assert (Hnn : forallb (fun d => 0 <=? d) (init ++ [dl]) = true) by (apply pos_dims_nonneg; exact Hp).
  (* the grouped tensor *)
  destruct (t_permute f0 [1; 2; 0] (T [ag; g; dl] (data base))) as [P|] eqn:EP.
  2:{ rewrite permute_120_data in EP. discriminate EP. }
  assert (HP : shape P = [g; dl; ag]) by (rewrite permute_120_data in EP; injection EP as <-; reflexivity).
  exists (T [g; dl * ag] (data P)).
  assert (HG : group base (Some (-1)) g = Ok (T [g; dl * ag] (data P))).
  { unfold group. rewrite Hs. cbn [oz_in zmem existsb Z.eqb orb negb guard bind py_index_opt].
    rewrite py_index_last. cbn [bind].
    unfold guard_nz at 1. replace (dl =? 0) with false by bsolve. cbn [negb guard bind].
    rewrite Hper.
    replace (g <=? 0) with false by bsolve. replace (g >? prodZ init) with false by bsolve.
    unfold guard_nz at 1. replace (g =? 0) with false by bsolve. cbn [negb guard bind].
    rewrite Hm. cbn [Z.eqb negb guard bind].
    unfold guard_nz at 1. replace (g =? 0) with false by bsolve. cbn [negb guard bind oz_eqb Z.eqb].
    fold ag. cbn [app].
    rewrite reshape_py_plain by (cbn [forallb]; rewrite !andb_true_iff; repeat split; apply negb_true_iff; bsolve).
    rewrite reshape_ok; [| cbn [prodZ fold_right]; nia | cbn [forallb]; rewrite !andb_true_iff; repeat split; bsolve].
    cbn [bind]. rewrite EP. cbn [bind].
    rewrite reshape_py_plain by (cbn [forallb]; rewrite !andb_true_iff; repeat split; apply negb_true_iff; bsolve).
    rewrite reshape_ok; [reflexivity | | cbn [forallb]; rewrite !andb_true_iff; repeat split; bsolve].
    unfold numel. rewrite HP. cbn [prodZ fold_right]. nia. }
  split; [exact HG|]. split; [reflexivity|].
  unfold ungroup. cbn [shape].
  destruct (shape_eqb [g; dl * ag] (shape base)) eqn:Esh.
  - (* a single group per column: the permutation moved a dimension of size 1 *)
    apply shape_eqb_eq in Esh. rewrite Hs in Esh.
    assert (Ei : init = [g] /\ dl * ag = dl).
    { destruct init as [|i0 [|i1 init']]; cbn [app] in Esh; try discriminate Esh.
      - injection Esh as E1 E2. split; congruence.
      - injection Esh as _ _ E3. destruct init'; discriminate E3. }
    destruct Ei as [Ei Ea]. assert (ag = 1) by nia.
    subst ag. rewrite H in *. rewrite permute_120_unit in EP by (try lia; rewrite Hl, Hnum, Ei; cbn [prodZ fold_right]; lia).
    injection EP as <-. cbn [data]. destruct base as [sb db]. cbn [shape data] in *. rewrite Hs, Ei. cbn [app].
    rewrite Z.mul_1_r. reflexivity.
  - cbn [oz_eqb Z.eqb Pos.eqb bind].
    change (py_index [g; dl * ag] 0) with
      (if (0 <=? 0) && (0 <? 2) then Ok g else Err "IndexError"%string : res Z).
    cbn [Z.leb Z.ltb Z.compare andb bind]. rewrite Hs. cbn [py_index_opt]. rewrite py_index_last. cbn [bind].
    unfold guard_nz at 1. replace (dl =? 0) with false by bsolve. cbn [negb guard bind].
    unfold guard_nz at 1. replace (g =? 0) with false by bsolve. cbn [negb guard bind].
    assert (Eag : numel (T [g; dl * ag] (data P)) / dl / g = ag).
    { unfold numel. cbn [shape prodZ fold_right]. replace (g * (dl * ag * 1)) with (g * ag * dl) by ring.
      rewrite Z.div_mul by lia. rewrite Z.mul_comm, Z.div_mul by lia. reflexivity. }
    rewrite Eag.
    rewrite reshape_py_plain by (cbn [forallb]; rewrite !andb_true_iff; repeat split; apply negb_true_iff; bsolve).
    rewrite reshape_ok; [| unfold numel; cbn [shape prodZ fold_right]; nia | cbn [forallb]; rewrite !andb_true_iff; repeat split; bsolve].
    cbn [bind data].
    (* the two permutations cancel *)
    pose proof (permute_roundtrip3 f0 ag g dl (data base) ltac:(lia) Hg Hdl ltac:(rewrite Hl, Hnum; nia)) as RT.
    rewrite EP in RT. cbn [bind] in RT.
    assert (EPP : P = T [g; dl; ag] (data P)) by (destruct P as [sP dP]; cbn [shape data] in *; subst sP; reflexivity).
    rewrite <- EPP, RT. cbn [bind].
    rewrite reshape_py_plain.
    + rewrite reshape_ok; [destruct base as [sb db]; cbn [shape data] in *; rewrite Hs; reflexivity | | exact Hnn].
      unfold numel. cbn [shape prodZ fold_right]. rewrite prodZ_app. cbn [prodZ fold_right]. nia.
    + apply forallb_forall. intros x Hx. apply negb_true_iff, Z.eqb_neq.
      unfold pos_dims in Hp. rewrite Forall_forall in Hp. specialize (Hp x Hx). lia.
Qed.

End Generic.
