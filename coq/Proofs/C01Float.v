(* C01 at the level of IEEE arithmetic (Flocq), for a generic binary format with prec >= 8 and
   emax >= 9 (float32, float16, bfloat16): qint8 symmetric quantization followed by dequantization
   returns a closest grid point up to an explicit rounding slack; codes are integers of [-128,127]
   (so the int8 cast never wraps), results are finite, division overflow saturates. *)
From Coq Require Import ZArith Reals Lra Lia List Bool Psatz.
From Flocq Require Import Core IEEE754.BinarySingleNaN.
From QV Require Import Lib.Res Lib.Tensor Lib.ND Lib.Num Lib.QTensor Float.F Model.Quant
     Proofs.QuantProofs Proofs.RealNum Proofs.FloatFacts.
Open Scope R_scope.

Section C01F.
Variables prec emax : Z.
Context (Hp : Prec_gt_0 prec) (Hpe : Prec_lt_emax prec emax).
Hypothesis Hprec8 : (8 <= prec)%Z.
Hypothesis Hemax9 : (9 <= emax)%Z.

Notation fl := (binary_float prec emax).
Notation fexp := (SpecFloat.fexp prec emax).
Notation rnd := (round radix2 fexp ZnearestE).
Notation B2R := (@B2R prec emax).
Notation u := (uro prec).
Notation eta := (eta prec emax).
Existing Instance NumFl.
Existing Instance fexp_valid.

Definition Fmax : R := bpow radix2 emax - bpow radix2 (emax - prec).

Lemma Fmax_format : generic_format radix2 fexp Fmax.
Proof.
  change fexp with (FLT_exp (SpecFloat.emin prec emax) prec). apply generic_format_FLT.
  exists (Float radix2 (2 ^ prec - 1) (emax - prec)).
  - unfold Fmax, F2R. cbn [Fnum Fexp]. rewrite minus_IZR.
    change (2 ^ prec)%Z with (Zpower radix2 prec). rewrite IZR_Zpower by (unfold Prec_gt_0 in Hp; lia).
    rewrite Rmult_minus_distr_r, <- bpow_plus. replace (prec + (emax - prec))%Z with emax by lia. ring.
  - cbn [Fnum]. assert (0 < 2 ^ prec)%Z by (apply Z.pow_pos_nonneg; unfold Prec_gt_0 in Hp; lia).
    change (radix_val radix2) with 2%Z. rewrite Z.abs_eq by lia. lia.
  - cbn [Fexp]. unfold SpecFloat.emin. unfold Prec_lt_emax in Hpe. lia.
Qed.

Lemma Fmax_lt : Fmax < bpow radix2 emax.
Proof. unfold Fmax. pose proof (bpow_gt_0 radix2 (emax - prec)). lra. Qed.

Lemma rnd_no_overflow (z : R) : Rabs z <= Fmax -> Rabs (rnd z) < bpow radix2 emax.
Proof.
  intros H. apply Rle_lt_trans with Fmax; [|exact Fmax_lt].
  exact (abs_round_le_generic radix2 fexp ZnearestE z Fmax Fmax_format H).
Qed.

(* a float whose real value is 255 in magnitude or less rounds to at most 255 *)
Lemma rnd_le_255 (z : R) : Rabs z <= 255 -> Rabs (rnd z) <= 255.
Proof.
  intros H. refine (abs_round_le_generic radix2 fexp ZnearestE z 255 _ H).
  apply (small_int_format prec emax Hprec8 Hemax9 255). simpl. lia.
Qed.

Lemma finite_sign (x : fl) : is_finite x = true -> B2R x <> 0 -> (Bsign x = true <-> B2R x < 0).
Proof.
  intros Fx Nz. destruct x as [s| | |s m e Hb]; try discriminate Fx.
  - simpl in Nz. congruence.
  - cbn [Bsign BinarySingleNaN.B2R]. destruct s; cbn [cond_Zopp].
    + split; [intros _|reflexivity]. apply F2R_lt_0. reflexivity.
    + split; [discriminate|]. intros H. exfalso.
      pose proof (F2R_gt_0 radix2 (Float radix2 (Z.pos m) e) eq_refl). lra.
Qed.

(* the quantity every statement below is about: the element-level functions at this float format *)
Definition qcode (x s : fl) : fl := symq qint8 x s.
Definition qdeq (x s : fl) : fl := symdq qint8 x s.

Lemma qcode_unfold x s :
  qcode x s = cast_wrap prec emax Hp Hpe true
    (fmin prec emax (fmax prec emax (Bnearbyint mode_NE (Bdiv mode_NE x s)) (fof_Z prec emax Hp Hpe (-128)))
                    (fof_Z prec emax Hp Hpe 127)).
Proof. reflexivity. Qed.

Theorem qint8_code_float (x s : fl) :
  is_finite x = true -> is_finite s = true -> 0 < B2R s ->
  exists k : Z, (-128 <= k <= 127)%Z /\ qcode x s = fof_Z prec emax Hp Hpe k /\
    forall v : Z, (-128 <= v <= 127)%Z ->
      Rabs (B2R s * IZR k - B2R x) <= Rabs (B2R s * IZR v - B2R x) + 2 * (u * Rabs (B2R x) + B2R s * eta).
Proof.
  intros Fx Fs Sp. set (X := B2R x). set (S := B2R s). set (Y := X / S).
  pose proof (fof_Z_exact prec emax Hp Hpe Hprec8 Hemax9 (-128) ltac:(simpl; lia)) as [Hlo Flo].
  pose proof (fof_Z_exact prec emax Hp Hpe Hprec8 Hemax9 127 ltac:(simpl; lia)) as [Hhi Fhi].
  pose proof (uro_pos prec) as Hu. pose proof (eta_pos prec emax) as He.
  assert (SP : 0 < S) by exact Sp.
  assert (Hslack : 0 <= 2 * (u * Rabs X + S * eta)).
  { pose proof (Rabs_pos X). assert (0 <= u * Rabs X) by (apply Rmult_le_pos; lra).
    assert (0 <= S * eta) by (apply Rmult_le_pos; lra). lra. }
  rewrite qcode_unfold.
  pose proof (Bdiv_correct prec emax Hp Hpe mode_NE x s ltac:(fold S; lra)) as HD.
  cbn [round_mode] in HD. fold X S Y in HD.
  destruct (Rlt_bool_spec (Rabs (rnd Y)) (bpow radix2 emax)) as [Hno|Hov].
  - (* no overflow in the division *)
    destruct HD as (HQ & FQ & _). rewrite Fx in FQ.
    set (q := Bdiv mode_NE x s) in *.
    pose proof (Bnearbyint_correct prec emax Hpe mode_NE q) as (HR & FR & _).
    cbn [round_mode] in HR. rewrite round_FIX_IZR in HR. rewrite FQ in FR. rewrite HQ in HR.
    set (n := ZnearestE (rnd Y)) in *.
    set (r := Bnearbyint mode_NE q) in *.
    destruct (fmax_finite prec emax r _ FR Flo) as [HM1 FM1].
    destruct (fmin_finite prec emax _ _ FM1 Fhi) as [HM2 FM2].
    rewrite HM1, HR, Hlo, Hhi in HM2. rewrite clamp_IZR in HM2.
    set (k := clampZ (-128) 127 n) in *.
    assert (Hk : (-128 <= k <= 127)%Z) by (unfold k, clampZ; lia).
    exists k. split; [exact Hk|]. split.
    + exact (proj1 (cast_int8_exact prec emax Hp Hpe _ k FM2 HM2 Hk)).
    + intros v Hv.
      pose proof (clamp_nearest (-128) 127 (rnd Y) v ltac:(lia) Hv) as Hn. fold n k in Hn.
      pose proof (rnd_err prec emax Hp Y) as Herr.
      (* |k - Y| <= |v - Y| + 2 |rnd Y - Y| *)
      assert (H1 : Rabs (IZR k - Y) <= Rabs (IZR v - Y) + 2 * Rabs (rnd Y - Y)).
      { replace (IZR k - Y) with ((IZR k - rnd Y) + (rnd Y - Y)) by ring.
        eapply Rle_trans; [apply Rabs_triang|].
        assert (Rabs (IZR v - rnd Y) <= Rabs (IZR v - Y) + Rabs (rnd Y - Y)).
        { replace (IZR v - rnd Y) with ((IZR v - Y) + - (rnd Y - Y)) by ring.
          eapply Rle_trans; [apply Rabs_triang|]. rewrite Rabs_Ropp. lra. }
        lra. }
      assert (HY : Rabs Y = Rabs X / S).
      { unfold Y. unfold Rdiv. rewrite Rabs_mult, Rabs_inv. rewrite (Rabs_pos_eq S) by lra. reflexivity. }
      replace (S * IZR k - X) with (S * (IZR k - Y)) by (unfold Y; field; lra).
      replace (S * IZR v - X) with (S * (IZR v - Y)) by (unfold Y; field; lra).
      rewrite !Rabs_mult, (Rabs_pos_eq S) by lra.
      assert (S * Rabs (rnd Y - Y) <= u * Rabs X + S * eta).
      { rewrite HY in Herr.
        apply Rle_trans with (S * (u * (Rabs X / S) + eta)); [apply Rmult_le_compat_l; lra|].
        right. field. lra. }
      nra.
  - (* the quotient overflows: the float quotient is an infinity of the sign of x *)
    assert (HY255 : 255 < Rabs Y).
    { destruct (Rle_or_lt (Rabs Y) 255) as [H|H]; [|exact H]. exfalso.
      pose proof (rnd_le_255 Y H). pose proof (bpow_emax_big emax Hemax9). lra. }
    assert (Xnz : X <> 0).
    { intros E. unfold Y in HY255. rewrite E in HY255. unfold Rdiv in HY255.
      rewrite Rmult_0_l, Rabs_R0 in HY255. lra. }
    assert (Ssign : Bsign s = false).
    { destruct (Bsign s) eqn:E; [|reflexivity]. exfalso.
      assert (Nz : B2R s <> 0) by lra. apply (proj1 (finite_sign s Fs Nz)) in E. lra. }
    rewrite Ssign, xorb_false_r in HD.
    assert (Hq : Bdiv mode_NE x s = B754_infinity (Bsign x)).
    { apply B2SF_inj. rewrite HD. reflexivity. }
    rewrite Hq. cbn [Bnearbyint].
    pose proof (finite_sign x Fx Xnz) as Hsx. fold X in Hsx.
    rewrite (fmax_inf_l prec emax (Bsign x) _ Flo).
    destruct (Bsign x) eqn:Esx.
    + (* x < 0: code -128, and x/s < -255 *)
      assert (Xneg : X < 0) by (apply Hsx; reflexivity).
      assert (Yneg : Y < -255).
      { assert (0 < / S) by (apply Rinv_0_lt_compat; lra).
        assert (Y < 0) by (unfold Y, Rdiv; nra).
        rewrite Rabs_left in HY255 by lra. lra. }
      destruct (fmin_finite prec emax _ _ Flo Fhi) as [HM2 FM2].
      rewrite Hlo, Hhi, Rmin_left in HM2 by lra.
      exists (-128)%Z. split; [lia|]. split.
      * exact (proj1 (cast_int8_exact prec emax Hp Hpe _ (-128)%Z FM2 HM2 ltac:(lia))).
      * intros v Hv. set (SL := 2 * (u * Rabs X + S * eta)) in *.
        replace (S * IZR (-128) - X) with (S * (IZR (-128) - Y)) by (unfold Y; field; lra).
        replace (S * IZR v - X) with (S * (IZR v - Y)) by (unfold Y; field; lra).
        rewrite !Rabs_mult, (Rabs_pos_eq S) by lra.
        assert (IZR (-128) <= IZR v) by (apply IZR_le; lia).
        rewrite !Rabs_pos_eq by lra.
        assert (S * (IZR (-128) - Y) <= S * (IZR v - Y)) by (apply Rmult_le_compat_l; lra). lra.
    + (* x > 0: code 127 *)
      assert (Xpos : 0 < X).
      { destruct (Rtotal_order X 0) as [H|[H|H]]; [|congruence|exact H].
        apply Hsx in H. discriminate H. }
      assert (Ypos : 255 < Y).
      { assert (0 < / S) by (apply Rinv_0_lt_compat; lra).
        assert (0 < Y) by (unfold Y, Rdiv; nra).
        rewrite Rabs_pos_eq in HY255 by lra. lra. }
      rewrite (fmin_pinf_l prec emax _ Fhi).
      exists 127%Z. split; [lia|]. split.
      * exact (proj1 (cast_int8_exact prec emax Hp Hpe _ 127%Z Fhi Hhi ltac:(lia))).
      * intros v Hv. set (SL := 2 * (u * Rabs X + S * eta)) in *.
        replace (S * IZR 127 - X) with (- (S * (Y - IZR 127))) by (unfold Y; field; lra).
        replace (S * IZR v - X) with (- (S * (Y - IZR v))) by (unfold Y; field; lra).
        rewrite !Rabs_Ropp, !Rabs_mult, (Rabs_pos_eq S) by lra.
        assert (IZR v <= IZR 127) by (apply IZR_le; lia).
        rewrite !Rabs_pos_eq by lra.
        assert (S * (Y - IZR 127) <= S * (Y - IZR v)) by (apply Rmult_le_compat_l; lra). lra.
Qed.

(* dequantization: finite, and within one rounding of the exact product *)
Theorem qint8_nearest_float (x s : fl) :
  is_finite x = true -> is_finite s = true -> 0 < B2R s -> 128 * B2R s <= Fmax ->
  exists k : Z, (-128 <= k <= 127)%Z /\ B2R (qcode x s) = IZR k /\ is_finite (qcode x s) = true
    /\ code_byte prec emax SInt8 (qcode x s) = k
    /\ is_finite (qdeq x s) = true
    /\ forall v : Z, (-128 <= v <= 127)%Z ->
       Rabs (B2R (qdeq x s) - B2R x) <=
       Rabs (B2R s * IZR v - B2R x)
       + (2 * (u * Rabs (B2R x) + B2R s * eta) + (u * Rabs (B2R s * IZR k) + eta)).
Proof.
  intros Fx Fs Sp Hgrid.
  destruct (qint8_code_float x s Fx Fs Sp) as (k & Hk & Ec & Hnear).
  pose proof (fof_Z_exact prec emax Hp Hpe Hprec8 Hemax9 k ltac:(lia)) as [Hck Fck].
  exists k. split; [exact Hk|]. rewrite Ec. split; [exact Hck|]. split; [exact Fck|].
  split; [exact (proj2 (cast_int8_exact prec emax Hp Hpe _ k Fck Hck Hk))|].
  unfold qdeq, symdq. fold (qcode x s). rewrite Ec. cbn [n_mul NumFl].
  pose proof (Bmult_correct prec emax Hp Hpe mode_NE s (fof_Z prec emax Hp Hpe k)) as HM.
  cbn [round_mode] in HM. rewrite Hck in HM.
  assert (Hsz : Rabs (B2R s * IZR k) <= Fmax).
  { rewrite Rabs_mult, (Rabs_pos_eq (B2R s)) by lra.
    assert (Rabs (IZR k) <= 128) by (rewrite <- abs_IZR; apply IZR_le; lia).
    apply Rle_trans with (B2R s * 128); [apply Rmult_le_compat_l; lra | lra]. }
  rewrite Rlt_bool_true in HM by (apply rnd_no_overflow; exact Hsz).
  destruct HM as (HMv & HMf & _). rewrite Fs, Fck in HMf.
  split; [exact HMf|]. intros v Hv. rewrite HMv.
  pose proof (rnd_err prec emax Hp (B2R s * IZR k)) as Herr.
  specialize (Hnear v Hv).
  replace (rnd (B2R s * IZR k) - B2R x)
    with ((rnd (B2R s * IZR k) - B2R s * IZR k) + (B2R s * IZR k - B2R x)) by ring.
  eapply Rle_trans; [apply Rabs_triang|]. lra.
Qed.

End C01F.
