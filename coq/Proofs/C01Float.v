(* C01 at the level of IEEE arithmetic (Flocq), for a generic binary format with prec >= 8 and
   emax >= 9 (float32, float16, bfloat16): qint8 symmetric quantization followed by dequantization
   returns a closest grid point up to an explicit rounding slack; codes are integers of [-128,127]
   (so the int8 cast never wraps), results are finite, division overflow saturates. *)
From Coq Require Import ZArith Reals Lra Lia List Bool Psatz.
From Flocq Require Import Core IEEE754.BinarySingleNaN.
From QV Require Import Lib.Res Lib.Tensor Lib.ND Lib.Num Lib.QTensor Float.F Model.Quant
     Proofs.QuantProofs Proofs.RealNum Proofs.FloatFacts.
Open Scope R_scope.

Section C01F.
Variables prec emax : Z.
Context (Hp : Prec_gt_0 prec) (Hpe : Prec_lt_emax prec emax).
Hypothesis Hprec8 : (8 <= prec)%Z.
Hypothesis Hemax9 : (9 <= emax)%Z.

Notation fl := (binary_float prec emax).
Notation fexp := (SpecFloat.fexp prec emax).
Notation rnd := (round radix2 fexp ZnearestE).
Notation B2R := (@B2R prec emax).
Notation u := (uro prec).
Notation eta := (eta prec emax).
Existing Instance NumFl.
Existing Instance fexp_valid.

Definition Fmax : R := bpow radix2 emax - bpow radix2 (emax - prec).

Lemma Fmax_format : generic_format radix2 fexp Fmax.
Proof.
  change fexp with (FLT_exp (SpecFloat.emin prec emax) prec). apply generic_format_FLT.
  exists (Float radix2 (2 ^ prec - 1) (emax - prec)).
  - unfold Fmax, F2R. cbn [Fnum Fexp]. rewrite minus_IZR.
    change (2 ^ prec)%Z with (Zpower radix2 prec). rewrite IZR_Zpower by (unfold Prec_gt_0 in Hp; lia).
    rewrite Rmult_minus_distr_r, <- bpow_plus. replace (prec + (emax - prec))%Z with emax by lia. ring.
  - cbn [Fnum]. assert (0 < 2 ^ prec)%Z by (apply Z.pow_pos_nonneg; unfold Prec_gt_0 in Hp; lia).
    change (radix_val radix2) with 2%Z. rewrite Z.abs_eq by lia. lia.
  - cbn [Fexp]. unfold SpecFloat.emin. unfold Prec_lt_emax in Hpe. lia.
Qed.

Lemma Fmax_lt : Fmax < bpow radix2 emax.
Proof. unfold Fmax. pose proof (bpow_gt_0 radix2 (emax - prec)). lra. Qed.

Lemma rnd_no_overflow (z : R) : Rabs z <= Fmax -> Rabs (rnd z) < bpow radix2 emax.
Proof.
  intros H. apply Rle_lt_trans with Fmax; [|exact Fmax_lt].
  exact (abs_round_le_generic radix2 fexp ZnearestE z Fmax Fmax_format H).
Qed.

(* a float whose real value is 255 in magnitude or less rounds to at most 255 *)
Lemma rnd_le_255 (z : R) : Rabs z <= 255 -> Rabs (rnd z) <= 255.
Proof.
  intros H. refine (abs_round_le_generic radix2 fexp ZnearestE z 255 _ H).
  apply (small_int_format prec emax Hprec8 Hemax9 255). simpl. lia.
Qed.

Lemma finite_sign (x : fl) : is_finite x = true -> B2R x <> 0 -> (Bsign x = true <-> B2R x < 0).
Proof.
  intros Fx Nz. destruct x as [s| | |s m e Hb]; try discriminate Fx.
  - simpl in Nz. congruence.
  - cbn [Bsign BinarySingleNaN.B2R]. destruct s; cbn [cond_Zopp].
    + split; [intros _|reflexivity]. apply F2R_lt_0. reflexivity.
    + split; [discriminate|]. intros H. exfalso.
      pose proof (F2R_gt_0 radix2 (Float radix2 (Z.pos m) e) eq_refl). lra.
Qed.

(* the largest finite float *)
Lemma fmaxfloat_value : B2R (fmaxfloat prec emax Hp Hpe) = Fmax /\ is_finite (fmaxfloat prec emax Hp Hpe) = true.
Proof.
  unfold fmaxfloat, Bmax_float. rewrite B2R_SF2B, is_finite_SF2B. split; [|reflexivity].
  cbn [SF2R cond_Zopp]. unfold F2R. cbn [Fnum Fexp].
  assert (Hpp : (0 < prec)%Z) by exact Hp.
  assert (H1 : (1 < 2 ^ prec)%Z) by (apply Z.pow_gt_1; lia).
  assert (E : Z.pos (shift_pos (Z.to_pos prec) 1 - 1) = (2 ^ prec - 1)%Z).
  { rewrite Pos2Z.inj_sub.
    - rewrite shift_pos_correct, Z.mul_1_r, Z.pow_pos_fold, Z2Pos.id by lia. reflexivity.
    - change (Z.pos 1 < Z.pos (shift_pos (Z.to_pos prec) 1))%Z. rewrite shift_pos_correct, Z.mul_1_r, Z.pow_pos_fold, Z2Pos.id by lia. exact H1. }
  rewrite E. unfold Fmax. rewrite minus_IZR.
  change (2 ^ prec)%Z with (Zpower radix2 prec). rewrite IZR_Zpower by lia.
  rewrite Rmult_minus_distr_r, <- bpow_plus. replace (prec + (emax - prec))%Z with emax by lia. ring.
Qed.

Lemma Fmax_ge_256 : 256 <= Fmax.
Proof.
  unfold Fmax. assert (Hpp : (0 < prec)%Z) by exact Hp.
  assert (bpow radix2 (emax - prec) <= bpow radix2 (emax - 1)) by (apply bpow_le; lia).
  assert (bpow radix2 emax = 2 * bpow radix2 (emax - 1)).
  { replace emax with (1 + (emax - 1))%Z at 1 by lia. rewrite bpow_plus. reflexivity. }
  assert (256 <= bpow radix2 (emax - 1)) by (change 256 with (bpow radix2 8); apply bpow_le; lia).
  lra.
Qed.

(* the float quotient after nan_to_num: a finite float that is either the correctly rounded quotient
   or, when that overflows, the largest finite float of the sign of the exact quotient *)
Lemma div_nan_to_num (x s : fl) :
  is_finite x = true -> is_finite s = true -> 0 < B2R s ->
  let Y := B2R x / B2R s in
  let q := nan_to_num prec emax Hp Hpe (Bdiv mode_NE x s) in
  is_finite q = true /\
  (B2R q = rnd Y \/ (255 < Y /\ 255 <= B2R q) \/ (Y < -255 /\ B2R q <= -255)).
Proof.
  intros Fx Fs Sp Y q. set (X := B2R x) in *. set (S := B2R s) in *.
  assert (SP : 0 < S) by exact Sp.
  pose proof (Bdiv_correct prec emax Hp Hpe mode_NE x s ltac:(fold S; lra)) as HD.
  cbn [round_mode] in HD. fold X S Y in HD.
  destruct (Rlt_bool_spec (Rabs (rnd Y)) (bpow radix2 emax)) as [Hno|Hov].
  - destruct HD as (HQ & FQ & _). rewrite Fx in FQ.
    assert (Eq : q = Bdiv mode_NE x s).
    { unfold q. destruct (Bdiv mode_NE x s); try discriminate FQ; reflexivity. }
    rewrite Eq. split; [exact FQ|]. left. exact HQ.
  - assert (HY255 : 255 < Rabs Y).
    { destruct (Rle_or_lt (Rabs Y) 255) as [H|H]; [|exact H]. exfalso.
      pose proof (rnd_le_255 Y H). pose proof (bpow_emax_big emax Hemax9). lra. }
    assert (Xnz : X <> 0).
    { intros E. unfold Y in HY255. rewrite E in HY255. unfold Rdiv in HY255.
      rewrite Rmult_0_l, Rabs_R0 in HY255. lra. }
    assert (Ssign : Bsign s = false).
    { destruct (Bsign s) eqn:E; [|reflexivity]. exfalso.
      assert (Nz : S <> 0) by lra. apply (proj1 (finite_sign s Fs Nz)) in E. fold S in E. lra. }
    rewrite Ssign, xorb_false_r in HD.
    assert (Hq : Bdiv mode_NE x s = B754_infinity (Bsign x)).
    { apply B2SF_inj. rewrite HD. reflexivity. }
    pose proof (finite_sign x Fx Xnz) as Hsx. fold X in Hsx.
    destruct fmaxfloat_value as [HMv HMf]. pose proof Fmax_ge_256 as HF.
    assert (0 < / S) by (apply Rinv_0_lt_compat; lra).
    unfold q. rewrite Hq. cbn [nan_to_num]. destruct (Bsign x) eqn:Esx.
    + assert (Xneg : X < 0) by (apply Hsx; reflexivity).
      assert (Y < 0) by (unfold Y, Rdiv; nra).
      rewrite Rabs_left in HY255 by lra.
      rewrite is_finite_Bopp, B2R_Bopp, HMv. split; [exact HMf|]. right. right. lra.
    + assert (Xpos : 0 < X).
      { destruct (Rtotal_order X 0) as [H1|[H1|H1]]; [|congruence|exact H1].
        apply Hsx in H1. discriminate H1. }
      assert (0 < Y) by (unfold Y, Rdiv; nra).
      rewrite Rabs_pos_eq in HY255 by lra.
      rewrite HMv. split; [exact HMf|]. right. left. lra.
Qed.

(* the quantity every statement below is about: the element-level functions at this float format *)
Definition qcode (x s : fl) : fl := symq qint8 x s.
Definition qdeq (x s : fl) : fl := symdq qint8 x s.

Lemma qcode_unfold x s :
  qcode x s = cast_wrap prec emax Hp Hpe true
    (fmin prec emax (fmax prec emax (Bnearbyint mode_NE (nan_to_num prec emax Hp Hpe (Bdiv mode_NE x s)))
                                    (fof_Z prec emax Hp Hpe (-128)))
                    (fof_Z prec emax Hp Hpe 127)).
Proof. reflexivity. Qed.

(* round - clamp - cast on any finite float: the exact integer clampZ(round(q)), stored without wrap *)
Lemma clamp_chain (q : fl) : is_finite q = true ->
  cast_wrap prec emax Hp Hpe true
    (fmin prec emax (fmax prec emax (Bnearbyint mode_NE q) (fof_Z prec emax Hp Hpe (-128)))
                    (fof_Z prec emax Hp Hpe 127))
  = fof_Z prec emax Hp Hpe (clampZ (-128) 127 (ZnearestE (B2R q))).
Proof.
  intros FQ.
  pose proof (fof_Z_exact prec emax Hp Hpe Hprec8 Hemax9 (-128) ltac:(simpl; lia)) as [Hlo Flo].
  pose proof (fof_Z_exact prec emax Hp Hpe Hprec8 Hemax9 127 ltac:(simpl; lia)) as [Hhi Fhi].
  pose proof (Bnearbyint_correct prec emax Hpe mode_NE q) as (HR & FR & _).
  cbn [round_mode] in HR. rewrite round_FIX_IZR in HR. rewrite FQ in FR.
  destruct (fmax_finite prec emax (Bnearbyint mode_NE q) _ FR Flo) as [HM1 FM1].
  destruct (fmin_finite prec emax _ _ FM1 Fhi) as [HM2 FM2].
  rewrite HM1, HR, Hlo, Hhi in HM2. rewrite clamp_IZR in HM2.
  apply (cast_int8_exact prec emax Hp Hpe _ _ FM2 HM2). unfold clampZ. lia.
Qed.

(* a zero scale (all-zero row, or absmax/qmax underflowing to zero): the quotient is NaN or an
   infinity, nan_to_num makes it finite, and the dequantized value is a zero: finite, whatever x *)
Theorem qint8_zero_scale_finite (x : fl) (ss : bool) :
  is_finite x = true ->
  is_finite (qdeq x (B754_zero ss)) = true /\ B2R (qdeq x (B754_zero ss)) = 0.
Proof.
  intros Fx. unfold qdeq, symdq. fold (qcode x (B754_zero ss)). rewrite qcode_unfold.
  assert (FQ : is_finite (nan_to_num prec emax Hp Hpe (Bdiv mode_NE x (B754_zero ss))) = true).
  { destruct fmaxfloat_value as [_ HMf].
    destruct x as [sx| | |sx mx ex Hx]; try discriminate Fx; cbn [Bdiv nan_to_num];
      try reflexivity; destruct (xorb sx ss); rewrite ?is_finite_Bopp; exact HMf. }
  rewrite (clamp_chain _ FQ).
  set (k := clampZ (-128) 127 _).
  assert (Hk : (-128 <= k <= 127)%Z) by (unfold k, clampZ; lia).
  pose proof (fof_Z_exact prec emax Hp Hpe Hprec8 Hemax9 k ltac:(lia)) as [Hck Fck].
  cbn [n_mul NumFl].
  pose proof (Bmult_correct prec emax Hp Hpe mode_NE (B754_zero ss) (fof_Z prec emax Hp Hpe k)) as HM.
  cbn [round_mode BinarySingleNaN.B2R] in HM. rewrite Rmult_0_l, round_0 in HM by apply valid_rnd_N.
  rewrite Rabs_R0, Rlt_bool_true in HM by apply bpow_gt_0.
  destruct HM as (HMv & HMf & _). rewrite Fck in HMf. split; [exact HMf | exact HMv].
Qed.

Theorem qint8_code_float (x s : fl) :
  is_finite x = true -> is_finite s = true -> 0 < B2R s ->
  exists k : Z, (-128 <= k <= 127)%Z /\ qcode x s = fof_Z prec emax Hp Hpe k /\
    forall v : Z, (-128 <= v <= 127)%Z ->
      Rabs (B2R s * IZR k - B2R x) <= Rabs (B2R s * IZR v - B2R x) + 2 * (u * Rabs (B2R x) + B2R s * eta).
Proof.
  intros Fx Fs Sp. set (X := B2R x). set (S := B2R s). set (Y := X / S).
  pose proof (fof_Z_exact prec emax Hp Hpe Hprec8 Hemax9 (-128) ltac:(simpl; lia)) as [Hlo Flo].
  pose proof (fof_Z_exact prec emax Hp Hpe Hprec8 Hemax9 127 ltac:(simpl; lia)) as [Hhi Fhi].
  pose proof (uro_pos prec) as Hu. pose proof (eta_pos prec emax) as He.
  assert (SP : 0 < S) by exact Sp.
  assert (Hslack : 0 <= 2 * (u * Rabs X + S * eta)).
  { pose proof (Rabs_pos X). assert (0 <= u * Rabs X) by (apply Rmult_le_pos; lra).
    assert (0 <= S * eta) by (apply Rmult_le_pos; lra). lra. }
  rewrite qcode_unfold.
  destruct (div_nan_to_num x s Fx Fs Sp) as [FQ HQ]. fold X S Y in HQ.
  set (q := nan_to_num prec emax Hp Hpe (Bdiv mode_NE x s)) in *.
  pose proof (Bnearbyint_correct prec emax Hpe mode_NE q) as (HR & FR & _).
  cbn [round_mode] in HR. rewrite round_FIX_IZR in HR. rewrite FQ in FR.
  set (n := ZnearestE (B2R q)) in *.
  set (r := Bnearbyint mode_NE q) in *.
  destruct (fmax_finite prec emax r _ FR Flo) as [HM1 FM1].
  destruct (fmin_finite prec emax _ _ FM1 Fhi) as [HM2 FM2].
  rewrite HM1, HR, Hlo, Hhi in HM2. rewrite clamp_IZR in HM2.
  set (k := clampZ (-128) 127 n) in *.
  assert (Hk : (-128 <= k <= 127)%Z) by (unfold k, clampZ; lia).
  exists k. split; [exact Hk|]. split.
  { exact (proj1 (cast_int8_exact prec emax Hp Hpe _ k FM2 HM2 Hk)). }
  intros v Hv.
  assert (HS1 : forall a : R, S * a - X = S * (a - Y)) by (intros a; unfold Y; field; lra).
  destruct HQ as [HQ|[[HY HQ]|[HY HQ]]].
  - (* the quotient was rounded normally *)
    assert (En : n = ZnearestE (rnd Y)) by (unfold n; rewrite HQ; reflexivity).
    pose proof (clamp_nearest (-128) 127 (rnd Y) v ltac:(lia) Hv) as Hn. rewrite <- En in Hn. fold k in Hn.
    pose proof (rnd_err prec emax Hp Y) as Herr.
    assert (H1 : Rabs (IZR k - Y) <= Rabs (IZR v - Y) + 2 * Rabs (rnd Y - Y)).
    { replace (IZR k - Y) with ((IZR k - rnd Y) + (rnd Y - Y)) by ring.
      eapply Rle_trans; [apply Rabs_triang|].
      assert (Rabs (IZR v - rnd Y) <= Rabs (IZR v - Y) + Rabs (rnd Y - Y)).
      { replace (IZR v - rnd Y) with ((IZR v - Y) + - (rnd Y - Y)) by ring.
        eapply Rle_trans; [apply Rabs_triang|]. rewrite Rabs_Ropp. lra. }
      lra. }
    assert (HYa : Rabs Y = Rabs X / S).
    { unfold Y. unfold Rdiv. rewrite Rabs_mult, Rabs_inv. rewrite (Rabs_pos_eq S) by lra. reflexivity. }
    rewrite !HS1, !Rabs_mult, (Rabs_pos_eq S) by lra.
    assert (S * Rabs (rnd Y - Y) <= u * Rabs X + S * eta).
    { rewrite HYa in Herr.
      apply Rle_trans with (S * (u * (Rabs X / S) + eta)); [apply Rmult_le_compat_l; lra|].
      right. field. lra. }
    nra.
  - (* overflow towards +inf: the code is 127 and x/s > 255 *)
    assert (Hn : (255 <= n)%Z).
    { unfold n. apply le_IZR.
      pose proof (Znearest_ge_floor (fun z => negb (Z.even z)) (B2R q)) as Hf. fold ZnearestE in Hf.
      apply IZR_le in Hf. eapply Rle_trans; [|exact Hf]. apply IZR_le, Zfloor_lub. exact HQ. }
    assert (Ek : k = 127%Z) by (unfold k, clampZ; lia). rewrite Ek.
    set (SL := 2 * (u * Rabs X + S * eta)) in *.
    rewrite !HS1, !Rabs_mult, (Rabs_pos_eq S) by lra.
    assert (IZR v <= IZR 127) by (apply IZR_le; lia).
    rewrite <- (Rabs_Ropp (IZR 127 - Y)), <- (Rabs_Ropp (IZR v - Y)), !Rabs_pos_eq by lra.
    assert (S * - (IZR 127 - Y) <= S * - (IZR v - Y)) by (apply Rmult_le_compat_l; lra). lra.
  - (* overflow towards -inf *)
    assert (Hn : (n <= -255)%Z).
    { unfold n. apply le_IZR.
      pose proof (Znearest_le_ceil (fun z => negb (Z.even z)) (B2R q)) as Hf. fold ZnearestE in Hf.
      apply IZR_le in Hf. eapply Rle_trans; [exact Hf|]. apply IZR_le, Zceil_glb. exact HQ. }
    assert (Ek : k = (-128)%Z) by (unfold k, clampZ; lia). rewrite Ek.
    set (SL := 2 * (u * Rabs X + S * eta)) in *.
    rewrite !HS1, !Rabs_mult, (Rabs_pos_eq S) by lra.
    assert (IZR (-128) <= IZR v) by (apply IZR_le; lia).
    rewrite !Rabs_pos_eq by lra.
    assert (S * (IZR (-128) - Y) <= S * (IZR v - Y)) by (apply Rmult_le_compat_l; lra). lra.
Qed.

(* dequantization: finite, and within one rounding of the exact product *)
Theorem qint8_nearest_float (x s : fl) :
  is_finite x = true -> is_finite s = true -> 0 < B2R s -> 128 * B2R s <= Fmax ->
  exists k : Z, (-128 <= k <= 127)%Z /\ B2R (qcode x s) = IZR k /\ is_finite (qcode x s) = true
    /\ code_byte prec emax SInt8 (qcode x s) = k
    /\ is_finite (qdeq x s) = true
    /\ forall v : Z, (-128 <= v <= 127)%Z ->
       Rabs (B2R (qdeq x s) - B2R x) <=
       Rabs (B2R s * IZR v - B2R x)
       + (2 * (u * Rabs (B2R x) + B2R s * eta) + (u * Rabs (B2R s * IZR k) + eta)).
Proof.
  intros Fx Fs Sp Hgrid.
  destruct (qint8_code_float x s Fx Fs Sp) as (k & Hk & Ec & Hnear).
  pose proof (fof_Z_exact prec emax Hp Hpe Hprec8 Hemax9 k ltac:(lia)) as [Hck Fck].
  exists k. split; [exact Hk|]. rewrite Ec. split; [exact Hck|]. split; [exact Fck|].
  split; [exact (proj2 (cast_int8_exact prec emax Hp Hpe _ k Fck Hck Hk))|].
  unfold qdeq, symdq. fold (qcode x s). rewrite Ec. cbn [n_mul NumFl].
  pose proof (Bmult_correct prec emax Hp Hpe mode_NE s (fof_Z prec emax Hp Hpe k)) as HM.
  cbn [round_mode] in HM. rewrite Hck in HM.
  assert (Hsz : Rabs (B2R s * IZR k) <= Fmax).
  { rewrite Rabs_mult, (Rabs_pos_eq (B2R s)) by lra.
    assert (Rabs (IZR k) <= 128) by (rewrite <- abs_IZR; apply IZR_le; lia).
    apply Rle_trans with (B2R s * 128); [apply Rmult_le_compat_l; lra | lra]. }
  rewrite Rlt_bool_true in HM by (apply rnd_no_overflow; exact Hsz).
  destruct HM as (HMv & HMf & _). rewrite Fs, Fck in HMf.
  split; [exact HMf|]. intros v Hv. rewrite HMv.
  pose proof (rnd_err prec emax Hp (B2R s * IZR k)) as Herr.
  specialize (Hnear v Hv).
  replace (rnd (B2R s * IZR k) - B2R x)
    with ((rnd (B2R s * IZR k) - B2R s * IZR k) + (B2R s * IZR k - B2R x)) by ring.
  eapply Rle_trans; [apply Rabs_triang|]. lra.
Qed.

(* C16 for qint8: any finite element and any finite non-negative scale (zero included) with a
   representable grid dequantize to a finite value *)
Theorem qint8_finite (x s : fl) :
  is_finite x = true -> is_finite s = true -> 0 <= B2R s -> 128 * B2R s <= Fmax ->
  is_finite (qdeq x s) = true.
Proof.
  intros Fx Fs Sp Hgrid. destruct (Rle_lt_or_eq_dec 0 (B2R s) Sp) as [Hpos|Hz].
  - destruct (qint8_nearest_float x s Fx Fs Hpos Hgrid) as (k & _ & _ & _ & _ & Hf & _). exact Hf.
  - destruct s as [ss| | |ss ms es Hs]; try discriminate Fs.
    + exact (proj1 (qint8_zero_scale_finite x ss Fx)).
    + exfalso. cbn [BinarySingleNaN.B2R] in Hz. destruct ss; cbn [cond_Zopp Z.opp] in Hz.
      * pose proof (F2R_lt_0 radix2 (Float radix2 (Z.neg ms) es) eq_refl). lra.
      * pose proof (F2R_gt_0 radix2 (Float radix2 (Z.pos ms) es) eq_refl). lra.
Qed.

End C01F.
