(* C01 / C16 for the float8 storage types at the level of IEEE arithmetic (Flocq).
   Working format (prec, emax) generic with prec >= 8, emax >= 9; storage format (p2, e2) held at scale
   2^sh (e5m2: (3,16) at scale 1; e4m3fn: Flocq's (4,9) at half scale, see Float/F.v), largest value M.
   The grid G8 is the set of reals v with v*2^sh in the storage format and |v| <= M.
   - [code8_of_finite]: clamp-then-cast of ANY finite float is the grid point nearest to the clamped value
   - [f8_nearest]: for every finite x and finite positive scale with a representable grid, the stored code is
     a grid point, the dequantized value is finite and within an explicit rounding slack of a closest point
     s*v of the scaled grid (the float quotient is rounded once before the cast: that double rounding is
     inside the slack); a quotient that overflows saturates to the end point
   - [f8_zero_scale_finite], [f8_finite]: finiteness for every finite non-negative scale, zero included. *)
From Coq Require Import ZArith Reals Lra Lia List Bool Psatz.
From Flocq Require Import Core Relative IEEE754.BinarySingleNaN.
From QV Require Import Lib.Res Lib.Tensor Lib.ND Lib.Num Lib.QTensor Float.F Model.Quant
     Proofs.QuantProofs Proofs.RealNum Proofs.FloatFacts Proofs.C01Float.
Local Open Scope R_scope.

Section F8.
Variables prec emax : Z.
Context (Hp : Prec_gt_0 prec) (Hpe : Prec_lt_emax prec emax).
Hypothesis Hprec8 : (8 <= prec)%Z.
Hypothesis Hemax9 : (9 <= emax)%Z.
Variables p2 e2 sh M : Z.
Context (Hp2 : Prec_gt_0 p2) (Hpe2 : Prec_lt_emax p2 e2).
Hypothesis Hp2le : (p2 <= prec)%Z.
Hypothesis Hemin : (3 - emax - prec <= 3 - e2 - p2 - sh)%Z.
Hypothesis HMpos : (0 < M)%Z.
Hypothesis HMfmt2 : generic_format radix2 (SpecFloat.fexp p2 e2) (IZR M * bpow radix2 sh).
Hypothesis HMlt2 : IZR M * bpow radix2 sh < bpow radix2 e2.
Hypothesis HMfmt : generic_format radix2 (SpecFloat.fexp prec emax) (IZR M).
Hypothesis HMle : IZR M <= Fmax prec emax.

Notation fl := (binary_float prec emax).
Notation femin := (SpecFloat.emin prec emax).
Notation fexp := (SpecFloat.fexp prec emax).
Notation fexp2 := (SpecFloat.fexp p2 e2).
Notation rnd := (round radix2 fexp ZnearestE).
Notation rnd2 := (round radix2 fexp2 ZnearestE).
Notation B2R := (@B2R prec emax).
Notation u := (uro prec).
Notation eta := (eta prec emax).
Notation FMAX := (Fmax prec emax).
Existing Instance NumFl.
Existing Instance fexp_valid.
Instance fexp2_valid : Valid_exp fexp2 := FLT_exp_valid (SpecFloat.emin p2 e2) p2.

Notation MR := (IZR M).
Lemma MR_pos : 0 < MR. Proof. apply IZR_lt. exact HMpos. Qed.

(* rounding to the scaled storage grid, and the grid *)
Definition R8 (z : R) : R := rnd2 (z * bpow radix2 sh) * bpow radix2 (- sh).
Definition G8 (v : R) : Prop := generic_format radix2 fexp2 (v * bpow radix2 sh) /\ Rabs v <= MR.

Lemma bsh : bpow radix2 sh * bpow radix2 (- sh) = 1.
Proof. rewrite <- bpow_plus. replace (sh + - sh)%Z with 0%Z by lia. reflexivity. Qed.

Lemma R8_nearest (z v : R) : G8 v -> Rabs (R8 z - z) <= Rabs (v - z).
Proof.
  intros [Gv _]. unfold R8.
  destruct (round_N_pt radix2 fexp2 (fun t => negb (Z.even t)) (z * bpow radix2 sh)) as [_ HN].
  fold ZnearestE in HN. specialize (HN _ Gv).
  pose proof (bpow_gt_0 radix2 (- sh)) as Hb. pose proof bsh as Hs.
  assert (E1 : forall a : R, a * bpow radix2 sh * bpow radix2 (- sh) = a) by (intros a; rewrite Rmult_assoc, Hs; ring).
  replace (rnd2 (z * bpow radix2 sh) * bpow radix2 (- sh) - z)
    with ((rnd2 (z * bpow radix2 sh) - z * bpow radix2 sh) * bpow radix2 (- sh)) by (rewrite Rmult_minus_distr_r, E1; reflexivity).
  replace (v - z) with ((v * bpow radix2 sh - z * bpow radix2 sh) * bpow radix2 (- sh)) by (rewrite Rmult_minus_distr_r, !E1; reflexivity).
  rewrite !Rabs_mult, (Rabs_pos_eq (bpow radix2 (- sh))) by lra.
  apply Rmult_le_compat_r; lra.
Qed.

Lemma R8_bound (z : R) : Rabs z <= MR -> Rabs (rnd2 (z * bpow radix2 sh)) <= MR * bpow radix2 sh.
Proof.
  intros Hz. apply abs_round_le_generic; [apply fexp2_valid | apply valid_rnd_N | exact HMfmt2 |].
  pose proof (bpow_gt_0 radix2 sh) as Hb.
  rewrite Rabs_mult, (Rabs_pos_eq (bpow radix2 sh)) by lra. apply Rmult_le_compat_r; lra.
Qed.

Lemma R8_grid (z : R) : Rabs z <= MR -> G8 (R8 z).
Proof.
  intros Hz. pose proof (R8_bound z Hz) as Hb. pose proof bsh as Hs.
  pose proof (bpow_gt_0 radix2 sh) as Hb1. pose proof (bpow_gt_0 radix2 (- sh)) as Hb2.
  split.
  - unfold R8. rewrite Rmult_assoc, (Rmult_comm (bpow radix2 (- sh))), Hs, Rmult_1_r.
    apply generic_format_round; [apply fexp2_valid | apply valid_rnd_N].
  - unfold R8. rewrite Rabs_mult, (Rabs_pos_eq (bpow radix2 (- sh))) by lra.
    apply Rle_trans with (MR * bpow radix2 sh * bpow radix2 (- sh)); [apply Rmult_le_compat_r; lra|].
    rewrite Rmult_assoc, Hs. lra.
Qed.

Lemma R8_M : R8 MR = MR.
Proof.
  unfold R8. rewrite (round_generic radix2 fexp2 ZnearestE _ HMfmt2).
  rewrite Rmult_assoc, bsh. ring.
Qed.

Lemma R8_mM : R8 (- MR) = - MR.
Proof.
  unfold R8. replace (- MR * bpow radix2 sh) with (- (MR * bpow radix2 sh)) by ring.
  rewrite (round_generic radix2 fexp2 ZnearestE _ (generic_format_opp _ _ _ HMfmt2)).
  replace (- (MR * bpow radix2 sh) * bpow radix2 (- sh)) with (- (MR * (bpow radix2 sh * bpow radix2 (- sh)))) by ring.
  rewrite bsh. ring.
Qed.

(* exact integers that are floats *)
Lemma fof_Z_exact_fmt (k : Z) : generic_format radix2 fexp (IZR k) -> Rabs (IZR k) <= FMAX ->
  B2R (fof_Z prec emax Hp Hpe k) = IZR k /\ is_finite (fof_Z prec emax Hp Hpe k) = true.
Proof.
  intros G Hk. unfold fof_Z.
  pose proof (binary_normalize_correct prec emax Hp Hpe mode_NE k 0 false) as H. cbv zeta in H.
  assert (E : F2R (Float radix2 k 0) = IZR k) by (unfold F2R; simpl; ring).
  rewrite E in H. simpl round_mode in H.
  rewrite (round_generic radix2 fexp ZnearestE (IZR k) G) in H.
  rewrite Rlt_bool_true in H by (pose proof (Fmax_lt prec emax); lra).
  destruct H as (H1 & H2 & _). split; assumption.
Qed.

Lemma fofM : B2R (fof_Z prec emax Hp Hpe M) = MR /\ is_finite (fof_Z prec emax Hp Hpe M) = true.
Proof. apply fof_Z_exact_fmt; [exact HMfmt|]. pose proof MR_pos. rewrite Rabs_pos_eq by lra. exact HMle. Qed.

Lemma fofmM : B2R (fof_Z prec emax Hp Hpe (- M)) = - MR /\ is_finite (fof_Z prec emax Hp Hpe (- M)) = true.
Proof.
  rewrite <- (opp_IZR M). apply fof_Z_exact_fmt.
  - rewrite opp_IZR. apply generic_format_opp. exact HMfmt.
  - rewrite opp_IZR, Rabs_Ropp. pose proof MR_pos. rewrite Rabs_pos_eq by lra. exact HMle.
Qed.

Definition clampR (z : R) : R := Rmin (Rmax z (- MR)) MR.
Lemma clampR_abs z : Rabs (clampR z) <= MR.
Proof.
  pose proof MR_pos. unfold clampR, Rmin, Rmax.
  destruct (Rle_dec z (- MR)); destruct (Rle_dec _ MR); apply Rabs_le; lra.
Qed.

(* the cast to the storage format and back: nearest grid point of a value inside [-M, M] *)
Definition cast8 (c1 : fl) : fl :=
  widen prec emax Hp Hpe p2 e2 (- sh) (narrow prec emax p2 e2 Hp2 Hpe2 sh c1).

Lemma format2_in_format (z : R) : generic_format radix2 fexp2 z -> generic_format radix2 fexp (z * bpow radix2 (- sh)).
Proof.
  intros G. change fexp2 with (FLT_exp (SpecFloat.emin p2 e2) p2) in G.
  destruct (FLT_format_generic radix2 _ p2 z G) as [f Ef Hm He].
  change fexp with (FLT_exp femin prec). apply generic_format_FLT.
  exists (Float radix2 (Fnum f) (Fexp f - sh)).
  - rewrite Ef. unfold F2R. cbn [Fnum Fexp]. replace (Fexp f - sh)%Z with (Fexp f + - sh)%Z by lia.
    rewrite bpow_plus. ring.
  - cbn [Fnum]. eapply Z.lt_le_trans; [exact Hm|]. change (radix_val radix2) with 2%Z.
    apply Z.pow_le_mono_r; [lia | exact Hp2le].
  - cbn [Fexp]. unfold SpecFloat.emin in *. lia.
Qed.

Lemma cast8_correct (c1 : fl) : is_finite c1 = true -> Rabs (B2R c1) <= MR ->
  is_finite (cast8 c1) = true /\ B2R (cast8 c1) = R8 (B2R c1).
Proof.
  intros Fc Hc. pose proof bsh as Hs. pose proof MR_pos as HMp.
  pose proof (bpow_gt_0 radix2 sh) as Hb1. pose proof (bpow_gt_0 radix2 (- sh)) as Hb2.
  (* the narrowing *)
  assert (HN : is_finite (narrow prec emax p2 e2 Hp2 Hpe2 sh c1) = true /\
               BinarySingleNaN.B2R (narrow prec emax p2 e2 Hp2 Hpe2 sh c1) = rnd2 (B2R c1 * bpow radix2 sh)).
  { destruct c1 as [s| | |s m e Hbd]; try discriminate Fc.
    - cbn [narrow BinarySingleNaN.B2R is_finite]. rewrite Rmult_0_l, round_0 by apply valid_rnd_N. split; reflexivity.
    - cbn [narrow].
      pose proof (binary_normalize_correct p2 e2 Hp2 Hpe2 mode_NE (if s then Z.neg m else Z.pos m) (e + sh) s) as H.
      cbv zeta in H. cbn [round_mode] in H.
      assert (E : F2R (Float radix2 (if s then Z.neg m else Z.pos m) (e + sh)) = B2R (B754_finite s m e Hbd) * bpow radix2 sh).
      { cbn [BinarySingleNaN.B2R]. unfold F2R. cbn [Fnum Fexp]. rewrite bpow_plus. destruct s; cbn [cond_Zopp Z.opp]; ring. }
      rewrite E in H. rewrite Rlt_bool_true in H.
      + destruct H as (H1 & H2 & _). split; assumption.
      + eapply Rle_lt_trans; [apply (R8_bound _ Hc)|]. exact HMlt2. }
  destruct HN as [FN VN]. unfold cast8.
  set (y := narrow prec emax p2 e2 Hp2 Hpe2 sh c1) in *.
  pose proof (generic_format_B2R p2 e2 y) as Gy. rewrite VN in Gy.
  unfold R8. rewrite <- VN.
  destruct y as [s| | |s m e Hbd]; try discriminate FN.
  - cbn [widen BinarySingleNaN.B2R is_finite]. split; [reflexivity | ring].
  - cbn [widen].
    pose proof (binary_normalize_correct prec emax Hp Hpe mode_NE (if s then Z.neg m else Z.pos m) (e + - sh) s) as H.
    cbv zeta in H. cbn [round_mode] in H.
    assert (E : F2R (Float radix2 (if s then Z.neg m else Z.pos m) (e + - sh))
                = BinarySingleNaN.B2R (B754_finite s m e Hbd) * bpow radix2 (- sh)).
    { cbn [BinarySingleNaN.B2R]. unfold F2R. cbn [Fnum Fexp]. rewrite bpow_plus. destruct s; cbn [cond_Zopp Z.opp]; ring. }
    rewrite E in H. rewrite VN in *.
    rewrite (round_generic radix2 fexp ZnearestE _ (format2_in_format _ Gy)) in H.
    rewrite Rlt_bool_true in H.
    + destruct H as (H1 & H2 & _). split; assumption.
    + rewrite Rabs_mult, (Rabs_pos_eq (bpow radix2 (- sh))) by lra.
      apply Rle_lt_trans with (MR * bpow radix2 sh * bpow radix2 (- sh)).
      * apply Rmult_le_compat_r; [lra | exact (R8_bound _ Hc)].
      * rewrite Rmult_assoc, Hs, Rmult_1_r. pose proof (Fmax_lt prec emax). lra.
Qed.

(* clamp, then cast, of any finite float *)
Definition post8 (q0 : fl) : fl :=
  cast8 (fmin prec emax (fmax prec emax q0 (fof_Z prec emax Hp Hpe (- M))) (fof_Z prec emax Hp Hpe M)).

Lemma code8_of_finite (q0 : fl) : is_finite q0 = true ->
  is_finite (post8 q0) = true /\ B2R (post8 q0) = R8 (clampR (B2R q0)) /\ G8 (B2R (post8 q0)).
Proof.
  intros FQ. destruct fofM as [HMv HMf]. destruct fofmM as [Hmv Hmf].
  destruct (fmax_finite prec emax q0 _ FQ Hmf) as [H1 F1].
  destruct (fmin_finite prec emax _ _ F1 HMf) as [H2 F2].
  rewrite H1, Hmv, HMv in H2. fold (clampR (B2R q0)) in H2.
  pose proof (clampR_abs (B2R q0)) as Hc. rewrite <- H2 in Hc.
  destruct (cast8_correct _ F2 Hc) as [F3 H3]. unfold post8.
  split; [exact F3|]. rewrite H3, H2. split; [reflexivity|]. apply R8_grid. apply clampR_abs.
Qed.

(* the float quotient after nan_to_num: the rounded quotient or, on overflow, the largest float of the sign *)
Lemma div_nan_to_num_max (x s : fl) :
  is_finite x = true -> is_finite s = true -> 0 < B2R s ->
  let Y := B2R x / B2R s in
  let q := nan_to_num prec emax Hp Hpe (Bdiv mode_NE x s) in
  is_finite q = true /\
  (B2R q = rnd Y \/ (FMAX < Y /\ B2R q = FMAX) \/ (Y < - FMAX /\ B2R q = - FMAX)).
Proof.
  intros Fx Fs Sp Y q. set (X := B2R x) in *. set (S := B2R s) in *.
  assert (SP : 0 < S) by exact Sp.
  pose proof (Bdiv_correct prec emax Hp Hpe mode_NE x s ltac:(fold S; lra)) as HD.
  cbn [round_mode] in HD. fold X S Y in HD.
  destruct (Rlt_bool_spec (Rabs (rnd Y)) (bpow radix2 emax)) as [Hno|Hov].
  - destruct HD as (HQ & FQ & _). rewrite Fx in FQ.
    assert (Eq : q = Bdiv mode_NE x s).
    { unfold q. destruct (Bdiv mode_NE x s); try discriminate FQ; reflexivity. }
    rewrite Eq. split; [exact FQ|]. left. exact HQ.
  - assert (HYF : FMAX < Rabs Y).
    { destruct (Rle_or_lt (Rabs Y) FMAX) as [H|H]; [|exact H]. exfalso.
      pose proof (rnd_no_overflow prec emax Hp Hemax9 Y H). lra. }
    pose proof (Fmax_ge_256 prec emax Hp Hprec8 Hemax9) as HF.
    assert (Xnz : X <> 0).
    { intros E. unfold Y in HYF. rewrite E in HYF. unfold Rdiv in HYF.
      rewrite Rmult_0_l, Rabs_R0 in HYF. lra. }
    assert (Ssign : Bsign s = false).
    { destruct (Bsign s) eqn:E; [|reflexivity]. exfalso.
      assert (Nz : S <> 0) by lra. apply (proj1 (finite_sign prec emax s Fs Nz)) in E. fold S in E. lra. }
    rewrite Ssign, xorb_false_r in HD.
    assert (Hq : Bdiv mode_NE x s = B754_infinity (Bsign x)).
    { apply B2SF_inj. rewrite HD. reflexivity. }
    pose proof (finite_sign prec emax x Fx Xnz) as Hsx. fold X in Hsx.
    destruct (fmaxfloat_value prec emax Hp Hpe Hprec8) as [HMv HMf].
    assert (0 < / S) by (apply Rinv_0_lt_compat; lra).
    unfold q. rewrite Hq. cbn [nan_to_num]. destruct (Bsign x) eqn:Esx.
    + assert (Xneg : X < 0) by (apply Hsx; reflexivity).
      assert (Y < 0) by (unfold Y, Rdiv; nra).
      rewrite Rabs_left in HYF by lra.
      rewrite is_finite_Bopp, B2R_Bopp, HMv. split; [exact HMf|]. right. right. split; lra.
    + assert (Xpos : 0 < X).
      { destruct (Rtotal_order X 0) as [H1|[H1|H1]]; [|congruence|exact H1].
        apply Hsx in H1. discriminate H1. }
      assert (0 < Y) by (unfold Y, Rdiv; nra).
      rewrite Rabs_pos_eq in HYF by lra.
      rewrite HMv. split; [exact HMf|]. right. left. split; lra.
Qed.

Definition code8 (x s : fl) : fl := post8 (nan_to_num prec emax Hp Hpe (Bdiv mode_NE x s)).
Definition deq8 (x s : fl) : fl := Bmult mode_NE s (code8 x s).

Lemma mult_finite (s c : fl) : is_finite s = true -> is_finite c = true -> 0 <= B2R s ->
  Rabs (B2R c) <= MR -> MR * B2R s <= FMAX ->
  is_finite (Bmult mode_NE s c) = true /\ B2R (Bmult mode_NE s c) = rnd (B2R s * B2R c).
Proof.
  intros Fs Fc Sp Hc Hgrid.
  pose proof (Bmult_correct prec emax Hp Hpe mode_NE s c) as HM. cbn [round_mode] in HM.
  assert (Hsz : Rabs (B2R s * B2R c) <= FMAX).
  { rewrite Rabs_mult, (Rabs_pos_eq (B2R s)) by lra.
    apply Rle_trans with (B2R s * MR); [apply Rmult_le_compat_l; lra | lra]. }
  rewrite Rlt_bool_true in HM by (apply (rnd_no_overflow prec emax Hp Hemax9); exact Hsz).
  destruct HM as (HMv & HMf & _). rewrite Fs, Fc in HMf. split; assumption.
Qed.

Theorem f8_nearest (x s : fl) :
  is_finite x = true -> is_finite s = true -> 0 < B2R s -> MR * B2R s <= FMAX ->
  G8 (B2R (code8 x s)) /\ is_finite (code8 x s) = true /\ is_finite (deq8 x s) = true /\
  forall v : R, G8 v ->
    Rabs (B2R (deq8 x s) - B2R x) <=
    Rabs (B2R s * v - B2R x)
    + (2 * (u * Rabs (B2R x) + B2R s * eta) + (u * Rabs (B2R s * B2R (code8 x s)) + eta)).
Proof.
  intros Fx Fs Sp Hgrid. set (X := B2R x). set (S := B2R s). set (Y := X / S).
  pose proof (uro_pos prec) as Hu. pose proof (eta_pos prec emax) as He. pose proof MR_pos as HMp.
  assert (SP : 0 < S) by exact Sp.
  destruct (div_nan_to_num_max x s Fx Fs Sp) as [FQ HQ]. fold X S Y in HQ.
  unfold deq8, code8. set (q := nan_to_num prec emax Hp Hpe (Bdiv mode_NE x s)) in *.
  destruct (code8_of_finite q FQ) as (FC & VC & GC).
  set (c := B2R (post8 q)) in *.
  destruct (mult_finite s (post8 q) Fs FC ltac:(fold S; lra) (proj2 GC) Hgrid) as [FD VD].
  split; [exact GC|]. split; [exact FC|]. split; [exact FD|].
  intros v Gv. rewrite VD. fold S c.
  pose proof (rnd_err prec emax Hp (S * c)) as Hperr.
  assert (Hslack : 0 <= 2 * (u * Rabs X + S * eta)).
  { pose proof (Rabs_pos X). assert (0 <= u * Rabs X) by (apply Rmult_le_pos; lra).
    assert (0 <= S * eta) by (apply Rmult_le_pos; lra). lra. }
  (* it suffices to bound S*c - X *)
  assert (Hmain : Rabs (S * c - X) <= Rabs (S * v - X) + 2 * (u * Rabs X + S * eta)).
  { assert (HS1 : forall a : R, S * a - X = S * (a - Y)) by (intros a; unfold Y; field; lra).
    rewrite !HS1, !Rabs_mult, (Rabs_pos_eq S) by lra.
    assert (Hv : Rabs v <= MR) by exact (proj2 Gv). apply Rabs_le_inv in Hv.
    (* three situations: inside the range, beyond the upper end, beyond the lower end *)
    assert (Hcases : (- MR <= B2R q <= MR /\ B2R q = rnd Y) \/ (MR <= B2R q /\ MR <= Y) \/ (B2R q <= - MR /\ Y <= - MR)).
    { destruct HQ as [HQ|[[HY HQ]|[HY HQ]]].
      - destruct (Rle_or_lt (B2R q) MR) as [H1|H1]; [destruct (Rle_or_lt (- MR) (B2R q)) as [H2|H2]|].
        + left. split; [split|]; assumption.
        + right. right. split; [lra|]. destruct (Rle_or_lt Y (- MR)) as [H3|H3]; [exact H3|exfalso].
          pose proof (round_ge_generic radix2 fexp ZnearestE (- MR) Y (generic_format_opp _ _ _ HMfmt) ltac:(lra)). lra.
        + right. left. split; [lra|]. destruct (Rle_or_lt MR Y) as [H3|H3]; [exact H3|exfalso].
          pose proof (round_le_generic radix2 fexp ZnearestE Y MR HMfmt ltac:(lra)). lra.
      - right. left. split; lra.
      - right. right. split; lra. }
    destruct Hcases as [[Hin HQv]|[[Hq HY]|[Hq HY]]].
    - assert (Ec : clampR (B2R q) = B2R q) by (unfold clampR; rewrite Rmax_left, Rmin_left by lra; reflexivity).
      rewrite VC, Ec. pose proof (R8_nearest (B2R q) v Gv) as Hn. rewrite HQv in *.
      pose proof (rnd_err prec emax Hp Y) as Herr.
      assert (H1 : Rabs (R8 (rnd Y) - Y) <= Rabs (v - Y) + 2 * Rabs (rnd Y - Y)).
      { replace (R8 (rnd Y) - Y) with ((R8 (rnd Y) - rnd Y) + (rnd Y - Y)) by ring.
        eapply Rle_trans; [apply Rabs_triang|].
        assert (Rabs (v - rnd Y) <= Rabs (v - Y) + Rabs (rnd Y - Y)).
        { replace (v - rnd Y) with ((v - Y) + - (rnd Y - Y)) by ring.
          eapply Rle_trans; [apply Rabs_triang|]. rewrite Rabs_Ropp. lra. }
        lra. }
      assert (HYa : Rabs Y = Rabs X / S).
      { unfold Y. unfold Rdiv. rewrite Rabs_mult, Rabs_inv. rewrite (Rabs_pos_eq S) by lra. reflexivity. }
      assert (S * Rabs (rnd Y - Y) <= u * Rabs X + S * eta).
      { rewrite HYa in Herr.
        apply Rle_trans with (S * (u * (Rabs X / S) + eta)); [apply Rmult_le_compat_l; lra|].
        right. field. lra. }
      nra.
    - assert (Ec : clampR (B2R q) = MR) by (unfold clampR; rewrite Rmax_left, Rmin_right by lra; reflexivity).
      rewrite VC, Ec, R8_M.
      rewrite <- (Rabs_Ropp (MR - Y)), <- (Rabs_Ropp (v - Y)), !Rabs_pos_eq by lra.
      assert (S * - (MR - Y) <= S * - (v - Y)) by (apply Rmult_le_compat_l; lra). lra.
    - assert (Ec : clampR (B2R q) = - MR).
      { unfold clampR. rewrite Rmax_right by lra. rewrite Rmin_left by lra. reflexivity. }
      rewrite VC, Ec, R8_mM. rewrite !Rabs_pos_eq by lra.
      assert (S * (- MR - Y) <= S * (v - Y)) by (apply Rmult_le_compat_l; lra). lra. }
  replace (rnd (S * c) - X) with ((rnd (S * c) - S * c) + (S * c - X)) by ring.
  eapply Rle_trans; [apply Rabs_triang|]. lra.
Qed.

(* zero scale: the quotient is NaN or an infinity; nan_to_num, clamp and cast keep it finite and the
   dequantized value is a zero *)
Theorem f8_zero_scale_finite (x : fl) (ss : bool) :
  is_finite x = true ->
  is_finite (deq8 x (B754_zero ss)) = true /\ B2R (deq8 x (B754_zero ss)) = 0.
Proof.
  intros Fx. unfold deq8, code8.
  assert (FQ : is_finite (nan_to_num prec emax Hp Hpe (Bdiv mode_NE x (B754_zero ss))) = true).
  { destruct (fmaxfloat_value prec emax Hp Hpe Hprec8) as [_ HMf].
    destruct x as [sx| | |sx mx ex Hx]; try discriminate Fx; cbn [Bdiv nan_to_num];
      try reflexivity; destruct (xorb sx ss); rewrite ?is_finite_Bopp; exact HMf. }
  destruct (code8_of_finite _ FQ) as (FC & _ & GC).
  pose proof (Fmax_ge_256 prec emax Hp Hprec8 Hemax9) as HF.
  destruct (mult_finite (B754_zero ss) _ eq_refl FC ltac:(simpl; lra) (proj2 GC) ltac:(simpl; lra)) as [FD VD].
  split; [exact FD|]. rewrite VD. cbn [BinarySingleNaN.B2R]. rewrite Rmult_0_l. apply round_0, valid_rnd_N.
Qed.

Theorem f8_finite (x s : fl) :
  is_finite x = true -> is_finite s = true -> 0 <= B2R s -> MR * B2R s <= FMAX ->
  is_finite (deq8 x s) = true.
Proof.
  intros Fx Fs Sp Hgrid. destruct (Rle_lt_or_eq_dec 0 (B2R s) Sp) as [Hpos|Hz].
  - exact (proj1 (proj2 (proj2 (f8_nearest x s Fx Fs Hpos Hgrid)))).
  - destruct s as [ss| | |ss ms es Hs]; try discriminate Fs.
    + exact (proj1 (f8_zero_scale_finite x ss Fx)).
    + exfalso. cbn [BinarySingleNaN.B2R] in Hz. destruct ss; cbn [cond_Zopp Z.opp] in Hz.
      * pose proof (F2R_lt_0 radix2 (Float radix2 (Z.neg ms) es) eq_refl). lra.
      * pose proof (F2R_gt_0 radix2 (Float radix2 (Z.pos ms) es) eq_refl). lra.
Qed.

End F8.

(* ---- the two storage formats of quanto ------------------------------------------------------- *)
Section Inst8.
Variables prec emax : Z.
Context (Hp : Prec_gt_0 prec) (Hpe : Prec_lt_emax prec emax).
Hypothesis Hprec8 : (8 <= prec)%Z.
Hypothesis Hemax9 : (9 <= emax)%Z.
Notation fl := (binary_float prec emax).
Existing Instance NumFl.

Lemma small_mant_format (m e : Z) : (Z.abs m < 256)%Z -> (0 <= e)%Z ->
  generic_format radix2 (SpecFloat.fexp prec emax) (IZR (m * 2 ^ e)).
Proof.
  intros Hm He. change (SpecFloat.fexp prec emax) with (FLT_exp (SpecFloat.emin prec emax) prec).
  apply generic_format_FLT. exists (Float radix2 m e).
  - unfold F2R. cbn [Fnum Fexp]. rewrite mult_IZR. change 2%Z with (radix_val radix2). rewrite IZR_Zpower by exact He. reflexivity.
  - cbn [Fnum]. eapply Z.lt_le_trans; [exact Hm|]. change 256%Z with (2 ^ 8)%Z. change (radix_val radix2) with 2%Z.
    apply Z.pow_le_mono_r; lia.
  - cbn [Fexp]. unfold SpecFloat.emin. unfold Prec_gt_0 in Hp. lia.
Qed.

Lemma Fmax_ge (e : Z) : (8 <= e <= emax - 1)%Z -> bpow radix2 e <= Fmax prec emax.
Proof.
  intros He. unfold Fmax. unfold Prec_gt_0 in Hp.
  assert (H1 : bpow radix2 (emax - prec) <= bpow radix2 (emax - 1)) by (apply bpow_le; lia).
  assert (H2 : bpow radix2 emax = 2 * bpow radix2 (emax - 1)).
  { replace emax with (1 + (emax - 1))%Z at 1 by lia. rewrite bpow_plus. reflexivity. }
  assert (H3 : bpow radix2 e <= bpow radix2 (emax - 1)) by (apply bpow_le; lia).
  lra.
Qed.

(* e4m3fn: Flocq format (4, 9) at half scale, largest value 448 *)
Lemma e4m3_M2 : generic_format radix2 (SpecFloat.fexp 4 9) (IZR 448 * bpow radix2 (-1)).
Proof.
  replace (IZR 448 * bpow radix2 (-1)) with (F2R (Float radix2 7 5)) by (unfold F2R; simpl; lra).
  apply generic_format_F2R. intros _. unfold cexp. rewrite (mag_F2R_Zdigits radix2 7 5) by lia.
  vm_compute. discriminate.
Qed.

Definition code_e4m3 : fl -> fl -> fl := code8 prec emax Hp Hpe 4 9 (-1) 448 Hp4 Hpe4.
Definition deq_e4m3 : fl -> fl -> fl := deq8 prec emax Hp Hpe 4 9 (-1) 448 Hp4 Hpe4.

Lemma symq_e4m3 x s : symq qfloat8_e4m3fn x s = code_e4m3 x s.
Proof. reflexivity. Qed.
Lemma symdq_e4m3 x s : symdq qfloat8_e4m3fn x s = deq_e4m3 x s.
Proof. reflexivity. Qed.

Definition f8_statement (q : qtype) (p2 e2 sh M : Z) : Prop :=
  forall x s : fl,
  is_finite x = true -> is_finite s = true -> 0 < B2R s -> IZR M * B2R s <= Fmax prec emax ->
  G8 p2 e2 sh M (B2R (symq q x s)) /\ is_finite (symq q x s) = true /\ is_finite (symdq q x s) = true /\
  forall v : R, G8 p2 e2 sh M v ->
    Rabs (B2R (symdq q x s) - B2R x) <=
    Rabs (B2R s * v - B2R x)
    + (2 * (uro prec * Rabs (B2R x) + B2R s * eta prec emax)
       + (uro prec * Rabs (B2R s * B2R (symq q x s)) + eta prec emax)).

Definition f8_finite_statement (q : qtype) (M : Z) : Prop :=
  forall x s : fl,
  is_finite x = true -> is_finite s = true -> 0 <= B2R s -> IZR M * B2R s <= Fmax prec emax ->
  is_finite (symdq q x s) = true.

Lemma Fmax_ge_255b : 255 * bpow radix2 (emax - 8) <= Fmax prec emax.
Proof.
  unfold Fmax.
  assert (H1 : bpow radix2 (emax - prec) <= bpow radix2 (emax - 8)) by (apply bpow_le; lia).
  assert (H2 : bpow radix2 emax = 256 * bpow radix2 (emax - 8)).
  { replace emax with (8 + (emax - 8))%Z at 1 by lia. rewrite bpow_plus. reflexivity. }
  lra.
Qed.

Theorem e4m3_nearest : f8_statement qfloat8_e4m3fn 4 9 (-1) 448.
Proof.
  intros x s Fx Fs Sp Hgrid. rewrite symdq_e4m3, symq_e4m3.
  refine (f8_nearest prec emax Hp Hpe Hprec8 Hemax9 4 9 (-1) 448 Hp4 Hpe4 ltac:(lia) ltac:(lia) ltac:(lia)
            e4m3_M2 ltac:(simpl; lra) (small_mant_format 7 6 ltac:(simpl; lia) ltac:(lia)) _ x s Fx Fs Sp Hgrid).
  pose proof Fmax_ge_255b as H. assert (bpow radix2 1 <= bpow radix2 (emax - 8)) by (apply bpow_le; lia).
  simpl in *. lra.
Qed.

Theorem e4m3_finite : f8_finite_statement qfloat8_e4m3fn 448.
Proof.
  intros x s Fx Fs Sp Hgrid. rewrite symdq_e4m3.
  refine (f8_finite prec emax Hp Hpe Hprec8 Hemax9 4 9 (-1) 448 Hp4 Hpe4 ltac:(lia) ltac:(lia) ltac:(lia)
            e4m3_M2 ltac:(simpl; lra) (small_mant_format 7 6 ltac:(simpl; lia) ltac:(lia)) _ x s Fx Fs Sp Hgrid).
  pose proof Fmax_ge_255b as H. assert (bpow radix2 1 <= bpow radix2 (emax - 8)) by (apply bpow_le; lia).
  simpl in *. lra.
Qed.

(* e5m2: Flocq format (3, 16), largest value 57344; the working format needs emax >= 16 *)
Hypothesis Hemax16 : (16 <= emax)%Z.

Lemma e5m2_M2 : generic_format radix2 (SpecFloat.fexp 3 16) (IZR 57344 * bpow radix2 0).
Proof.
  replace (IZR 57344 * bpow radix2 0) with (F2R (Float radix2 7 13)) by (unfold F2R; simpl; lra).
  apply generic_format_F2R. intros _. unfold cexp. rewrite (mag_F2R_Zdigits radix2 7 13) by lia.
  vm_compute. discriminate.
Qed.

Definition code_e5m2 : fl -> fl -> fl := code8 prec emax Hp Hpe 3 16 0 57344 Hp3 Hpe3.
Definition deq_e5m2 : fl -> fl -> fl := deq8 prec emax Hp Hpe 3 16 0 57344 Hp3 Hpe3.
Lemma symq_e5m2 x s : symq qfloat8_e5m2 x s = code_e5m2 x s.
Proof. reflexivity. Qed.
Lemma symdq_e5m2 x s : symdq qfloat8_e5m2 x s = deq_e5m2 x s.
Proof. reflexivity. Qed.

Lemma e5m2_le_Fmax : IZR 57344 <= Fmax prec emax.
Proof.
  pose proof Fmax_ge_255b as H. assert (bpow radix2 8 <= bpow radix2 (emax - 8)) by (apply bpow_le; lia).
  simpl in *. lra.
Qed.

Theorem e5m2_nearest : f8_statement qfloat8_e5m2 3 16 0 57344.
Proof.
  intros x s Fx Fs Sp Hgrid. rewrite symdq_e5m2, symq_e5m2.
  exact (f8_nearest prec emax Hp Hpe Hprec8 Hemax9 3 16 0 57344 Hp3 Hpe3 ltac:(lia) ltac:(lia) ltac:(lia)
            e5m2_M2 ltac:(simpl; lra) (small_mant_format 7 13 ltac:(simpl; lia) ltac:(lia)) e5m2_le_Fmax x s Fx Fs Sp Hgrid).
Qed.

Theorem e5m2_finite : f8_finite_statement qfloat8_e5m2 57344.
Proof.
  intros x s Fx Fs Sp Hgrid. rewrite symdq_e5m2.
  exact (f8_finite prec emax Hp Hpe Hprec8 Hemax9 3 16 0 57344 Hp3 Hpe3 ltac:(lia) ltac:(lia) ltac:(lia)
            e5m2_M2 ltac:(simpl; lra) (small_mant_format 7 13 ltac:(simpl; lia) ltac:(lia)) e5m2_le_Fmax x s Fx Fs Sp Hgrid).
Qed.

End Inst8.
