(* C12, first batch, IEEE level: a running scale that still holds its initial value 1 is REPLACED by the range of the
   batch (no averaging with the arbitrary initial value), for any momentum and for float32 / float16 / bfloat16 scales.
   Together with Proofs/ScaleFloat.v (the scale absmax/qmax saturates no element of the tensor it was computed from
   beyond rounding) this is "after a single batch no activation of that batch saturates". *)
From Coq Require Import String List ZArith Bool.
From Flocq Require Import Core IEEE754.BinarySingleNaN.
From QV Require Import Lib.Res Lib.Tensor Lib.ND Lib.Num Lib.QTensor Float.F Model.Quant.
Import ListNotations.

Lemma first_batch_f32 (new : tensor f32) (mom : b64) :
  @updated_scale f32 Num32 (T [] [@n_of_Z f32 Num32 1%Z]) new mom = Ok new.
Proof. unfold updated_scale. replace (tf_all_eq_int (T [] [@n_of_Z f32 Num32 1%Z]) 1) with true by (vm_compute; reflexivity). reflexivity. Qed.

Lemma first_batch_f16 (new : tensor f16) (mom : b64) :
  @updated_scale f16 Num16 (T [] [@n_of_Z f16 Num16 1%Z]) new mom = Ok new.
Proof. unfold updated_scale. replace (tf_all_eq_int (T [] [@n_of_Z f16 Num16 1%Z]) 1) with true by (vm_compute; reflexivity). reflexivity. Qed.

Lemma first_batch_bf16 (new : tensor bf16) (mom : b64) :
  @updated_scale bf16 NumB16 (T [] [@n_of_Z bf16 NumB16 1%Z]) new mom = Ok new.
Proof. unfold updated_scale. replace (tf_all_eq_int (T [] [@n_of_Z bf16 NumB16 1%Z]) 1) with true by (vm_compute; reflexivity). reflexivity. Qed.
