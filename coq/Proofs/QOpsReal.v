(* C05, arithmetic classes in exact arithmetic (the real instance of Num): what the implementations of the
   rescale and sign classes do to a per-tensor quantized value is exactly the float operation on its dequantized
   value - under the side conditions the audit found to matter (a positive scale for relu; no code -128 for neg is
   an integer-overflow matter, outside exact arithmetic). *)
From Coq Require Import List Reals Lra ZArith.
From QV Require Import Lib.Res Lib.Tensor Lib.Num Proofs.RealNum Model.QOps.
Import ListNotations.
Open Scope R_scope.

Definition deqR (s : R) (data : tensor R) : tensor R := t_map (Rmult s) data.

Lemma t_map_map {A B C} (f : A -> B) (g : B -> C) (t : tensor A) : t_map g (t_map f t) = t_map (fun x => g (f x)) t.
Proof. unfold t_map. cbn [shape data]. rewrite map_map. reflexivity. Qed.

Lemma t_map_ext {A B} (f g : A -> B) (t : tensor A) : (forall x, f x = g x) -> t_map f t = t_map g t.
Proof. intros H. unfold t_map. f_equal. apply map_ext. exact H. Qed.

(* mul / div by a scalar only touch the scale *)
Theorem rescale_mul_exact (s k : R) (data : tensor R) : deqR (k * s) data = t_map (Rmult k) (deqR s data).
Proof. unfold deqR. rewrite t_map_map. apply t_map_ext. intros x. ring. Qed.

Theorem rescale_div_exact (s k : R) (data : tensor R) : k <> 0 -> deqR (s / k) data = t_map (fun y => y / k) (deqR s data).
Proof. intros Hk. unfold deqR. rewrite t_map_map. apply t_map_ext. intros x. field. exact Hk. Qed.

(* neg acts on the codes *)
Theorem sign_neg_exact (s : R) (data : tensor R) : deqR s (t_map Ropp data) = t_map Ropp (deqR s data).
Proof. unfold deqR. rewrite !t_map_map. apply t_map_ext. intros x. ring. Qed.

(* relu acts on the codes: exact for a non-negative scale ... *)
Theorem sign_relu_exact (s : R) (data : tensor R) : 0 <= s ->
  deqR s (t_map (fun d => Rmax d 0) data) = t_map (fun y => Rmax y 0) (deqR s data).
Proof.
  intros Hs. unfold deqR. rewrite !t_map_map. apply t_map_ext. intros x.
  unfold Rmax. destruct (Rle_dec x 0) as [Hx|Hx]; destruct (Rle_dec (s * x) 0) as [Hy|Hy]; try nra.
Qed.

(* ... and wrong for a negative one (the shape of known finding F25: a scale made negative by mul / div with a
   negative scalar, then relu on the codes) *)
Theorem sign_relu_negative_scale_refuted :
  exists (s : R) (data : tensor R), s < 0 /\
    deqR s (t_map (fun d => Rmax d 0) data) <> t_map (fun y => Rmax y 0) (deqR s data).
Proof.
  exists (-1), (T [1%Z] [1]). split; [lra|]. unfold deqR, t_map. cbn [shape data map].
  intros H. injection H as H. unfold Rmax in H.
  destruct (Rle_dec 1 0) as [H1|H1]; [lra|]. destruct (Rle_dec (-1 * 1) 0) as [H2|H2]; lra.
Qed.

(* comparisons of two values quantized with the same positive scale are comparisons of the codes *)
Theorem compare_codes_exact (s a b : R) : 0 < s -> (s * a < s * b <-> a < b).
Proof. intros Hs. split; intros H; nra. Qed.
