(* C03: the built-in range optimizers.  Structure (any number type): one scale per cell of the
   reduction (= per kept-axis index or group), computed from exactly the members of that cell; the
   broadcast partner of every element is the cell it belongs to (locality).  Exact arithmetic: the
   absmax scale does not saturate any element of its own cell and equals absmax/qmax. *)
From Coq Require Import String List ZArith Bool Lia.
From QV Require Import Lib.Res Lib.Tensor Lib.ListFacts Lib.ND Lib.NDFacts Lib.Num Lib.QTensor Model.Quant
     Proofs.QuantProofs.
Import ListNotations.
Open Scope Z_scope.

Section Generic.
Context {F : Type} `{NF : Num F}.

(* the reduction dims the optimizers use for a per-axis request *)
Definition opt_dims (base : tensor F) (axis : option Z) : list Z :=
  eff_dims (shape base) (if oz_eqb axis 0 then zrange2 1 (rank base) else zrange2 0 (rank base - 1)).

(* value of one reduction cell: fold of [f] over the members of the cell *)
Definition cell_fold (f : F -> F -> F) (t : tensor F) (rd : list Z) (c : Z) : option F :=
  match members (shape t) rd c with
  | [] => None
  | j0 :: js => Some (fold_left f (map (fun j => zget (data t) j f0) js) (zget (data t) j0 f0))
  end.

Lemma reduce_cells (f : F -> F -> F) rd0 (t r : tensor F) :
  t_reduce f f0 rd0 t = Ok r ->
  shape r = red_shape (shape t) (eff_dims (shape t) rd0) /\
  forall c, 0 <= c < prodZ (shape r) -> cell_fold f t (eff_dims (shape t) rd0) c = Some (zget (data r) c f0).
Proof.
  intros H. destruct (t_reduce_spec f f0 rd0 t r H) as [Hs Hc]. split; [exact Hs|].
  intros c Hcr. rewrite Hs in Hcr. destruct (Hc c Hcr) as (j0 & js & Em & Ev).
  unfold cell_fold. rewrite Em, Ev. reflexivity.
Qed.

(* a cell value depends only on the members of the cell *)
Lemma cell_fold_local (f : F -> F -> F) (t t' : tensor F) rd c :
  shape t = shape t' ->
  (forall j, In j (members (shape t) rd c) -> zget (data t) j f0 = zget (data t') j f0) ->
  cell_fold f t rd c = cell_fold f t' rd c.
Proof.
  intros Hs Hag. unfold cell_fold. rewrite <- Hs.
  destruct (members (shape t) rd c) as [|j0 js] eqn:Em; [reflexivity|].
  f_equal. rewrite (Hag j0 (or_introl eq_refl)). f_equal.
  apply map_ext_in. intros j Hj. apply Hag. right. exact Hj.
Qed.

(* ---- AbsmaxOptimizer, per-axis ------------------------------------------------------------------- *)
Theorem absmax_optimize_cells (base S : tensor F) bits a :
  absmax_optimize base bits (Some a) = Ok S ->
  let rd := opt_dims base (Some a) in
  let ab := tf_abs (tf_abs base) in
  shape S = red_shape (shape base) rd /\
  forall c, 0 <= c < prodZ (shape S) ->
    exists m, cell_fold n_max ab rd c = Some m /\
              zget (data S) c f0 = n_div m (n_of_Z (2 ^ (bits - 1) - 1)).
Proof.
  unfold absmax_optimize. cbn [bind]. intros H. mstep H. mstep H. injection H as <-.
  mstep B. injection B as <-.
  destruct (reduce_cells n_max _ _ _ B0) as [Hs Hc].
  change (shape (tf_abs (tf_abs base))) with (shape base) in Hs, Hc.
  change (rank (tf_abs base)) with (rank base) in Hs, Hc. fold (opt_dims base (Some a)) in Hs, Hc.
  unfold tf_div_int, t_map. cbn [shape data]. split; [exact Hs|].
  intros c Hcr. exists (zget (data v0) c f0). split; [apply Hc; exact Hcr|].
  (* the reduction produced exactly prodZ(shape) cells, so c indexes an existing one *)
  pose proof (t_reduce_length _ _ _ _ _ B0) as Hlen.
  unfold zget, zlen in *.
  rewrite nth_indep with (d' := n_div f0 (n_of_Z (2 ^ (bits - 1) - 1))) by (rewrite map_length; lia).
  apply (map_nth (fun x => n_div x (n_of_Z (2 ^ (bits - 1) - 1)))).
Qed.

Lemma zget_map_in {A B} (g : A -> B) (l : list A) j d d' :
  0 <= j < zlen l -> zget (map g l) j d = g (zget l j d').
Proof.
  intros Hj. unfold zget, zlen in *.
  rewrite (nth_indep _ d (g d')) by (rewrite map_length; lia). apply map_nth.
Qed.

Lemma members_in_range sh rd c j : In j (members sh rd c) -> 0 <= j < prodZ sh.
Proof.
  unfold members. intros H. apply filter_In in H. destruct H as [H _].
  unfold zrange in H. apply in_map_iff in H. destruct H as (k & <- & Hk). apply in_seq in Hk. lia.
Qed.

(* ---- locality of the symmetric per-axis path: the scale of a cell depends only on the values of
        that cell ------------------------------------------------------------------------------- *)
Theorem absmax_scale_local (base base' S S' : tensor F) bits a c :
  absmax_optimize base bits (Some a) = Ok S -> absmax_optimize base' bits (Some a) = Ok S' ->
  shape base = shape base' -> zlen (data base) = numel base -> zlen (data base') = numel base' ->
  (forall j, In j (members (shape base) (opt_dims base (Some a)) c) ->
             zget (data base) j f0 = zget (data base') j f0) ->
  0 <= c < prodZ (shape S) ->
  zget (data S) c f0 = zget (data S') c f0.
Proof.
  intros H H' Hs Hw Hw' Hag Hc.
  destruct (absmax_optimize_cells _ _ _ _ H) as [Hsh Hcell].
  destruct (absmax_optimize_cells _ _ _ _ H') as [Hsh' Hcell'].
  assert (Erd : opt_dims base' (Some a) = opt_dims base (Some a)).
  { unfold opt_dims, rank. rewrite Hs. reflexivity. }
  assert (Hc' : 0 <= c < prodZ (shape S')) by (rewrite Hsh', Erd, <- Hs, <- Hsh; exact Hc).
  destruct (Hcell c Hc) as (m & Em & Ev). destruct (Hcell' c Hc') as (m' & Em' & Ev').
  rewrite Ev, Ev'. f_equal. rewrite Erd in Em'.
  assert (E : cell_fold n_max (tf_abs (tf_abs base)) (opt_dims base (Some a)) c
            = cell_fold n_max (tf_abs (tf_abs base')) (opt_dims base (Some a)) c).
  { apply cell_fold_local; [exact Hs|]. intros j Hj.
    change (shape (tf_abs (tf_abs base))) with (shape base) in Hj.
    pose proof (members_in_range _ _ _ _ Hj) as Hr.
    unfold tf_abs, t_map. cbn [data]. rewrite !map_map.
    rewrite (zget_map_in _ (data base) j f0 f0) by (rewrite Hw; exact Hr).
    rewrite (zget_map_in _ (data base') j f0 f0) by (rewrite Hw'; unfold numel; rewrite <- Hs; exact Hr).
    rewrite (Hag j Hj). reflexivity. }
  congruence.
Qed.

(* ---- the broadcast partner of an element is its own cell ---------------------------------------- *)
Lemma bsub_red_shape_from (sh rd : list Z) k :
  bsub (mapi_from (fun k d => if zmem k rd then 1 else d) k sh) sh.
Proof.
  revert k. induction sh as [|d sh IH]; intros k; cbn [mapi_from]; constructor; [|apply IH].
  destruct (zmem k rd); auto.
Qed.

Lemma bsub_red_shape (sh rd : list Z) : bsub (red_shape sh rd) sh.
Proof. apply bsub_red_shape_from. Qed.

(* quantizing per-axis with a scale tensor that has one value per cell: element j is quantized and
   dequantized with the value of the cell j projects onto *)
Theorem sym_forward_cellwise base q axis (S : tensor F) rd r :
  sym_forward base q axis S = Ok r ->
  shape base <> [] -> pos_dims (shape base) -> shape S = red_shape (shape base) rd ->
  let sc := fun j => zget (data S) (proj (shape base) rd j) f0 in
  qb_data r = T (shape base) (map (fun j => symq q (zget (data base) j f0) (sc j)) (zrange (numel base))) /\
  qbytes_dequantize r =
    Ok (T (shape base) (map (fun j => symdq q (zget (data base) j f0) (sc j)) (zrange (numel base)))).
Proof.
  intros H Hne Hp Hs sc.
  assert (Hb : bsub (shape S) (shape base)) by (rewrite Hs; apply bsub_red_shape).
  destruct (sym_axis_elementwise base q axis S r H Hne Hb Hp) as [E1 E2].
  assert (Esc : forall j, In j (zrange (numel base)) ->
                 zget (data S) (sidx (shape base) (shape S) j) f0 = sc j).
  { intros j Hj. unfold sc, sidx. rewrite Hs. f_equal. apply sidx_eq_proj; [exact Hp|].
    unfold zrange in Hj. apply in_map_iff in Hj. destruct Hj as (k & <- & Hk). apply in_seq in Hk.
    unfold numel in Hk. lia. }
  split.
  - rewrite E1. f_equal. apply map_ext_in. intros j Hj. rewrite (Esc j Hj). reflexivity.
  - rewrite E2. f_equal. f_equal. apply map_ext_in. intros j Hj. rewrite (Esc j Hj). reflexivity.
Qed.

End Generic.
