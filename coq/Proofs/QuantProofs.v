(* Structure of the (generated) quantizers for an arbitrary number type F: what each element of the
   result is, which scale it is combined with, and that dequantization multiplies by that same scale.
   These lemmas reduce every tensor-level statement of C01/C02/C03/C16 to a statement about one
   element and one scale value.  No bound on rank or sizes. *)
From Coq Require Import String List ZArith Bool Lia Arith.
From QV Require Import Lib.Res Lib.Tensor Lib.ListFacts Lib.ND Lib.NDFacts Lib.Num Lib.QTensor Model.Quant.
Import ListNotations.
Open Scope Z_scope.

Ltac inv_bind :=
  repeat match goal with
  | H : bind ?m _ = Ok _ |- _ =>
    let E := fresh "E" in destruct m eqn:E; cbn [bind] in H; [|discriminate H]
  | H : Ok _ = Ok _ |- _ => injection H as H
  | H : Err _ = Ok _ |- _ => discriminate H
  end.

(* step through a monadic definition that is known to succeed: every guard becomes a boolean fact,
   every bound call an equation *)
Ltac mstep H :=
  match type of H with
  | bind (guard ?b ?e) _ = Ok _ =>
    let G := fresh "G" in destruct b eqn:G; cbn [guard bind] in H; [|discriminate H]
  | bind (guard_nz ?d) _ = Ok _ => unfold guard_nz in H at 1; mstep H
  | bind ?m _ = Ok _ =>
    let a := fresh "v" in let B := fresh "B" in destruct m as [a|] eqn:B; cbn [bind] in H; [|discriminate H]
  end.

Ltac bprop :=
  repeat match goal with
  | H : negb _ = true |- _ => apply negb_true_iff in H
  | H : negb _ = false |- _ => apply negb_false_iff in H
  | H : (_ =? _)%Z = true |- _ => apply Z.eqb_eq in H
  | H : (_ =? _)%Z = false |- _ => apply Z.eqb_neq in H
  | H : (_ >? _)%Z = true |- _ => apply Z.gtb_lt in H
  | H : (_ >? _)%Z = false |- _ => rewrite Z.gtb_ltb in H; apply Z.ltb_ge in H
  | H : (_ && _) = true |- _ => apply andb_true_iff in H; destruct H
  | H : (_ || _) = false |- _ => apply orb_false_iff in H; destruct H
  end.

Section Generic.
Context {F : Type} `{NF : Num F}.

(* ---- element-level quantization / dequantization functions ---------------------------------- *)
Definition post (q : qtype) (d0 : F) : F :=
  let d := n_nan_to_num d0 in
  n_cast (q_storage q)
    (n_clamp (n_of_Z (st_min (q_storage q))) (n_of_Z (st_max (q_storage q)))
       (if q_isfloat q then d else n_rint d)).
Definition symq (q : qtype) (x s : F) : F := post q (n_div x s).
Definition symdq (q : qtype) (x s : F) : F := n_mul s (symq q x s).

(* ---- broadcasting against a scale whose dims are 1 or equal to the base's ---------------------- *)
Inductive bsub : list Z -> list Z -> Prop :=
| bsub_nil : bsub [] []
| bsub_cons y x ys xs : y = x \/ y = 1 -> bsub ys xs -> bsub (y :: ys) (x :: xs).

Lemma bsub_compat sb sa : bsub sb sa -> bcompat sa sb = true /\ bcompat sb sa = true
                                         /\ bshape sa sb = sa /\ bshape sb sa = sa.
Proof.
  induction 1 as [|y x ys xs Hyx Hb (IH1 & IH2 & IH3 & IH4)]; [repeat split|].
  unfold bcompat in *. cbn [length combine forallb fst snd bshape map2].
  apply andb_true_iff in IH1. apply andb_true_iff in IH2. destruct IH1 as [L1 C1]. destruct IH2 as [L2 C2].
  apply Nat.eqb_eq in L1. apply Nat.eqb_eq in L2.
  repeat split.
  - apply andb_true_iff. split; [apply Nat.eqb_eq; lia|]. apply andb_true_iff. split; [|exact C1].
    destruct Hyx as [->| ->]; rewrite ?Z.eqb_refl, ?orb_true_r; reflexivity.
  - apply andb_true_iff. split; [apply Nat.eqb_eq; lia|]. apply andb_true_iff. split; [|exact C2].
    destruct Hyx as [->| ->]; rewrite ?Z.eqb_refl, ?orb_true_r; reflexivity.
  - unfold bshape in IH3. rewrite IH3. destruct (x =? 1) eqn:E; [|reflexivity].
    apply Z.eqb_eq in E. destruct Hyx; subst; reflexivity.
  - unfold bshape in IH4. rewrite IH4. destruct Hyx as [->| ->].
    + destruct (x =? 1); reflexivity.
    + reflexivity.
Qed.

(* index of the scale value that element j of the base meets *)
Definition sidx (sa sb : list Z) (j : Z) : Z := ravel sb (bidx sb (unravel sa j)).

Lemma bcast2_right {A B C} (f : A -> B -> C) da db (a : tensor A) (b : tensor B) :
  shape a <> [] -> bsub (shape b) (shape a) -> pos_dims (shape a) ->
  t_bcast2 f da db a b =
  Ok (T (shape a) (map (fun j => f (zget (data a) j da) (zget (data b) (sidx (shape a) (shape b) j) db))
                       (zrange (prodZ (shape a))))).
Proof.
  intros Hne Hb Hp. destruct (bsub_compat _ _ Hb) as (C1 & _ & S1 & _).
  unfold t_bcast2. destruct (shape a) as [|xa sa] eqn:Ea; [congruence|].
  destruct (shape b) as [|xb sb] eqn:Eb; [inversion Hb|].
  rewrite C1, S1. f_equal. f_equal. apply map_ext_in. intros j Hj.
  apply in_map_iff in Hj. destruct Hj as (k & <- & Hk). apply in_seq in Hk.
  assert (Hr : 0 <= Z.of_nat k < prodZ (xa :: sa)) by lia.
  pose proof (unravel_in_bounds _ _ Hp Hr) as Hib.
  rewrite (bidx_id _ _ Hib), (ravel_unravel _ _ Hp Hr). reflexivity.
Qed.

Lemma bcast2_left {A B C} (f : B -> A -> C) da db (a : tensor A) (b : tensor B) :
  shape a <> [] -> bsub (shape b) (shape a) -> pos_dims (shape a) ->
  t_bcast2 f db da b a =
  Ok (T (shape a) (map (fun j => f (zget (data b) (sidx (shape a) (shape b) j) db) (zget (data a) j da))
                       (zrange (prodZ (shape a))))).
Proof.
  intros Hne Hb Hp. destruct (bsub_compat _ _ Hb) as (_ & C2 & _ & S2).
  unfold t_bcast2. destruct (shape a) as [|xa sa] eqn:Ea; [congruence|].
  destruct (shape b) as [|xb sb] eqn:Eb; [inversion Hb|].
  rewrite C2, S2. f_equal. f_equal. apply map_ext_in. intros j Hj.
  apply in_map_iff in Hj. destruct Hj as (k & <- & Hk). apply in_seq in Hk.
  assert (Hr : 0 <= Z.of_nat k < prodZ (xa :: sa)) by lia.
  pose proof (unravel_in_bounds _ _ Hp Hr) as Hib.
  rewrite (bidx_id _ _ Hib), (ravel_unravel _ _ Hp Hr). reflexivity.
Qed.

(* ---- the symmetric quantizer -------------------------------------------------------------------- *)
Lemma sym_forward_data base q axis scale r :
  sym_forward base q axis scale = Ok r ->
  exists D, tf_div base scale = Ok D /\ qb_data r = t_map (post q) D /\ qb_scale r = scale
            /\ qb_qtype r = q /\ qb_size r = shape base.
Proof.
  unfold sym_forward. intros H.
  destruct (q_isfloat q) eqn:Eq; cbn [negb] in H; inv_bind; subst r; cbn [qb_data qb_scale qb_qtype qb_size];
    eexists; (split; [reflexivity|]); repeat split;
    unfold post, tf_cast, tf_clamp, tf_round, tf_nan_to_num, t_map; cbn [shape data]; rewrite ?map_map, Eq; reflexivity.
Qed.

Lemma qbytes_dequantize_eq (t : qbytes F) : qbytes_dequantize t = tf_mul (qb_scale t) (qb_data t).
Proof. unfold qbytes_dequantize. destruct (q_isfloat (qb_qtype t)); destruct (tf_mul _ _); reflexivity. Qed.

(* per-tensor (scalar scale): every element is quantized and dequantized with the one scale *)
Theorem sym_scalar_elementwise base q s0 r :
  sym_forward base q None (T [] [s0]) = Ok r -> shape base <> [] ->
  qb_data r = t_map (fun x => symq q x s0) base /\
  qbytes_dequantize r = Ok (t_map (fun x => symdq q x s0) base).
Proof.
  intros H Hne. destruct (sym_forward_data _ _ _ _ _ H) as (D & HD & Hdata & Hs & _ & _).
  unfold tf_div, t_bcast2 in HD. cbn [shape data hd] in HD.
  assert (ED : D = t_map (fun x => n_div x s0) base).
  { destruct (shape base) eqn:Ea; injection HD as <-; unfold t_map; rewrite Ea; reflexivity. }
  subst D. split.
  - rewrite Hdata. unfold t_map, symq. cbn [shape data]. rewrite map_map. reflexivity.
  - rewrite qbytes_dequantize_eq, Hs, Hdata. unfold tf_mul, t_bcast2, t_map. cbn [shape data hd].
    destruct (shape base) eqn:Ea; [congruence|]. rewrite !map_map; reflexivity.
Qed.

(* per-axis: element j meets the scale value at its own axis index, both when quantizing and
   when dequantizing *)
Theorem sym_axis_elementwise base q axis scale r :
  sym_forward base q axis scale = Ok r ->
  shape base <> [] -> bsub (shape scale) (shape base) -> pos_dims (shape base) ->
  let sj := fun j => zget (data scale) (sidx (shape base) (shape scale) j) f0 in
  qb_data r = T (shape base) (map (fun j => symq q (zget (data base) j f0) (sj j)) (zrange (numel base))) /\
  qbytes_dequantize r =
    Ok (T (shape base) (map (fun j => symdq q (zget (data base) j f0) (sj j)) (zrange (numel base)))).
Proof.
  intros H Hne Hb Hp sj. destruct (sym_forward_data _ _ _ _ _ H) as (D & HD & Hdata & Hs & _ & _).
  unfold tf_div in HD. rewrite (bcast2_right n_div f0 f0 base scale Hne Hb Hp) in HD. injection HD as <-.
  assert (E1 : qb_data r = T (shape base)
            (map (fun j => symq q (zget (data base) j f0) (sj j)) (zrange (numel base)))).
  { rewrite Hdata. unfold t_map, symq, numel. cbn [shape data]. rewrite map_map. reflexivity. }
  split; [exact E1|].
  rewrite qbytes_dequantize_eq, Hs. unfold tf_mul.
  assert (Hsh : shape (qb_data r) = shape base) by (rewrite E1; reflexivity).
  rewrite (bcast2_left n_mul f0 f0 (qb_data r) scale); rewrite ?Hsh; try assumption.
  f_equal. f_equal. unfold numel. apply map_ext_in. intros j Hj.
  apply in_map_iff in Hj. destruct Hj as (k & <- & Hk). apply in_seq in Hk.
  rewrite E1. cbn [data]. unfold numel. rewrite zget_map_zrange by lia. reflexivity.
Qed.

End Generic.
