(* Exact-arithmetic content of C03 for the absmax optimizer: the scale of a cell is
   (max |x| over the cell) / qmax, hence no element of the cell saturates: |x| <= qmax * scale. *)
From Coq Require Import String List ZArith Bool Lia Reals Lra.
From Flocq Require Import Core.
From QV Require Import Lib.Res Lib.Tensor Lib.ListFacts Lib.ND Lib.NDFacts Lib.Num Lib.QTensor Model.Quant
     Proofs.QuantProofs Proofs.RealNum Proofs.ScaleProofs.
Import ListNotations.
Open Scope R_scope.

Lemma fold_Rmax_acc (l : list R) (x0 : R) : x0 <= fold_left Rmax l x0.
Proof.
  revert x0. induction l as [|y l IH]; intros x0; simpl; [lra|].
  apply Rle_trans with (Rmax x0 y); [apply Rmax_l | apply IH].
Qed.

Lemma fold_Rmax_ge (l : list R) (x0 x : R) : In x (x0 :: l) -> x <= fold_left Rmax l x0.
Proof.
  intros [H|H]; [subst; apply fold_Rmax_acc|].
  revert x0. induction l as [|y l IH]; intros x0; simpl; [destruct H|].
  destruct H as [H|H].
  - subst. apply Rle_trans with (Rmax x0 x); [apply Rmax_r | apply fold_Rmax_acc].
  - apply IH. exact H.
Qed.

Lemma fold_Rmin_acc (l : list R) (x0 : R) : fold_left Rmin l x0 <= x0.
Proof.
  revert x0. induction l as [|y l IH]; intros x0; simpl; [lra|].
  apply Rle_trans with (Rmin x0 y); [apply IH | apply Rmin_l].
Qed.

Lemma fold_Rmin_le (l : list R) (x0 x : R) : In x (x0 :: l) -> fold_left Rmin l x0 <= x.
Proof.
  intros [H|H]; [subst; apply fold_Rmin_acc|].
  revert x0. induction l as [|y l IH]; intros x0; simpl; [destruct H|].
  destruct H as [H|H].
  - subst. apply Rle_trans with (Rmin x0 x); [apply fold_Rmin_acc | apply Rmin_r].
  - apply IH. exact H.
Qed.

(* every member of a cell is bounded by the cell's fold *)
Lemma cell_max_bound (t : tensor R) rd c m j :
  cell_fold Rmax t rd c = Some m -> In j (members (shape t) rd c) -> zget (data t) j 0 <= m.
Proof.
  unfold cell_fold. destruct (members (shape t) rd c) as [|j0 js] eqn:Em; [discriminate|].
  intros H Hj. injection H as <-. change f0 with 0.
  apply fold_Rmax_ge. destruct Hj as [<-|Hj]; [left; reflexivity|right].
  apply in_map_iff. exists j. split; [reflexivity|exact Hj].
Qed.

(* no element saturates under the scale of its own cell (qint8 weights: qmax = 127) *)
Theorem absmax_no_saturation_R (base S : tensor R) a j :
  absmax_optimize base 8 (Some a) = Ok S ->
  pos_dims (shape base) -> zlen (data base) = numel base -> (0 <= j < numel base)%Z ->
  let c := proj (shape base) (opt_dims base (Some a)) j in
  Rabs (zget (data base) j 0) <= 127 * zget (data S) c 0.
Proof.
  intros H Hp Hw Hj c.
  destruct (absmax_optimize_cells _ _ _ _ H) as [Hsh Hcell].
  assert (Hc : (0 <= c < prodZ (shape S))%Z).
  { rewrite Hsh. apply proj_range; assumption. }
  destruct (Hcell c Hc) as (m & Em & Ev). change f0 with 0 in Ev. rewrite Ev.
  change (2 ^ (8 - 1) - 1)%Z with 127%Z. cbn [n_div n_of_Z NumR].
  assert (Hm : Rabs (zget (data base) j 0) <= m).
  { pose proof (cell_max_bound _ _ _ _ j Em) as Hb.
    change (shape (tf_abs (tf_abs base))) with (shape base) in Hb.
    specialize (Hb (In_members _ _ _ Hj)).
    unfold tf_abs, t_map in Hb. cbn [data] in Hb. rewrite map_map in Hb.
    rewrite (zget_map_in _ (data base) j 0 0) in Hb by (rewrite Hw; exact Hj).
    cbn [n_abs NumR] in Hb. rewrite Rabs_Rabsolu in Hb. exact Hb. }
  lra.
Qed.
