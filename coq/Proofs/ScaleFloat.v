(* C03 at the level of IEEE arithmetic (Flocq), qint8, generic format with prec >= 8, emax >= 9.
   The scale the absmax optimizer computes for a cell is the float quotient A / 127 of the cell's largest magnitude
   A.  When that quotient is in the normal range (no underflow) and the grid is representable:
   - full range / not larger than needed: |s - A/127| <= u * A/127  (one rounding),
   - no saturation beyond rounding: EVERY finite element x with |x| <= A (every member of the cell) is dequantized
     within half a step, plus 254*u*s (the amount by which A/s may exceed 127), plus the rounding slack of C01.
   For a quotient in the subnormal range the relative error of the scale is unbounded (up to 50%): that case is
   covered by the audit's (1 + eta/s) term only. *)
From Coq Require Import ZArith Reals Lra Lia List Bool Psatz.
From Flocq Require Import Core Relative IEEE754.BinarySingleNaN.
From QV Require Import Lib.Res Lib.Tensor Lib.ND Lib.Num Lib.QTensor Float.F Model.Quant
     Proofs.QuantProofs Proofs.RealNum Proofs.FloatFacts Proofs.C01Float Proofs.AffineReal.
Local Open Scope R_scope.

Section ScaleF.
Variables prec emax : Z.
Context (Hp : Prec_gt_0 prec) (Hpe : Prec_lt_emax prec emax).
Hypothesis Hprec8 : (8 <= prec)%Z.
Hypothesis Hemax9 : (9 <= emax)%Z.

Notation fl := (binary_float prec emax).
Notation femin := (SpecFloat.emin prec emax).
Notation fexp := (SpecFloat.fexp prec emax).
Notation rnd := (round radix2 fexp ZnearestE).
Notation B2R := (@B2R prec emax).
Notation u := (uro prec).
Notation eta := (eta prec emax).
Notation FMAX := (Fmax prec emax).
Notation ofZ := (fof_Z prec emax Hp Hpe).
Existing Instance NumFl.
Existing Instance fexp_valid.

Definition absmax_scale (A : fl) : fl := Bdiv mode_NE A (ofZ 127).

Lemma u_le_256 : u <= / 256.
Proof.
  unfold uro. replace (/ 256) with (/ 2 * bpow radix2 (- 7)) by (simpl; lra).
  apply Rmult_le_compat_l; [lra|]. apply bpow_le. lia.
Qed.

(* the scale: one correctly rounded division, relative error u *)
Lemma absmax_scale_value (A : fl) :
  is_finite A = true -> 0 < B2R A -> bpow radix2 (femin + prec - 1) <= B2R A / 127 ->
  is_finite (absmax_scale A) = true /\ B2R (absmax_scale A) = rnd (B2R A / 127) /\
  Rabs (B2R (absmax_scale A) - B2R A / 127) <= u * (B2R A / 127) /\ 0 < B2R (absmax_scale A).
Proof.
  intros FA PA Hn. set (a := B2R A) in *.
  destruct (fof_Z_exact prec emax Hp Hpe Hprec8 Hemax9 127 ltac:(simpl; lia)) as [H127 F127].
  pose proof (Bdiv_correct prec emax Hp Hpe mode_NE A (ofZ 127) ltac:(rewrite H127; lra)) as HD.
  cbn [round_mode] in HD. rewrite H127 in HD. fold a in HD.
  assert (Ha : Rabs (a / 127) <= FMAX).
  { rewrite Rabs_pos_eq by lra.
    pose proof (abs_B2R_le_emax_minus_prec prec emax Hp A) as HA. fold a in HA.
    rewrite Rabs_pos_eq in HA by lra. unfold Fmax. lra. }
  rewrite Rlt_bool_true in HD by (apply (rnd_no_overflow prec emax Hp Hemax9); exact Ha).
  destruct HD as (HQ & FQ & _). rewrite FA in FQ.
  assert (Herr : Rabs (rnd (a / 127) - a / 127) <= u * (a / 127)).
  { pose proof (relative_error_N_FLT radix2 femin prec Hp (fun z => negb (Z.even z)) (a / 127)) as H.
    rewrite (Rabs_pos_eq (a / 127)) in H by lra. exact (H Hn). }
  unfold absmax_scale. split; [exact FQ|]. split; [exact HQ|]. rewrite HQ. split; [exact Herr|].
  apply Rabs_le_inv in Herr. pose proof u_le_256. pose proof (uro_pos prec). nra.
Qed.

Theorem absmax_no_saturation_float (A x : fl) :
  is_finite A = true -> is_finite x = true -> 0 < B2R A -> Rabs (B2R x) <= B2R A ->
  bpow radix2 (femin + prec - 1) <= B2R A / 127 ->
  128 * B2R (absmax_scale A) <= FMAX ->
  let s := absmax_scale A in
  is_finite s = true /\ 0 < B2R s /\
  Rabs (B2R s - B2R A / 127) <= u * (B2R A / 127) /\
  exists k : Z, (-128 <= k <= 127)%Z /\ B2R (qcode prec emax Hp Hpe x s) = IZR k /\
    is_finite (qdeq prec emax Hp Hpe x s) = true /\
    Rabs (B2R (qdeq prec emax Hp Hpe x s) - B2R x) <=
      B2R s / 2 + 254 * u * B2R s
      + (2 * (u * Rabs (B2R x) + B2R s * eta) + (u * Rabs (B2R s * IZR k) + eta)).
Proof.
  intros FA Fx PA Hx Hn Hgrid s.
  destruct (absmax_scale_value A FA PA Hn) as (Fs & _ & Herr & Ps). fold s in Fs, Herr, Ps, Hgrid.
  split; [exact Fs|]. split; [exact Ps|]. split; [exact Herr|].
  destruct (qint8_nearest_float prec emax Hp Hpe Hprec8 Hemax9 x s Fx Fs Ps Hgrid) as (k & Hk & Ek & _ & _ & Fd & Hnear).
  exists k. split; [exact Hk|]. split; [exact Ek|]. split; [exact Fd|].
  set (X := B2R x) in *. set (S := B2R s) in *. set (a := B2R A) in *. set (Y := X / S).
  pose proof (uro_pos prec) as Hu. pose proof u_le_256 as Hu8.
  (* A / S <= 127 / (1 - u) <= 127 + 254 u *)
  apply Rabs_le_inv in Herr.
  assert (HaS : a <= (127 + 254 * u) * S).
  { set (b := a / 127) in *. assert (Eb : a = 127 * b) by (unfold b; field).
    assert (H1 : b * (1 - u) <= S) by nra.
    assert (H2 : 0 < b) by (unfold b; lra).
    apply Rmult_le_reg_r with (1 - u); [lra|]. rewrite Eb.
    assert (H3 : 127 * b * (1 - u) <= 127 * S) by nra.
    assert (Hq : 0 <= S * (u * (1 - 2 * u))) by (apply Rmult_le_pos; [lra | apply Rmult_le_pos; lra]).
    assert (H4 : 127 * S <= (127 + 254 * u) * S * (1 - u)).
    { replace ((127 + 254 * u) * S * (1 - u)) with (127 * S + 127 * (S * (u * (1 - 2 * u)))) by ring. lra. }
    lra. }
  assert (HY : Rabs Y <= 127 + 254 * u).
  { unfold Y, Rdiv. rewrite Rabs_mult, Rabs_inv, (Rabs_pos_eq S) by lra.
    apply Rmult_le_reg_r with S; [lra|]. rewrite Rmult_assoc, Rinv_l by lra. lra. }
  (* the comparison code *)
  set (v := clampZ (-127) 127 (ZnearestE Y)).
  assert (Hv : (-128 <= v <= 127)%Z) by (unfold v, clampZ; lia).
  assert (HvY : Rabs (IZR v - Y) <= / 2 + 254 * u).
  { apply Rabs_le_inv in HY.
    destruct (Rle_or_lt Y (-127)) as [Hlo|Hlo]; [|destruct (Rle_or_lt 127 Y) as [Hhi|Hhi]].
    - pose proof (clamp_nearest (-127) 127 Y (-127) ltac:(lia) ltac:(lia)) as Hc. fold v in Hc.
      eapply Rle_trans; [exact Hc|]. rewrite Rabs_pos_eq by lra. lra.
    - pose proof (clamp_nearest (-127) 127 Y 127 ltac:(lia) ltac:(lia)) as Hc. fold v in Hc.
      eapply Rle_trans; [exact Hc|]. rewrite <- Rabs_Ropp, Rabs_pos_eq by lra. lra.
    - assert (Hb : (-127 <= ZnearestE Y <= 127)%Z) by (apply Znearest_bounds; simpl; lra).
      assert (Ev : v = ZnearestE Y) by (unfold v, clampZ; lia). rewrite Ev.
      pose proof (Znearest_half (fun z => negb (Z.even z)) Y) as Hh. fold ZnearestE in Hh.
      rewrite Rabs_minus_sym. lra. }
  specialize (Hnear v Hv).
  assert (Hs : Rabs (S * IZR v - X) <= S / 2 + 254 * u * S).
  { replace (S * IZR v - X) with (S * (IZR v - Y)) by (unfold Y; field; lra).
    rewrite Rabs_mult, (Rabs_pos_eq S) by lra. nra. }
  lra.
Qed.

End ScaleF.
