(* C08 / C09 / C11(fresh): the tree-level and life-cycle theorems. *)
From Coq Require Import String List ZArith Bool Lia.
From QV Require Import Model.Module.
Import ListNotations.
Open Scope string_scope.

(* ---- C08: quantize() swaps exactly the eligible, selected, non-root modules ---------------------- *)
Lemma assoc_map {A B} (f : A -> B) n (l : list (string * A)) :
  assoc n (map (fun nc => (fst nc, f (snd nc))) l) = option_map f (assoc n l).
Proof.
  induction l as [|[m a] l IH]; [reflexivity|]. cbn [map assoc fst snd].
  destruct (String.eqb n m); [reflexivity|exact IH].
Qed.

Lemma at_path_qchild cfg filter t p :
  at_path (qchild cfg filter t) p = option_map (qchild cfg filter) (at_path t p).
Proof.
  revert t. induction p as [|n p IH]; intros [k id ch]; [reflexivity|].
  cbn [qchild at_path]. rewrite assoc_map. destruct (assoc n ch) as [c|]; cbn [option_map]; [apply IH|reflexivity].
Qed.

(* every module at a non-empty path of the quantized tree is the image of the module at the same path
   of the original tree: same identity, same children names (names and nesting are kept), and its kind is
   the quantized twin exactly when it is selected and the registry has a twin, else unchanged *)
Theorem quantize_swaps_exactly cfg filter t n p :
  at_path (quantize_tree cfg filter t) (n :: p) =
  option_map (qchild cfg filter) (at_path t (n :: p)).
Proof.
  destruct t as [k id ch]. cbn [quantize_tree at_path]. rewrite assoc_map.
  destruct (assoc n ch) as [c|]; cbn [option_map]; [apply at_path_qchild|reflexivity].
Qed.

Lemma qchild_kind cfg filter t :
  kind_of (qchild cfg filter t) =
  if selected filter (id_of t) then match qkind cfg (kind_of t) with Some q => q | None => kind_of t end
  else kind_of t.
Proof. destruct t; reflexivity. Qed.

Lemma qchild_id cfg filter t : id_of (qchild cfg filter t) = id_of t.
Proof. destruct t; reflexivity. Qed.

Lemma qchild_names cfg filter t : children_names (qchild cfg filter t) = children_names t.
Proof. destruct t as [k id ch]. cbn. rewrite map_map. reflexivity. Qed.

(* the root itself is never replaced *)
Lemma root_untouched cfg filter t :
  kind_of (quantize_tree cfg filter t) = kind_of t /\ id_of (quantize_tree cfg filter t) = id_of t.
Proof. destruct t; split; reflexivity. Qed.


(* nested induction over module trees *)
Lemma mtree_ind' (P : mtree -> Prop) :
  (forall k id ch, Forall (fun nc => P (snd nc)) ch -> P (Node k id ch)) -> forall t, P t.
Proof.
  intros H. fix IH 1. intros [k id ch]. apply H.
  induction ch as [|[n c] ch IHch]; constructor; [apply IH|exact IHch].
Qed.

Definition name_id (x : string * nat * Z) : string * nat := fst x.

(* what named_modules() lists after quantize(): the same dotted names, in the same order, carrying the same
   identities (hyper-parameters, parameter values, dtype, device) — nothing added, removed, renamed or moved *)
Lemma named_qchild_names cfg filter t : forall p,
  map name_id (named p (qchild cfg filter t)) = map name_id (named p t).
Proof.
  induction t as [k id ch IH] using mtree_ind'. intros p. cbn [qchild named map]. f_equal.
  induction ch as [|[n c] ch IHch]; [reflexivity|].
  inversion IH as [|x l Hc Hl]; subst. cbn [map flat_map fst snd]. rewrite !map_app. f_equal; [apply Hc|apply IHch; exact Hl].
Qed.

Theorem named_quantize_names cfg filter t :
  map name_id (named "" (quantize_tree cfg filter t)) = map name_id (named "" t).
Proof.
  destruct t as [k id ch]. cbn [quantize_tree named map]. f_equal.
  induction ch as [|[n c] ch IHch]; [reflexivity|].
  cbn [map flat_map fst snd]. rewrite !map_app. f_equal; [apply named_qchild_names|exact IHch].
Qed.

(* ---- C09: freeze ------------------------------------------------------------------------------ *)
Section Life.
Variables W Q : Type.
Variable quant : W -> Q.

Theorem freeze_preserves_qweight (s : wstate W Q) : qweight W Q quant (freeze W Q quant s) = qweight W Q quant s.
Proof. destruct s; reflexivity. Qed.

Theorem freeze_idempotent (s : wstate W Q) : freeze W Q quant (freeze W Q quant s) = freeze W Q quant s.
Proof. destruct s; reflexivity. Qed.

(* any history of freezes and forwards: once frozen, the weights used by forward never change *)
Theorem frozen_stable (s : wstate W Q) (n : nat) :
  qweight W Q quant (Nat.iter n (freeze W Q quant) (freeze W Q quant s)) = qweight W Q quant s.
Proof.
  induction n as [|n IH]; [apply freeze_preserves_qweight|].
  change (Nat.iter (S n) (freeze W Q quant) (freeze W Q quant s))
    with (freeze W Q quant (Nat.iter n (freeze W Q quant) (freeze W Q quant s))).
  rewrite freeze_preserves_qweight. exact IH.
Qed.

(* C11: until frozen, every forward re-quantizes from the current float weights *)
Theorem unfrozen_tracks_updates (w w' : W) : qweight W Q quant (update W Q w' (Float W Q w)) = quant w'.
Proof. reflexivity. Qed.
Theorem frozen_ignores_updates (q : Q) (w' : W) : qweight W Q quant (update W Q w' (Frozen W Q q)) = q.
Proof. reflexivity. Qed.
End Life.

(* ---- histories: outputs depend on the calibration epoch only; freeze is absorbing --------------- *)
Lemma lstep_epoch act s o : o <> LCalibrate -> o <> LConvert -> l_epoch (lstep act s o) = l_epoch s.
Proof. destruct o; intros H H'; try reflexivity; contradiction. Qed.

Lemma lstep_frozen_mono act s o : l_frozen s = true -> l_frozen (lstep act s o) = true.
Proof. destruct o; intros H; cbn; try exact H; reflexivity. Qed.

Theorem history_epoch_only act ops : forall s,
  ~ In LCalibrate ops -> ~ In LConvert ops -> Forall (fun fe => snd fe = l_epoch s) (ltrace act s ops).
Proof.
  induction ops as [|o ops IH]; intros s Hn Hc; [constructor|].
  cbn [ltrace].
  assert (He : l_epoch (lstep act s o) = l_epoch s).
  { apply lstep_epoch; intros ->; [apply Hn | apply Hc]; left; reflexivity. }
  constructor; [exact He|]. rewrite <- He. apply IH; intros Hin; [apply Hn | apply Hc]; right; exact Hin.
Qed.

Theorem history_frozen_absorbing act ops : forall s,
  l_frozen s = true -> Forall (fun fe => fst fe = true) (ltrace act s ops).
Proof.
  induction ops as [|o ops IH]; intros s Hf; [constructor|].
  cbn [ltrace]. constructor; [apply lstep_frozen_mono; exact Hf|]. apply IH. apply lstep_frozen_mono. exact Hf.
Qed.
