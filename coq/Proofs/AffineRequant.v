(* C02, last sentence: requantizing the dequantized tensor with the same scale and zero-point yields the same
   codes.  IEEE level (Flocq), generic format with prec >= 8, emax >= 9 (float32, float16 AND bfloat16), int2 / int4
   (bits <= 4): for every finite positive scale with a representable grid, every integer zero-point and every code
   of [0, L], the dequantized value s * (c - zp), quantized again, gives back exactly c. *)
From Coq Require Import ZArith Reals Lra Lia List Bool Psatz.
From Flocq Require Import Core Relative IEEE754.BinarySingleNaN.
From QV Require Import Lib.Res Lib.Tensor Lib.ND Lib.Num Lib.QTensor Float.F Model.Quant
     Proofs.QuantProofs Proofs.RealNum Proofs.FloatFacts Proofs.C01Float Proofs.C01Requant
     Proofs.AffineReal Proofs.AffineProofs Proofs.AffineFloat.
Local Open Scope R_scope.

Section AffRQ.
Variables prec emax : Z.
Context (Hp : Prec_gt_0 prec) (Hpe : Prec_lt_emax prec emax).
Hypothesis Hprec8 : (8 <= prec)%Z.
Hypothesis Hemax9 : (9 <= emax)%Z.

Notation fl := (binary_float prec emax).
Notation fexp := (SpecFloat.fexp prec emax).
Notation rnd := (round radix2 fexp ZnearestE).
Notation B2R := (@B2R prec emax).
Notation u := (uro prec).
Notation eta := (eta prec emax).
Notation FMAX := (Fmax prec emax).
Notation ofZ := (fof_Z prec emax Hp Hpe).
Existing Instance NumFl.
Existing Instance fexp_valid.

Lemma u_le_256 : u <= / 256.
Proof.
  unfold uro. replace (/ 256) with (/ 2 * bpow radix2 (- 7)) by (simpl; lra).
  apply Rmult_le_compat_l; [lra|]. apply bpow_le. lia.
Qed.

Lemma eta_le_256 : eta <= / 256.
Proof.
  unfold FloatFacts.eta. replace (/ 256) with (/ 2 * bpow radix2 (- 7)) by (simpl; lra).
  apply Rmult_le_compat_l; [lra|]. apply bpow_le. unfold SpecFloat.emin. lia.
Qed.

Theorem affine_code_of_grid_point (bits : Z) (s : fl) (zi c : Z) :
  let L := (2 ^ bits - 1)%Z in
  (1 <= bits <= 4)%Z -> (0 <= zi <= L)%Z -> (0 <= c <= L)%Z ->
  is_finite s = true -> 0 < B2R s -> IZR L * B2R s <= FMAX ->
  acode prec emax Hp Hpe bits (adeq prec emax Hp Hpe s (ofZ c) (ofZ zi)) s (ofZ zi) = ofZ c.
Proof.
  intros L Hbits Hzi Hc Fs Sp Hgrid. set (S := B2R s) in *.
  assert (HL : (1 <= L <= 15)%Z).
  { unfold L. assert (2 ^ 1 <= 2 ^ bits)%Z by (apply Z.pow_le_mono_r; lia).
    assert (2 ^ bits <= 2 ^ 4)%Z by (apply Z.pow_le_mono_r; lia). simpl in *. lia. }
  pose proof (uro_pos prec) as Hu. pose proof (eta_pos prec emax) as He.
  pose proof u_le_256 as Hu8. pose proof eta_le_256 as He8.
  pose proof (pow_prec_ge_256 prec Hprec8) as H256.
  assert (SP : 0 < S) by exact Sp.
  set (m := (c - zi)%Z).
  assert (Hm : (-15 <= m <= 15)%Z) by (unfold m; lia).
  assert (Hm15 : Rabs (IZR m) <= 15) by (rewrite <- abs_IZR; apply IZR_le; lia).
  (* the dequantized value: one rounded product, no inexact underflow *)
  destruct (adeq_value prec emax Hp Hpe Hprec8 Hemax9 s c zi L Fs ltac:(fold S; lra) Hc Hzi ltac:(lia) Hgrid) as [Fd Vd].
  fold m S in Vd.
  set (d := adeq prec emax Hp Hpe s (ofZ c) (ofZ zi)) in *.
  pose proof (mul_int_error prec emax Hp s m) as HPe. fold S in HPe. rewrite <- Vd in HPe.
  set (P := B2R d) in *. set (Y := P / S).
  assert (HY : Rabs (Y - IZR m) <= u * 15).
  { replace (Y - IZR m) with ((P - S * IZR m) / S) by (unfold Y; field; lra).
    unfold Rdiv. rewrite Rabs_mult, Rabs_inv, (Rabs_pos_eq S) by lra.
    rewrite Rabs_mult, (Rabs_pos_eq S) in HPe by lra.
    apply Rle_trans with (u * (S * Rabs (IZR m)) * / S).
    - apply Rmult_le_compat_r; [apply Rlt_le, Rinv_0_lt_compat; lra | exact HPe].
    - replace (u * (S * Rabs (IZR m)) * / S) with (u * Rabs (IZR m)) by (field; lra).
      apply Rmult_le_compat_l; lra. }
  assert (HYabs : Rabs Y <= 16).
  { replace Y with ((Y - IZR m) + IZR m) by ring. eapply Rle_trans; [apply Rabs_triang|]. nra. }
  (* the quotient *)
  assert (G16 : generic_format radix2 fexp 16) by (apply (small_int_format prec emax Hprec8 Hemax9 16); simpl; lia).
  assert (HrY : Rabs (rnd Y) <= 16) by exact (abs_round_le_generic radix2 fexp ZnearestE Y 16 G16 HYabs).
  pose proof (Bdiv_correct prec emax Hp Hpe mode_NE d s ltac:(fold S; lra)) as HD.
  cbn [round_mode] in HD. fold P S Y in HD.
  rewrite Rlt_bool_true in HD by (pose proof (bpow_emax_big emax Hemax9); lra).
  destruct HD as (HQ & FQ & _). rewrite Fd in FQ.
  assert (Eq : nan_to_num prec emax Hp Hpe (Bdiv mode_NE d s) = Bdiv mode_NE d s).
  { destruct (Bdiv mode_NE d s); try discriminate FQ; reflexivity. }
  rewrite acode_unfold, Eq. set (q := Bdiv mode_NE d s) in *.
  pose proof (Bnearbyint_correct prec emax Hpe mode_NE q) as (HR & FR & _).
  cbn [round_mode] in HR. rewrite round_FIX_IZR in HR. rewrite FQ in FR. rewrite HQ in HR.
  assert (Hn : ZnearestE (rnd Y) = m).
  { apply Znearest_imp.
    pose proof (rnd_err prec emax Hp Y) as Herr.
    replace (rnd Y - IZR m) with ((rnd Y - Y) + (Y - IZR m)) by ring.
    eapply Rle_lt_trans; [apply Rabs_triang|]. nra. }
  rewrite Hn in HR.
  destruct (fof_Z_exact prec emax Hp Hpe Hprec8 Hemax9 zi ltac:(lia)) as [Hzv Hzf].
  destruct (fof_Z_exact prec emax Hp Hpe Hprec8 Hemax9 0 ltac:(lia)) as [H0v H0f].
  destruct (fof_Z_exact prec emax Hp Hpe Hprec8 Hemax9 L ltac:(lia)) as [HLv HLf].
  destruct (plus_int_exact prec emax Hp Hpe Hprec8 Hemax9 _ _ m zi FR Hzf HR Hzv ltac:(lia)) as [Ft Vt].
  destruct (fmax_finite prec emax _ _ Ft H0f) as [HM1 FM1].
  destruct (fmin_finite prec emax _ _ FM1 HLf) as [HM2 FM2].
  rewrite HM1, Vt, H0v, HLv in HM2. rewrite clamp_IZR in HM2.
  assert (Ec : clampZ 0 L (m + zi) = c) by (unfold clampZ, m; lia).
  rewrite Ec in HM2. fold L.
  exact (uint8_cast_exact prec emax Hp Hpe _ c FM2 HM2 ltac:(lia)).
Qed.

(* the same statement on the element-level functions of the generated quantizer (affq / affdq of Proofs/AffineProofs.v),
   spelled with the instance, so that instantiating prec / emax needs no unfolding of the float operations *)
Corollary affine_requant_stable (bits : Z) (s : fl) (zi c : Z) :
  let L := (2 ^ bits - 1)%Z in
  (1 <= bits <= 4)%Z -> (0 <= zi <= L)%Z -> (0 <= c <= L)%Z ->
  is_finite s = true -> 0 < B2R s -> IZR L * B2R s <= FMAX ->
  affq bits (affdq s (n_of_Z c) (n_of_Z zi)) s (n_of_Z zi) = n_of_Z c.
Proof. exact (affine_code_of_grid_point bits s zi c). Qed.

End AffRQ.
