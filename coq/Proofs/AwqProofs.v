(* C15: the AWQ layouts are bijective on every admissible shape up to a bound and for EVERY content, and the
   v2 layout is the reference one.  Structure: (1) nibble packing is invertible (AwqNibbles, any word size);
   (2) everything else is data movement, which commutes with any relabelling of the elements, so what a layout
   does to a tensor is determined by what it does to the tensor of positions; (3) for each shape the position
   permutation is computed and checked by vm_compute. *)
From Coq Require Import List ZArith Bool Lia.
From QV Require Import Lib.Res Lib.Tensor Lib.ND Lib.NDFacts Model.QOps Model.Awq Proofs.AwqNibbles.
Import ListNotations.
Open Scope Z_scope.

(* ---- movements compose ---- *)
Lemma movement_bind g1 g2 : movement g1 -> movement g2 -> movement (fun A d t => r <- g1 A d t ;; g2 A d r).
Proof.
  intros H1 H2 A B f d t. rewrite H1. destruct (g1 A d t) as [r|e]; cbn [bind]; [apply H2|reflexivity].
Qed.

Lemma map_flat_map' {A B C} (f : B -> C) (g : A -> list B) l : map f (flat_map g l) = flat_map (fun x => map f (g x)) l.
Proof. induction l as [|x l IH]; [reflexivity|]. cbn. rewrite map_app, IH. reflexivity. Qed.
Lemma flat_map_ext' {A B} (f g : A -> list B) l : (forall x, f x = g x) -> flat_map f l = flat_map g l.
Proof. intros H. induction l as [|x l IH]; [reflexivity|]. cbn. rewrite H, IH. reflexivity. Qed.

Lemma gather_cols_movement idx : movement (fun A d t => t_gather_cols d idx t).
Proof.
  intros A B f d t. unfold t_gather_cols, t_map. cbn [shape data].
  destruct (shape t) as [|r [|c [|? ?]]]; try reflexivity.
  destruct (forallb _ idx); [|reflexivity]. cbn [bind shape data]. f_equal. f_equal.
  rewrite map_flat_map'. apply flat_map_ext'. intros i. rewrite map_map. apply map_ext. intros j. apply zget_map.
Qed.

Lemma id_movement : movement (fun A _ t => Ok t).
Proof. intros A B f d t. reflexivity. Qed.

Ltac mv := repeat first [apply movement_bind | apply reshape_movement | apply permute_movement | apply gather_cols_movement | apply id_movement].

Definition v2_move_NK (N K : Z) : forall A, A -> tensor A -> res (tensor A) := fun A d t =>
  t1 <- t_reshape [N; K / 32; 4; 4; 2] t ;; t2 <- t_permute d [0; 1; 3; 2; 4] t1 ;;
  t3 <- t_permute d [0; 1; 2; 4; 3] t2 ;; t4 <- t_reshape [N; K] t3 ;;
  t5 <- t_reshape [N / 4; 4; K / 64; 64] t4 ;; t6 <- t_permute d [0; 2; 1; 3] t5 ;;
  t_reshape [N / 4; K / 64; 64; 4] t6.
Lemma v2_move_NK_movement N K : movement (v2_move_NK N K).
Proof. unfold v2_move_NK. mv. Qed.
Lemma v2_unmove_movement N K : movement (fun A d t => v2_unmove d N K t).
Proof. unfold v2_unmove. mv. Qed.
Definition ref_move_NK (N K : Z) : forall A, A -> tensor A -> res (tensor A) := fun A d t =>
  t0 <- t_reshape [N; K / 32; 32] t ;;
  t1 <- t_reshape [N; K / 32; 4; 4; 2] t0 ;; t2 <- t_permute d [0; 1; 3; 2; 4] t1 ;; t3 <- t_reshape [N; K / 32; 32] t2 ;;
  t4 <- t_reshape [N; K / 32; 4; 8] t3 ;; t5 <- t_reshape [N; K / 32; 4; 4; 2] t4 ;; t6 <- t_permute d [0; 1; 2; 4; 3] t5 ;;
  t7 <- t_reshape [N; K] t6 ;;
  t8 <- t_reshape [N / 4; 4; K / 64; 64] t7 ;; t9 <- t_permute d [0; 2; 1; 3] t8 ;;
  t_reshape [N / 4; K / 64; 64; 4] t9.
Lemma ref_move_NK_movement N K : movement (ref_move_NK N K).
Proof. unfold ref_move_NK. mv. Qed.
Definition v1_pack_move (reorder : bool) (c : Z) : forall A, A -> tensor A -> res (tensor A) := fun A d t =>
  m <- t_gather_cols d (zrange (8 * (c / 8))) t ;; (if reorder then t_gather_cols d (col_order AWQ_ORDER (8 * (c / 8))) m else Ok m).
Lemma v1_pack_move_movement reorder c : movement (v1_pack_move reorder c).
Proof. unfold v1_pack_move. destruct reorder; mv. Qed.

(* ---- a movement is determined by what it does to the tensor of positions ---- *)
Definition iota (sh : list Z) : tensor Z := T sh (zrange (prodZ sh)).

Lemma zget_overflow {A} (l : list A) d : zget l (zlen l) d = d.
Proof. unfold zget, zlen. rewrite Nat2Z.id. apply nth_overflow. lia. Qed.

Lemma movement_iota g : movement g -> forall sh dt, zlen dt = prodZ sh ->
  g Z 0 (T sh dt) = (r <- g Z (prodZ sh) (iota sh) ;; Ok (t_map (fun j => zget dt j 0) r)).
Proof.
  intros Hg sh dt Hl. rewrite <- (Hg Z Z (fun j => zget dt j 0) (prodZ sh) (iota sh)).
  rewrite <- Hl at 1. rewrite zget_overflow. f_equal. unfold iota, t_map. cbn [shape data]. f_equal.
  rewrite <- Hl. symmetry. apply map_zget_id.
Qed.

Lemma t_map_iota sh dt : zlen dt = prodZ sh -> t_map (fun j => zget dt j 0) (iota sh) = T sh dt.
Proof. intros Hl. unfold iota, t_map. cbn [shape data]. f_equal. rewrite <- Hl. apply map_zget_id. Qed.

(* ---- list-level nibble packing ---- *)
Lemma chunks_app {A} per (c rest : list A) fuel : length c = per -> (0 < per)%nat -> (length (c ++ rest) <= S fuel)%nat ->
  chunks per (S fuel) (c ++ rest) = c :: chunks per fuel rest.
Proof.
  intros Hc Hp Hf. cbn [chunks]. destruct (c ++ rest) eqn:E.
  - destruct c; [cbn in Hc; lia|discriminate].
  - rewrite <- E. rewrite firstn_app, skipn_app, Hc, Nat.sub_diag. cbn [firstn skipn]. rewrite <- Hc, firstn_all, skipn_all, app_nil_r. reflexivity.
Qed.

Lemma chunks_more_fuel {A} per (l : list A) : (0 < per)%nat -> forall f1 f2, (length l <= f1)%nat -> (length l <= f2)%nat -> chunks per f1 l = chunks per f2 l.
Proof.
  intros Hp f1. revert l. induction f1 as [|f1 IH]; intros l f2 H1 H2.
  - destruct l; [destruct f2; reflexivity|cbn in H1; lia].
  - destruct f2 as [|f2]; [destruct l; [reflexivity|cbn in H2; lia]|].
    cbn [chunks]. destruct l as [|x l]; [reflexivity|]. f_equal. apply IH; rewrite skipn_length; cbn [length] in *; lia.
Qed.

Lemma digits_app a b : digits (a ++ b) <-> digits a /\ digits b.
Proof. unfold digits. apply Forall_app. Qed.

(* v1 reads the signed words directly, v2 first converts to unsigned 16-bit: both see the same nibbles *)
Lemma nibbles_unsigned per v : 0 <= v < 2 ^ (4 * Z.of_nat per) ->
  nibbles_of per ((wrap_signed (4 * Z.of_nat per) v) mod 2 ^ (4 * Z.of_nat per)) = nibbles_of per (wrap_signed (4 * Z.of_nat per) v).
Proof.
  intros Hv. unfold nibbles_of. apply map_ext_in. intros i Hi. apply in_seq in Hi.
  assert (Hw : (wrap_signed (4 * Z.of_nat per) v) mod 2 ^ (4 * Z.of_nat per) = v).
  { unfold wrap_signed. rewrite (Z.mod_small v) by lia. destruct (v <? _); [apply Z.mod_small; lia|].
    replace (v - 2 ^ (4 * Z.of_nat per)) with (v + (-1) * 2 ^ (4 * Z.of_nat per)) by ring. rewrite Z_mod_plus_full. apply Z.mod_small; lia. }
  rewrite Hw. rewrite nibble_of_wrapped by lia.
  change 15 with (Z.ones 4). rewrite Z.land_ones by lia. rewrite Z.shiftr_div_pow2 by lia. rewrite pow16 by lia. reflexivity.
Qed.

Lemma unpack_pack_nibbles per (norm : Z -> Z) : (0 < per)%nat ->
  (forall v, 0 <= v < 2 ^ (4 * Z.of_nat per) -> nibbles_of per (norm (wrap_signed (4 * Z.of_nat per) v)) = nibbles_of per (wrap_signed (4 * Z.of_nat per) v)) ->
  forall n l, length l = (n * per)%nat -> digits l ->
  unpack_nibbles per (map norm (pack_nibbles per (4 * Z.of_nat per) l)) = l.
Proof.
  intros Hp Hnorm n. unfold pack_nibbles, unpack_nibbles.
  induction n as [|n IH]; intros l Hl Hd.
  - destruct l; [reflexivity|cbn in Hl; lia].
  - assert (Hc : length (firstn per l) = per) by (rewrite firstn_length; cbn in Hl; lia).
    assert (Hr : length (skipn per l) = (n * per)%nat) by (rewrite skipn_length; cbn in Hl; lia).
    assert (El : l = firstn per l ++ skipn per l) by (symmetry; apply firstn_skipn).
    generalize dependent (firstn per l). intros c Hc El. generalize dependent (skipn per l). intros rest Hr El. subst l.
    apply digits_app in Hd. destruct Hd as [Hdc Hdr].
    destruct (length (c ++ rest)) as [|fuel] eqn:Ef; [rewrite app_length in Ef; lia|].
    rewrite chunks_app by (try assumption; lia). cbn [map flat_map].
    assert (Hb := val_bounds c Hdc). rewrite Hc, <- pow16 in Hb by lia.
    rewrite Hnorm by (rewrite lor_shift_val by (assumption || lia); rewrite Z.pow_0_r, Z.mul_1_r; exact Hb).
    rewrite nibbles_roundtrip by assumption. f_equal.
    rewrite (chunks_more_fuel per rest Hp fuel (length rest)) by (rewrite app_length in Ef; lia).
    apply IH; assumption.
Qed.

(* ---- decidable equality of tensors of integers ---- *)
Lemma zl_eqb_eq a : forall b, zl_eqb a b = true -> a = b.
Proof.
  induction a as [|x a IH]; intros [|y b]; cbn; try discriminate; [reflexivity|].
  intros H. apply andb_prop in H. destruct H as [H1 H2]. apply Z.eqb_eq in H1. f_equal; [exact H1|apply IH; exact H2].
Qed.
Lemma t_eqb_eq a b : t_eqb a b = true -> a = b.
Proof.
  destruct a as [sa da], b as [sb db]. unfold t_eqb. cbn [shape data]. intros H. apply andb_prop in H. destruct H as [H1 H2].
  apply zl_eqb_eq in H1. apply zl_eqb_eq in H2. congruence.
Qed.

(* ---- per-shape facts, computed on the tensor of positions ---- *)
Definition v2_shape_ok (nk : Z * Z) : bool :=
  let '(N, K) := nk in let sh := [N; K] in let d0 := N * K in
  admissible_v2 N K && (4 * (N / 4) =? N) &&
  match v2_move_NK N K Z d0 (iota sh) with
  | Ok r0 => zl_eqb (shape r0) [N / 4; K / 64; 64; 4] && (zlen (data r0) =? d0) && (Z.of_nat (length (data r0)) mod 4 =? 0)
             && res_is (v2_unmove d0 N K r0) (iota sh)
             && res_is (ref_move_NK N K Z d0 (iota sh)) r0
  | Err _ => false
  end.
Definition v2_shapes : list (Z * Z) := flat_map (fun n => map (fun k => (4 * n, 64 * k)) [1; 2; 3]) [1; 2; 3; 4].
Lemma v2_shapes_ok : forallb v2_shape_ok v2_shapes = true.
Proof. vm_compute. reflexivity. Qed.

Definition v1_shape_ok (reorder : bool) (rc : Z * Z) : bool :=
  let '(r, c) := rc in let sh := [r; c] in let d0 := r * c in
  (0 <? r) && (0 <? c) && (8 * (c / 8) =? c) &&
  match v1_pack_move reorder c Z d0 (iota sh) with
  | Ok r0 => zl_eqb (shape r0) sh && (Z.of_nat (length (data r0)) =? d0)
             && (if reorder then res_is (t_gather_cols d0 (col_order AWQ_REVERSE_ORDER c) r0) (iota sh) else t_eqb r0 (iota sh))
  | Err _ => false
  end.
Definition v1_shapes : list (Z * Z) := flat_map (fun r => map (fun k => (r, 8 * k)) [1; 2; 3; 4; 5; 6; 7; 8; 16]) [1; 2; 3; 4; 5; 8].
Lemma v1_shapes_ok : forallb (v1_shape_ok false) v1_shapes = true /\ forallb (v1_shape_ok true) v1_shapes = true.
Proof. split; vm_compute; reflexivity. Qed.

Lemma res_is_eq r t : res_is r t = true -> r = Ok t.
Proof. destruct r as [x|e]; cbn; [intros H; apply t_eqb_eq in H; congruence|discriminate]. Qed.

Lemma digits_zget dt j : digits dt -> 0 <= zget dt j 0 < 16.
Proof.
  intros Hd. unfold zget. destruct (nth_in_or_default (Z.to_nat j) dt 0) as [Hin| ->]; [|lia].
  unfold digits in Hd. rewrite Forall_forall in Hd. apply Hd. exact Hin.
Qed.

Lemma digits_map_zget dt l : digits dt -> digits (map (fun j => zget dt j 0) l).
Proof. intros Hd. unfold digits. apply Forall_forall. intros x Hx. apply in_map_iff in Hx. destruct Hx as [j [<- _]]. apply digits_zget. exact Hd. Qed.

(* ---- v2: bijective for every content, and bit-identical to the reference packer ---- *)
Theorem v2_roundtrip_of_ok N K dt : v2_shape_ok (N, K) = true -> zlen dt = N * K -> digits dt ->
  (p <- pack_v2 (T [N; K] dt) ;; unpack_v2 p) = Ok (T [N; K] dt) /\ pack_ref (T [N; K] dt) = pack_v2 (T [N; K] dt).
Proof.
  intros Hok Hl Hd. unfold v2_shape_ok in Hok.
  apply andb_prop in Hok. destruct Hok as [Hok Hmv]. apply andb_prop in Hok. destruct Hok as [Hadm H4].
  destruct (v2_move_NK N K Z (N * K) (iota [N; K])) as [r0|] eqn:Er0; [|discriminate].
  repeat (apply andb_prop in Hmv; destruct Hmv as [Hmv ?]).
  match goal with H : res_is (ref_move_NK _ _ _ _ _) _ = true |- _ => apply res_is_eq in H; rename H into Href end.
  match goal with H : res_is (v2_unmove _ _ _ _) _ = true |- _ => apply res_is_eq in H; rename H into Hun end.
  match goal with H : (Z.of_nat (length (data r0)) mod 4 =? 0) = true |- _ => apply Z.eqb_eq in H; rename H into Hm4 end.
  match goal with H : (zlen (data r0) =? N * K) = true |- _ => apply Z.eqb_eq in H; rename H into Hlen end.
  apply zl_eqb_eq in Hmv. rename Hmv into Hsh. apply Z.eqb_eq in H4.
  set (f := fun j => zget dt j 0).
  assert (Hprod : prodZ [N; K] = N * K) by (cbn; ring).
  assert (Hmove : v2_move 0 (T [N; K] dt) = Ok (t_map f r0)).
  { change (v2_move 0 (T [N; K] dt)) with (v2_move_NK N K Z 0 (T [N; K] dt)).
    rewrite (movement_iota _ (v2_move_NK_movement N K) [N; K] dt) by (rewrite Hprod; exact Hl). rewrite Hprod, Er0. reflexivity. }
  assert (Hrefm : ref_move 0 (T [N; K] dt) = Ok (t_map f r0)).
  { change (ref_move 0 (T [N; K] dt)) with (ref_move_NK N K Z 0 (T [N; K] dt)).
    rewrite (movement_iota _ (ref_move_NK_movement N K) [N; K] dt) by (rewrite Hprod; exact Hl). rewrite Hprod, Href. reflexivity. }
  split.
  - unfold pack_v2. cbn [shape]. rewrite Hadm, Hmove. cbn [bind].
    unfold unpack_v2. cbn [shape data]. rewrite H4.
    assert (Hm4' : exists n, length (map f (data r0)) = (n * 4)%nat).
    { rewrite map_length. apply Z.mod_divide in Hm4; [|lia]. destruct Hm4 as [q Hq].
      exists (Z.to_nat q). apply Nat2Z.inj. rewrite Nat2Z.inj_mul, Z2Nat.id by lia. cbn. lia. }
    destruct Hm4' as [n Hn].
    change (t_map f r0) with (T (shape r0) (map f (data r0))). cbn [data].
    change (pack_nibbles 4 16) with (pack_nibbles 4 (4 * Z.of_nat 4)).
    rewrite (unpack_pack_nibbles 4 (fun v => v mod 65536) (ltac:(lia)) (nibbles_unsigned 4) n _ Hn (digits_map_zget dt _ Hd)).
    rewrite <- Hsh. change (T (shape r0) (map f (data r0))) with (t_map f r0).
    assert (Hf0 : f (N * K) = 0) by (unfold f; rewrite <- Hl; apply zget_overflow).
    rewrite <- Hf0. rewrite (v2_unmove_movement N K Z Z f (N * K) r0), Hun. cbn [bind]. f_equal.
    unfold iota, t_map. cbn [shape data]. f_equal. rewrite Hprod, <- Hl. apply map_zget_id.
  - unfold pack_ref, pack_v2. cbn [shape]. rewrite Hadm, Hmove, Hrefm. reflexivity.
Qed.

Theorem v2_roundtrip N K dt : In (N, K) v2_shapes -> zlen dt = N * K -> digits dt ->
  (p <- pack_v2 (T [N; K] dt) ;; unpack_v2 p) = Ok (T [N; K] dt) /\ pack_ref (T [N; K] dt) = pack_v2 (T [N; K] dt).
Proof. intros Hin. apply v2_roundtrip_of_ok. exact (proj1 (forallb_forall _ _) v2_shapes_ok _ Hin). Qed.

(* ---- v1 (with and without the AWQ column order): bijective for every content ---- *)
Theorem v1_roundtrip_of_ok reorder r c dt : v1_shape_ok reorder (r, c) = true -> zlen dt = r * c -> digits dt ->
  (p <- pack_v1 reorder (T [r; c] dt) ;; unpack_v1 reorder p) = Ok (T [r; c] dt).
Proof.
  intros Hok Hl Hd.
  unfold v1_shape_ok in Hok.
  destruct (v1_pack_move reorder c Z (r * c) (iota [r; c])) as [r0|] eqn:Er0; [|rewrite !andb_false_r in Hok; discriminate].
  apply andb_prop in Hok. destruct Hok as [Hok HD].
  repeat (apply andb_prop in HD; destruct HD as [HD ?]).
  repeat (apply andb_prop in Hok; destruct Hok as [Hok ?]).
  rename HD into Hsh0.
  apply zl_eqb_eq in Hsh0. rename Hsh0 into Hsh.
  match goal with H : (Z.of_nat (length (data r0)) =? r * c) = true |- _ => apply Z.eqb_eq in H; rename H into Hlen end.
  match goal with H : (8 * (c / 8) =? c) = true |- _ => apply Z.eqb_eq in H; rename H into H8 end.
  match goal with H : (0 <? c) = true |- _ => apply Z.ltb_lt in H; rename H into Hc end.
  apply Z.ltb_lt in Hok. rename Hok into Hr.
  set (f := fun j => zget dt j 0).
  assert (Hprod : prodZ [r; c] = r * c) by (cbn; ring).
  assert (Hf0 : f (r * c) = 0) by (unfold f; rewrite <- Hl; apply zget_overflow).
  assert (Hmove : v1_pack_move reorder c Z 0 (T [r; c] dt) = Ok (t_map f r0)).
  { rewrite (movement_iota _ (v1_pack_move_movement reorder c) [r; c] dt) by (rewrite Hprod; exact Hl). rewrite Hprod, Er0. reflexivity. }
  unfold pack_v1. cbn [shape].
  unfold v1_pack_move in Hmove.
  destruct (t_gather_cols 0 (zrange (8 * (c / 8))) (T [r; c] dt)) as [m|e]; cbn [bind] in Hmove |- *; [|discriminate].
  rewrite Hmove. cbn [bind].
  unfold unpack_v1. cbn [shape data].
  assert (Hn : length (map f (data r0)) = (Z.to_nat (r * (c / 8)) * 8)%nat).
  { rewrite map_length. apply Nat2Z.inj. rewrite Hlen, Nat2Z.inj_mul, Z2Nat.id by (apply Z.mul_nonneg_nonneg; [lia|apply Z.div_pos; lia]). cbn. rewrite <- H8 at 1. ring. }
  change (t_map f r0) with (T (shape r0) (map f (data r0))). cbn [data].
  change (pack_nibbles 8 32) with (pack_nibbles 8 (4 * Z.of_nat 8)).
  rewrite <- (map_id (pack_nibbles 8 (4 * Z.of_nat 8) (map f (data r0)))).
  rewrite (unpack_pack_nibbles 8 (fun v => v) (ltac:(lia)) (fun v _ => eq_refl) _ _ Hn (digits_map_zget dt _ Hd)).
  rewrite H8. rewrite <- Hsh. change (T (shape r0) (map f (data r0))) with (t_map f r0).
  destruct reorder.
  - match goal with H : res_is _ _ = true |- _ => apply res_is_eq in H; rename H into Hun end.
    rewrite <- Hf0. rewrite (gather_cols_movement (col_order AWQ_REVERSE_ORDER c) Z Z f (r * c) r0), Hun. cbn [bind]. f_equal.
    rewrite ?Hsh. apply t_map_iota. rewrite Hprod. exact Hl.
  - match goal with H : t_eqb r0 _ = true |- _ => apply t_eqb_eq in H; rename H into Hun end.
    rewrite Hun. f_equal. cbn [shape iota]. apply t_map_iota. rewrite Hprod. exact Hl.
Qed.

Theorem v1_roundtrip reorder r c dt : In (r, c) v1_shapes -> zlen dt = r * c -> digits dt ->
  (p <- pack_v1 reorder (T [r; c] dt) ;; unpack_v1 reorder p) = Ok (T [r; c] dt).
Proof.
  intros Hin. apply v1_roundtrip_of_ok.
  destruct reorder; [apply (proj1 (forallb_forall _ _) (proj2 v1_shapes_ok) _ Hin)|apply (proj1 (forallb_forall _ _) (proj1 v1_shapes_ok) _ Hin)].
Qed.

(* the optimised representation denotes the same weights: scale * code + (-(zeropoint * scale)) = (code - zeropoint) * scale *)
From Coq Require Import Reals.
Lemma awq_affine_same (s d z : R) : (s * d + - (z * s) = (d - z) * s)%R.
Proof. ring. Qed.
