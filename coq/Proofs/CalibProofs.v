(* C13: leaving a Calibration context, normally or through an exception, restores the global hook
   registries and the function-mode stack — for every program of nested / sequential contexts.
   C12: the scale update is the exponential moving average with first-batch initialisation. *)
From Coq Require Import String List ZArith Bool Lia Reals Lra.
From Flocq Require Import Core IEEE754.BinarySingleNaN.
From QV Require Import Lib.Res Lib.Tensor Lib.ND Lib.Num Lib.QTensor Model.Quant Model.Calib
     Proofs.QuantProofs Proofs.RealNum.
Import ListNotations.

(* ---- C13 ---------------------------------------------------------------------------------------- *)
Lemma remove_first_head c l : remove_first c (c :: l) = l.
Proof. unfold remove_first. rewrite Nat.eqb_refl. reflexivity. Qed.

Lemma enter_exit_cancel c g : run_actions c exit_actions (run_actions c enter_actions g) = g.
Proof.
  destruct g as [pre post ms]. unfold run_actions, enter_actions, exit_actions. cbn [fold_left do_action pre_hooks post_hooks modes tl].
  rewrite !remove_first_head. reflexivity.
Qed.

Theorem calibration_scoped (p : prog) (g : gstate) :
  fst (run enter_actions exit_actions p g) = g.
Proof.
  revert g. induction p as [|p IHp q IHq|c body IH| |]; intros g; cbn [run fst]; try reflexivity.
  - specialize (IHp g). destruct (run enter_actions exit_actions p g) as [g1 ex]. cbn [fst] in IHp. subst g1.
    destruct ex; [reflexivity|]. apply IHq.
  - specialize (IH (run_actions c enter_actions g)).
    destruct (run enter_actions exit_actions body (run_actions c enter_actions g)) as [g1 ex].
    cbn [fst] in *. subst g1. apply enter_exit_cancel.
Qed.

(* an exception raised anywhere inside propagates out (the context does not swallow it) *)
Theorem calibration_propagates (c : nat) (body : prog) (g : gstate) :
  snd (run enter_actions exit_actions (With c body) g) =
  snd (run enter_actions exit_actions body (run_actions c enter_actions g)).
Proof.
  cbn [run]. destruct (run enter_actions exit_actions body (run_actions c enter_actions g)); reflexivity.
Qed.

(* what breaks when __exit__ forgets a handle: the registry keeps it (used as a regression witness) *)
Example dropped_remove_leaks :
  fst (run enter_actions [PopMode; RemovePre] (With 7%nat Forward) (G [] [] [])) = G [] [7%nat] [].
Proof. reflexivity. Qed.

(* ---- C12 (exact arithmetic) -------------------------------------------------------------------------- *)
Open Scope R_scope.

(* the scalar update performed by _updated_scale: first batch initialises (sentinel 1), then EMA.
   [m'] is 1 - m as Python computes it (in binary64) *)
Definition ema_step (m m' : R) (s new : R) : R :=
  if Req_EM_T s 1 then new else s * m + new * m'.

Theorem updated_scale_scalar (s new : R) (mom : b64) :
  updated_scale (T [] [s]) (T [] [new]) mom =
  Ok (T [] [ema_step (@B2R 53 1024 mom) (@B2R 53 1024 (b64_sub (b64_lit 4503599627370496 (-52)) mom)) s new]).
Proof.
  unfold updated_scale, tf_all_eq_int, ema_step. cbn [data forallb n_eqb NumR n_of_Z].
  destruct (Req_EM_T s 1) as [E|E]; cbn [andb]; [reflexivity|].
  unfold tf_add, tf_mul_py, t_map, t_bcast2. cbn [shape data map hd n_add n_mul n_of_b64 NumR bind]. reflexivity.
Qed.

(* closed form of n further updates after the first batch: weights m^n on the first scale and
   m' * m^(n-1-i) on the later ones, as long as no intermediate average is exactly the sentinel 1 *)
Fixpoint ema_closed (m m' : R) (s1 : R) (xs : list R) : R :=
  match xs with
  | [] => s1
  | x :: xs' => ema_closed m m' (s1 * m + x * m') xs'
  end.

Definition no_sentinel (m m' : R) (s1 : R) (xs : list R) : Prop :=
  forall k, (k <= length xs)%nat -> ema_closed m m' s1 (firstn k xs) <> 1.

Theorem ema_history (m m' s1 : R) (xs : list R) :
  no_sentinel m m' s1 xs ->
  fold_left (ema_step m m') (s1 :: xs) 1 = ema_closed m m' s1 xs.
Proof.
  intros H. cbn [fold_left]. unfold ema_step at 2. destruct (Req_EM_T 1 1) as [_|N]; [|congruence].
  revert s1 H. induction xs as [|x xs IH]; intros s1 H; [reflexivity|].
  cbn [fold_left ema_closed]. unfold ema_step at 2.
  destruct (Req_EM_T s1 1) as [E|E].
  - exfalso. apply (H 0%nat); [cbn; lia | exact E].
  - apply IH. intros k Hk. specialize (H (S k) ltac:(cbn; lia)). exact H.
Qed.

(* the weights sum to one when m' = 1 - m: the result is a convex combination (an average) *)
Lemma ema_closed_affine (m s1 d : R) (xs : list R) :
  ema_closed m (1 - m) (s1 + d) (map (fun x => x + d) xs) = ema_closed m (1 - m) s1 xs + d.
Proof.
  revert s1. induction xs as [|x xs IH]; intros s1; cbn [ema_closed map]; [reflexivity|].
  replace ((s1 + d) * m + (x + d) * (1 - m)) with ((s1 * m + x * (1 - m)) + d) by ring. apply IH.
Qed.

(* the sentinel defect (F9), as a witness: when the running scale is exactly 1 the next batch
   re-initialises instead of averaging *)
Example sentinel_reinitialises : ema_step (9/10) (1/10) 1 5 = 5.
Proof. unfold ema_step. destruct (Req_EM_T 1 1); [reflexivity|congruence]. Qed.
