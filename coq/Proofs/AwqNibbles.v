From Coq Require Import List ZArith Bool Lia.
From QV Require Import Lib.Res Lib.Tensor Lib.ND Model.Awq.
Import ListNotations.
Open Scope Z_scope.

(* ---- OR of disjoint bit ranges is a sum ---- *)
Lemma land_disjoint a b m : 0 <= m -> 0 <= a < 2 ^ m -> Z.land a (b * 2 ^ m) = 0.
Proof.
  intros Hm Ha. apply Z.bits_inj'. intros n Hn. rewrite Z.land_spec, Z.bits_0.
  destruct (Z_lt_le_dec n m) as [Hlt|Hge].
  - rewrite Z.mul_pow2_bits_low by lia. apply andb_false_r.
  - destruct (Z.eq_dec a 0) as [->|Hnz]; [rewrite Z.bits_0; reflexivity|].
    rewrite (Z.bits_above_log2 a n); [reflexivity|lia|].
    apply Z.log2_lt_pow2; [lia|]. apply Z.lt_le_trans with (2 ^ m); [lia|]. apply Z.pow_le_mono_r; lia.
Qed.

Lemma lor_disjoint a b m : 0 <= m -> 0 <= a < 2 ^ m -> Z.lor a (b * 2 ^ m) = a + b * 2 ^ m.
Proof.
  intros Hm Ha. rewrite <- Z.lxor_lor by (apply land_disjoint; assumption).
  symmetry. apply Z.add_nocarry_lxor. apply land_disjoint; assumption.
Qed.

(* ---- base-16 value of a digit list ---- *)
Fixpoint val (l : list Z) : Z := match l with [] => 0 | x :: r => x + 16 * val r end.
Definition digits (l : list Z) : Prop := Forall (fun x => 0 <= x < 16) l.

Lemma val_bounds l : digits l -> 0 <= val l < 16 ^ Z.of_nat (length l).
Proof.
  induction 1 as [|x r Hx _ IH]; [cbn; lia|]. cbn [val length]. rewrite Nat2Z.inj_succ, Z.pow_succ_r by lia. lia.
Qed.

Lemma pow16 k : 0 <= k -> 2 ^ (4 * k) = 16 ^ k.
Proof. intros. rewrite Z.pow_mul_r by lia. reflexivity. Qed.

Lemma lor_shift_val l : digits l -> forall k, 0 <= k -> lor_shift l k = val l * 16 ^ k.
Proof.
  induction 1 as [|x r Hx Hr IH]; intros k Hk; [reflexivity|]. cbn [lor_shift val].
  rewrite IH by lia.
  assert (E : val r * 16 ^ (k + 1) = Z.shiftl (val r * 2 ^ 4) (4 * k)).
  { rewrite Z.shiftl_mul_pow2 by lia. rewrite pow16 by lia. rewrite Z.pow_add_r by lia. change (16 ^ 1) with 16. change (2 ^ 4) with 16. ring. }
  rewrite E, <- Z.shiftl_lor. rewrite lor_disjoint by (cbn; lia).
  rewrite Z.shiftl_mul_pow2 by lia. rewrite pow16 by lia. change (2 ^ 4) with 16. ring.
Qed.

Lemma val_digit l : digits l -> forall i, (i < length l)%nat -> (val l / 16 ^ Z.of_nat i) mod 16 = nth i l 0.
Proof.
  induction 1 as [|x r Hx Hr IH]; intros i Hi; [inversion Hi|]. destruct i as [|i].
  - cbn [nth val]. change (16 ^ Z.of_nat 0) with 1. rewrite Z.div_1_r. replace (x + 16 * val r) with (x + val r * 16) by ring. rewrite Z_mod_plus_full. apply Z.mod_small; lia.
  - cbn [nth val]. rewrite Nat2Z.inj_succ, Z.pow_succ_r by lia. rewrite <- Z.div_div by (try apply Z.pow_pos_nonneg; lia).
    replace (x + 16 * val r) with (x + val r * 16) by ring. rewrite Z.div_add by lia. rewrite (Z.div_small x 16) by lia.
    cbn [Z.add]. apply IH. cbn in Hi. lia.
Qed.

(* the signed wrap does not disturb any of the [per] nibbles *)
Lemma nibble_of_wrapped per v i : 0 <= v < 2 ^ (4 * Z.of_nat per) -> (i < per)%nat ->
  Z.land (Z.shiftr (wrap_signed (4 * Z.of_nat per) v) (4 * Z.of_nat i)) 15 = (v / 16 ^ Z.of_nat i) mod 16.
Proof.
  intros Hv Hi. change 15 with (Z.ones 4). rewrite Z.land_ones by lia. rewrite Z.shiftr_div_pow2 by lia. rewrite pow16 by lia.
  change (2 ^ 4) with 16. unfold wrap_signed. rewrite (Z.mod_small v) by lia.
  destruct (v <? 2 ^ (4 * Z.of_nat per - 1)); [reflexivity|].
  (* v - 2^(4 per) = v - (16^(per-i-1) * 16) * 16^i *)
  assert (E : 2 ^ (4 * Z.of_nat per) = (16 ^ (Z.of_nat per - Z.of_nat i - 1) * 16) * 16 ^ Z.of_nat i).
  { rewrite pow16 by lia. replace (Z.of_nat per) with ((Z.of_nat per - Z.of_nat i - 1) + 1 + Z.of_nat i) at 1 by lia.
    rewrite !Z.pow_add_r by lia. reflexivity. }
  rewrite E. replace (v - 16 ^ (Z.of_nat per - Z.of_nat i - 1) * 16 * 16 ^ Z.of_nat i) with (v + (- (16 ^ (Z.of_nat per - Z.of_nat i - 1) * 16)) * 16 ^ Z.of_nat i) by ring.
  rewrite Z.div_add by (apply Z.pow_nonzero; lia).
  replace (- (16 ^ (Z.of_nat per - Z.of_nat i - 1) * 16)) with ((- 16 ^ (Z.of_nat per - Z.of_nat i - 1)) * 16) by ring.
  apply Z_mod_plus_full.
Qed.

Theorem nibbles_roundtrip per c : digits c -> length c = per ->
  nibbles_of per (wrap_signed (4 * Z.of_nat per) (lor_shift c 0)) = c.
Proof.
  intros Hd Hl. rewrite lor_shift_val by (assumption || lia). rewrite Z.pow_0_r, Z.mul_1_r.
  assert (Hb := val_bounds c Hd). rewrite Hl in Hb. rewrite <- pow16 in Hb by lia.
  unfold nibbles_of.
  assert (G : forall n, (n <= per)%nat -> map (fun i => Z.land (Z.shiftr (wrap_signed (4 * Z.of_nat per) (val c)) (4 * Z.of_nat i)) 15) (seq 0 n) = firstn n c).
  { induction n as [|n IHn]; intros Hn; [reflexivity|].
    rewrite seq_S, map_app, IHn by lia. cbn [map Nat.add].
    rewrite nibble_of_wrapped by (assumption || lia). rewrite val_digit by (assumption || lia).
    clear -Hn Hl. subst per. revert n Hn. induction c as [|x c IH]; intros n Hn; [cbn in Hn; lia|].
    destruct n as [|n]; [reflexivity|]. cbn [firstn nth app]. f_equal. apply IH. cbn in Hn. lia. }
  rewrite G by lia. rewrite <- Hl. apply firstn_all.
Qed.
