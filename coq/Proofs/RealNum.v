(* Exact (real-number) instance of the numeric interface, and the exact-arithmetic content of C01:
   clamp o round-half-even o divide is a nearest-grid-point projection that saturates. *)
From Coq Require Import ZArith Reals Lra Lia List Bool.
From Flocq Require Import Core IEEE754.BinarySingleNaN.
From QV Require Import Lib.Res Lib.Tensor Lib.ND Lib.Num Lib.QTensor Model.Quant Proofs.QuantProofs.
Open Scope R_scope.

Definition f8_exp (s : storage) : Z -> Z :=
  match s with SE5M2 => FLT_exp (-16) 3 | _ => FLT_exp (-9) 4 end.

Definition r_cast (s : storage) (x : R) : R :=
  match s with
  | SInt8 | SUInt8 => x      (* exact on the integers of the type's range; see cast_arg_in_range *)
  | SE4M3 | SE5M2 => round radix2 (f8_exp s) ZnearestE x
  end.

Global Instance NumR : Num R := {
  n_of_b64 := @B2R 53%Z 1024%Z;
  n_of_Z := IZR;
  n_add := Rplus; n_sub := Rminus; n_mul := Rmult; n_div := Rdiv;
  n_max := Rmax; n_min := Rmin; n_neg := Ropp; n_abs := Rabs;
  n_rint := fun x => IZR (ZnearestE x);
  n_cast := r_cast;
  n_nan_to_num := fun x => x;
  n_mul_py := fun x k => Rmult x (@B2R 53%Z 1024%Z k);
  n_eqb := fun x y => if Req_EM_T x y then true else false;
}.

(* ---- integers ----------------------------------------------------------------------------------- *)
Lemma nearest_int (y : R) (v : Z) : Rabs (IZR (ZnearestE y) - y) <= Rabs (IZR v - y).
Proof.
  pose proof (Znearest_half (fun x => negb (Z.even x)) y) as Hh. fold ZnearestE in Hh.
  rewrite Rabs_minus_sym in Hh.
  destruct (Z.eq_dec v (ZnearestE y)) as [->|Hne]; [lra|].
  destruct (Rle_or_lt (Rabs (IZR (ZnearestE y) - y)) (Rabs (IZR v - y))) as [H|H]; [exact H|].
  exfalso. apply Hne.
  assert (Hd : Rabs (IZR v - IZR (ZnearestE y)) < 1).
  { replace (IZR v - IZR (ZnearestE y)) with ((IZR v - y) + - (IZR (ZnearestE y) - y)) by ring.
    eapply Rle_lt_trans; [apply Rabs_triang|].
    rewrite Rabs_Ropp. lra. }
  rewrite <- minus_IZR in Hd. apply Rabs_def2 in Hd. destruct Hd as [H1 H2].
  change (- (1)) with (IZR (-1)) in H2. change 1 with (IZR 1) in H1.
  apply lt_IZR in H1. apply lt_IZR in H2. lia.
Qed.

Definition clampZ (lo hi n : Z) : Z := Z.min (Z.max n lo) hi.

Lemma Rmax_IZR a b : Rmax (IZR a) (IZR b) = IZR (Z.max a b).
Proof.
  destruct (Z.le_ge_cases a b) as [H|H].
  - rewrite Z.max_r by exact H. apply Rmax_right, IZR_le, H.
  - rewrite Z.max_l by exact H. apply Rmax_left, IZR_le, H.
Qed.
Lemma Rmin_IZR a b : Rmin (IZR a) (IZR b) = IZR (Z.min a b).
Proof.
  destruct (Z.le_ge_cases a b) as [H|H].
  - rewrite Z.min_l by exact H. apply Rmin_left, IZR_le, H.
  - rewrite Z.min_r by exact H. apply Rmin_right, IZR_le, H.
Qed.

Lemma clamp_IZR lo hi n : Rmin (Rmax (IZR n) (IZR lo)) (IZR hi) = IZR (clampZ lo hi n).
Proof. unfold clampZ. rewrite Rmax_IZR, Rmin_IZR. reflexivity. Qed.

(* nearest-grid-point property of clamp o round-half-even, in scaled units *)
Lemma clamp_nearest (lo hi : Z) (y : R) (v : Z) : (lo <= hi)%Z -> (lo <= v <= hi)%Z ->
  Rabs (IZR (clampZ lo hi (ZnearestE y)) - y) <= Rabs (IZR v - y).
Proof.
  intros Hlh Hv. unfold clampZ. set (n := ZnearestE y).
  pose proof (nearest_int y v) as Hn. fold n in Hn.
  pose proof (Znearest_half (fun x => negb (Z.even x)) y) as Hh. fold ZnearestE in Hh. fold n in Hh.
  rewrite Rabs_minus_sym in Hh.
  destruct (Z_lt_le_dec n lo) as [Hlo|Hlo].
  - (* below the range: y <= n + 1/2 <= lo - 1/2 < lo <= v *)
    rewrite Z.max_r, Z.min_l by lia.
    assert (IZR n <= IZR lo - 1) by (rewrite <- minus_IZR; apply IZR_le; lia).
    assert (IZR lo <= IZR v) by (apply IZR_le; lia).
    apply Rabs_le_inv in Hh. rewrite !Rabs_pos_eq by lra. lra.
  - destruct (Z_lt_le_dec hi n) as [Hhi|Hhi].
    + rewrite Z.max_l, Z.min_r by lia.
      assert (IZR hi + 1 <= IZR n) by (rewrite <- plus_IZR; apply IZR_le; lia).
      assert (IZR v <= IZR hi) by (apply IZR_le; lia).
      apply Rabs_le_inv in Hh. rewrite <- (Rabs_Ropp (IZR hi - y)), <- (Rabs_Ropp (IZR v - y)).
      rewrite !Rabs_pos_eq by lra. lra.
    + rewrite Z.max_l, Z.min_l by lia. exact Hn.
Qed.

(* ---- the exact-arithmetic content of C01 for qint8 ------------------------------------------------ *)
Theorem sym_int8_nearest_R (x s : R) : 0 < s ->
  exists k : Z, (-128 <= k <= 127)%Z /\ symq qint8 x s = IZR k /\
    forall v : Z, (-128 <= v <= 127)%Z -> Rabs (symdq qint8 x s - x) <= Rabs (s * IZR v - x).
Proof.
  intros Hs. exists (clampZ (-128) 127 (ZnearestE (x / s))).
  assert (E : symq qint8 x s = IZR (clampZ (-128) 127 (ZnearestE (x / s)))).
  { unfold symq, post. cbn. apply clamp_IZR. }
  split; [unfold clampZ; lia|]. split; [exact E|].
  intros v Hv. unfold symdq. rewrite E. cbn.
  pose proof (clamp_nearest (-128) 127 (x / s) v ltac:(lia) Hv) as H.
  replace (s * IZR (clampZ (-128) 127 (ZnearestE (x / s))) - x)
    with (s * (IZR (clampZ (-128) 127 (ZnearestE (x / s))) - x / s)) by (field; lra).
  replace (s * IZR v - x) with (s * (IZR v - x / s)) by (field; lra).
  rewrite !Rabs_mult, (Rabs_pos_eq s) by lra. apply Rmult_le_compat_l; lra.
Qed.

(* saturation: beyond the grid the end point is taken (no wrap-around) *)
Theorem sym_int8_saturates_R (x s : R) : 0 < s ->
  (127 <= x / s -> symq qint8 x s = 127) /\ (x / s <= -128 -> symq qint8 x s = -128).
Proof.
  intros Hs. unfold symq, post. cbn.
  split; intros H.
  - assert (127 <= ZnearestE (x / s))%Z.
    { apply le_IZR. pose proof (Znearest_ge_floor (fun x => negb (Z.even x)) (x / s)).
      fold ZnearestE in H0. apply IZR_le in H0. apply Rle_trans with (IZR (Zfloor (x / s))); [|exact H0].
      apply IZR_le, Zfloor_lub. exact H. }
    rewrite clamp_IZR. unfold clampZ. f_equal. lia.
  - assert (ZnearestE (x / s) <= -128)%Z.
    { apply le_IZR. pose proof (Znearest_le_ceil (fun x => negb (Z.even x)) (x / s)).
      fold ZnearestE in H0. apply IZR_le in H0. apply Rle_trans with (IZR (Zceil (x / s))); [exact H0|].
      apply IZR_le, Zceil_glb. exact H. }
    rewrite clamp_IZR. unfold clampZ. f_equal. lia.
Qed.
