(* C02 / C03: MaxOptimizer, cell by cell (any number type): the scale of a cell is computed from the minimum and
   the maximum of exactly the members of that cell, each extended by zero. *)
From Coq Require Import String List ZArith Bool Lia.
From QV Require Import Lib.Res Lib.Tensor Lib.ListFacts Lib.ND Lib.NDFacts Lib.Num Lib.QTensor Model.Quant
     Proofs.QuantProofs Proofs.ScaleProofs.
Import ListNotations.
Open Scope Z_scope.

Section Generic.
Context {F : Type} `{NF : Num F}.

Lemma bsub_refl sh : bsub sh sh.
Proof. induction sh; constructor; auto. Qed.

Lemma sidx_same sh j : pos_dims sh -> 0 <= j < prodZ sh -> sidx sh sh j = j.
Proof.
  intros Hp Hj. unfold sidx. rewrite (bidx_id _ _ (unravel_in_bounds _ _ Hp Hj)). apply ravel_unravel; assumption.
Qed.

Lemma red_shape_pos_from sh rd : forall k, pos_dims sh -> Forall (fun d => 0 < d) (mapi_from (fun k d : Z => if zmem k rd then 1 else d) k sh).
Proof.
  induction sh as [|d sh IH]; intros k H; cbn [mapi_from]; [constructor|].
  inversion H as [|? ? Hd Hs]; subst. constructor; [|apply IH; exact Hs].
  cbv beta in *. destruct (zmem k rd); [reflexivity|exact Hd].
Qed.
Lemma red_shape_pos sh rd : pos_dims sh -> pos_dims (red_shape sh rd).
Proof. apply red_shape_pos_from. Qed.

Lemma red_shape_nonnil sh rd : sh <> [] -> red_shape sh rd <> [].
Proof. destruct sh; [congruence|]. unfold red_shape, mapi. cbn. discriminate. Qed.

Theorem max_optimize_cells (base S Zp : tensor F) bits a :
  pos_dims (shape base) -> shape base <> [] ->
  max_optimize base bits (Some a) = Ok (S, Zp) ->
  let rd := opt_dims base (Some a) in
  shape S = red_shape (shape base) rd /\
  forall c, 0 <= c < prodZ (shape S) ->
    exists mn mx, cell_fold n_min base rd c = Some mn /\ cell_fold n_max base rd c = Some mx /\
      zget (data S) c f0 =
      n_div (n_sub (n_max mx (n_of_Z 0)) (n_min mn (n_of_Z 0))) (n_of_Z ((2 ^ (bits - 1) - 1) - (- 2 ^ (bits - 1)))).
Proof.
  intros Hp Hne H. unfold max_optimize in H. cbn zeta in H.
  mstep H. mstep H. mstep H. mstep H. mstep H. mstep H. injection H as <- _.
  destruct (reduce_cells n_min _ _ _ B) as [Hs Hc]. destruct (reduce_cells n_max _ _ _ B0) as [Hs0 Hc0].
  fold (opt_dims base (Some a)) in Hs, Hc, Hs0, Hc0. set (rd := opt_dims base (Some a)) in *.
  assert (Hsa : shape (tf_clamp_min 0 v0) = red_shape (shape base) rd) by exact Hs0.
  assert (Hsb : shape (tf_clamp_max 0 v) = red_shape (shape base) rd) by exact Hs.
  unfold tf_sub in B1. rewrite bcast2_right in B1.
  2:{ rewrite Hsa. apply red_shape_nonnil. exact Hne. }
  2:{ rewrite Hsa, Hsb. apply bsub_refl. }
  2:{ rewrite Hsa. apply red_shape_pos. exact Hp. }
  injection B1 as <-. cbv zeta. cbn [shape data t_map tf_div_int tf_clamp_min tf_clamp_max]. split; [exact Hs0|].
  rewrite Hs0. intros c Hcr.
  assert (Hcv : 0 <= c < prodZ (shape v)) by (rewrite Hs; exact Hcr).
  assert (Hcv0 : 0 <= c < prodZ (shape v0)) by (rewrite Hs0; exact Hcr).
  exists (zget (data v) c f0), (zget (data v0) c f0). split; [apply Hc; exact Hcv|]. split; [apply Hc0; exact Hcv0|].
  unfold tf_div_int, t_map. cbn [shape data]. rewrite map_map, Hs.
  set (g := fun j => n_div (n_sub (zget (map (fun x : F => n_max x (n_of_Z 0)) (data v0)) j f0)
                                  (zget (map (fun x : F => n_min x (n_of_Z 0)) (data v)) (sidx (red_shape (shape base) rd) (red_shape (shape base) rd) j) f0))
                          (n_of_Z (2 ^ (bits - 1) - 1 - - 2 ^ (bits - 1)))).
  rewrite (zget_map_zrange g (prodZ (red_shape (shape base) rd)) c f0 Hcr). unfold g.
  rewrite sidx_same by (try apply red_shape_pos; assumption).
  pose proof (t_reduce_length _ _ _ _ _ B) as Hl. pose proof (t_reduce_length _ _ _ _ _ B0) as Hl0.
  rewrite (zget_map_in (fun x => n_max x (n_of_Z 0)) (data v0) c f0 f0), (zget_map_in (fun x => n_min x (n_of_Z 0)) (data v) c f0 f0).
  - reflexivity.
  - rewrite Hl, Hs. lia.
  - rewrite Hl0, Hs0. lia.
Qed.
End Generic.
