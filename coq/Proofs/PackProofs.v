(* Proofs about Model/Pack.v: round trip, density, kernel agreement — for every leading
   dimension R >= 1 and every trailing shape (no bound on sizes). *)
From Coq Require Import String List ZArith Bool Lia Arith.
From QV Require Import Lib.Res Lib.Tensor Lib.ListFacts Model.Pack.
Import ListNotations.
Open Scope Z_scope.

Ltac Zify.zify_post_hook ::= Z.div_mod_to_equations.

(* ---------- scalar facts ---------------------------------------------------------------- *)
Lemma u8_small x : 0 <= x < 256 -> u8 x = x.
Proof. intros H. unfold u8. apply Z.mod_small; lia. Qed.

Lemma u8_shl_0 k : u8_shl 0 k = 0.
Proof. unfold u8_shl. destruct (k <? 0), (8 <=? k); reflexivity. Qed.

Lemma u8_or_0_r x : u8_or x 0 = x.
Proof. apply Z.lor_0_r. Qed.

Lemma lshift_ok dev x k : 0 <= k < 8 -> lshift dev x k = Ok (t_shl x k).
Proof.
  intros Hk. unfold lshift. destruct (String.eqb dev "mps"); [|reflexivity].
  replace (0 <=? k) with true by bsolve. simpl. f_equal. unfold t_mul_u8, t_shl, t_map. f_equal.
  apply map_ext. intros a. unfold u8_shl.
  replace (k <? 0) with false by bsolve. replace (8 <=? k) with false by bsolve. reflexivity.
Qed.

Lemma rshift_ok dev x k : 0 <= k < 8 -> rshift dev x k = Ok (t_shr x k).
Proof.
  intros Hk. unfold rshift. destruct (String.eqb dev "mps"); [|reflexivity].
  replace (0 <=? k) with true by bsolve. simpl.
  assert (0 < 2 ^ k) by (apply Z.pow_pos_nonneg; lia).
  unfold guard_nz. replace (2 ^ k =? 0) with false by bsolve. simpl. f_equal.
  unfold t_floordiv_u8, t_shr, t_map. f_equal.
  apply map_ext. intros a. unfold u8_shr.
  replace (k <? 0) with false by bsolve. replace (8 <=? k) with false by bsolve.
  symmetry. apply Z.shiftr_div_pow2. lia.
Qed.

(* ---------- the value accumulated in packed position q after k loop iterations ------------- *)
Definition acc_val (bits : Z) (B : nat) (Tl : list Z) (k q : nat) : Z :=
  fold_left (fun acc i => u8_or acc (u8_shl (u8 (nth (i * B + q) Tl 0)) (bits * Z.of_nat i)))
            (seq 0 k) 0.

Definition pk (bits : Z) (B : nat) (Tl : list Z) (k : nat) : list Z :=
  map (acc_val bits B Tl k) (seq 0 B).

Lemma acc_val_S bits B Tl k q :
  acc_val bits B Tl (S k) q =
  u8_or (acc_val bits B Tl k q) (u8_shl (u8 (nth (k * B + q) Tl 0)) (bits * Z.of_nat k)).
Proof. unfold acc_val. rewrite seq_S, fold_left_app. reflexivity. Qed.

Lemma pk_length bits B Tl k : length (pk bits B Tl k) = B.
Proof. unfold pk. rewrite map_length, seq_length. reflexivity. Qed.

Lemma pk_0 bits B Tl : pk bits B Tl 0 = repeat 0 B.
Proof.
  unfold pk, acc_val. simpl. generalize 0%nat at 1. induction B as [|B IH]; intros s; simpl; [reflexivity|].
  f_equal. apply IH.
Qed.

(* digit extraction as done by the unpack kernels *)
Definition digit (bits : Z) (i : Z) (x : Z) : Z :=
  u8_shr (u8_and x (2 ^ (bits * (i + 1)) - 1)) (bits * i).

Lemma digits4 d0 d1 : 0 <= d0 < 16 -> 0 <= d1 < 16 ->
  let x := u8_or (u8_or 0 (u8_shl (u8 d0) 0)) (u8_shl (u8 d1) 4) in
  digit 4 0 x = d0 /\ digit 4 1 x = d1 /\ 0 <= x < 256.
Proof.
  intros H0 H1.
  assert (S : forallb (fun d0 => forallb (fun d1 =>
            let x := u8_or (u8_or 0 (u8_shl (u8 d0) 0)) (u8_shl (u8 d1) 4) in
            (digit 4 0 x =? d0) && (digit 4 1 x =? d1) && (0 <=? x) && (x <? 256))
            (zrange 16)) (zrange 16) = true) by (vm_compute; reflexivity).
  pose proof (sweep_sound _ _ (sweep_sound _ _ S d0 H0) d1 H1) as E. cbv zeta in E.
  rewrite !andb_true_iff in E. cbv zeta. lia.
Qed.

Lemma digits2 d0 d1 d2 d3 : 0 <= d0 < 4 -> 0 <= d1 < 4 -> 0 <= d2 < 4 -> 0 <= d3 < 4 ->
  let x := u8_or (u8_or (u8_or (u8_or 0 (u8_shl (u8 d0) 0)) (u8_shl (u8 d1) 2))
                        (u8_shl (u8 d2) 4)) (u8_shl (u8 d3) 6) in
  digit 2 0 x = d0 /\ digit 2 1 x = d1 /\ digit 2 2 x = d2 /\ digit 2 3 x = d3 /\ 0 <= x < 256.
Proof.
  intros H0 H1 H2 H3.
  assert (S : forallb (fun d0 => forallb (fun d1 => forallb (fun d2 => forallb (fun d3 =>
            let x := u8_or (u8_or (u8_or (u8_or 0 (u8_shl (u8 d0) 0)) (u8_shl (u8 d1) 2))
                        (u8_shl (u8 d2) 4)) (u8_shl (u8 d3) 6) in
            (digit 2 0 x =? d0) && (digit 2 1 x =? d1) && (digit 2 2 x =? d2) && (digit 2 3 x =? d3)
            && (0 <=? x) && (x <? 256))
            (zrange 4)) (zrange 4)) (zrange 4)) (zrange 4) = true) by (vm_compute; reflexivity).
  pose proof (sweep_sound _ _ (sweep_sound _ _ (sweep_sound _ _ (sweep_sound _ _ S d0 H0) d1 H1) d2 H2) d3 H3) as E.
  cbv zeta in E. rewrite !andb_true_iff in E. cbv zeta. lia.
Qed.

(* ---------- kernel agreement on every byte ------------------------------------------------- *)
Lemma byte_kernels_4 x : 0 <= x < 256 ->
  u8 (u8_shr (u8_and x (2 ^ (4 * (0 + 1)) - 1)) (4 * 0)) = u8_and x 15 /\
  u8 (u8_shr (u8_and x (2 ^ (4 * (1 + 1)) - 1)) (4 * 1)) = u8_shr (u8_and x 240) 4.
Proof.
  intros H.
  assert (S : forallb (fun x =>
     (u8 (u8_shr (u8_and x (2 ^ (4 * (0 + 1)) - 1)) (4 * 0)) =? u8_and x 15) &&
     (u8 (u8_shr (u8_and x (2 ^ (4 * (1 + 1)) - 1)) (4 * 1)) =? u8_shr (u8_and x 240) 4)) (zrange 256) = true)
    by (vm_compute; reflexivity).
  pose proof (sweep_sound _ _ S x H) as E. rewrite !andb_true_iff in E. lia.
Qed.

Lemma byte_kernels_2 x : 0 <= x < 256 ->
  u8 (u8_shr (u8_and x (2 ^ (2 * (0 + 1)) - 1)) (2 * 0)) = u8_and x 3 /\
  u8 (u8_shr (u8_and x (2 ^ (2 * (1 + 1)) - 1)) (2 * 1)) = u8_shr (u8_and x 12) 2 /\
  u8 (u8_shr (u8_and x (2 ^ (2 * (2 + 1)) - 1)) (2 * 2)) = u8_shr (u8_and x 48) 4 /\
  u8 (u8_shr (u8_and x (2 ^ (2 * (3 + 1)) - 1)) (2 * 3)) = u8_shr (u8_and x 192) 6.
Proof.
  intros H.
  assert (S : forallb (fun x =>
     (u8 (u8_shr (u8_and x (2 ^ (2 * (0 + 1)) - 1)) (2 * 0)) =? u8_and x 3) &&
     (u8 (u8_shr (u8_and x (2 ^ (2 * (1 + 1)) - 1)) (2 * 1)) =? u8_shr (u8_and x 12) 2) &&
     (u8 (u8_shr (u8_and x (2 ^ (2 * (2 + 1)) - 1)) (2 * 2)) =? u8_shr (u8_and x 48) 4) &&
     (u8 (u8_shr (u8_and x (2 ^ (2 * (3 + 1)) - 1)) (2 * 3)) =? u8_shr (u8_and x 192) 6)) (zrange 256) = true)
    by (vm_compute; reflexivity).
  pose proof (sweep_sound _ _ S x H) as E. rewrite !andb_true_iff in E. lia.
Qed.

(* unpack_py in closed form (the loop unrolled by the model's own definition) *)
Definition unpack_parts (p : tensor Z) (bits : Z) : list (tensor Z) :=
  map (fun i => t_shr (t_and p (2 ^ (bits * (i + 1)) - 1)) (bits * i)) (zrange (8 / bits)).

Lemma unpack_py_closed dev p bits : bits = 2 \/ bits = 4 ->
  unpack_py dev p bits = (c <- t_cat0 (unpack_parts p bits) ;; Ok (t_to_u8 c)).
Proof.
  intros [H|H]; subst; unfold unpack_py, unpack_parts, unpack_step.
  - change (zrange (8 / 2)) with [0; 1; 2; 3]. cbn [mfold map guard_nz Z.eqb negb guard bind].
    repeat (rewrite rshift_ok by lia; cbn [bind app Z.mul Z.add Pos.mul Pos.add Z.leb Z.compare Pos.compare guard]).
    reflexivity.
  - change (zrange (8 / 4)) with [0; 1]. cbn [mfold map guard_nz Z.eqb negb guard bind].
    repeat (rewrite rshift_ok by lia; cbn [bind app Z.mul Z.add Pos.mul Pos.add Z.leb Z.compare Pos.compare guard]).
    reflexivity.
Qed.

(* ---------- generic facts about cat / map ------------------------------------------------ *)
Lemma t_cat0_uniform {A} (l : list (tensor A)) d ts :
  l <> [] -> Forall (fun x => shape x = d :: ts) l ->
  t_cat0 l = Ok (T (Z.of_nat (length l) * d :: ts) (concat (map data l))).
Proof.
  intros Hne HF. destruct l as [|t0 l']; [congruence|]. unfold t_cat0.
  assert (Hall : forallb (fun t => shape_eqb (tailshape t) (tailshape t0)
                 && match shape t with [] => false | _ => true end) (t0 :: l') = true).
  { apply forallb_forall. intros x Hx. rewrite Forall_forall in HF.
    unfold tailshape. rewrite (HF x Hx), (HF t0 (or_introl eq_refl)). cbn [tl].
    rewrite shape_eqb_refl. reflexivity. }
  rewrite Hall. f_equal. f_equal. f_equal.
  - clear Hall Hne. induction HF as [|x l Hx _ IH]; [reflexivity|].
    cbn [map fold_right length]. rewrite IH. unfold dim0. rewrite Hx. cbn [hd]. lia.
  - unfold tailshape. rewrite Forall_forall in HF. rewrite (HF t0 (or_introl eq_refl)). reflexivity.
Qed.

Lemma t_cat0_map {A B} (f : A -> B) (l : list (tensor A)) :
  (c <- t_cat0 l ;; Ok (t_map f c)) = t_cat0 (map (t_map f) l).
Proof.
  destruct l as [|t0 l']; [reflexivity|]. unfold t_cat0. cbn [map].
  assert (E : forallb (fun t => shape_eqb (tailshape t) (tailshape (t_map f t0))
                 && match shape t with [] => false | _ => true end) (t_map f t0 :: map (t_map f) l')
            = forallb (fun t => shape_eqb (tailshape t) (tailshape t0)
                 && match shape t with [] => false | _ => true end) (t0 :: l')).
  { change (t_map f t0 :: map (t_map f) l') with (map (t_map f) (t0 :: l')).
    generalize (t0 :: l'). intros l. induction l as [|x l IH]; [reflexivity|].
    cbn [map forallb]. rewrite IH. reflexivity. }
  rewrite E. destruct (forallb _ (t0 :: l')); [|reflexivity]. cbn [bind]. f_equal.
  unfold t_map. cbn [shape data]. f_equal.
  - rewrite map_map. reflexivity.
  - rewrite concat_map. cbn [map]. f_equal. f_equal. rewrite !map_map. reflexivity.
Qed.

Definition bytes (l : list Z) : Prop := Forall (fun x => 0 <= x < 256) l.

(* ---------- the two kernels agree on every byte tensor ------------------------------------- *)
Theorem kernels_agree dev (p : tensor Z) bits :
  bits = 2 \/ bits = 4 -> bytes (data p) -> unpack_cpp p bits = unpack_py dev p bits.
Proof.
  intros Hb Hp. rewrite unpack_py_closed by exact Hb. unfold t_to_u8. rewrite t_cat0_map.
  unfold bytes in Hp. rewrite Forall_forall in Hp.
  destruct Hb as [Hb|Hb]; rewrite Hb; unfold unpack_cpp, unpack_parts.
  - change (2 =? 4) with false. change (2 =? 2) with true. cbv iota.
    change (zrange (8 / 2)) with [0; 1; 2; 3]. cbn [map]. unfold cpp_unpack_2bit.
    f_equal. unfold t_and, t_shr, t_map. cbn [shape data]. rewrite !map_map.
    assert (M : forall x, In x (data p) -> _) by (intros x Hx; exact (byte_kernels_2 x (Hp x Hx))).
    f_equal; [f_equal; apply map_ext_in; intros x Hx; destruct (M x Hx) as (E0 & E1 & E2 & E3); congruence|].
    f_equal; [f_equal; apply map_ext_in; intros x Hx; destruct (M x Hx) as (E0 & E1 & E2 & E3); congruence|].
    f_equal; [f_equal; apply map_ext_in; intros x Hx; destruct (M x Hx) as (E0 & E1 & E2 & E3); congruence|].
    f_equal. f_equal; apply map_ext_in; intros x Hx; destruct (M x Hx) as (E0 & E1 & E2 & E3); congruence.
  - change (4 =? 4) with true. cbv iota.
    change (zrange (8 / 4)) with [0; 1]. cbn [map]. unfold cpp_unpack_4bit.
    f_equal. unfold t_and, t_shr, t_map. cbn [shape data]. rewrite !map_map.
    assert (M : forall x, In x (data p) -> _) by (intros x Hx; exact (byte_kernels_4 x (Hp x Hx))).
    f_equal; [f_equal; apply map_ext_in; intros x Hx; destruct (M x Hx) as (E0 & E1); congruence|].
    f_equal. f_equal; apply map_ext_in; intros x Hx; destruct (M x Hx) as (E0 & E1); congruence.
Qed.

(* ---------- the packing loop, for arbitrary leading dimension and trailing shape ------------ *)
Section Pack.
Variables (dev : string) (bits : Z).
Hypothesis Hbits : bits = 2 \/ bits = 4.
Variables (Rn wn : nat) (ts : list Z) (Tl : list Z).
Hypothesis HR : (1 <= Rn)%nat.
Hypothesis Hts : Forall (fun d => 0 <= d) ts.
Hypothesis Hw : prodZ ts = Z.of_nat wn.
Hypothesis Hlen : length Tl = (Rn * wn)%nat.
Hypothesis Hval : Forall (fun x => 0 <= x < 2 ^ bits) Tl.

Local Notation t := (T (Z.of_nat Rn :: ts) Tl).
Local Notation vpi := (8 / bits).
Local Notation rd := ((Z.of_nat Rn + 8 / bits - 1) / (8 / bits)).
Local Notation rdn := (Z.to_nat ((Z.of_nat Rn + 8 / bits - 1) / (8 / bits))).
Local Notation Bn := (Z.to_nat ((Z.of_nat Rn + 8 / bits - 1) / (8 / bits)) * wn)%nat.

Lemma vpi_cases : (bits = 2 /\ vpi = 4) \/ (bits = 4 /\ vpi = 2).
Proof. destruct Hbits as [H|H]; rewrite H; [left|right]; split; reflexivity. Qed.

Lemma rd_facts : 1 <= rd /\ Z.of_nat Rn <= rd * vpi /\ (rd - 1) * vpi < Z.of_nat Rn /\ rd = Z.of_nat rdn.
Proof. destruct vpi_cases as [[_ Hv]|[_ Hv]]; rewrite Hv; lia. Qed.

Lemma Tl_nth_range j : 0 <= nth j Tl 0 < 2 ^ bits.
Proof.
  destruct (nth_In_or_default Tl j 0) as [H|H].
  - rewrite Forall_forall in Hval. apply Hval, H.
  - rewrite H. destruct Hbits as [Hb|Hb]; rewrite Hb; lia.
Qed.

Lemma Tl_nth_byte j : 0 <= nth j Tl 0 < 256.
Proof. pose proof (Tl_nth_range j) as H. destruct Hbits as [Hb|Hb]; rewrite Hb in H; lia. Qed.

Lemma pack_step_gen (r : nat) k :
  (1 <= r)%nat -> (k * r <= Rn)%nat -> 0 <= bits * Z.of_nat k < 8 ->
  pack_step dev t bits (Z.of_nat r) (T (Z.of_nat r :: ts) (pk bits (r * wn) Tl k)) (Z.of_nat k)
  = Ok (T (Z.of_nat r :: ts) (pk bits (r * wn) Tl (S k))).
Proof.
  intros Hr Hk Hbk.
  unfold pack_step. cbn [shape].
  change (py_index (Z.of_nat Rn :: ts) 0) with
    (if (0 <=? 0) && (0 <? Z.of_nat (S (length ts))) then
       match nth_error (Z.of_nat Rn :: ts) (Z.to_nat 0) with Some a => Ok a | None => Err "IndexError"%string end
     else Err "IndexError"%string).
  replace (0 <? Z.of_nat (S (length ts))) with true by bsolve. cbn [Z.leb Z.compare andb Z.to_nat nth_error bind].
  rewrite lshift_ok by exact Hbk. cbn [bind].
  (* number of rows handled by this iteration, as a nat *)
  set (nn := Nat.min r (Rn - k * r)).
  assert (He : Z.min (Z.of_nat k * Z.of_nat r + Z.of_nat r) (Z.of_nat Rn) - Z.of_nat k * Z.of_nat r
               = Z.of_nat nn) by (unfold nn; lia).
  set (e := Z.min (Z.of_nat k * Z.of_nat r + Z.of_nat r) (Z.of_nat Rn)) in *.
  assert (Hnn : (nn <= r)%nat /\ (k * r + nn <= Rn)%nat) by (unfold nn; lia).
  (* the slice of the source *)
  assert (Hsl : t_slice0 (t_to_u8 t) (Some (Z.of_nat k * Z.of_nat r)) (Some e) =
          T (Z.of_nat nn :: ts) (firstn (nn * wn) (skipn (k * r * wn) (map u8 Tl)))).
  { unfold t_slice0, slice_bounds, t_to_u8, t_map, dim0, stride0, tailshape, norm_idx. cbn [shape data hd tl].
    rewrite Hw.
    replace (Z.of_nat k * Z.of_nat r <? 0) with false by bsolve.
    replace (e <? 0) with false by (unfold e; bsolve).
    replace (Z.min (Z.of_nat k * Z.of_nat r) (Z.of_nat Rn)) with (Z.of_nat k * Z.of_nat r) by lia.
    replace (Z.min e (Z.of_nat Rn)) with e by (unfold e; lia).
    replace (Z.max 0 (e - Z.of_nat k * Z.of_nat r)) with (Z.of_nat nn) by lia.
    rewrite <- !Nat2Z.inj_mul, !Nat2Z.id. reflexivity. }
  rewrite Hsl. clear Hsl. rewrite He.
  unfold t_ior_slice0, slice_bounds, t_shl, t_map, dim0, stride0, tailshape, norm_idx. cbn [shape data hd tl].
  rewrite Hw.
  replace (Z.of_nat nn <? 0) with false by bsolve.
  replace (Z.max 0 (Z.min (Z.of_nat nn) (Z.of_nat r) - 0)) with (Z.of_nat nn) by lia.
  rewrite shape_eqb_refl. cbn [bind]. f_equal. f_equal.
  rewrite <- !Nat2Z.inj_mul, !Nat2Z.id.
  (* pointwise equality of the new payload *)
  set (B := (r * wn)%nat).
  assert (Hnw : (nn * wn <= B)%nat) by (unfold B; apply Nat.mul_le_mono_r; lia).
  assert (Hoff : (k * r * wn = k * B)%nat) by (unfold B; lia).
  assert (Hsrc : (k * B + nn * wn <= Rn * wn)%nat).
  { unfold B. replace (k * (r * wn) + nn * wn)%nat with ((k * r + nn) * wn)%nat by lia.
    apply Nat.mul_le_mono_r; lia. }
  set (X := map (fun x => u8_shl x (bits * Z.of_nat k)) (firstn (nn * wn) (skipn (k * r * wn) (map u8 Tl)))).
  assert (HlenU : length (map u8 Tl) = (Rn * wn)%nat) by (rewrite map_length; exact Hlen).
  assert (HXlen : length X = (nn * wn)%nat).
  { unfold X. rewrite map_length, firstn_length, skipn_length, HlenU. lia. }
  apply nth_ext with (d := 0) (d' := 0).
  - rewrite app_length, zip_with_length, firstn_length, skipn_length, !pk_length, HXlen. lia.
  - intros q Hq.
    rewrite app_length, zip_with_length, firstn_length, skipn_length, !pk_length, HXlen in Hq.
    assert (HqB : (q < B)%nat) by lia.
    unfold pk at 3. rewrite nth_map_seq by exact HqB. rewrite acc_val_S.
    destruct (Nat.lt_ge_cases q (nn * wn)) as [Hlt|Hge].
    + rewrite app_nth1 by (rewrite zip_with_length, firstn_length, pk_length, HXlen; lia).
      rewrite nth_zip_with with (da := 0) (db := 0)
        by (rewrite ?firstn_length, ?pk_length, ?HXlen; lia).
      rewrite nth_firstn by lia. unfold pk at 1. rewrite nth_map_seq by exact HqB.
      f_equal. unfold X.
      rewrite nth_map0 by apply u8_shl_0. rewrite nth_firstn by lia. rewrite nth_skipn.
      rewrite nth_map0 by reflexivity. rewrite Hoff. reflexivity.
    + rewrite app_nth2 by (rewrite zip_with_length, firstn_length, pk_length, HXlen; lia).
      rewrite zip_with_length, firstn_length, pk_length, HXlen.
      replace (Nat.min (Nat.min (nn * wn) B) (nn * wn)) with (nn * wn)%nat by lia.
      rewrite nth_skipn. replace (nn * wn + (q - nn * wn))%nat with q by lia.
      unfold pk at 1. rewrite nth_map_seq by exact HqB.
      (* the source position is beyond the tensor: contributes a zero *)
      rewrite (nth_overflow Tl).
      * change (u8 0) with 0. rewrite u8_shl_0, u8_or_0_r. reflexivity.
      * rewrite Hlen.
        (* nn < r here (otherwise q >= B), hence nn = Rn - k*r *)
        assert (Hlt : (nn < r)%nat).
        { destruct (Nat.lt_ge_cases nn r) as [H|H]; [exact H|].
          assert (r * wn <= nn * wn)%nat by (apply Nat.mul_le_mono_r; lia). unfold B in HqB. lia. }
        assert (Heq : (k * r + nn = Rn)%nat) by (unfold nn in *; lia).
        rewrite <- Heq. unfold B. lia.
Qed.

Lemma pack_step_ok k :
  (k * rdn <= Rn)%nat -> Z.of_nat k < vpi ->
  pack_step dev t bits rd (T (rd :: ts) (pk bits Bn Tl k)) (Z.of_nat k)
  = Ok (T (rd :: ts) (pk bits Bn Tl (S k))).
Proof.
  intros Hk Hkv. destruct rd_facts as (Hrd1 & Hrd2 & Hrd3 & Hrdn).
  assert (Hbk : 0 <= bits * Z.of_nat k < 8).
  { destruct vpi_cases as [[Hb Hv]|[Hb Hv]]; rewrite Hv in Hkv; rewrite Hb; lia. }
  pose proof (pack_step_gen rdn k ltac:(lia) Hk Hbk) as H. rewrite <- Hrdn in H. exact H.
Qed.

Lemma pack_loop_ok k :
  (Z.of_nat k <= Z.min vpi (Z.of_nat Rn / rd + 1)) ->
  mfold (pack_step dev t bits rd) (zrange (Z.of_nat k)) (T (rd :: ts) (pk bits Bn Tl 0))
  = Ok (T (rd :: ts) (pk bits Bn Tl k)).
Proof.
  destruct rd_facts as (Hrd1 & Hrd2 & Hrd3 & Hrdn).
  induction k as [|k IH]; intros Hk; [reflexivity|].
  rewrite zrange_nat, seq_S, map_app. cbn [map]. rewrite <- zrange_nat.
  erewrite mfold_snoc by (apply IH; lia).
  apply pack_step_ok; [|lia].
  assert (Z.of_nat k <= Z.of_nat Rn / rd) by lia.
  assert (Z.of_nat k * rd <= Z.of_nat Rn).
  { transitivity (Z.of_nat Rn / rd * rd); [apply Z.mul_le_mono_nonneg_r; lia|].
    rewrite Z.mul_comm. apply Z.mul_div_le. lia. }
  nia.
Qed.

(* iterations the loop skips (i >= it) would only have OR-ed zeros *)
Lemma acc_val_tail q k : (q < Bn)%nat -> (Z.min vpi (Z.of_nat Rn / rd + 1) <= Z.of_nat k) ->
  acc_val bits Bn Tl (S k) q = acc_val bits Bn Tl k q.
Proof.
  intros Hq Hk. destruct rd_facts as (Hrd1 & Hrd2 & Hrd3 & Hrdn).
  rewrite acc_val_S. rewrite (nth_overflow Tl).
  - change (u8 0) with 0. rewrite u8_shl_0. apply u8_or_0_r.
  - rewrite Hlen.
    assert (Hc : vpi <= Z.of_nat k \/ Z.of_nat Rn / rd + 1 <= Z.of_nat k) by lia.
    destruct Hc as [Hc|Hc].
    + assert (Z.of_nat Rn <= Z.of_nat k * rd) by nia. nia.
    + assert (Z.of_nat Rn < (Z.of_nat Rn / rd + 1) * rd).
      { pose proof (Z.mul_succ_div_gt (Z.of_nat Rn) rd ltac:(lia)). lia. }
      assert ((Z.of_nat Rn / rd + 1) * rd <= Z.of_nat k * rd) by (apply Z.mul_le_mono_nonneg_r; lia).
      nia.
Qed.

Lemma pk_tail k k' : (Z.min vpi (Z.of_nat Rn / rd + 1) <= Z.of_nat k) -> (k <= k')%nat ->
  pk bits Bn Tl k' = pk bits Bn Tl k.
Proof.
  intros Hk Hle. induction Hle as [|k' Hle IH]; [reflexivity|].
  rewrite <- IH. unfold pk. apply map_ext_in. intros q Hq. apply in_seq in Hq.
  apply acc_val_tail; lia.
Qed.

Definition packed_payload : tensor Z := T (rd :: ts) (pk bits Bn Tl (Z.to_nat vpi)).

Theorem pack_weights_ok : pack_weights dev t bits = Ok packed_payload.
Proof.
  destruct rd_facts as (Hrd1 & Hrd2 & Hrd3 & Hrdn).
  unfold pack_weights.
  assert (Hb0 : bits <> 0) by (destruct Hbits; lia).
  unfold guard_nz at 1. replace (bits =? 0) with false by bsolve. cbn [negb guard bind].
  cbn [shape].
  change (py_index (Z.of_nat Rn :: ts) 0) with
    (if (0 <=? 0) && (0 <? Z.of_nat (S (length ts))) then
       match nth_error (Z.of_nat Rn :: ts) (Z.to_nat 0) with Some a => Ok a | None => Err "IndexError"%string end
     else Err "IndexError"%string).
  replace (0 <? Z.of_nat (S (length ts))) with true by bsolve. cbn [Z.leb Z.compare andb Z.to_nat nth_error bind].
  assert (Hv0 : vpi <> 0) by (destruct vpi_cases as [[_ ->]|[_ ->]]; lia).
  unfold guard_nz at 1. replace (vpi =? 0) with false by bsolve. cbn [negb guard bind].

  assert (Hpsh : (if zlen (Z.of_nat Rn :: ts) =? 1 then Ok [rd]
                  else Ok ([rd] ++ py_slice (Z.of_nat Rn :: ts) (Some 1) None)) = Ok (rd :: ts)).
  { destruct ts as [|d ts'] eqn:Ets; [reflexivity|].
    replace (zlen (Z.of_nat Rn :: d :: ts') =? 1) with false by (unfold zlen; cbn [length]; bsolve).
    unfold py_slice, norm_idx, zlen. cbn [length].
    replace (1 <? 0) with false by bsolve.
    replace (Z.min 1 (Z.of_nat (S (S (length ts'))))) with 1 by lia.
    replace (Z.to_nat (Z.of_nat (S (S (length ts'))) - 1)) with (length (d :: ts')) by (cbn [length]; lia).
    change (Z.to_nat 1) with 1%nat. cbn [skipn app]. rewrite firstn_all. reflexivity. }
  rewrite Hpsh. cbn [bind].
  unfold t_zeros. rewrite forallb_nonneg by (constructor; [lia|exact Hts]). cbn [bind prodZ fold_right].
  fold (prodZ ts). rewrite Hw.
  unfold guard_nz. replace (rd =? 0) with false by bsolve. cbn [negb guard bind].
  replace (Z.to_nat (rd * Z.of_nat wn)) with Bn by nia.
  rewrite <- (pk_0 bits Bn Tl).
  set (it := Z.min vpi (Z.of_nat Rn / rd + 1)).
  assert (Hit : 0 <= it) by (unfold it; destruct vpi_cases as [[_ ->]|[_ ->]];
                             pose proof (Z.div_pos (Z.of_nat Rn) rd); lia).
  replace it with (Z.of_nat (Z.to_nat it)) by lia.
  rewrite pack_loop_ok by (fold it; lia). cbn [bind]. f_equal. unfold packed_payload. f_equal.
  symmetry. apply pk_tail; fold it; [lia|]. unfold it. lia.
Qed.

(* ---- density ---- *)
Theorem packed_rows_dense :
  shape packed_payload = ((Z.of_nat Rn * bits + 7) / 8) :: ts /\
  zlen (data packed_payload) = ((Z.of_nat Rn * bits + 7) / 8) * Z.of_nat wn.
Proof.
  destruct rd_facts as (Hrd1 & Hrd2 & Hrd3 & Hrdn).
  assert (E : rd = (Z.of_nat Rn * bits + 7) / 8).
  { destruct vpi_cases as [[Hb Hv]|[Hb Hv]]; rewrite Hv, Hb; lia. }
  unfold packed_payload. cbn [shape data]. split; [rewrite E; reflexivity|].
  unfold zlen. rewrite pk_length. rewrite <- E. nia.
Qed.

(* ---- every packed value is a byte, and its digits are the source values ---- *)
Lemma packed_digits q i : (q < Bn)%nat -> 0 <= i < vpi ->
  let x := acc_val bits Bn Tl (Z.to_nat vpi) q in
  digit bits i x = nth (Z.to_nat i * Bn + q) Tl 0 /\ 0 <= x < 256.
Proof.
  intros Hq Hi. cbv zeta.
  pose proof (Tl_nth_range (0 * Bn + q)) as R0. pose proof (Tl_nth_range (1 * Bn + q)) as R1.
  pose proof (Tl_nth_range (2 * Bn + q)) as R2. pose proof (Tl_nth_range (3 * Bn + q)) as R3.
  destruct vpi_cases as [[Hb Hv]|[Hb Hv]]; rewrite Hv in *; rewrite Hb in R0, R1, R2, R3 |- *.
  - change (Z.to_nat 4) with 4%nat. unfold acc_val. cbn [seq fold_left].
    pose proof (digits2 _ _ _ _ R0 R1 R2 R3) as D.
    cbv zeta in D. change (Z.of_nat 0) with 0 in *. change (Z.of_nat 1) with 1 in *.
    change (Z.of_nat 2) with 2 in *. change (Z.of_nat 3) with 3 in *.
    change (2 * 0) with 0. change (2 * 1) with 2. change (2 * 2) with 4. change (2 * 3) with 6.
    destruct D as (D0 & D1 & D2 & D3 & Dr).
    assert (Hc : i = 0 \/ i = 1 \/ i = 2 \/ i = 3) by lia.
    destruct Hc as [-> | [-> | [-> | ->]]]; split; assumption.
  - change (Z.to_nat 2) with 2%nat. unfold acc_val. cbn [seq fold_left].
    pose proof (digits4 _ _ R0 R1) as D.
    cbv zeta in D. change (Z.of_nat 0) with 0 in *. change (Z.of_nat 1) with 1 in *.
    change (4 * 0) with 0. change (4 * 1) with 4.
    destruct D as (D0 & D1 & Dr).
    assert (Hc : i = 0 \/ i = 1) by lia.
    destruct Hc as [-> | ->]; split; assumption.
Qed.


Lemma packed_bytes : bytes (data packed_payload).
Proof.
  unfold bytes, packed_payload, pk. cbn [data]. apply Forall_forall. intros x Hx.
  apply in_map_iff in Hx. destruct Hx as (q & <- & Hq). apply in_seq in Hq.
  assert (H0 : 0 <= 0 < vpi) by (destruct vpi_cases as [[_ Hv]|[_ Hv]]; rewrite Hv; lia).
  exact (proj2 (packed_digits q 0 ltac:(lia) H0)).
Qed.

Theorem unpack_py_roundtrip : packed_unpack (unpack_py dev) packed_payload bits (shape t) = Ok t.
Proof.
  destruct rd_facts as (Hrd1 & Hrd2 & Hrd3 & Hrdn).
  unfold packed_unpack. rewrite unpack_py_closed by exact Hbits.
  assert (Hvn : vpi = Z.of_nat (Z.to_nat vpi) /\ (1 <= Z.to_nat vpi)%nat)
    by (destruct vpi_cases as [[_ Hv]|[_ Hv]]; rewrite Hv; lia).
  destruct Hvn as [Hvn Hv1].
  set (parts := unpack_parts packed_payload bits).
  assert (Hplen : length parts = Z.to_nat vpi)
    by (unfold parts, unpack_parts; rewrite map_length, zrange_length; reflexivity).
  rewrite (t_cat0_uniform parts rd ts).
  2:{ intros E. rewrite E in Hplen. cbn [length] in Hplen. lia. }
  2:{ unfold parts, unpack_parts. apply Forall_forall. intros x Hx. apply in_map_iff in Hx.
      destruct Hx as (i & <- & _). reflexivity. }
  cbn [bind shape].
  change (py_index (Z.of_nat Rn :: ts) 0) with
    (if (0 <=? 0) && (0 <? Z.of_nat (S (length ts))) then
       match nth_error (Z.of_nat Rn :: ts) (Z.to_nat 0) with Some a => Ok a | None => Err "IndexError"%string end
     else Err "IndexError"%string).
  replace (0 <? Z.of_nat (S (length ts))) with true by bsolve. cbn [Z.leb Z.compare andb Z.to_nat nth_error bind].
  f_equal. unfold t_slice0, slice_bounds, t_to_u8, t_map, dim0, stride0, tailshape, norm_idx.
  cbn [shape data hd tl]. rewrite Hw, Hplen, <- Hvn.
  replace (Z.of_nat Rn <? 0) with false by bsolve.
  replace (Z.max 0 (Z.min (Z.of_nat Rn) (vpi * rd) - 0)) with (Z.of_nat Rn) by lia.
  f_equal. rewrite <- Nat2Z.inj_mul, Nat2Z.id. change (Z.to_nat (0 * Z.of_nat wn)) with 0%nat. cbn [skipn].
  set (blocks := map data parts).
  assert (Hblocks : Forall (fun l => length l = Bn) blocks).
  { unfold blocks, parts, unpack_parts. rewrite map_map. apply Forall_forall. intros l Hl.
    apply in_map_iff in Hl. destruct Hl as (i & <- & _).
    unfold t_shr, t_and, t_map. cbn [data]. rewrite !map_length. apply pk_length. }
  assert (Hcl : length (concat blocks) = (Z.to_nat vpi * Bn)%nat).
  { rewrite (concat_length_uniform _ _ Hblocks). unfold blocks. rewrite map_length, Hplen. reflexivity. }
  assert (Hcover : (Rn * wn <= Z.to_nat vpi * Bn)%nat).
  { replace (Z.to_nat vpi * Bn)%nat with ((Z.to_nat vpi * rdn) * wn)%nat by lia.
    apply Nat.mul_le_mono_r. nia. }
  apply nth_ext with (d := 0) (d' := 0).
  - rewrite firstn_length, map_length, Hcl, Hlen. lia.
  - intros j Hj. rewrite firstn_length, map_length, Hcl in Hj.
    assert (Hj' : (j < Rn * wn)%nat) by lia.
    rewrite nth_firstn by lia. rewrite nth_map0 by reflexivity.
    assert (HB : (0 < Bn)%nat) by (destruct Bn; [lia|lia]).
    rewrite (nth_concat_uniform blocks Bn j 0 Hblocks HB).
    assert (Hi : (j / Bn < Z.to_nat vpi)%nat) by (apply Nat.div_lt_upper_bound; lia).
    assert (Hq : (j mod Bn < Bn)%nat) by (apply Nat.mod_upper_bound; lia).
    unfold blocks, parts, unpack_parts. rewrite map_map.
    replace (zrange vpi) with (zrange (Z.of_nat (Z.to_nat vpi))) by (rewrite <- Hvn; reflexivity).
    rewrite zrange_nat, map_map.
    rewrite nth_map_seq by exact Hi.
    unfold t_shr, t_and, t_map, packed_payload, pk. cbn [data]. rewrite !map_map.
    rewrite nth_map_seq by exact Hq.
    pose proof (packed_digits (j mod Bn) (Z.of_nat (j / Bn)) Hq ltac:(lia)) as [D _].
    unfold digit in D. rewrite D. rewrite Nat2Z.id.
    replace (j / Bn * Bn + j mod Bn)%nat with j by (rewrite (Nat.div_mod j Bn) at 1; lia).
    apply u8_small, Tl_nth_byte.
Qed.

Theorem unpack_cpp_roundtrip : packed_unpack unpack_cpp packed_payload bits (shape t) = Ok t.
Proof.
  unfold packed_unpack. rewrite (kernels_agree dev) by (exact Hbits || exact packed_bytes).
  exact unpack_py_roundtrip.
Qed.

End Pack.

(* ---------- top-level statements over arbitrary well-formed tensors -------------------------- *)
Definition fits (bits : Z) (t : tensor Z) : Prop := Forall (fun x => 0 <= x < 2 ^ bits) (data t).

Lemma wf_decompose (t : tensor Z) : wf t -> 1 <= dim0 t ->
  exists Rn wn ts, t = T (Z.of_nat Rn :: ts) (data t) /\ (1 <= Rn)%nat /\
     Forall (fun d => 0 <= d) ts /\ prodZ ts = Z.of_nat wn /\ length (data t) = (Rn * wn)%nat.
Proof.
  intros (Hne & Hnn & Hl) H1. destruct t as [sh d]. cbn [shape data] in *.
  destruct sh as [|R ts]; [congruence|]. unfold dim0 in H1. cbn [shape hd] in H1.
  inversion Hnn as [|? ? HR Hts]; subst.
  exists (Z.to_nat R), (Z.to_nat (prodZ ts)), ts.
  pose proof (prodZ_nonneg ts Hts) as Hp.
  repeat split; try assumption; try lia.
  - f_equal. f_equal. lia.
  - unfold numel, zlen in Hl. cbn [shape prodZ fold_right] in Hl. fold (prodZ ts) in Hl. nia.
Qed.

Theorem pack_roundtrip_all dev bits (t : tensor Z) :
  bits = 2 \/ bits = 4 -> wf t -> 1 <= dim0 t -> fits bits t ->
  exists p, pack_weights dev t bits = Ok p
    /\ shape p = ((dim0 t * bits + 7) / 8) :: tailshape t
    /\ zlen (data p) = ((dim0 t * bits + 7) / 8) * stride0 t
    /\ bytes (data p)
    /\ packed_unpack (unpack_py dev) p bits (shape t) = Ok t
    /\ packed_unpack unpack_cpp p bits (shape t) = Ok t.
Proof.
  intros Hb Hwf H1 Hfit.
  destruct (wf_decompose t Hwf H1) as (Rn & wn & ts & Et & HR & Hts & Hw & Hlen).
  unfold fits in Hfit. set (Tl := data t) in *. rewrite Et.
  exists (packed_payload bits Rn wn ts Tl).
  unfold dim0, tailshape, stride0. cbn [shape hd tl]. rewrite Hw.
  pose proof (packed_rows_dense bits Hb Rn wn ts Tl HR Hlen) as [D1 D2].
  split; [apply pack_weights_ok; assumption|].
  split; [exact D1|]. split; [exact D2|].
  split; [apply packed_bytes; assumption|].
  split; [apply unpack_py_roundtrip; assumption | apply (unpack_cpp_roundtrip dev); assumption].
Qed.

(* ---------- routing and dispatch --------------------------------------------------------------- *)
Theorem routes_agree dev en ext (p : tensor Z) bits :
  bits = 2 \/ bits = 4 -> bytes (data p) -> ext = None \/ ext = Some unpack_cpp ->
  quanto_unpack en ext (unpack_py dev) p bits = unpack_py dev p bits.
Proof.
  intros Hb Hp [->| ->]; unfold quanto_unpack; destruct en; try reflexivity.
  rewrite (kernels_agree dev p bits Hb Hp). destruct (unpack_py dev p bits); reflexivity.
Qed.

(* every op on a packed tensor acts on its unpacked value; the only refusal is a dtype change *)
Theorem dispatch_acts_on_unpacked kernel op p u :
  packed_unpack kernel (p_data p) (p_bits p) (p_size p) = Ok u ->
  match op with
  | Detach | Clone | ToCopy true => (r <- p_dispatch kernel op p ;; pres_value kernel r) = Ok u
  | ToCopy false => p_dispatch kernel op p = Err "ValueError"%string
  | Other f => (r <- p_dispatch kernel op p ;; pres_value kernel r) = f u
  end.
Proof.
  intros H. destruct op as [| |[|]|f]; cbn [p_dispatch bind pres_value]; try assumption; try reflexivity.
  rewrite H. cbn [bind]. destruct (f u); reflexivity.
Qed.
