(* C02 / C16 for the int2 / int4 affine quantizer at the level of IEEE arithmetic (Flocq), generic
   working format with prec >= 8, emax >= 9 (float32, float16, bfloat16).
   Element level: code = uint8(clamp(rint(nan_to_num(x / s)) + zp, 0, L)), value = s * int8(int8 c - int8 zp).
   For every finite x within 2^(prec-2) steps of zero, every finite positive scale and every integer
   zero-point of [0, L] (L <= 127):
   - the code is an integer c of [0, L] stored exactly (neither the uint8 cast of the code nor the int8
     casts of the dequantizer wrap),
   - the dequantized value is finite,
   - it is, up to an explicit rounding slack, a closest point of the affine grid { s * (v - zp) : 0 <= v <= L };
     hence within half a step (+ slack) of x whenever x lies inside the span of the grid, and saturated to
     the nearer end otherwise.
   With a zero scale and the null zero-point the optimizer pairs with it, the dequantized value is exactly 0. *)
From Coq Require Import ZArith Reals Lra Lia List Bool Psatz.
From Flocq Require Import Core Relative IEEE754.BinarySingleNaN.
From QV Require Import Lib.Res Lib.Tensor Lib.ND Lib.Num Lib.QTensor Float.F Model.Quant
     Proofs.QuantProofs Proofs.RealNum Proofs.FloatFacts Proofs.C01Float Proofs.AffineReal Proofs.AffineProofs.
Local Open Scope R_scope.

Section AffF.
Variables prec emax : Z.
Context (Hp : Prec_gt_0 prec) (Hpe : Prec_lt_emax prec emax).
Hypothesis Hprec8 : (8 <= prec)%Z.
Hypothesis Hemax9 : (9 <= emax)%Z.

Notation fl := (binary_float prec emax).
Notation femin := (SpecFloat.emin prec emax).
Notation fexp := (SpecFloat.fexp prec emax).
Notation rnd := (round radix2 fexp ZnearestE).
Notation B2R := (@B2R prec emax).
Notation u := (uro prec).
Notation eta := (eta prec emax).
Notation FMAX := (Fmax prec emax).
Notation ofZ := (fof_Z prec emax Hp Hpe).
Existing Instance NumFl.
Existing Instance fexp_valid.

(* integers below 2^prec are floats *)
Lemma int_format (k : Z) : (Z.abs k < 2 ^ prec)%Z -> generic_format radix2 fexp (IZR k).
Proof.
  intros Hk. change fexp with (FLT_exp femin prec). apply generic_format_FLT. exists (Float radix2 k 0).
  - unfold F2R. simpl. ring.
  - exact Hk.
  - cbn [Fexp]. unfold SpecFloat.emin. unfold Prec_gt_0 in Hp. lia.
Qed.

Lemma pow_prec_lt_emax : IZR (2 ^ prec) < bpow radix2 emax.
Proof.
  change 2%Z with (radix_val radix2). unfold Prec_gt_0 in Hp. rewrite IZR_Zpower by lia.
  apply bpow_lt. unfold Prec_lt_emax in Hpe. exact Hpe.
Qed.

Lemma uint8_cast_exact (x : fl) (k : Z) : is_finite x = true -> B2R x = IZR k -> (0 <= k <= 255)%Z ->
  cast_wrap prec emax Hp Hpe false x = ofZ k.
Proof.
  intros Fx Hx Hk. unfold cast_wrap. rewrite (to_Z_exact prec emax x k Fx Hx).
  replace (2147483648 <=? Z.abs k)%Z with false by (symmetry; apply Z.leb_gt; lia).
  rewrite Z.mod_small by lia. reflexivity.
Qed.

Lemma int8_cast_id (k : Z) : (-128 <= k <= 127)%Z -> cast_wrap prec emax Hp Hpe true (ofZ k) = ofZ k.
Proof.
  intros Hk. destruct (fof_Z_exact prec emax Hp Hpe Hprec8 Hemax9 k ltac:(lia)) as [Hv Hf].
  exact (proj1 (cast_int8_exact prec emax Hp Hpe (ofZ k) k Hf Hv Hk)).
Qed.

(* exact sums and differences of float integers *)
Lemma plus_int_exact (a b : fl) (ka kb : Z) :
  is_finite a = true -> is_finite b = true -> B2R a = IZR ka -> B2R b = IZR kb -> (Z.abs (ka + kb) < 2 ^ prec)%Z ->
  is_finite (Bplus mode_NE a b) = true /\ B2R (Bplus mode_NE a b) = IZR (ka + kb).
Proof.
  intros Fa Fb Ha Hb Hk.
  pose proof (Bplus_correct prec emax Hp Hpe mode_NE a b Fa Fb) as H. cbn [round_mode] in H.
  rewrite Ha, Hb, <- plus_IZR in H.
  rewrite (round_generic radix2 fexp ZnearestE _ (int_format _ Hk)) in H.
  rewrite Rlt_bool_true in H.
  - destruct H as (H1 & H2 & _). split; assumption.
  - rewrite <- abs_IZR. eapply Rlt_trans; [apply IZR_lt; exact Hk | exact pow_prec_lt_emax].
Qed.

Lemma minus_int_exact (a b : fl) (ka kb : Z) :
  is_finite a = true -> is_finite b = true -> B2R a = IZR ka -> B2R b = IZR kb -> (Z.abs (ka - kb) < 2 ^ prec)%Z ->
  is_finite (Bminus mode_NE a b) = true /\ B2R (Bminus mode_NE a b) = IZR (ka - kb).
Proof.
  intros Fa Fb Ha Hb Hk.
  pose proof (Bminus_correct prec emax Hp Hpe mode_NE a b Fa Fb) as H. cbn [round_mode] in H.
  rewrite Ha, Hb, <- minus_IZR in H.
  rewrite (round_generic radix2 fexp ZnearestE _ (int_format _ Hk)) in H.
  rewrite Rlt_bool_true in H.
  - destruct H as (H1 & H2 & _). split; assumption.
  - rewrite <- abs_IZR. eapply Rlt_trans; [apply IZR_lt; exact Hk | exact pow_prec_lt_emax].
Qed.

Lemma pow_prec_ge_256 : (256 <= 2 ^ prec)%Z.
Proof. change 256%Z with (2 ^ 8)%Z. apply Z.pow_le_mono_r; lia. Qed.

Lemma pow_prec_split : (2 ^ prec = 4 * 2 ^ (prec - 2))%Z.
Proof. replace prec with (2 + (prec - 2))%Z at 1 by lia. rewrite Z.pow_add_r by lia. reflexivity. Qed.

(* the element-level functions at this format *)
Definition acode (bits : Z) (x s zp : fl) : fl := affq bits x s zp.
Definition adeq (s c zp : fl) : fl := affdq s c zp.

Lemma acode_unfold bits x s zp :
  acode bits x s zp = cast_wrap prec emax Hp Hpe false
    (fmin prec emax (fmax prec emax
        (Bplus mode_NE (Bnearbyint mode_NE (nan_to_num prec emax Hp Hpe (Bdiv mode_NE x s))) zp) (ofZ 0))
      (ofZ (2 ^ bits - 1))).
Proof. reflexivity. Qed.

Lemma adeq_unfold s c zp :
  adeq s c zp = Bmult mode_NE s (cast_wrap prec emax Hp Hpe true
                   (Bminus mode_NE (cast_wrap prec emax Hp Hpe true c) (cast_wrap prec emax Hp Hpe true zp))).
Proof. reflexivity. Qed.

(* dequantization of an in-range code against an in-range zero-point: one rounded product *)
Lemma adeq_value (s : fl) (c zi L : Z) :
  is_finite s = true -> 0 <= B2R s -> (0 <= c <= L)%Z -> (0 <= zi <= L)%Z -> (L <= 127)%Z ->
  IZR L * B2R s <= FMAX ->
  is_finite (adeq s (ofZ c) (ofZ zi)) = true /\ B2R (adeq s (ofZ c) (ofZ zi)) = rnd (B2R s * IZR (c - zi)).
Proof.
  intros Fs Sp Hc Hz HL Hgrid. rewrite adeq_unfold, !int8_cast_id by lia.
  destruct (fof_Z_exact prec emax Hp Hpe Hprec8 Hemax9 c ltac:(lia)) as [Hcv Hcf].
  destruct (fof_Z_exact prec emax Hp Hpe Hprec8 Hemax9 zi ltac:(lia)) as [Hzv Hzf].
  pose proof pow_prec_ge_256 as H256.
  destruct (minus_int_exact _ _ c zi Hcf Hzf Hcv Hzv ltac:(lia)) as [Fd Vd].
  assert (Ed : cast_wrap prec emax Hp Hpe true (Bminus mode_NE (ofZ c) (ofZ zi)) = ofZ (c - zi)).
  { exact (proj1 (cast_int8_exact prec emax Hp Hpe _ (c - zi) Fd Vd ltac:(lia))). }
  rewrite Ed.
  destruct (fof_Z_exact prec emax Hp Hpe Hprec8 Hemax9 (c - zi) ltac:(lia)) as [Hdv Hdf].
  pose proof (Bmult_correct prec emax Hp Hpe mode_NE s (ofZ (c - zi))) as HM. cbn [round_mode] in HM.
  rewrite Hdv in HM.
  assert (Hsz : Rabs (B2R s * IZR (c - zi)) <= FMAX).
  { rewrite Rabs_mult, (Rabs_pos_eq (B2R s)) by lra.
    assert (Rabs (IZR (c - zi)) <= IZR L) by (rewrite <- abs_IZR; apply IZR_le; lia).
    apply Rle_trans with (B2R s * IZR L); [apply Rmult_le_compat_l; lra | lra]. }
  rewrite Rlt_bool_true in HM by (apply (rnd_no_overflow prec emax Hp Hemax9); exact Hsz).
  destruct HM as (HMv & HMf & _). rewrite Fs, Hdf in HMf. split; assumption.
Qed.

Theorem affine_nearest_float (bits : Z) (x s : fl) (zi : Z) :
  let L := (2 ^ bits - 1)%Z in
  (1 <= bits <= 7)%Z -> (0 <= zi <= L)%Z ->
  is_finite x = true -> is_finite s = true -> 0 < B2R s ->
  Rabs (B2R x) <= IZR (2 ^ (prec - 2)) * B2R s -> IZR L * B2R s <= FMAX ->
  exists c : Z, (0 <= c <= L)%Z /\ acode bits x s (ofZ zi) = ofZ c /\
    is_finite (adeq s (ofZ c) (ofZ zi)) = true /\
    forall v : Z, (0 <= v <= L)%Z ->
      Rabs (B2R (adeq s (ofZ c) (ofZ zi)) - B2R x) <=
      Rabs (B2R s * IZR (v - zi) - B2R x)
      + (2 * (u * Rabs (B2R x) + B2R s * eta) + (u * Rabs (B2R s * IZR (c - zi)) + eta)).
Proof.
  intros L Hbits Hzi Fx Fs Sp Hx Hgrid. set (X := B2R x) in *. set (S := B2R s) in *. set (Y := X / S).
  assert (HL : (1 <= L <= 127)%Z).
  { unfold L. assert (2 ^ 1 <= 2 ^ bits)%Z by (apply Z.pow_le_mono_r; lia).
    assert (2 ^ bits <= 2 ^ 7)%Z by (apply Z.pow_le_mono_r; lia). simpl in *. lia. }
  pose proof (uro_pos prec) as Hu. pose proof (eta_pos prec emax) as He.
  pose proof pow_prec_ge_256 as H256. pose proof pow_prec_split as Hsplit.
  assert (SP : 0 < S) by exact Sp.
  set (B := (2 ^ (prec - 2))%Z) in *.
  assert (HB : (64 <= B)%Z) by (unfold B; change 64%Z with (2 ^ 6)%Z; apply Z.pow_le_mono_r; lia).
  (* the quotient: no overflow *)
  assert (HY : Rabs Y <= IZR B).
  { unfold Y, Rdiv. rewrite Rabs_mult, Rabs_inv, (Rabs_pos_eq S) by lra.
    apply Rmult_le_reg_r with S; [lra|]. rewrite Rmult_assoc, Rinv_l by lra. lra. }
  assert (GB : generic_format radix2 fexp (IZR B)) by (apply int_format; lia).
  assert (HrY : Rabs (rnd Y) <= IZR B) by exact (abs_round_le_generic radix2 fexp ZnearestE Y (IZR B) GB HY).
  pose proof (Bdiv_correct prec emax Hp Hpe mode_NE x s ltac:(fold S; lra)) as HD.
  cbn [round_mode] in HD. fold X S Y in HD.
  rewrite Rlt_bool_true in HD.
  2:{ eapply Rle_lt_trans; [exact HrY|]. eapply Rlt_trans; [|exact pow_prec_lt_emax]. apply IZR_lt. lia. }
  destruct HD as (HQ & FQ & _). rewrite Fx in FQ.
  assert (Eq : nan_to_num prec emax Hp Hpe (Bdiv mode_NE x s) = Bdiv mode_NE x s).
  { destruct (Bdiv mode_NE x s); try discriminate FQ; reflexivity. }
  rewrite acode_unfold, Eq. set (q := Bdiv mode_NE x s) in *.
  pose proof (Bnearbyint_correct prec emax Hpe mode_NE q) as (HR & FR & _).
  cbn [round_mode] in HR. rewrite round_FIX_IZR in HR. rewrite FQ in FR. rewrite HQ in HR.
  set (n := ZnearestE (rnd Y)) in *.
  assert (Hn : (- B <= n <= B)%Z).
  { apply Znearest_bounds. rewrite opp_IZR. apply Rabs_le_inv. exact HrY. }
  destruct (fof_Z_exact prec emax Hp Hpe Hprec8 Hemax9 zi ltac:(lia)) as [Hzv Hzf].
  destruct (fof_Z_exact prec emax Hp Hpe Hprec8 Hemax9 0 ltac:(lia)) as [H0v H0f].
  destruct (fof_Z_exact prec emax Hp Hpe Hprec8 Hemax9 L ltac:(lia)) as [HLv HLf].
  destruct (plus_int_exact _ _ n zi FR Hzf HR Hzv ltac:(lia)) as [Ft Vt].
  destruct (fmax_finite prec emax _ _ Ft H0f) as [HM1 FM1].
  destruct (fmin_finite prec emax _ _ FM1 HLf) as [HM2 FM2].
  rewrite HM1, Vt, H0v, HLv in HM2. rewrite clamp_IZR in HM2.
  set (c := clampZ 0 L (n + zi)) in *.
  assert (Hc : (0 <= c <= L)%Z) by (unfold c, clampZ; lia).
  exists c. split; [exact Hc|]. split.
  { fold L. exact (uint8_cast_exact _ c FM2 HM2 ltac:(lia)). }
  destruct (adeq_value s c zi L Fs ltac:(fold S; lra) Hc Hzi ltac:(lia) Hgrid) as [FD VD].
  split; [exact FD|]. intros v Hv. rewrite VD. fold S.
  (* c - zi is the clamp of n to the shifted range, nearest to rnd Y among the shifted codes *)
  assert (Ecz : (c - zi = clampZ (- zi) (L - zi) n)%Z) by (unfold c, clampZ; lia).
  pose proof (clamp_nearest (- zi) (L - zi) (rnd Y) (v - zi) ltac:(lia) ltac:(lia)) as Hnear.
  fold n in Hnear. rewrite <- Ecz in Hnear.
  pose proof (rnd_err prec emax Hp Y) as Herr.
  pose proof (rnd_err prec emax Hp (S * IZR (c - zi))) as Hperr.
  assert (H1 : Rabs (IZR (c - zi) - Y) <= Rabs (IZR (v - zi) - Y) + 2 * Rabs (rnd Y - Y)).
  { replace (IZR (c - zi) - Y) with ((IZR (c - zi) - rnd Y) + (rnd Y - Y)) by ring.
    eapply Rle_trans; [apply Rabs_triang|].
    assert (Rabs (IZR (v - zi) - rnd Y) <= Rabs (IZR (v - zi) - Y) + Rabs (rnd Y - Y)).
    { replace (IZR (v - zi) - rnd Y) with ((IZR (v - zi) - Y) + - (rnd Y - Y)) by ring.
      eapply Rle_trans; [apply Rabs_triang|]. rewrite Rabs_Ropp. lra. }
    lra. }
  assert (HYa : Rabs Y = Rabs X / S).
  { unfold Y. unfold Rdiv. rewrite Rabs_mult, Rabs_inv. rewrite (Rabs_pos_eq S) by lra. reflexivity. }
  assert (H2 : S * Rabs (rnd Y - Y) <= u * Rabs X + S * eta).
  { rewrite HYa in Herr.
    apply Rle_trans with (S * (u * (Rabs X / S) + eta)); [apply Rmult_le_compat_l; lra|].
    right. field. lra. }
  assert (HS1 : forall a : R, S * a - X = S * (a - Y)) by (intros a; unfold Y; field; lra).
  assert (Hmain : Rabs (S * IZR (c - zi) - X) <= Rabs (S * IZR (v - zi) - X) + 2 * (u * Rabs X + S * eta)).
  { rewrite !HS1, !Rabs_mult, (Rabs_pos_eq S) by lra. nra. }
  replace (rnd (S * IZR (c - zi)) - X) with ((rnd (S * IZR (c - zi)) - S * IZR (c - zi)) + (S * IZR (c - zi) - X)) by ring.
  eapply Rle_trans; [apply Rabs_triang|]. lra.
Qed.

(* inside the span of the grid: half a step, plus the same slack *)
Corollary affine_half_step_float (bits : Z) (x s : fl) (zi : Z) :
  let L := (2 ^ bits - 1)%Z in
  (1 <= bits <= 7)%Z -> (0 <= zi <= L)%Z ->
  is_finite x = true -> is_finite s = true -> 0 < B2R s ->
  Rabs (B2R x) <= IZR (2 ^ (prec - 2)) * B2R s -> IZR L * B2R s <= FMAX ->
  B2R s * IZR (0 - zi) <= B2R x <= B2R s * IZR (L - zi) ->
  exists c : Z, (0 <= c <= L)%Z /\ acode bits x s (ofZ zi) = ofZ c /\
    is_finite (adeq s (ofZ c) (ofZ zi)) = true /\
    Rabs (B2R (adeq s (ofZ c) (ofZ zi)) - B2R x) <=
      B2R s / 2 + (2 * (u * Rabs (B2R x) + B2R s * eta) + (u * Rabs (B2R s * IZR (c - zi)) + eta)).
Proof.
  intros L Hbits Hzi Fx Fs Sp Hx Hgrid Hspan.
  destruct (affine_nearest_float bits x s zi Hbits Hzi Fx Fs Sp Hx Hgrid) as (c & Hc & Ec & Fd & Hnear).
  exists c. split; [exact Hc|]. split; [exact Ec|]. split; [exact Fd|].
  set (X := B2R x) in *. set (S := B2R s) in *. set (Y := X / S).
  assert (SP : 0 < S) by exact Sp. fold L in Hspan, Hnear.
  set (v := ZnearestE (Y + IZR zi)).
  assert (HYz : IZR 0 <= Y + IZR zi <= IZR L).
  { rewrite !minus_IZR in Hspan. unfold Y. split.
    - apply Rmult_le_reg_l with S; [lra|]. replace (S * (X / S + IZR zi)) with (X + S * IZR zi) by (field; lra). simpl in *. lra.
    - apply Rmult_le_reg_l with S; [lra|]. replace (S * (X / S + IZR zi)) with (X + S * IZR zi) by (field; lra). lra. }
  assert (Hv : (0 <= v <= L)%Z) by (apply Znearest_bounds; exact HYz).
  pose proof (Znearest_half (fun z => negb (Z.even z)) (Y + IZR zi)) as Hh. fold ZnearestE in Hh. fold v in Hh.
  specialize (Hnear v Hv).
  assert (Hs : Rabs (S * IZR (v - zi) - X) <= S / 2).
  { replace (S * IZR (v - zi) - X) with (S * (IZR v - (Y + IZR zi))) by (rewrite minus_IZR; unfold Y; field; lra).
    rewrite Rabs_mult, (Rabs_pos_eq S) by lra. rewrite Rabs_minus_sym in Hh. nra. }
  lra.
Qed.

(* a zero scale (constant group: hi = lo = 0, or a range underflowing to zero) with the null zero-point
   that the optimizer pairs with it: whatever the element, the code is in range and the value is 0 *)
Theorem affine_zero_scale_finite (bits : Z) (x : fl) (ss : bool) :
  let L := (2 ^ bits - 1)%Z in
  (1 <= bits <= 7)%Z -> is_finite x = true ->
  exists c : Z, (0 <= c <= L)%Z /\ acode bits x (B754_zero ss) (ofZ 0) = ofZ c /\
    is_finite (adeq (B754_zero ss) (ofZ c) (ofZ 0)) = true /\ B2R (adeq (B754_zero ss) (ofZ c) (ofZ 0)) = 0.
Proof.
  intros L Hbits Fx.
  assert (HL : (1 <= L <= 127)%Z).
  { unfold L. assert (2 ^ 1 <= 2 ^ bits)%Z by (apply Z.pow_le_mono_r; lia).
    assert (2 ^ bits <= 2 ^ 7)%Z by (apply Z.pow_le_mono_r; lia). simpl in *. lia. }
  rewrite acode_unfold.
  set (q := nan_to_num prec emax Hp Hpe (Bdiv mode_NE x (B754_zero ss))).
  assert (FQ : is_finite q = true).
  { destruct (fmaxfloat_value prec emax Hp Hpe Hprec8) as [_ HMf]. unfold q.
    destruct x as [sx| | |sx mx ex Hx]; try discriminate Fx; cbn [Bdiv nan_to_num];
      try reflexivity; destruct (xorb sx ss); rewrite ?is_finite_Bopp; exact HMf. }
  pose proof (Bnearbyint_correct prec emax Hpe mode_NE q) as (HR & FR & _).
  cbn [round_mode] in HR. rewrite round_FIX_IZR in HR. rewrite FQ in FR.
  set (n := ZnearestE (B2R q)) in *. set (r := Bnearbyint mode_NE q) in *.
  destruct (fof_Z_exact prec emax Hp Hpe Hprec8 Hemax9 0 ltac:(lia)) as [H0v H0f].
  destruct (fof_Z_exact prec emax Hp Hpe Hprec8 Hemax9 L ltac:(lia)) as [HLv HLf].
  (* r + 0 = r exactly: r is a float *)
  assert (Ht : is_finite (Bplus mode_NE r (ofZ 0)) = true /\ B2R (Bplus mode_NE r (ofZ 0)) = IZR n).
  { pose proof (Bplus_correct prec emax Hp Hpe mode_NE r (ofZ 0) FR H0f) as H. cbn [round_mode] in H.
    rewrite H0v, Rplus_0_r in H.
    rewrite (round_generic radix2 fexp ZnearestE _ (generic_format_B2R prec emax r)) in H.
    rewrite Rlt_bool_true in H.
    - destruct H as (H1 & H2 & _). rewrite HR in H1. split; assumption.
    - pose proof (abs_B2R_lt_emax prec emax r). lra. }
  destruct Ht as [Ft Vt].
  destruct (fmax_finite prec emax _ _ Ft H0f) as [HM1 FM1].
  destruct (fmin_finite prec emax _ _ FM1 HLf) as [HM2 FM2].
  rewrite HM1, Vt, H0v, HLv in HM2. rewrite clamp_IZR in HM2.
  set (c := clampZ 0 L n) in *.
  assert (Hc : (0 <= c <= L)%Z) by (unfold c, clampZ; lia).
  exists c. split; [exact Hc|]. split.
  { fold L. exact (uint8_cast_exact _ c FM2 HM2 ltac:(lia)). }
  pose proof (Fmax_ge_256 prec emax Hp Hprec8 Hemax9) as HF.
  destruct (adeq_value (B754_zero ss) c 0 L eq_refl ltac:(simpl; lra) Hc ltac:(lia) ltac:(lia) ltac:(simpl; lra)) as [FD VD].
  split; [exact FD|]. rewrite VD. cbn [BinarySingleNaN.B2R]. rewrite Rmult_0_l. apply round_0, valid_rnd_N.
Qed.

End AffF.
