(* Dispatch tables and implementation fingerprints of the revision of /repo that Model/QOps.v models
   (tools_snapshot_ops.py). TieOps proves the current source still yields exactly these. *)
From Coq Require Import String List.
Import ListNotations.
Open Scope string_scope.

Definition table_qbytes : list (string * list string) := [
  ("_to_copy", ["aten._to_copy"; "aten.to"]);
  ("detach", ["aten.detach"]);
  ("cat", ["aten.cat"]);
  ("lt", ["aten.lt"]);
  ("clone", ["aten.clone"]);
  ("copy_", ["aten.copy_"]);
  ("div", ["aten.div"]);
  ("neg", ["aten.neg"]);
  ("unary_type_agnostic_op", ["aten.expand"; "aten.permute"; "aten.select"; "aten.slice"; "aten.unsqueeze"]);
  ("is_same_size", ["aten.is_same_size"]);
  ("bmm", ["aten.bmm"]);
  ("mm", ["aten.mm"]);
  ("mul", ["aten.mul"]);
  ("relu", ["aten.relu"]);
  ("_softmax", ["aten._softmax"]);
  ("stack", ["aten.stack"]);
  ("split", ["aten.split"]);
  ("transpose", ["aten.transpose"]);
  ("transpose2d", ["aten.t"]);
  ("view", ["aten.view"; "aten._unsafe_view"]);
  ("where", ["aten.where"])].
Definition prints_qbytes : list (string * string) := [
  ("_to_copy", "b89f7ca4f44ee20f");
  ("detach", "7f8b98d387cf938f");
  ("cat", "acd84946b19af98e");
  ("lt", "c180b3132d99efa1");
  ("clone", "daf41721d947ef2b");
  ("copy_", "43362cef66d5aaae");
  ("div", "0bdf26a6e6688a10");
  ("neg", "585b1d0d028cb836");
  ("unary_type_agnostic_op", "6bd3d9bb5084f4c7");
  ("is_same_size", "b2a65785ea376499");
  ("bmm", "3eb1ab1fb152c011");
  ("mm", "741cc344d331c8a4");
  ("mul", "2bcab47bd5d1f5b8");
  ("relu", "32a34786ae90cbcc");
  ("_softmax", "b4f288ec4e3c7392");
  ("stack", "a02c147d5d69c4bc");
  ("split", "67e08262bb8a653b");
  ("transpose", "aaef295201acbc2d");
  ("transpose2d", "0cb56dc20f1ca414");
  ("view", "cf43f92df5d9b259");
  ("where", "1f44eac3967e2148")].
Definition table_qbits : list (string * list string) := [
  ("_to_copy", ["aten._to_copy"]);
  ("detach", ["aten.detach"]);
  ("clone", ["aten.clone"])].
Definition prints_qbits : list (string * string) := [
  ("_to_copy", "153b68222b359528");
  ("detach", "6f7fdd8616310d8e");
  ("clone", "7077e8dff4171599")].
Definition table_funcs : list (string * list string) := [
  ("has_compatible_shallow_copy_type", ["torch._has_compatible_shallow_copy_type"]);
  ("unsupported_op", ["torch.nn.functional.cross_entropy"; "torch.nn.functional.cosine_similarity"; "torch.nn.functional.layer_norm"; "torch.nn.functional.log_softmax"; "torch.topk"]);
  ("linear", ["torch.nn.functional.linear"])].
Definition prints_funcs : list (string * string) := [
  ("has_compatible_shallow_copy_type", "308214b2ce7f8998");
  ("unsupported_op", "e59abe0ceaa26636");
  ("linear", "047e6587fc053914")].
Definition prints_entry : list (string * string) := [
  ("qfallback", "364b088b5afb7007");
  ("QTensor.__torch_function__", "2c789a75d2ea298c");
  ("QBytesTensor.__torch_dispatch__", "62357cc1616caf06");
  ("QBytesTensor.__new__", "3e61b5a8c6f94925");
  ("QBytesTensor.__init__", "e098f7b86d37d834");
  ("QBitsTensor.__torch_dispatch__", "131eef9c34b0f360");
  ("QBitsTensor.__new__", "3a2e448eebb2daae");
  ("QBitsTensor.__init__", "7b4dda2ed8e232ae");
  ("QBitsTensor.create", "04c4821ab7946e55");
  ("PackedTensor.__torch_dispatch__", "3c039bf2d56d3ad1");
  ("is_scalar", "0690f6be33a45ada");
  ("cannot_mm", "42260f0827e21e86")].
