(* Key-level model of the flattening of quantized tensors into a state_dict and of the loaders
   (tensor/qtensor.py save_to_state_dict, qbytes.py / qbits.py / packed.py load_from_state_dict and
   __tensor_flatten__ / __tensor_unflatten__). *)
From Coq Require Import String Ascii List ZArith Bool.
From QV Require Import Model.Codec.
Import ListNotations.
Open Scope string_scope.

(* a state_dict value: a plain tensor (identified) or a string *)
Inductive leaf := LT (id : nat) | LS (s : string).
Definition sdict := list (string * leaf).

Fixpoint strip (p s : string) : option string :=
  match p, s with
  | EmptyString, _ => Some s
  | String a p', String b s' => if Ascii.eqb a b then strip p' s' else None
  | _, _ => None
  end.

Fixpoint pop (k : string) (d : sdict) : option (leaf * sdict) :=
  match d with
  | [] => None
  | (k', v) :: r =>
    if String.eqb k k' then Some (v, r)
    else match pop k r with Some (v', r') => Some (v', (k', v) :: r') | None => None end
  end.

(* meta = [name.replace(prefix, "") for name in state_dict.keys() if name.startswith(prefix)], each popped *)
Fixpoint collect (p : string) (d : sdict) : list (string * leaf) * sdict :=
  match d with
  | [] => ([], [])
  | (k, v) :: r =>
    let '(m, r') := collect p r in
    match strip p k with Some n => ((n, v) :: m, r') | None => (m, (k, v) :: r') end
  end.

Fixpoint assoc (n : string) (l : list (string * leaf)) : option leaf :=
  match l with [] => None | (m, a) :: l' => if String.eqb n m then Some a else assoc n l' end.

Definition meta_str (n : string) (m : list (string * leaf)) : option string :=
  match assoc n m with Some (LS s) => Some s | _ => None end.
Definition meta_val (n : string) (m : list (string * leaf)) : option pyval :=
  match meta_str n m with Some s => parse s | None => None end.
Definition as_tensor (l : leaf) : option nat := match l with LT i => Some i | _ => None end.
Definition as_int (v : pyval) : option Z := match v with PInt z => Some z | _ => None end.
Definition as_opt_int (v : pyval) : option (option Z) := match v with PInt z => Some (Some z) | PNone => Some None | _ => None end.
Definition as_seq (v : pyval) : option (list Z) := match v with PList l | PTuple l => Some l | _ => None end.

Notation "x <- e ;; f" := (match e with Some x => f | None => None end) (at level 61, e at next level, right associativity).

Definition show_opt (o : option Z) : string := match o with Some z => show (PInt z) | None => show PNone end.

(* ---- PackedTensor ---- *)
Record packed := { pk_data : nat; pk_bits : Z; pk_size : list Z; pk_stride : list Z }.
Definition flat_packed (t : packed) : list (string * leaf) :=
  [("_data", LT (pk_data t)); ("bits", LS (show (PInt (pk_bits t)))); ("size", LS (show (PList (pk_size t)))); ("stride", LS (show (PTuple (pk_stride t))))].
Definition load_packed (p : string) (d : sdict) : option (packed * sdict) :=
  x <- pop (p ++ "_data") d ;; let '(dl, d1) := x in data <- as_tensor dl ;;
  let '(m, d2) := collect p d1 in
  if negb (Nat.eqb (length m) 3) then None else
  bits <- (v <- meta_val "bits" m ;; as_int v) ;; size <- (v <- meta_val "size" m ;; as_seq v) ;; stride <- (v <- meta_val "stride" m ;; as_seq v) ;;
  Some ({| pk_data := data; pk_bits := bits; pk_size := size; pk_stride := stride |}, d2).

(* ---- QBytesTensor ---- *)
Record qbytes := { qb_data : nat; qb_scale : nat; qb_qtype : string; qb_axis : option Z; qb_size : list Z; qb_stride : list Z }.
Definition flat_qbytes (t : qbytes) : list (string * leaf) :=
  [("_data", LT (qb_data t)); ("_scale", LT (qb_scale t)); ("qtype", LS (qb_qtype t)); ("axis", LS (show_opt (qb_axis t)));
   ("size", LS (show (PList (qb_size t)))); ("stride", LS (show (PList (qb_stride t))))].
Definition load_qbytes (p : string) (d : sdict) : option (qbytes * sdict) :=
  x <- pop (p ++ "_data") d ;; let '(dl, d1) := x in data <- as_tensor dl ;;
  x <- pop (p ++ "_scale") d1 ;; let '(sl, d2) := x in scale <- as_tensor sl ;;
  let '(m, d3) := collect p d2 in
  if negb (Nat.eqb (length m) 4) then None else
  qt <- meta_str "qtype" m ;; axis <- (v <- meta_val "axis" m ;; as_opt_int v) ;;
  size <- (v <- meta_val "size" m ;; as_seq v) ;; stride <- (v <- meta_val "stride" m ;; as_seq v) ;;
  Some ({| qb_data := data; qb_scale := scale; qb_qtype := qt; qb_axis := axis; qb_size := size; qb_stride := stride |}, d3).

(* ---- QBitsTensor (its payload is a PackedTensor, flattened under "<prefix>_data.") ---- *)
Record qbits := { qi_data : packed; qi_scale : nat; qi_zp : nat; qi_qtype : string; qi_axis : option Z; qi_group : option Z; qi_size : list Z; qi_stride : list Z }.
Definition addp (p : string) (l : list (string * leaf)) : sdict := map (fun nv => (p ++ fst nv, snd nv)) l.
Definition flat_qbits_own (t : qbits) : list (string * leaf) :=
  [("_scale", LT (qi_scale t)); ("_zeropoint", LT (qi_zp t)); ("qtype", LS (qi_qtype t)); ("axis", LS (show_opt (qi_axis t)));
   ("group_size", LS (show_opt (qi_group t))); ("size", LS (show (PList (qi_size t)))); ("stride", LS (show (PList (qi_stride t))))].
Definition flat_qbits (t : qbits) : list (string * leaf) :=
  app (addp "_data." (flat_packed (qi_data t))) (flat_qbits_own t).
Definition load_qbits (p : string) (d : sdict) : option (qbits * sdict) :=
  x <- load_packed (p ++ "_data.") d ;; let '(data, d0) := x in
  x <- pop (p ++ "_scale") d0 ;; let '(sl, d1) := x in scale <- as_tensor sl ;;
  x <- pop (p ++ "_zeropoint") d1 ;; let '(zl, d2) := x in zp <- as_tensor zl ;;
  let '(m, d3) := collect p d2 in
  if negb (Nat.eqb (length m) 5) then None else
  qt <- meta_str "qtype" m ;; axis <- (v <- meta_val "axis" m ;; as_opt_int v) ;; gs <- (v <- meta_val "group_size" m ;; as_opt_int v) ;;
  size <- (v <- meta_val "size" m ;; as_seq v) ;; stride <- (v <- meta_val "stride" m ;; as_seq v) ;;
  Some ({| qi_data := data; qi_scale := scale; qi_zp := zp; qi_qtype := qt; qi_axis := axis; qi_group := gs; qi_size := size; qi_stride := stride |}, d3).

(* save: destination[prefix + name] = value, in flattening order *)
Definition save (p : string) (fields : list (string * leaf)) (dest : sdict) : sdict := app dest (addp p fields).

Definition prefix_free (p : string) (d : sdict) : Prop := Forall (fun kv => strip p (fst kv) = None) d.

(* ---- correspondence checkers (evaluated by vm_compute on what the implementation produced) -------- *)
Fixpoint zlist_eqb (a b : list Z) : bool :=
  match a, b with [], [] => true | x :: a', y :: b' => Z.eqb x y && zlist_eqb a' b' | _, _ => false end.
Definition optz_eqb (a b : option Z) : bool :=
  match a, b with None, None => true | Some x, Some y => Z.eqb x y | _, _ => false end.
Definition pyval_eqb (a b : pyval) : bool :=
  match a, b with
  | PInt x, PInt y => Z.eqb x y | PNone, PNone => true | PList x, PList y => zlist_eqb x y | PTuple x, PTuple y => zlist_eqb x y | _, _ => false
  end.
Definition optpy_eqb (a : option pyval) (b : pyval) : bool := match a with Some x => pyval_eqb x b | None => false end.
(* a meta string as the implementation wrote it, with the python value behind it: str() is [show], literal_eval is [parse] *)
Definition chk_codec (c : pyval * string) : bool :=
  let '(v, s) := c in String.eqb (show v) s && optpy_eqb (parse s) v.

Fixpoint slist_eqb (a b : list string) : bool :=
  match a, b with [] , [] => true | x :: a', y :: b' => String.eqb x y && slist_eqb a' b' | _, _ => false end.
Definition packed_eqb (a b : packed) : bool :=
  Nat.eqb (pk_data a) (pk_data b) && Z.eqb (pk_bits a) (pk_bits b) && zlist_eqb (pk_size a) (pk_size b) && zlist_eqb (pk_stride a) (pk_stride b).
Definition qbytes_eqb (a b : qbytes) : bool :=
  Nat.eqb (qb_data a) (qb_data b) && Nat.eqb (qb_scale a) (qb_scale b) && String.eqb (qb_qtype a) (qb_qtype b) && optz_eqb (qb_axis a) (qb_axis b)
  && zlist_eqb (qb_size a) (qb_size b) && zlist_eqb (qb_stride a) (qb_stride b).
Definition qbits_eqb (a b : qbits) : bool :=
  packed_eqb (qi_data a) (qi_data b) && Nat.eqb (qi_scale a) (qi_scale b) && Nat.eqb (qi_zp a) (qi_zp b) && String.eqb (qi_qtype a) (qi_qtype b)
  && optz_eqb (qi_axis a) (qi_axis b) && optz_eqb (qi_group a) (qi_group b) && zlist_eqb (qi_size a) (qi_size b) && zlist_eqb (qi_stride a) (qi_stride b).

(* a loader run on a whole state_dict: must rebuild the record the implementation rebuilt and leave exactly the other keys *)
Definition chk_load {R} (load : string -> sdict -> option (R * sdict)) (eqb : R -> R -> bool) (c : string * sdict * R * list string) : bool :=
  let '(p, d, want, rest) := c in
  match load p d with Some (r, d') => eqb r want && slist_eqb (map fst d') rest | None => false end.

Fixpoint failing_from {A} (f : A -> bool) (l : list A) (i : nat) : list nat :=
  match l with [] => [] | x :: l' => if f x then failing_from f l' (S i) else i :: failing_from f l' (S i) end.
Definition failing {A} (f : A -> bool) (l : list A) : list nat := failing_from f l 0.
