(* AST fingerprints of the serialization glue at the revision of /repo that Model/Serial.v models. *)
From Coq Require Import String List.
Import ListNotations.
Open Scope string_scope.

Definition exp_ser_prints : list (string * string) := [
  ("QTensor.save_to_state_dict", "91c3e101b7d6cc67");
  ("QBitsTensor.save_to_state_dict", "c0f0e4ae3d8ac5e1");
  ("QBitsTensor.optimize", "ee13fbd6bab348eb");
  ("QBitsTensor.__init__", "7b4dda2ed8e232ae");
  ("QBitsTensor.create", "04c4821ab7946e55");
  ("QBytesTensor.__init__", "e098f7b86d37d834");
  ("PackedTensor.__init__", "fb20cf75568bdc59");
  ("QModuleMixin._save_to_state_dict", "7d403032e904c165");
  ("QModuleMixin._load_from_state_dict", "292173ce789c4a79");
  ("safe_save", "8b0b34c49eee8285");
  ("safe_load", "8c094e2327abd27c");
  ("requantize", "69ea8b35b7db9df3")].
