(* Model of the kernel routing of quantized matmul / linear (library/qbytes_mm.py, qbytes_ops.mm):
   which kernel each device selects from dtypes, sizes and the torch version. *)
From Coq Require Import String List ZArith Bool.
Import ListNotations.
Open Scope Z_scope.

Inductive dtype := DInt8 | DF8E4M3 | DF8E5M2 | DF32 | DF16 | DBF16.
Definition dt_eqb (a b : dtype) : bool :=
  match a, b with
  | DInt8, DInt8 | DF8E4M3, DF8E4M3 | DF8E5M2, DF8E5M2 | DF32, DF32 | DF16, DF16 | DBF16, DBF16 => true
  | _, _ => false
  end.

Inductive route := RIntMM | RInt8Pack | RFloat.

Definition route_cpu (ge24 : bool) (adt wdt : dtype) (tokens inf outf : Z) : route :=
  if (ge24 && dt_eqb adt DInt8 && dt_eqb wdt DInt8) then RIntMM
  else if (dt_eqb adt DBF16 && dt_eqb wdt DInt8 && (inf mod 4 =? 0)) then RInt8Pack else RFloat.
Definition route_cuda (ge24 : bool) (adt wdt : dtype) (tokens inf outf : Z) : route :=
  if (dt_eqb adt DInt8 && dt_eqb wdt DInt8 && (tokens >? 16) && (tokens mod 8 =? 0) && (inf mod 8 =? 0) && (outf mod 8 =? 0)) then RIntMM else RFloat.
Definition route_mps (ge24 : bool) (adt wdt : dtype) (tokens inf outf : Z) : route :=
  if (ge24 && dt_eqb adt DBF16 && dt_eqb wdt DInt8 && (inf mod 32 =? 0) && (outf mod 32 =? 0)) then RInt8Pack else RFloat.
(* a_outer_axis / w_outer_axis: the operand is quantized per-tensor or along its NON-contracted dimension (rows of the
   first operand, columns of the second): only then does its scale factor out of the product (repair F36) *)
Definition mm_int_route (dev_cuda dev_cpu ge24 a_qint8 w_qint8 a_outer_axis w_outer_axis : bool) (tokens inf outf : Z) : bool :=
  ((dev_cuda || (dev_cpu && ge24)) && a_qint8 && w_qint8 && a_outer_axis && w_outer_axis && (tokens >? 16) && (tokens mod 8 =? 0) && (inf mod 8 =? 0) && (outf mod 8 =? 0)).

(* fingerprints of the numeric route bodies the exact-arithmetic model (Proofs/MMProofs.v) was written against *)
Definition mm_prints : list (string * string) := [
  ("qbytes_mm"%string, "64a2805c47dd2cf8"%string);
  ("qbytes_int_mm"%string, "c6cafb4939134d42"%string);
  ("qbytes_int8pack_mm"%string, "a57519cf4fd11f5a"%string);
  ("qbytes_mm_impl_default"%string, "5d41f850f7a5b9d8"%string);
  ("aten.mm"%string, "741cc344d331c8a4"%string);
  ("aten.bmm"%string, "3eb1ab1fb152c011"%string);
  ("QTensorLinear.forward"%string, "462a7dfd205c3ccc"%string);
  ("linear"%string, "047e6587fc053914"%string);
  ("QLinear.qforward"%string, "d786605ad6fb6e19"%string);
  ("QConv2d.qforward"%string, "a1335c170222ed06"%string)].

(* each kernel is only selected for the operand dtypes it accepts *)
Lemma route_cpu_sound ge24 adt wdt tokens inf outf :
  match route_cpu ge24 adt wdt tokens inf outf with
  | RIntMM => adt = DInt8 /\ wdt = DInt8 /\ ge24 = true
  | RInt8Pack => adt = DBF16 /\ wdt = DInt8 /\ inf mod 4 = 0
  | RFloat => True
  end.
Proof.
  unfold route_cpu. destruct ge24, adt, wdt; cbn; try exact I; try (repeat split; reflexivity);
    (destruct (inf mod 4 =? 0) eqn:E; [|exact I]; apply Z.eqb_eq in E; repeat split; assumption).
Qed.

Lemma route_cuda_sound ge24 adt wdt tokens inf outf :
  route_cuda ge24 adt wdt tokens inf outf = RIntMM ->
  adt = DInt8 /\ wdt = DInt8 /\ 16 < tokens /\ tokens mod 8 = 0 /\ inf mod 8 = 0 /\ outf mod 8 = 0.
Proof.
  unfold route_cuda. destruct adt, wdt; cbn; try discriminate.
  destruct (tokens >? 16) eqn:E1; cbn; [|discriminate].
  destruct (tokens mod 8 =? 0) eqn:E2; cbn; [|discriminate].
  destruct (inf mod 8 =? 0) eqn:E3; cbn; [|discriminate].
  destruct (outf mod 8 =? 0) eqn:E4; cbn; [|discriminate]. intros _.
  apply Z.gtb_lt in E1. apply Z.eqb_eq in E2, E3, E4. repeat split; assumption.
Qed.

(* F14: on this torch build _weight_int8pack_mm is memory-safe only when in_features mod 16 = 0; the
   CPU route selects it already for multiples of 4 *)
Example int8pack_precondition_refuted :
  exists inf, route_cpu true DBF16 DInt8 1 inf 8 = RInt8Pack /\ inf mod 16 <> 0.
Proof. exists 4. split; [reflexivity | discriminate]. Qed.
