From Coq Require Import String Ascii List ZArith Bool Lia DecimalString DecimalZ DecimalPos.
Import ListNotations.
Open Scope string_scope.

(* ---- Python's str() of the meta values, and the fragment of ast.literal_eval that reads them ---- *)
Inductive pyval := PInt (z : Z) | PNone | PList (l : list Z) | PTuple (l : list Z).

Definition show_Z (z : Z) : string := NilZero.string_of_int (Z.to_int z).
Definition parse_Z (s : string) : option Z := option_map Z.of_int (NilZero.int_of_string s).

Fixpoint join (sep : string) (l : list string) : string :=
  match l with
  | [] => ""
  | [x] => x
  | x :: r => x ++ sep ++ join sep r
  end.

Definition show (v : pyval) : string :=
  match v with
  | PInt z => show_Z z
  | PNone => "None"
  | PList l => "[" ++ join ", " (map show_Z l) ++ "]"
  | PTuple [] => "()"
  | PTuple [x] => "(" ++ show_Z x ++ ",)"
  | PTuple l => "(" ++ join ", " (map show_Z l) ++ ")"
  end.

(* split on commas *)
Fixpoint split (s : string) : list string :=
  match s with
  | EmptyString => [EmptyString]
  | String c r =>
    if Ascii.eqb c "," then EmptyString :: split r
    else match split r with p :: ps => String c p :: ps | [] => [String c EmptyString] end
  end.

Fixpoint ltrim (s : string) : string :=
  match s with String c r => if Ascii.eqb c " " then ltrim r else s | EmptyString => EmptyString end.

Fixpoint unsnoc (s : string) : option (string * ascii) :=
  match s with
  | EmptyString => None
  | String c EmptyString => Some (EmptyString, c)
  | String c r => match unsnoc r with Some (a, l) => Some (String c a, l) | None => None end
  end.

Fixpoint parse_all (l : list string) : option (list Z) :=
  match l with
  | [] => Some []
  | x :: r => match parse_Z (ltrim x), parse_all r with Some z, Some zs => Some (z :: zs) | _, _ => None end
  end.

Definition is_empty (s : string) : bool := match s with EmptyString => true | _ => false end.

Definition parse_list_body (body : string) : option pyval :=
  if is_empty (ltrim body) then Some (PList []) else option_map PList (parse_all (split body)).

Definition parse_tuple_body (body : string) : option pyval :=
  if is_empty (ltrim body) then Some (PTuple []) else
  let pieces := split body in
  match List.rev pieces with
  | last :: init =>
    if is_empty (ltrim last) then option_map PTuple (parse_all (List.rev init))          (* trailing comma *)
    else match init with [] => None (* "(x)" is not a tuple *) | _ => option_map PTuple (parse_all pieces) end
  | [] => None
  end.

Definition parse (s : string) : option pyval :=
  match s with
  | EmptyString => None
  | String c r =>
    if Ascii.eqb c "[" then
      match unsnoc r with Some (body, e) => if Ascii.eqb e "]" then parse_list_body body else None | None => None end
    else if Ascii.eqb c "(" then
      match unsnoc r with Some (body, e) => if Ascii.eqb e ")" then parse_tuple_body body else None | None => None end
    else if Ascii.eqb c "N" then (if String.eqb s "None" then Some PNone else None)
    else option_map PInt (parse_Z s)
  end.
