(* Model of quanto's numeric core and configuration checks (quantizers, optimizers, group/ungroup, dequantizers, quantize_weight/activation, calibration scale update, automatic group size).
   Snapshot of the translator output for the revision of /repo the proofs were written against
   (tools_snapshot.py); Tie proves the current source still translates to a convertible term. *)
From Coq Require Import String List ZArith Bool.
From QV Require Import Lib.Res Lib.Tensor Lib.ND Lib.Num Lib.QTensor.
Import ListNotations.
Open Scope Z_scope.

Definition axis_to_dim {F : Type} `{Num F} (t : tensor F) (axis : option Z) : res (list Z) :=
  let dim : list Z := (zrange (rank t)) in
  dim <- (if (oz_eqb axis (- 1)) then (
    let dim : list Z := (py_slice dim None (Some (- 1))) in
    Ok dim
  ) else (
    dim <- list_remove_opt dim axis ;;
    Ok dim
  )) ;;
  Ok dim.

Definition group {F : Type} `{Num F} (base : tensor F) (axis : option Z) (group_size : Z) : res (tensor F) :=
  _ <- guard (negb (negb (oz_in axis [0; (- 1)]))) "ValueError"%string ;;
  ix1_ <- py_index_opt (shape base) axis ;;
  let axis_dim : Z := ix1_ in
  _ <- guard_nz axis_dim ;;
  let axis_numel : Z := ((numel base) / axis_dim) in
  b2_ <- (if (group_size <=? 0) then Ok true else (
    if (group_size >? axis_numel) then Ok true else (
      _ <- guard_nz group_size ;;
      Ok (negb ((axis_numel mod group_size) =? 0))))) ;;
  _ <- guard (negb b2_) "ValueError"%string ;;
  _ <- guard_nz group_size ;;
  let axis_groups : Z := (axis_numel / group_size) in
  if (oz_eqb axis 0) then (
    tmp3_ <- t_reshape_py [(- 1); group_size] base ;;
    Ok tmp3_
  ) else (
    tmp4_ <- t_reshape_py ([axis_groups] ++ [group_size] ++ [axis_dim]) base ;;
    let grouped : tensor F := tmp4_ in
    tmp5_ <- t_permute f0 [1; 2; 0] grouped ;;
    let grouped : tensor F := tmp5_ in
    tmp6_ <- t_reshape_py [group_size; (axis_dim * axis_groups)] grouped ;;
    Ok tmp6_
  ).

Definition ungroup {F : Type} `{Num F} (grouped : tensor F) (axis : option Z) (orig_shape : list Z) : res (tensor F) :=
  if (shape_eqb (shape grouped) orig_shape) then (
    Ok grouped
  ) else (
    if (oz_eqb axis 0) then (
      tmp1_ <- t_reshape_py orig_shape grouped ;;
      Ok tmp1_
    ) else (
      c4_ <- (if (oz_eqb axis (- 1)) then (
        ix2_ <- py_index (shape grouped) 0 ;;
        Ok ix2_) else (
        ix3_ <- py_index (shape grouped) (- 1) ;;
        Ok ix3_)) ;;
      let group_size : Z := c4_ in
      ix5_ <- py_index_opt orig_shape axis ;;
      let axis_dim : Z := ix5_ in
      _ <- guard_nz axis_dim ;;
      _ <- guard_nz group_size ;;
      let axis_groups : Z := (((numel grouped) / axis_dim) / group_size) in
      tmp6_ <- t_reshape_py [group_size; axis_dim; axis_groups] grouped ;;
      let ungrouped : tensor F := tmp6_ in
      tmp7_ <- t_permute f0 [2; 0; 1] ungrouped ;;
      let ungrouped : tensor F := tmp7_ in
      tmp8_ <- t_reshape_py orig_shape ungrouped ;;
      Ok tmp8_
    )
  ).

Definition affine_forward {F : Type} `{Num F} (base : tensor F) (qtype : qtype) (axis : option Z) (group_size : option Z) (scale : tensor F) (zeropoint : tensor F) : res (qbits F) :=
  _ <- guard (negb (negb (existsb (qtype_eqb qtype) [qint2; qint4]))) "ValueError"%string ;;
  _ <- guard (negb (negb (oz_in axis [0; (- 1)]))) "ValueError"%string ;;
  let size : list Z := (shape base) in
  let stride : list Z := (t_stride base) in
  base <- (match group_size with
  | Some group_size => (
    r1_ <- group base axis group_size ;;
    let base : tensor F := r1_ in
    Ok base
  )
  | None => (
    Ok base
  )
  end) ;;
  let bits : Z := (q_bits qtype) in
  tmp2_ <- tf_div base scale ;;
  let data : tensor F := (tf_nan_to_num tmp2_) in
  tmp3_ <- tf_add (tf_round data) zeropoint ;;
  _ <- guard (0 <=? bits) "Unsupported:negpow"%string ;;
  let data : tensor F := (tf_cast SUInt8 (tf_clamp 0 ((2 ^ bits) - 1) tmp3_)) in
  Ok (QBits qtype axis group_size size stride data scale zeropoint).

Definition max_optimize {F : Type} `{Num F} (base : tensor F) (bits : Z) (axis : option Z) : res ((tensor F * tensor F)) :=
  let dim : list Z := (if (oz_eqb axis 0) then (zrange2 1 (rank base)) else (zrange2 0 ((rank base) - 1))) in
  tmp1_ <- tf_amin dim base ;;
  let rmin : tensor F := (tf_clamp_max 0 tmp1_) in
  tmp2_ <- tf_amax dim base ;;
  let rmax : tensor F := (tf_clamp_min 0 tmp2_) in
  _ <- guard (0 <=? (bits - 1)) "Unsupported:negpow"%string ;;
  let qmin : Z := (- (2 ^ (bits - 1))) in
  _ <- guard (0 <=? (bits - 1)) "Unsupported:negpow"%string ;;
  let qmax : Z := ((2 ^ (bits - 1)) - 1) in
  tmp3_ <- tf_sub rmax rmin ;;
  let scale : tensor F := (tf_div_int tmp3_ (qmax - qmin)) in
  tmp4_ <- tf_div (tf_neg rmin) scale ;;
  tmp5_ <- tf_where (tf_eq_int scale 0) scale tmp4_ ;;
  let zeropoint : tensor F := (tf_cast SInt8 (tf_round tmp5_)) in
  Ok (scale, zeropoint).

Definition qbytes_dequantize {F : Type} `{Num F} (t : qbytes F) : res (tensor F) :=
  dqt <- (if (q_isfloat (qb_qtype t)) then (
    tmp1_ <- tf_mul (qb_scale t) (qb_data t) ;;
    let dqt : tensor F := tmp1_ in
    Ok dqt
  ) else (
    tmp2_ <- tf_mul (qb_scale t) (qb_data t) ;;
    let dqt : tensor F := tmp2_ in
    Ok dqt
  )) ;;
  Ok dqt.

Definition qbits_dequantize {F : Type} `{Num F} (t : qbits F) : res (tensor F) :=
  let unpacked : tensor F := (qz_data t) in
  tmp1_ <- ti8_sub (tf_cast SInt8 unpacked) (tf_cast SInt8 (qz_zp t)) ;;
  let int8_data : tensor F := tmp1_ in
  dqt <- (if (q_isfloat (qz_qtype t)) then (
    tmp2_ <- tf_mul (qz_scale t) int8_data ;;
    let dqt : tensor F := tmp2_ in
    Ok dqt
  ) else (
    tmp3_ <- tf_mul (qz_scale t) int8_data ;;
    let dqt : tensor F := tmp3_ in
    Ok dqt
  )) ;;
  if (match (qz_axis t) with None => true | Some _ => false end) then (
    Ok dqt
  ) else (
    r4_ <- ungroup dqt (qz_axis t) (qz_size t) ;;
    Ok r4_
  ).

Definition sym_forward {F : Type} `{Num F} (base : tensor F) (qtype : qtype) (axis : option Z) (scale : tensor F) : res (qbytes F) :=
  let size : list Z := (shape base) in
  let stride : list Z := (t_stride base) in
  axis <- (if (match axis with None => true | Some _ => false end) then (
    _ <- guard (negb ((rank scale) >? 0)) "ValueError"%string ;;
    Ok axis
  ) else (
    _ <- guard (negb ((rank base) =? 1)) "ValueError"%string ;;
    axis <- (if (oz_eqb axis ((rank base) - 1)) then (
      let axis : option Z := (Some (- 1)) in
      Ok axis
    ) else (
      Ok axis
    )) ;;
    _ <- guard (negb (negb (oz_in axis [0; (- 1)]))) "ValueError"%string ;;
    ix1_ <- py_index_opt (shape base) axis ;;
    _ <- guard (negb (ix1_ =? 1)) "ValueError"%string ;;
    _ <- guard (negb ((sq_ndim scale) >? 1)) "ValueError"%string ;;
    _ <- guard (negb (negb ((rank scale) =? (rank base)))) "ValueError"%string ;;
    Ok axis
  )) ;;
  tmp2_ <- tf_div base scale ;;
  let data : tensor F := (tf_nan_to_num tmp2_) in
  data <- (if (negb (q_isfloat qtype)) then (
    let data : tensor F := (tf_round data) in
    Ok data
  ) else (
    Ok data
  )) ;;
  let info : storage := (q_storage qtype) in
  let data : tensor F := (tf_cast (q_storage qtype) (tf_clamp (st_min info) (st_max info) data)) in
  Ok (QBytes qtype axis size stride data scale).

Definition absmax_optimize {F : Type} `{Num F} (base : tensor F) (bits : Z) (axis : option Z) : res (tensor F) :=
  let base : tensor F := (tf_abs base) in
  rmax <- (if (match axis with None => true | Some _ => false end) then (
    tmp1_ <- tf_max_all base ;;
    let rmax : tensor F := tmp1_ in
    Ok rmax
  ) else (
    let dim : list Z := (if (oz_eqb axis 0) then (zrange2 1 (rank base)) else (zrange2 0 ((rank base) - 1))) in
    tmp2_ <- tf_amax dim (tf_abs base) ;;
    let rmax : tensor F := tmp2_ in
    Ok rmax
  )) ;;
  _ <- guard (0 <=? (bits - 1)) "Unsupported:negpow"%string ;;
  let qmax : Z := ((2 ^ (bits - 1)) - 1) in
  Ok (tf_div_int rmax qmax).

Definition sym_opt_call {F : Type} `{Num F} (optimize : tensor F -> Z -> option Z -> res (tensor F)) (base : tensor F) (bits : Z) (axis : option Z) : res (tensor F) :=
  _ <- guard (negb (negb ((match axis with None => true | Some _ => false end) || (oz_in axis [0; (- 1)])))) "ValueError"%string ;;
  r1_ <- optimize base bits axis ;;
  let scale : tensor F := r1_ in
  Ok scale.

Definition aff_opt_call {F : Type} `{Num F} (optimize : tensor F -> Z -> option Z -> res (tensor F * tensor F)) (base : tensor F) (bits : Z) (axis : option Z) (group_size : option Z) : res ((tensor F * tensor F)) :=
  _ <- guard (negb (negb (oz_in axis [0; (- 1)]))) "ValueError"%string ;;
  base <- (match group_size with
  | Some group_size => (
    r1_ <- group base axis group_size ;;
    let base : tensor F := r1_ in
    Ok base
  )
  | None => (
    Ok base
  )
  end) ;;
  r2_ <- optimize base bits axis ;;
  let '(scale, zeropoint) := r2_ in
  Ok (scale, zeropoint).

Definition apply_sym_optimizer {F : Type} `{Num F} (o : option optkind) (base : tensor F) (bits : Z)
           (axis : option Z) : res (tensor F) :=
  match o with
  | Some AbsmaxOpt => sym_opt_call absmax_optimize base bits axis
  | _ => Err "TypeError"%string
  end.
Definition apply_aff_optimizer {F : Type} `{Num F} (o : option optkind) (base : tensor F) (bits : Z)
           (axis group_size : option Z) : res (tensor F * tensor F) :=
  match o with
  | Some MaxOpt => aff_opt_call max_optimize base bits axis group_size
  | _ => Err "TypeError"%string
  end.

Definition quantize_weight {F : Type} `{Num F} (t : tensor F) (qtype : qtype) (axis : option Z) (group_size : option Z) (optimizer : option optkind) : res (qany F) :=
  _ <- guard (negb (negb (oz_in axis [0; (- 1)]))) "ValueError"%string ;;
  if ((q_bits qtype) =? 8) then (
    optimizer <- (if (match optimizer with None => true | Some _ => false end) then (
      let optimizer : option optkind := (Some AbsmaxOpt) in
      Ok optimizer
    ) else (
      _ <- guard (negb (negb (opt_is_sym optimizer))) "ValueError"%string ;;
      Ok optimizer
    )) ;;
    match group_size with
    | Some group_size => (
      Err "ValueError"%string
    )
    | None => (
      b2_ <- (if (negb (match axis with None => true | Some _ => false end)) then (
        ix1_ <- py_index_opt (shape t) axis ;;
        Ok (ix1_ =? 1)) else Ok false) ;;
      axis <- (if b2_ then (
        let axis : option Z := None in
        Ok axis
      ) else (
        Ok axis
      )) ;;
      tmp3_ <- apply_sym_optimizer optimizer t (q_bits qtype) axis ;;
      let scale : tensor F := tmp3_ in
      tmp4_ <- sym_forward t qtype axis scale ;;
      Ok (QB tmp4_)
    )
    end
  ) else (
    optimizer <- (if (match optimizer with None => true | Some _ => false end) then (
      let optimizer : option optkind := (Some MaxOpt) in
      Ok optimizer
    ) else (
      _ <- guard (negb (negb (opt_is_aff optimizer))) "ValueError"%string ;;
      Ok optimizer
    )) ;;
    tmp5_ <- apply_aff_optimizer optimizer t (q_bits qtype) axis group_size ;;
    let '(scale, zeropoint) := tmp5_ in
    tmp6_ <- affine_forward t qtype axis group_size scale zeropoint ;;
    Ok (QZ tmp6_)
  ).

Definition quantize_activation {F : Type} `{Num F} (t : tensor F) (qtype : qtype) (scale : tensor F) : res (qbytes F) :=
  _ <- guard (negb (negb ((numel scale) =? 1))) "ValueError"%string ;;
  tmp1_ <- sym_forward t qtype None scale ;;
  Ok tmp1_.

Definition absmax_scale {F : Type} `{Num F} (base : tensor F) (qtype : qtype) (axis : option Z) : res (tensor F) :=
  let base : tensor F := (tf_abs base) in
  qranges <- (if (match axis with None => true | Some _ => false end) then (
    tmp1_ <- tf_max_all base ;;
    let qranges : tensor F := tmp1_ in
    Ok qranges
  ) else (
    tmp2_ <- axis_to_dim base axis ;;
    let dim : list Z := tmp2_ in
    tmp3_ <- tf_amax dim base ;;
    let qranges : tensor F := tmp3_ in
    Ok qranges
  )) ;;
  let info : storage := (q_storage qtype) in
  Ok (tf_div_int qranges (st_max info)).

Definition auto_group_size {F : Type} `{Num F} (weight : tensor F) : res (option Z) :=
  let weight_group_size : option Z := None in
  ix1_ <- py_index (shape weight) 0 ;;
  let out_features : Z := ix1_ in
  _ <- guard_nz out_features ;;
  let in_features : Z := ((numel weight) / out_features) in
  let group_size : Z := 128 in
  '(group_size, weight_group_size) <- (if (in_features >? group_size) then (
    group_size <- mwhile 8%nat
      (fun (acc_ : Z) =>
        let group_size := acc_ in
        _ <- guard_nz group_size ;;
        Ok ((negb ((in_features mod group_size) =? 0)) && (group_size >? 32)))

      (fun (acc_ : Z) =>
        let group_size := acc_ in
        let group_size : Z := (group_size - 32) in
        Ok group_size)

      group_size ;;
    _ <- guard_nz group_size ;;
    weight_group_size <- (if ((in_features mod group_size) =? 0) then (
      let weight_group_size : option Z := (Some group_size) in
      Ok weight_group_size
    ) else (
      Ok weight_group_size
    )) ;;
    Ok (group_size, weight_group_size)
  ) else (
    Ok (group_size, weight_group_size)
  )) ;;
  Ok weight_group_size.

Definition updated_scale {F : Type} `{Num F} (scale : tensor F) (new_scale : tensor F) (momentum : b64) : res (tensor F) :=
  if (tf_all_eq_int scale 1) then (
    Ok new_scale
  ) else (
    tmp1_ <- tf_add (tf_mul_py scale momentum) (tf_mul_py new_scale (b64_sub (b64_lit 4503599627370496 (-52)) momentum)) ;;
    Ok tmp1_
  ).

