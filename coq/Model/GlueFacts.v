(* Glue fingerprints at the revision of /repo the hand-written models and audits were written against
   (tools_snapshot_glue.py): per property, the functions and module skeletons that no translator or extractor
   reads but the property depends on.  TieGlue (generated per run) proves the current source yields the same. *)
From Coq Require Import String List.
Import ListNotations.
Open Scope string_scope.

Definition glue_C01 : list (string * string) := [
  ("tensor/qtype.py::<module>", "a95a463a66bea791");
  ("tensor/core.py::<module>", "707a7e07ef0b0c0b");
  ("tensor/core.py::dtype_info", "eb61c7b4acff04aa");
  ("tensor/quantizers/symmetric.py::<module>", "c91bf9d2d71f296c");
  ("tensor/qactivation.py::<module>", "db42a923222eb8b6")].

Definition glue_C02 : list (string * string) := [
  ("tensor/qtype.py::<module>", "a95a463a66bea791");
  ("tensor/core.py::<module>", "707a7e07ef0b0c0b");
  ("tensor/core.py::dtype_info", "eb61c7b4acff04aa");
  ("tensor/quantizers/affine.py::<module>", "ef980cb6d7e48f76");
  ("tensor/qbits/group.py::<module>", "4dcc4594b375fe96")].

Definition glue_C03 : list (string * string) := [
  ("tensor/qtype.py::<module>", "a95a463a66bea791");
  ("tensor/core.py::<module>", "707a7e07ef0b0c0b");
  ("tensor/core.py::dtype_info", "eb61c7b4acff04aa");
  ("tensor/optimizers/optimizer.py::Optimizer.__call__", "cd383fa27d0a6d52");
  ("tensor/optimizers/symmetric_optimizer.py::SymmetricOptimizer.optimize", "cba9f32372f4b475");
  ("tensor/optimizers/affine_optimizer.py::AffineOptimizer.optimize", "7c18958678d2b40d");
  ("tensor/optimizers/optimizer.py::<module>", "524c5121ca9589fa");
  ("tensor/optimizers/symmetric_optimizer.py::<module>", "973829a9c459dc0e");
  ("tensor/optimizers/affine_optimizer.py::<module>", "68fae23960ecd2f9");
  ("tensor/optimizers/absmax_optimizer.py::<module>", "7987a5362205b72d");
  ("tensor/optimizers/max_optimizer.py::<module>", "d2b09d31ff3015fc")].

Definition glue_C04 : list (string * string) := [
  ("library/ops.py::<module>", "765f89bdd837d835");
  ("library/python/unpack.py::<module>", "1e904eb60e731988");
  ("library/ext/__init__.py::<module>", "383b2c5f7e7cb6da");
  ("library/ext/extension.py::<module>", "f2b937acec2d91c1");
  ("library/ext/extension.py::Extension.__init__", "2df981707a3fcdef");
  ("library/ext/extension.py::Extension.lib", "8ec1da54c20ee5c1");
  ("library/ext/cpp/__init__.py::<module>", "3ee8f6cc2f71dded");
  ("library/ext/cpp/__init__.py::unpack_cpp", "5ac23c0677e27e90");
  ("tensor/qbits/packed.py::PackedTensor.bits", "57788be0221b8c1d");
  ("tensor/qbits/packed.py::PackedTensor.dtype", "bf699d6a3d236f26");
  ("tensor/qbits/packed.py::<module>", "97407c2f9be101fc")].

Definition glue_C05 : list (string * string) := [
  ("tensor/qtensor.py::QTensor.__init__", "48a5ed1521709ff7");
  ("tensor/qtensor.py::QTensor.dequantize", "45eae3c3aa4b8cf9");
  ("tensor/qtensor.py::QTensor.axis", "ba030d2af388f37c");
  ("tensor/qtensor.py::QTensor.qtype", "1c45484c7ed9810d");
  ("tensor/qtensor.py::<module>", "b04f13ba870537b6");
  ("tensor/qbytes.py::QBytesTensor.dequantize", "7a1ca2d264c344be");
  ("tensor/qbytes.py::<module>", "b8d528aadc63b185");
  ("tensor/qbits/qbits.py::QBitsTensor.dequantize", "112e34c4774b55f2");
  ("tensor/qbits/qbits.py::QBitsTensor.qbits_tensor", "06f8db66f59b7654");
  ("tensor/qbits/qbits.py::<module>", "eec279644f8db7e5");
  ("tensor/qbits/packed.py::PackedTensor.bits", "57788be0221b8c1d");
  ("tensor/qbits/packed.py::PackedTensor.dtype", "bf699d6a3d236f26");
  ("tensor/qbits/packed.py::<module>", "97407c2f9be101fc");
  ("tensor/qbytes_ops.py::register_qbytestensor_op", "5b6edf0b166917a2");
  ("tensor/qbytes_ops.py::get_qbytestensor_op_dispatch", "c6309ee00bc27a26");
  ("tensor/qbytes_ops.py::<module>", "e7941456894c9850");
  ("tensor/qbits/qbits_ops.py::register_qbitstensor_op", "d0d63c0718b3dea6");
  ("tensor/qbits/qbits_ops.py::get_qbitstensor_op_dispatch", "d0af763ec3d56a75");
  ("tensor/qbits/qbits_ops.py::<module>", "78280f2962065a35");
  ("tensor/qtensor_func.py::register_qtensor_func", "afbad999f82678c5");
  ("tensor/qtensor_func.py::get_qtensor_func", "d39f55b36b6cc346");
  ("tensor/qtensor_func.py::<module>", "c106635e01f79da6");
  ("tensor/qtype.py::<module>", "a95a463a66bea791");
  ("tensor/quantizers/symmetric.py::<module>", "c91bf9d2d71f296c");
  ("tensor/quantizers/symmetric.py::SymmetricQuantizer.forward", "ad648a62f42e5431");
  ("tensor/quantizers/affine.py::<module>", "ef980cb6d7e48f76");
  ("tensor/quantizers/affine.py::AffineQuantizer.forward", "f16b25732aa146fe");
  ("tensor/qweight.py::<module>", "7af1d2f14ade322b");
  ("tensor/qweight.py::quantize_weight", "ef01ea967802eaa8");
  ("tensor/qactivation.py::<module>", "db42a923222eb8b6");
  ("tensor/qactivation.py::quantize_activation", "f8b9a9a0386a0a34")].

Definition glue_C06 : list (string * string) := [
  ("tensor/qtensor.py::QTensor.__init__", "48a5ed1521709ff7");
  ("tensor/qtensor.py::QTensor.dequantize", "45eae3c3aa4b8cf9");
  ("tensor/qtensor.py::QTensor.axis", "ba030d2af388f37c");
  ("tensor/qtensor.py::QTensor.qtype", "1c45484c7ed9810d");
  ("tensor/qtensor.py::<module>", "b04f13ba870537b6");
  ("tensor/qbytes.py::QBytesTensor.dequantize", "7a1ca2d264c344be");
  ("tensor/qbytes.py::<module>", "b8d528aadc63b185");
  ("tensor/qbits/qbits.py::QBitsTensor.dequantize", "112e34c4774b55f2");
  ("tensor/qbits/qbits.py::QBitsTensor.qbits_tensor", "06f8db66f59b7654");
  ("tensor/qbits/qbits.py::<module>", "eec279644f8db7e5");
  ("tensor/qbits/packed.py::PackedTensor.bits", "57788be0221b8c1d");
  ("tensor/qbits/packed.py::PackedTensor.dtype", "bf699d6a3d236f26");
  ("tensor/qbits/packed.py::<module>", "97407c2f9be101fc");
  ("tensor/qbytes_ops.py::register_qbytestensor_op", "5b6edf0b166917a2");
  ("tensor/qbytes_ops.py::get_qbytestensor_op_dispatch", "c6309ee00bc27a26");
  ("tensor/qbytes_ops.py::<module>", "e7941456894c9850");
  ("tensor/qbits/qbits_ops.py::register_qbitstensor_op", "d0d63c0718b3dea6");
  ("tensor/qbits/qbits_ops.py::get_qbitstensor_op_dispatch", "d0af763ec3d56a75");
  ("tensor/qbits/qbits_ops.py::<module>", "78280f2962065a35");
  ("tensor/qtensor_func.py::register_qtensor_func", "afbad999f82678c5");
  ("tensor/qtensor_func.py::get_qtensor_func", "d39f55b36b6cc346");
  ("tensor/qtensor_func.py::<module>", "c106635e01f79da6");
  ("tensor/qtype.py::<module>", "a95a463a66bea791");
  ("tensor/quantizers/symmetric.py::<module>", "c91bf9d2d71f296c");
  ("tensor/quantizers/symmetric.py::SymmetricQuantizer.forward", "ad648a62f42e5431");
  ("tensor/quantizers/affine.py::<module>", "ef980cb6d7e48f76");
  ("tensor/quantizers/affine.py::AffineQuantizer.forward", "f16b25732aa146fe");
  ("tensor/qweight.py::<module>", "7af1d2f14ade322b");
  ("tensor/qweight.py::quantize_weight", "ef01ea967802eaa8");
  ("tensor/qactivation.py::<module>", "db42a923222eb8b6");
  ("tensor/qactivation.py::quantize_activation", "f8b9a9a0386a0a34")].

Definition glue_C07 : list (string * string) := [
  ("library/ops.py::<module>", "765f89bdd837d835");
  ("library/qbytes_mm.py::<module>", "3a9ddf8b9f5c304b");
  ("tensor/qtensor_func.py::<module>", "c106635e01f79da6")].

Definition glue_C08 : list (string * string) := [
  ("nn/qmodule.py::QModuleMixin.qcreate", "7ccba73836f86e1b");
  ("nn/qmodule.py::QModuleMixin.qforward", "1244d8c1c4d713de");
  ("nn/qmodule.py::<module>", "8b8e76587ae9b124");
  ("nn/qlinear.py::<module>", "b2846cc2a3fe1324");
  ("nn/qconv2d.py::<module>", "64e9c2731b1a7f02");
  ("nn/qlayernorm.py::<module>", "b842ef5d6fb2bf2a");
  ("quantize.py::<module>", "f8c94615da3bd16d")].

Definition glue_C09 : list (string * string) := [
  ("nn/qmodule.py::QModuleMixin.qcreate", "7ccba73836f86e1b");
  ("nn/qmodule.py::QModuleMixin.qforward", "1244d8c1c4d713de");
  ("nn/qmodule.py::<module>", "8b8e76587ae9b124");
  ("nn/qlinear.py::<module>", "b2846cc2a3fe1324");
  ("nn/qconv2d.py::<module>", "64e9c2731b1a7f02");
  ("nn/qlayernorm.py::<module>", "b842ef5d6fb2bf2a");
  ("quantize.py::<module>", "f8c94615da3bd16d");
  ("tensor/qbits/packed.py::PackedTensor.bits", "57788be0221b8c1d");
  ("tensor/qbits/packed.py::PackedTensor.dtype", "bf699d6a3d236f26")].

Definition glue_C10 : list (string * string) := [
  ("tensor/qtype.py::qtype.__str__", "9f56b7f1183c8f4b");
  ("tensor/qtype.py::qtype.__hash__", "d3be8c334a405035");
  ("tensor/qtype.py::<module>", "a95a463a66bea791");
  ("serialization.py::<module>", "7edecc47307f962d");
  ("nn/qmodule.py::<module>", "8b8e76587ae9b124")].

Definition glue_C11 : list (string * string) := [
  ("tensor/qtensor_func.py::<module>", "c106635e01f79da6");
  ("tensor/quantizers/symmetric.py::<module>", "c91bf9d2d71f296c");
  ("tensor/quantizers/affine.py::<module>", "ef980cb6d7e48f76");
  ("nn/qmodule.py::QModuleMixin.qforward", "1244d8c1c4d713de")].

Definition glue_C12 : list (string * string) := [
  ("calibrate.py::Calibration.__init__", "916fab88a3e425ce");
  ("calibrate.py::Calibration.__torch_function__", "839ffeafddcab49a");
  ("calibrate.py::Calibration.calibrate_input", "be080cf06b9af441");
  ("calibrate.py::Calibration.calibrate_output", "451b0440fe3a8bb6");
  ("calibrate.py::<module>", "00ae5685f2c00be9")].

Definition glue_C13 : list (string * string) := [
  ("calibrate.py::Calibration.__init__", "916fab88a3e425ce");
  ("calibrate.py::Calibration.__torch_function__", "839ffeafddcab49a");
  ("calibrate.py::Calibration.calibrate_input", "be080cf06b9af441");
  ("calibrate.py::Calibration.calibrate_output", "451b0440fe3a8bb6");
  ("calibrate.py::<module>", "00ae5685f2c00be9")].

Definition glue_C14 : list (string * string) := [
  ("tensor/qtype.py::<module>", "a95a463a66bea791");
  ("tensor/core.py::<module>", "707a7e07ef0b0c0b");
  ("tensor/core.py::dtype_info", "eb61c7b4acff04aa");
  ("tensor/quantizers/symmetric.py::<module>", "c91bf9d2d71f296c");
  ("tensor/quantizers/affine.py::<module>", "ef980cb6d7e48f76");
  ("tensor/qweight.py::<module>", "7af1d2f14ade322b");
  ("tensor/qactivation.py::<module>", "db42a923222eb8b6");
  ("tensor/qbits/group.py::<module>", "4dcc4594b375fe96");
  ("tensor/optimizers/optimizer.py::Optimizer.__call__", "cd383fa27d0a6d52");
  ("tensor/optimizers/symmetric_optimizer.py::SymmetricOptimizer.optimize", "cba9f32372f4b475");
  ("tensor/optimizers/affine_optimizer.py::AffineOptimizer.optimize", "7c18958678d2b40d");
  ("tensor/optimizers/optimizer.py::<module>", "524c5121ca9589fa");
  ("tensor/optimizers/symmetric_optimizer.py::<module>", "973829a9c459dc0e");
  ("tensor/optimizers/affine_optimizer.py::<module>", "68fae23960ecd2f9");
  ("tensor/optimizers/absmax_optimizer.py::<module>", "7987a5362205b72d");
  ("tensor/optimizers/max_optimizer.py::<module>", "d2b09d31ff3015fc")].

Definition glue_C15 : list (string * string) := [
  ("tensor/qbits/awq/packed.py::AWQPackedTensor.__new__", "de4f570f484b34b9");
  ("tensor/qbits/awq/packed.py::AWQPackedTensor.__init__", "f26ba63942a54a9e");
  ("tensor/qbits/awq/packed.py::AWQPackedTensor.dtype", "bf699d6a3d236f26");
  ("tensor/qbits/awq/packed.py::AWQPackedTensor.__tensor_flatten__", "6ad8522097adba98");
  ("tensor/qbits/awq/packed.py::AWQPackedTensor.__tensor_unflatten__", "143e47c7287081c6");
  ("tensor/qbits/awq/packed.py::<module>", "bc1d66282fdd5176");
  ("tensor/qbits/awq/qbits.py::AWQBitsDequantizer.backward", "1085992665713aba");
  ("tensor/qbits/awq/qbits.py::AWQBitsTensor.__new__", "26f9a284dcdd3c83");
  ("tensor/qbits/awq/qbits.py::AWQBitsTensor.__tensor_flatten__", "cf90bca49854062e");
  ("tensor/qbits/awq/qbits.py::AWQBitsTensor.__tensor_unflatten__", "4bd1390a8e87c19f");
  ("tensor/qbits/awq/qbits.py::<module>", "87e04185b8b67586")].

Definition glue_C16 : list (string * string) := [
  ("tensor/qtype.py::<module>", "a95a463a66bea791");
  ("tensor/core.py::<module>", "707a7e07ef0b0c0b");
  ("tensor/core.py::dtype_info", "eb61c7b4acff04aa");
  ("tensor/quantizers/symmetric.py::<module>", "c91bf9d2d71f296c");
  ("tensor/quantizers/affine.py::<module>", "ef980cb6d7e48f76");
  ("tensor/qactivation.py::<module>", "db42a923222eb8b6");
  ("nn/qmodule.py::<module>", "8b8e76587ae9b124");
  ("nn/qmodule.py::QModuleMixin.forward", "e5d7e41419d87137");
  ("nn/qmodule.py::QModuleMixin.qforward", "1244d8c1c4d713de");
  ("nn/qlinear.py::<module>", "b2846cc2a3fe1324");
  ("nn/qlinear.py::QLinear.qforward", "d786605ad6fb6e19");
  ("calibrate.py::Calibration.__init__", "916fab88a3e425ce");
  ("calibrate.py::Calibration.__torch_function__", "839ffeafddcab49a");
  ("calibrate.py::Calibration.calibrate_input", "be080cf06b9af441");
  ("calibrate.py::Calibration.calibrate_output", "451b0440fe3a8bb6");
  ("calibrate.py::<module>", "00ae5685f2c00be9")].

