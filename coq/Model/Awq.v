(* Model of the AWQ layouts (tensor/qbits/awq/packed.py: pack / unpack with optional column reordering,
   pack_v2 / unpack_v2) and of the reference packer external/awq/pack_intweight.py, in the tensor vocabulary
   of Lib/ND.v.  Everything except the nibble arithmetic is data MOVEMENT (reshape / permute / column gather). *)
From Coq Require Import String List ZArith Bool Lia.
From QV Require Import Lib.Res Lib.Tensor Lib.ND.
Import ListNotations.
Open Scope Z_scope.

(* ---- nibble arithmetic ------------------------------------------------------------------------- *)
(* groups of [n] consecutive elements (the last axis after the final reshape) are OR-ed with shifts of 4 bits *)
Fixpoint chunks {A} (n : nat) (fuel : nat) (l : list A) : list (list A) :=
  match fuel with O => [] | S f => match l with [] => [] | _ => firstn n l :: chunks n f (skipn n l) end end.
Fixpoint lor_shift (l : list Z) (k : Z) : Z :=
  match l with [] => 0 | x :: r => Z.lor (Z.shiftl x (4 * k)) (lor_shift r (k + 1)) end.
Definition wrap_signed (bits : Z) (v : Z) : Z := let m := v mod 2 ^ bits in if m <? 2 ^ (bits - 1) then m else m - 2 ^ bits.
Definition pack_nibbles (per : nat) (bits : Z) (l : list Z) : list Z :=
  map (fun c => wrap_signed bits (lor_shift c 0)) (chunks per (length l) l).
Definition nibbles_of (per : nat) (v : Z) : list Z := map (fun i => Z.land (Z.shiftr v (4 * Z.of_nat i)) 15) (seq 0 per).
Definition unpack_nibbles (per : nat) (l : list Z) : list Z := flat_map (nibbles_of per) l.

(* ---- movements ---------------------------------------------------------------------------------- *)
(* t[:, idx] on a 2-d tensor *)
Definition t_gather_cols {A} (d : A) (idx : list Z) (t : tensor A) : res (tensor A) :=
  match shape t with
  | [r; c] => if forallb (fun j => (0 <=? j) && (j <? c)) idx
              then Ok (T [r; zlen idx] (flat_map (fun i => map (fun j => zget (data t) (i * c + j) d) idx) (zrange r)))
              else Err "IndexError"%string
  | _ => Err "IndexError"%string
  end.

Definition AWQ_ORDER : list Z := [0; 2; 4; 6; 1; 3; 5; 7].
Definition AWQ_REVERSE_ORDER : list Z := [0; 4; 1; 5; 2; 6; 3; 7].
Definition col_order (order : list Z) (cols : Z) : list Z :=
  flat_map (fun b => map (fun o => 8 * b + o) order) (zrange (cols / 8)).

(* v1: packed[:, col] |= unpacked[:, col*8 + order[i]] << (4 i), int32 *)
Definition v1_move {A} (d : A) (reorder : bool) (t : tensor A) : res (tensor A) :=
  match shape t with
  | [r; c] => if reorder then t_gather_cols d (col_order AWQ_ORDER c) t else Ok t
  | _ => Err "IndexError"%string
  end.
Definition pack_v1 (reorder : bool) (t : tensor Z) : res (tensor Z) :=
  match shape t with
  | [r; c] => m <- t_gather_cols 0 (zrange (8 * (c / 8))) t ;;       (* only whole groups of 8 columns are packed *)
              m2 <- (if reorder then t_gather_cols 0 (col_order AWQ_ORDER (8 * (c / 8))) m else Ok m) ;;
              Ok (T [r; c / 8] (pack_nibbles 8 32 (data m2)))
  | _ => Err "IndexError"%string
  end.
Definition unpack_v1 (reorder : bool) (p : tensor Z) : res (tensor Z) :=
  match shape p with
  | [r; c] => let u := T [r; 8 * c] (unpack_nibbles 8 (data p)) in
              if reorder then t_gather_cols 0 (col_order AWQ_REVERSE_ORDER (8 * c)) u else Ok u
  | _ => Err "IndexError"%string
  end.

(* v2 (quanto): rows permuted inside blocks of 32, pairs interleaved, 4 rows interleaved by blocks of 64, int16 *)
Definition v2_move {A} (d : A) (t : tensor A) : res (tensor A) :=
  match shape t with
  | [N; K] =>
    t1 <- t_reshape [N; K / 32; 4; 4; 2] t ;; t2 <- t_permute d [0; 1; 3; 2; 4] t1 ;;
    t3 <- t_permute d [0; 1; 2; 4; 3] t2 ;; t4 <- t_reshape [N; K] t3 ;;
    t5 <- t_reshape [N / 4; 4; K / 64; 64] t4 ;; t6 <- t_permute d [0; 2; 1; 3] t5 ;;
    t_reshape [N / 4; K / 64; 64; 4] t6
  | _ => Err "AssertionError"%string
  end.
Definition admissible_v2 (N K : Z) : bool := (0 <? N) && (0 <? K) && (N mod 4 =? 0) && (K mod 64 =? 0).
Definition pack_v2 (t : tensor Z) : res (tensor Z) :=
  match shape t with
  | [N; K] => if admissible_v2 N K then m <- v2_move 0 t ;; Ok (T [N / 4; K] (pack_nibbles 4 16 (data m))) else Err "RuntimeError"%string
  | _ => Err "AssertionError"%string
  end.
Definition v2_unmove {A} (d : A) (N K : Z) (t : tensor A) : res (tensor A) :=
  t1 <- t_reshape [N / 4; K / 64; 4; 64] t ;; t2 <- t_permute d [0; 2; 1; 3] t1 ;; t3 <- t_reshape [N; K] t2 ;;
  t4 <- t_reshape [N; K / 32; 4; 2; 4] t3 ;; t5 <- t_permute d [0; 1; 2; 4; 3] t4 ;; t6 <- t_permute d [0; 1; 3; 2; 4] t5 ;;
  t_reshape [N; K] t6.
Definition unpack_v2 (p : tensor Z) : res (tensor Z) :=
  match shape p with
  | [n4; K] => let N := 4 * n4 in
               (* astype(uint16), four masks and shifts concatenated along a new last axis *)
               v2_unmove 0 N K (T [n4; K / 64; 64; 4] (unpack_nibbles 4 (map (fun v => v mod 65536) (data p))))
  | _ => Err "AssertionError"%string
  end.

(* the reference packer shipped under external/awq (interleave = 4, kstride = 64) *)
Definition ref_move {A} (d : A) (t : tensor A) : res (tensor A) :=
  match shape t with
  | [N; K] =>
    t0 <- t_reshape [N; K / 32; 32] t ;;
    t1 <- t_reshape [N; K / 32; 4; 4; 2] t0 ;; t2 <- t_permute d [0; 1; 3; 2; 4] t1 ;; t3 <- t_reshape [N; K / 32; 32] t2 ;;
    t4 <- t_reshape [N; K / 32; 4; 8] t3 ;; t5 <- t_reshape [N; K / 32; 4; 4; 2] t4 ;; t6 <- t_permute d [0; 1; 2; 4; 3] t5 ;;
    t7 <- t_reshape [N; K] t6 ;;
    t8 <- t_reshape [N / 4; 4; K / 64; 64] t7 ;; t9 <- t_permute d [0; 2; 1; 3] t8 ;;
    t_reshape [N / 4; K / 64; 64; 4] t9
  | _ => Err "AssertionError"%string
  end.
Definition pack_ref (t : tensor Z) : res (tensor Z) :=
  match shape t with
  | [N; K] => m <- ref_move 0 t ;; Ok (T [N / 4; K] (pack_nibbles 4 16 (data m)))
  | _ => Err "AssertionError"%string
  end.

(* ---- correspondence checkers --------------------------------------------------------------------- *)
Fixpoint zl_eqb (a b : list Z) : bool :=
  match a, b with [], [] => true | x :: a', y :: b' => Z.eqb x y && zl_eqb a' b' | _, _ => false end.
Definition t_eqb (a b : tensor Z) : bool := zl_eqb (shape a) (shape b) && zl_eqb (data a) (data b).
Definition res_is (r : res (tensor Z)) (t : tensor Z) : bool := match r with Ok x => t_eqb x t | Err _ => false end.
(* a case: the unpacked tensor, and what the implementation produced: v1 plain, v1 reordered, v2, reference *)
Definition chk_awq (c : tensor Z * (tensor Z * tensor Z * option (tensor Z * tensor Z))) : bool :=
  let '(t, (p1, p1r, v2)) := c in
  res_is (pack_v1 false t) p1 && res_is (pack_v1 true t) p1r && res_is (unpack_v1 false p1) t && res_is (unpack_v1 true p1r) t
  && match v2 with Some (p2, pr) => res_is (pack_v2 t) p2 && res_is (pack_ref t) pr && res_is (unpack_v2 p2) t | None => true end.
Fixpoint failing_from {A} (f : A -> bool) (l : list A) (i : nat) : list nat :=
  match l with [] => [] | x :: l' => if f x then failing_from f l' (S i) else i :: failing_from f l' (S i) end.
Definition failing {A} (f : A -> bool) (l : list A) : list nat := failing_from f l 0.
