(* Model of quantize() / freeze() at the level of the module tree and of one module's life cycle
   (optimum/quanto/quantize.py, nn/qmodule.py). *)
From Coq Require Import String List ZArith Bool Lia.
Import ListNotations.
Open Scope string_scope.

(* ---- module trees ------------------------------------------------------------------------------ *)
Inductive kind := KLinear | KConv2d | KLayerNorm | KOther | KQLinear | KQConv2d | KQLayerNorm.

(* a module: its kind, an identity (stands for hyper-parameters, parameters, dtype, device: everything
   quantize() must keep), and named children *)
Inductive mtree := Node (k : kind) (id : nat) (children : list (string * mtree)).

Definition kind_eqb (a b : kind) : bool :=
  match a, b with
  | KLinear, KLinear | KConv2d, KConv2d | KLayerNorm, KLayerNorm | KOther, KOther
  | KQLinear, KQLinear | KQConv2d, KQConv2d | KQLayerNorm, KQLayerNorm => true
  | _, _ => false
  end.

(* the registry (what @register_qmodule declares) and the one conditional creation *)
Definition registry : list (string * string) :=
  [("torch.nn.Linear", "QLinear"); ("torch.nn.Conv2d", "QConv2d"); ("torch.nn.LayerNorm", "QLayerNorm")].

Record qconfig := { cfg_activations : bool (* activations is not None *) }.

Definition qkind (cfg : qconfig) (k : kind) : option kind :=
  match k with
  | KLinear => Some KQLinear
  | KConv2d => Some KQConv2d
  | KLayerNorm => if cfg_activations cfg then Some KQLayerNorm else None
  | _ => None
  end.

(* quantize(model, modules=filter): every module of the tree EXCEPT the root is replaced in its parent
   when the registry has a twin for it and the filter selects it (filter on identities; None = all).
   The replaced module keeps its identity (hyper-parameters, parameter values, dtype, device, name). *)
Definition selected (filter : option (list nat)) (id : nat) : bool :=
  match filter with None => true | Some l => existsb (Nat.eqb id) l end.

Fixpoint qchild (cfg : qconfig) (filter : option (list nat)) (t : mtree) : mtree :=
  match t with
  | Node k id ch =>
    let k' := if selected filter id then match qkind cfg k with Some q => q | None => k end else k in
    Node k' id (map (fun nc => (fst nc, qchild cfg filter (snd nc))) ch)
  end.

Definition quantize_tree (cfg : qconfig) (filter : option (list nat)) (t : mtree) : mtree :=
  match t with
  | Node k id ch => Node k id (map (fun nc => (fst nc, qchild cfg filter (snd nc))) ch)
  end.

(* lookup by path *)
Fixpoint assoc {A} (n : string) (l : list (string * A)) : option A :=
  match l with [] => None | (m, a) :: l' => if String.eqb n m then Some a else assoc n l' end.

Fixpoint at_path (t : mtree) (p : list string) : option mtree :=
  match p, t with
  | [], _ => Some t
  | n :: p', Node _ _ ch => match assoc n ch with Some c => at_path c p' | None => None end
  end.

Definition kind_of (t : mtree) : kind := match t with Node k _ _ => k end.
Definition id_of (t : mtree) : nat := match t with Node _ i _ => i end.
Definition children_names (t : mtree) : list string := match t with Node _ _ ch => map fst ch end.

(* ---- one module's life cycle ------------------------------------------------------------------- *)
(* W: float weights, Q: quantized weights; quant is the (deterministic) dynamic weight quantization
   performed by the qweight property with the module's qtype / axis 0 / group size / optimizer *)
Section Life.
Variables W Q : Type.
Variable quant : W -> Q.
Inductive wstate := Float (w : W) | Frozen (q : Q).
Definition qweight (s : wstate) : Q := match s with Float w => quant w | Frozen q => q end.
Definition freeze (s : wstate) : wstate := Frozen (qweight s).
Definition update (w' : W) (s : wstate) : wstate := match s with Float _ => Float w' | Frozen q => Frozen q end.
End Life.

(* ---- what named_modules(remove_duplicate=False) shows: dotted name, identity, kind ------------- *)
Definition kind_code (k : kind) : Z :=
  match k with KLinear => 0 | KConv2d => 1 | KLayerNorm => 2 | KOther => 3 | KQLinear => 4 | KQConv2d => 5 | KQLayerNorm => 6 end%Z.

Definition join (prefix n : string) : string := if String.eqb prefix "" then n else prefix ++ "." ++ n.

Fixpoint named (prefix : string) (t : mtree) : list (string * nat * Z) :=
  match t with
  | Node k id ch => (prefix, id, kind_code k) :: flat_map (fun nc => named (join prefix (fst nc)) (snd nc)) ch
  end.

Definition obs_eqb (a b : string * nat * Z) : bool :=
  String.eqb (fst (fst a)) (fst (fst b)) && Nat.eqb (snd (fst a)) (snd (fst b)) && Z.eqb (snd a) (snd b).

Fixpoint list_eqb {A} (e : A -> A -> bool) (l1 l2 : list A) : bool :=
  match l1, l2 with
  | [], [] => true
  | a :: l1', b :: l2' => e a b && list_eqb e l1' l2'
  | _, _ => false
  end.

(* one correspondence case: configuration, filter, the tree before, what named_modules shows after *)
Definition chk_quantize (c : bool * option (list nat) * mtree * list (string * nat * Z)) : bool :=
  let '(act, filter, t, observed) := c in
  list_eqb obs_eqb (named "" (quantize_tree {| cfg_activations := act |} filter t)) observed.

Fixpoint failing_from {A} (f : A -> bool) (l : list A) (i : nat) : list nat :=
  match l with [] => [] | x :: l' => if f x then failing_from f l' (S i) else i :: failing_from f l' (S i) end.
Definition failing {A} (f : A -> bool) (l : list A) : list nat := failing_from f l 0.

(* ---- life-cycle histories of a whole quantized model ------------------------------------------- *)
(* The weights never change along these histories, so what a forward pass returns is determined by the
   activation scales, i.e. by the number of calibration passes so far (the "epoch"); freeze, moves, copies
   and state_dict reloads must change neither the epoch nor anything else observable. *)
Inductive lop := LForward | LCalibrate | LFreeze | LMove | LCopy | LReload | LConvert.   (* LConvert: model.to(another float dtype) *)
Record lstate := { l_frozen : bool; l_epoch : nat }.
Definition lstep (act : bool) (s : lstate) (o : lop) : lstate :=
  match o with
  | LCalibrate => {| l_frozen := l_frozen s; l_epoch := if act then S (l_epoch s) else l_epoch s |}
  | LFreeze => {| l_frozen := true; l_epoch := l_epoch s |}
  | LConvert => {| l_frozen := l_frozen s; l_epoch := S (l_epoch s) |}   (* every tensor is re-rounded: outputs may change *)
  | _ => s
  end.
Fixpoint ltrace (act : bool) (s : lstate) (ops : list lop) : list (bool * nat) :=
  match ops with
  | [] => []
  | o :: r => let s' := lstep act s o in (l_frozen s', l_epoch s') :: ltrace act s' r
  end.
Definition lop_of (z : Z) : lop :=
  match z with 0 => LForward | 1 => LCalibrate | 2 => LFreeze | 3 => LMove | 4 => LCopy | 5 => LReload | _ => LConvert end%Z.
Definition fe_eqb (a b : bool * nat) : bool := Bool.eqb (fst a) (fst b) && Nat.eqb (snd a) (snd b).
(* observed trace vs model trace: the frozen flags agree at every step, and whenever the model says the outputs cannot
   have changed (same epoch as at the previous step) the observed output class is the previous one.  (A calibration
   pass MAY leave the outputs on the probe batches unchanged, e.g. in bfloat16: that direction is not demanded.) *)
Fixpoint trace_ok (prev_m prev_o : nat) (m : list (bool * nat)) (o : list (bool * nat)) : bool :=
  match m, o with
  | [], [] => true
  | (fm, em) :: m', (fo, co) :: o' =>
    Bool.eqb fm fo && (if Nat.eqb em prev_m then Nat.eqb co prev_o else true) && trace_ok em co m' o'
  | _, _ => false
  end.
Definition chk_life (c : bool * list Z * list (bool * nat)) : bool :=
  let '(act, ops, observed) := c in
  trace_ok 0 0 (ltrace act {| l_frozen := false; l_epoch := 0 |} (map lop_of ops)) observed.
