(* Model of quantize() / freeze() at the level of the module tree and of one module's life cycle
   (optimum/quanto/quantize.py, nn/qmodule.py). *)
From Coq Require Import String List ZArith Bool Lia.
Import ListNotations.
Open Scope string_scope.

(* ---- module trees ------------------------------------------------------------------------------ *)
Inductive kind := KLinear | KConv2d | KLayerNorm | KOther | KQLinear | KQConv2d | KQLayerNorm.

(* a module: its kind, an identity (stands for hyper-parameters, parameters, dtype, device: everything
   quantize() must keep), and named children *)
Inductive mtree := Node (k : kind) (id : nat) (children : list (string * mtree)).

Definition kind_eqb (a b : kind) : bool :=
  match a, b with
  | KLinear, KLinear | KConv2d, KConv2d | KLayerNorm, KLayerNorm | KOther, KOther
  | KQLinear, KQLinear | KQConv2d, KQConv2d | KQLayerNorm, KQLayerNorm => true
  | _, _ => false
  end.

(* the registry (what @register_qmodule declares) and the one conditional creation *)
Definition registry : list (string * string) :=
  [("torch.nn.Linear", "QLinear"); ("torch.nn.Conv2d", "QConv2d"); ("torch.nn.LayerNorm", "QLayerNorm")].

Record qconfig := { cfg_activations : bool (* activations is not None *) }.

Definition qkind (cfg : qconfig) (k : kind) : option kind :=
  match k with
  | KLinear => Some KQLinear
  | KConv2d => Some KQConv2d
  | KLayerNorm => if cfg_activations cfg then Some KQLayerNorm else None
  | _ => None
  end.

(* quantize(model, modules=filter): every module of the tree EXCEPT the root is replaced in its parent
   when the registry has a twin for it and the filter selects it (filter on identities; None = all).
   The replaced module keeps its identity (hyper-parameters, parameter values, dtype, device, name). *)
Definition selected (filter : option (list nat)) (id : nat) : bool :=
  match filter with None => true | Some l => existsb (Nat.eqb id) l end.

Fixpoint qchild (cfg : qconfig) (filter : option (list nat)) (t : mtree) : mtree :=
  match t with
  | Node k id ch =>
    let k' := if selected filter id then match qkind cfg k with Some q => q | None => k end else k in
    Node k' id (map (fun nc => (fst nc, qchild cfg filter (snd nc))) ch)
  end.

Definition quantize_tree (cfg : qconfig) (filter : option (list nat)) (t : mtree) : mtree :=
  match t with
  | Node k id ch => Node k id (map (fun nc => (fst nc, qchild cfg filter (snd nc))) ch)
  end.

(* lookup by path *)
Fixpoint assoc {A} (n : string) (l : list (string * A)) : option A :=
  match l with [] => None | (m, a) :: l' => if String.eqb n m then Some a else assoc n l' end.

Fixpoint at_path (t : mtree) (p : list string) : option mtree :=
  match p, t with
  | [], _ => Some t
  | n :: p', Node _ _ ch => match assoc n ch with Some c => at_path c p' | None => None end
  end.

Definition kind_of (t : mtree) : kind := match t with Node k _ _ => k end.
Definition id_of (t : mtree) : nat := match t with Node _ i _ => i end.
Definition children_names (t : mtree) : list string := match t with Node _ _ ch => map fst ch end.

(* ---- one module's life cycle ------------------------------------------------------------------- *)
(* W: float weights, Q: quantized weights; quant is the (deterministic) dynamic weight quantization
   performed by the qweight property with the module's qtype / axis 0 / group size / optimizer *)
Section Life.
Variables W Q : Type.
Variable quant : W -> Q.
Inductive wstate := Float (w : W) | Frozen (q : Q).
Definition qweight (s : wstate) : Q := match s with Float w => quant w | Frozen q => q end.
Definition freeze (s : wstate) : wstate := Frozen (qweight s).
Definition update (w' : W) (s : wstate) : wstate := match s with Float _ => Float w' | Frozen q => Frozen q end.
End Life.
