(* AWQ facts at the revision of /repo that Model/Awq.v transcribes (interleave 4, kernel stride 64; AST fingerprints). *)
From Coq Require Import String List ZArith.
Import ListNotations.
Open Scope string_scope.

Definition exp_v2_constants : list (string * Z) := [("pack_v2.I", 4%Z); ("pack_v2.S", 64%Z); ("unpack_v2.I", 4%Z); ("unpack_v2.S", 64%Z)].
Definition exp_awq_prints : list (string * string) := [
  ("pack", "c073db45cb10a18a");
  ("reverse_awq_order", "10eaac75b6fa5b80");
  ("unpack", "2731376032d29a12");
  ("pack_v2", "9f83dfe1942e7273");
  ("unpack_v2", "651aa767f5aaaeb2");
  ("AWQPackedTensor.pack", "1de1404abe3c2c02");
  ("AWQPackedTensor.unpack", "bf806b59b22bc139");
  ("AWQPackedTensor.__torch_dispatch__", "528b000a57367103");
  ("AWQBitsDequantizer.forward", "4c1f09ba4d223574");
  ("AWQBitsTensor.__init__", "9fa0ac6308bac3d9");
  ("AWQBitsTensor.qbits_tensor", "525fcdcc36158dcb");
  ("AWQBitsTensor.dequantize", "3064e282f09273ee");
  ("QBitsTensor.save_to_state_dict", "c0f0e4ae3d8ac5e1");
  ("QBitsTensor.create", "04c4821ab7946e55");
  ("QBitsTensor.optimize", "ee13fbd6bab348eb");
  ("external.pack_intweight", "acc61db5abcd232b")].
