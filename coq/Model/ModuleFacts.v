(* Module-level facts of the revision of /repo that Model/Module.v models (snapshot of translators/gen_mod.py);
   the tie lemmas prove the current source still yields exactly these. *)
From Coq Require Import String List.
Import ListNotations.
Open Scope string_scope.

Definition exp_qcreate : list (string * list string) := [("QLinear", ["module.in_features"; "module.out_features"; "module.bias is not None"; "dtype=module.weight.dtype"; "device=module.weight.device"; "weights=weights"; "activations=activations"; "optimizer=optimizer"]); ("QLinear.returns_none_if", []); ("QConv2d", ["in_channels=module.in_channels"; "out_channels=module.out_channels"; "kernel_size=module.kernel_size"; "stride=module.stride"; "padding=module.padding"; "dilation=module.dilation"; "groups=module.groups"; "bias=module.bias is not None"; "padding_mode=module.padding_mode"; "dtype=module.weight.dtype"; "device=module.weight.device"; "weights=weights"; "activations=activations"; "optimizer=optimizer"]); ("QConv2d.returns_none_if", []); ("QLayerNorm", ["module.normalized_shape"; "module.eps"; "module.elementwise_affine"; "module.bias is not None"; "dtype=None if module.weight is None else module.weight.dtype"; "device=None if module.weight is None else module.weight.device"; "weights=None"; "activations=activations"; "optimizer=None"]); ("QLayerNorm.returns_none_if", ["activations is None"])].
Definition exp_qweight_call : list string := ["self.weight"; "qtype=self.weight_qtype"; "axis=0"; "group_size=self.weight_group_size"; "optimizer=self.optimizer"].
Definition exp_qweight_early : list string := ["self.weight_qtype is None -> return None"; "isinstance(self.weight, QTensor) -> return self.weight"].
Definition exp_freeze_body : list string := ["qweight = self.qweight"; "if qweight is not None:
    self.weight = torch.nn.Parameter(qweight, requires_grad=False)"].
Definition exp_quantize_module : string := "59a4a6c554acd773".
Definition exp_quantize_loop : list string := ["list(model.named_modules(remove_duplicate=False))"; "if modules is not None and m not in modules:"; "if m in qmodules:"; "qmodule = quantize_module(m, **kwargs)"; "if qmodule is not None:"].
Definition exp_mod_prints : list (string * string) := [
  ("quantize", "fcf727d0d1ba219e");
  ("set_module_by_name", "00b3ccf54ac25d90");
  ("freeze", "25477e5a81180cfa");
  ("requantize", "69ea8b35b7db9df3");
  ("QModuleMixin.__init__", "e536293c6641529a");
  ("QModuleMixin.forward", "e5d7e41419d87137");
  ("QModuleMixin.from_module", "059224bb43d933b3");
  ("QModuleMixin.qweight", "33719e3f9683cdee");
  ("QModuleMixin.freeze", "b51772aefbf7c808");
  ("QModuleMixin.frozen", "64231379173d0229");
  ("QModuleMixin._save_to_state_dict", "7d403032e904c165");
  ("QModuleMixin._load_from_state_dict", "292173ce789c4a79");
  ("register_qmodule", "59baa70174e2857d");
  ("quantize_module", "59a4a6c554acd773");
  ("QLinear.qcreate", "072972e8ada9d250");
  ("QLinear.qforward", "d786605ad6fb6e19");
  ("QConv2d.qcreate", "5bcb85c03b1f8ed0");
  ("QConv2d.qforward", "a1335c170222ed06");
  ("QLayerNorm.qcreate", "b3b64f4996dc469d");
  ("QLayerNorm.qforward", "ba00142f0be8eb7e")].
