(* Autograd facts at the revision of /repo that Model/Grad.v models: exp_linear_backward is what grad_input / grad_weight /
   grad_bias transcribe (matmul(gO, other); matmul(gO.reshape(-1, M).t(), input.reshape(-1, K)); gO.sum over all dims but the last),
   exp_ste_backward says every quantizer / dequantizer backward returns the incoming gradient for its tensor argument and None elsewhere. *)
From Coq Require Import String List.
Import ListNotations.
Open Scope string_scope.

Definition exp_linear_backward : list string := ["input_gO = other_gO = bias_gO = None"; "input, other = ctx.saved_tensors"; "out_features, in_features = other.shape"; "ctx.needs_input_grad[0] -> input_gO = torch.matmul(gO, other)"; "ctx.needs_input_grad[1] -> other_gO = torch.matmul(gO.reshape(-1, out_features).t(), input.reshape(-1, in_features))"; "ctx.needs_input_grad[2] -> dim = tuple(range(gO.ndim - 1))"; "ctx.needs_input_grad[2] -> bias_gO = gO.sum(dim)"; "return (input_gO, other_gO, bias_gO)"].
Definition exp_ste_backward : list (string * list string) := [("SymmetricQuantizer.backward", ["gO"; "None"; "None"; "None"; "None"]); ("AffineQuantizer.backward", ["gO"; "None"; "None"; "None"; "None"; "None"]); ("QBytesDequantizer.backward", ["gO"]); ("QBitsDequantizer.backward", ["gO"])].
Definition exp_grad_prints : list (string * string) := [
  ("QTensorLinear.forward", "462a7dfd205c3ccc");
  ("QTensorLinear.backward", "160a9c3654f87037");
  ("linear", "047e6587fc053914");
  ("SymmetricQuantizer.forward", "ad648a62f42e5431");
  ("AffineQuantizer.forward", "f16b25732aa146fe");
  ("QBytesDequantizer.forward", "04b82f1162d01288");
  ("QBitsDequantizer.forward", "b8923451434088ab");
  ("QModuleMixin.qweight", "33719e3f9683cdee");
  ("QModuleMixin.forward", "e5d7e41419d87137");
  ("QModuleMixin.freeze", "b51772aefbf7c808");
  ("QLinear.qforward", "d786605ad6fb6e19");
  ("QConv2d.qforward", "a1335c170222ed06")].
