(* Model of the explicit linear backward (tensor/qtensor_func.py, QTensorLinear.backward) and of the
   straight-through quantizer / dequantizer backwards, over any commutative ring. *)
From Coq Require Import List ZArith Ring.
Import ListNotations.

Section Grad.
Variable A : Type.
Variables (zero one : A) (add mul sub : A -> A -> A) (opp : A -> A).

Fixpoint bsum (n : nat) (f : nat -> A) : A :=
  match n with O => zero | S n' => add (bsum n' f) (f n') end.

(* matrices as index functions; an input of any rank [d1..dr, K] is read as N = d1*..*dr rows of K
   (that is what reshape(-1, in_features) does on row-major data) *)
Definition mat := nat -> nat -> A.
Definition vec := nat -> A.

(* forward: Y = X W^T + b;  X : N x K, W : M x K, b : M *)
Definition lin_forward (K : nat) (X W : mat) (b : vec) : mat := fun n m => add (bsum K (fun k => mul (X n k) (W m k))) (b m).
(* the scalar the upstream gradient G pairs the output with *)
Definition pairing (N M : nat) (G Y : mat) : A := bsum N (fun n => bsum M (fun m => mul (G n m) (Y n m))).

(* backward, as written in the source *)
Definition grad_input (M : nat) (G W : mat) : mat := fun n k => bsum M (fun m => mul (G n m) (W m k)).         (* matmul(gO, other) *)
Definition grad_weight (N : nat) (G X : mat) : mat := fun m k => bsum N (fun n => mul (G n m) (X n k)).        (* matmul(gO.reshape(-1, M).t(), input.reshape(-1, K)) *)
Definition grad_bias (N : nat) (G : mat) : vec := fun m => bsum N (fun n => G n m).                             (* gO.sum(all dims but the last) *)

(* straight-through nodes: quantize / dequantize return the incoming gradient unchanged *)
Definition ste_backward (g : mat) : mat := g.
End Grad.

(* ---- executable instance over Z, on row-major flat lists (for the correspondence runs) ---- *)
Definition zmat (cols : nat) (l : list Z) : nat -> nat -> Z := fun n k => nth (n * cols + k) l 0%Z.
Definition flat (rows cols : nat) (f : nat -> nat -> Z) : list Z :=
  flat_map (fun n => map (fun k => f n k) (seq 0 cols)) (seq 0 rows).
Definition zgrad_input (N M K : nat) (G W : list Z) : list Z := flat N K (grad_input Z 0%Z Z.add Z.mul M (zmat M G) (zmat K W)).
Definition zgrad_weight (N M K : nat) (G X : list Z) : list Z := flat M K (grad_weight Z 0%Z Z.add Z.mul N (zmat M G) (zmat K X)).
Definition zgrad_bias (N M : nat) (G : list Z) : list Z := map (grad_bias Z 0%Z Z.add N (zmat M G)) (seq 0 M).
Definition zforward (N M K : nat) (X W b : list Z) : list Z :=
  flat N M (lin_forward Z 0%Z Z.add Z.mul K (zmat K X) (zmat K W) (fun m => nth m b 0%Z)).

Fixpoint zl_eqb (a b : list Z) : bool :=
  match a, b with [], [] => true | x :: a', y :: b' => Z.eqb x y && zl_eqb a' b' | _, _ => false end.
(* a case: sizes, operands, upstream gradient, and what the implementation returned (output, three gradients; bias may be absent) *)
Definition chk_grad (c : (nat * nat * nat) * (list Z * list Z * option (list Z) * list Z) * (list Z * list Z * list Z * option (list Z))) : bool :=
  let '((N, M, K), (X, W, b, G), (y, gx, gw, gb)) := c in
  let bv := match b with Some l => l | None => repeat 0%Z M end in
  zl_eqb (zforward N M K X W bv) y && zl_eqb (zgrad_input N M K G W) gx && zl_eqb (zgrad_weight N M K G X) gw
  && match b, gb with Some _, Some g => zl_eqb (zgrad_bias N M G) g | None, None => true | _, _ => false end.
Fixpoint failing_from {A} (f : A -> bool) (l : list A) (i : nat) : list nat :=
  match l with [] => [] | x :: l' => if f x then failing_from f l' (S i) else i :: failing_from f l' (S i) end.
Definition failing {A} (f : A -> bool) (l : list A) : list nat := failing_from f l 0.
