(* Model of the calibration context (optimum/quanto/calibrate.py): the actions of __enter__/__exit__
   on torch's global hook registries and function-mode stack, programs with exceptions, and where each
   scale update takes its momentum from. *)
From Coq Require Import String List ZArith Bool.
Import ListNotations.
Open Scope string_scope.

Inductive action :=
| PushMode | PopMode | RegisterPre | RegisterPost | RemovePre | RemovePost
| UnknownAction (src : string).

Inductive momentum_source :=
| MConfigured                        (* self.momentum: what Calibration(momentum=m) was given *)
| MHookDefault (m e : Z)             (* a default of the hook's own signature: constant m * 2^e *)
| MUnknown (src : string).

(* the expected reading of the current source *)
Definition enter_actions : list action := [PushMode; RegisterPre; RegisterPost].
Definition exit_actions : list action := [PopMode; RemovePre; RemovePost].

(* ---- global state touched by a Calibration context: handles are identified by the context that
        created them (one Calibration object = one id, re-usable sequentially) ------------------------ *)
Record gstate := G { pre_hooks : list nat; post_hooks : list nat; modes : list nat }.

Definition remove_first (x : nat) (l : list nat) : list nat :=
  (fix go l := match l with [] => [] | y :: l' => if Nat.eqb x y then l' else y :: go l' end) l.

Definition do_action (c : nat) (a : action) (g : gstate) : gstate :=
  match a with
  | PushMode => G (pre_hooks g) (post_hooks g) (c :: modes g)
  | PopMode => G (pre_hooks g) (post_hooks g) (tl (modes g))
  | RegisterPre => G (c :: pre_hooks g) (post_hooks g) (modes g)
  | RegisterPost => G (pre_hooks g) (c :: post_hooks g) (modes g)
  | RemovePre => G (remove_first c (pre_hooks g)) (post_hooks g) (modes g)
  | RemovePost => G (pre_hooks g) (remove_first c (post_hooks g)) (modes g)
  | UnknownAction _ => g
  end.

Definition run_actions (c : nat) (l : list action) (g : gstate) : gstate :=
  fold_left (fun g a => do_action c a g) l g.

(* programs: nested / sequential `with Calibration(...)` blocks, module forwards, and exceptions.
   Python's `with` runs __exit__ on normal and on exceptional completion and re-raises. *)
Inductive prog :=
| Skip
| Seq (p q : prog)
| With (c : nat) (body : prog)
| Forward
| Raise.

(* result: final state and whether an exception is propagating *)
Fixpoint run (enter exit_ : list action) (p : prog) (g : gstate) : gstate * bool :=
  match p with
  | Skip | Forward => (g, false)
  | Raise => (g, true)
  | Seq p q =>
    let '(g1, ex) := run enter exit_ p g in
    if ex then (g1, true) else run enter exit_ q g1
  | With c body =>
    let g0 := run_actions c enter g in
    let '(g1, ex) := run enter exit_ body g0 in
    (run_actions c exit_ g1, ex)
  end.

(* well-formedness: the context ids opened in a program are not already registered (fresh Calibration
   objects, or sequential re-use of one after it was closed) *)
Fixpoint ids (p : prog) : list nat :=
  match p with
  | Seq p q => ids p ++ ids q
  | With c body => c :: ids body
  | _ => []
  end.
