(* Readable model of quanto's sub-byte packing (optimum/quanto/tensor/qbits/packed.py,
   library/python/unpack.py, library/ext/cpp/unpack.cpp).  Tie/TieC04.v proves the definitions
   generated from the current source are convertible with these. *)
From Coq Require Import String List ZArith Bool.
From QV Require Import Lib.Res Lib.Tensor.
Import ListNotations.
Open Scope Z_scope.

(* the nested helpers of pack_weights / unpack: a shift, written as * or // on MPS *)
Definition lshift (dev : string) (t : tensor Z) (k : Z) : res (tensor Z) :=
  if String.eqb dev "mps"%string then (_ <- guard (0 <=? k) "Unsupported:negpow"%string ;; Ok (t_mul_u8 t (2 ^ k)))
  else Ok (t_shl t k).

Definition rshift (dev : string) (t : tensor Z) (k : Z) : res (tensor Z) :=
  if String.eqb dev "mps"%string then
    (_ <- guard (0 <=? k) "Unsupported:negpow"%string ;; _ <- guard_nz (2 ^ k) ;; Ok (t_floordiv_u8 t (2 ^ k)))
  else Ok (t_shr t k).

Definition pack_step (dev : string) (t : tensor Z) (bits rd : Z) (packed : tensor Z) (i : Z)
  : res (tensor Z) :=
  R <- py_index (shape t) 0 ;;
  let e := Z.min (i * rd + rd) R in
  x <- lshift dev (t_slice0 (t_to_u8 t) (Some (i * rd)) (Some e)) (bits * i) ;;
  p <- t_ior_slice0 packed (Some (e - i * rd)) x ;;
  Ok p.

Definition pack_weights (dev : string) (t : tensor Z) (bits : Z) : res (tensor Z) :=
  _ <- guard_nz bits ;;
  let vpi := 8 / bits in
  R <- py_index (shape t) 0 ;;
  _ <- guard_nz vpi ;;
  let rd := (R + vpi - 1) / vpi in
  psh <- (if zlen (shape t) =? 1 then Ok [rd] else Ok ([rd] ++ py_slice (shape t) (Some 1) None)) ;;
  z <- t_zeros psh ;;
  R' <- py_index (shape t) 0 ;;
  _ <- guard_nz rd ;;
  let it := Z.min vpi (R' / rd + 1) in
  packed <- mfold (pack_step dev t bits rd) (zrange it) z ;;
  Ok packed.

Definition unpack_step (dev : string) (packed : tensor Z) (bits : Z) (acc : list (tensor Z)) (i : Z)
  : res (list (tensor Z)) :=
  _ <- guard (0 <=? bits * (i + 1)) "Unsupported:negpow"%string ;;
  r <- rshift dev (t_and packed (2 ^ (bits * (i + 1)) - 1)) (bits * i) ;;
  Ok (acc ++ [r]).

Definition unpack_py (dev : string) (packed : tensor Z) (bits : Z) : res (tensor Z) :=
  _ <- guard_nz bits ;;
  parts <- mfold (unpack_step dev packed bits) (zrange (8 / bits)) [] ;;
  c <- t_cat0 parts ;;
  Ok (t_to_u8 c).

Definition cpp_unpack_4bit (t : tensor Z) : res (tensor Z) :=
  t_cat0 [t_and t 15; t_shr (t_and t 240) 4].
Definition cpp_unpack_2bit (t : tensor Z) : res (tensor Z) :=
  t_cat0 [t_and t 3; t_shr (t_and t 12) 2; t_shr (t_and t 48) 4; t_shr (t_and t 192) 6].
Definition unpack_cpp (t : tensor Z) (bits : Z) : res (tensor Z) :=
  if bits =? 4 then cpp_unpack_4bit t else if bits =? 2 then cpp_unpack_2bit t
  else Err "invalid_argument"%string.

(* PackedTensor.unpack: unpack through whichever kernel the quanto:: op routes to, then drop the
   padding rows ([: self.shape[0]]) *)
Definition packed_unpack (kernel : tensor Z -> Z -> res (tensor Z)) (data : tensor Z) (bits : Z)
           (size : list Z) : res (tensor Z) :=
  u <- kernel data bits ;;
  R <- py_index size 0 ;;
  Ok (t_slice0 u None (Some R)).

(* quanto::unpack routing (library/ops.py:define.impl): the extension kernel when extensions are
   enabled and the call succeeds, otherwise the python kernel.  [ext = None] is "no kernel
   registered / NotImplementedError". *)
Definition quanto_unpack (ext_enabled : bool) (ext : option (tensor Z -> Z -> res (tensor Z)))
           (py : tensor Z -> Z -> res (tensor Z)) (t : tensor Z) (bits : Z) : res (tensor Z) :=
  if ext_enabled then
    match ext with
    | Some k => match k t bits with Ok r => Ok r | Err _ => py t bits end
    | None => py t bits
    end
  else py t bits.

(* PackedTensor.__torch_dispatch__ *)
Record packed := Packed { p_data : tensor Z; p_bits : Z; p_size : list Z }.
Inductive pop := Detach | Clone | ToCopy (dtype_is_uint8 : bool) | Other (f : tensor Z -> res (tensor Z)).
Inductive pres := RPacked (p : packed) | RPlain (t : tensor Z).

Definition p_dispatch (kernel : tensor Z -> Z -> res (tensor Z)) (op : pop) (p : packed) : res pres :=
  match op with
  | Detach | Clone => Ok (RPacked p)
  | ToCopy true => Ok (RPacked p)
  | ToCopy false => Err "ValueError"%string
  | Other f => u <- packed_unpack kernel (p_data p) (p_bits p) (p_size p) ;; r <- f u ;; Ok (RPlain r)
  end.

Definition pres_value (kernel : tensor Z -> Z -> res (tensor Z)) (r : pres) : res (tensor Z) :=
  match r with
  | RPacked p => packed_unpack kernel (p_data p) (p_bits p) (p_size p)
  | RPlain t => Ok t
  end.

(* fingerprints of the hand-modelled parts of PackedTensor / the quanto:: op routing (see p_dispatch, quanto_unpack) *)
Definition packed_prints : list (string * string) := [
  ("__torch_dispatch__"%string, "3c039bf2d56d3ad1"%string);
  ("pack"%string, "f174e54655fc368a"%string);
  ("__new__"%string, "227c96a4aa7d681d"%string);
  ("__init__"%string, "fb20cf75568bdc59"%string);
  ("__tensor_flatten__"%string, "8d6fd6b8fb2ceb18"%string);
  ("__tensor_unflatten__"%string, "f83b36b1fddf7a89"%string);
  ("load_from_state_dict"%string, "1c164f4fa0746926"%string);
  ("ops.define"%string, "aa7520614c627a3f"%string);
  ("ops.disable_extensions"%string, "be7b437e0c934013"%string)].
