(* Hand-written model of quanto's op dispatch on quantized tensors (qbytes_ops.py, qbits_ops.py,
   qtensor_func.py): the CLASS of every registered implementation, and the algebra that makes
   "data-movement ops commute with dequantization" a theorem.  The tables and per-implementation
   fingerprints it was written against are in Model/QOpsTable.v. *)
From Coq Require Import String List ZArith Bool Lia.
From QV Require Import Lib.Res Lib.Tensor Lib.ListFacts Lib.ND Lib.NDFacts Lib.Num Lib.QTensor.
From QV Require Export Model.QOpsTable.
Import ListNotations.
Open Scope string_scope.

(* how the result of each registered implementation relates to the op on dequantized operands *)
Inductive opclass :=
| CMove        (* re-wraps the moved payload with the unchanged scale: exact *)
| CRescale     (* touches the scale only: one rounding *)
| CSign        (* acts on integer codes (neg, relu): exact when no code is -128 *)
| CRequant     (* computes in float, re-quantizes with a stated scale: within one step *)
| CContraction (* mm / bmm / linear: C07 *)
| CCompare     (* comparison on codes when scales are equal *)
| CCopy        (* copy_/clone/detach/_to_copy: payload and scale copied *)
| CMeta        (* is_same_size, shallow-copy veto: no value *)
| CFallback.   (* always dequantizes first *)

Definition class_of (f : string) : option opclass :=
  match f with
  | "_to_copy" | "detach" | "clone" | "copy_" => Some CCopy
  | "cat" | "stack" | "split" | "unary_type_agnostic_op" | "transpose" | "transpose2d" | "view" => Some CMove
  | "div" | "mul" => Some CRescale
  | "neg" | "relu" => Some CSign
  | "_softmax" | "where" => Some CRequant
  | "bmm" | "mm" | "linear" => Some CContraction
  | "lt" => Some CCompare
  | "is_same_size" | "has_compatible_shallow_copy_type" => Some CMeta
  | "unsupported_op" => Some CFallback
  | _ => None
  end.

Definition covered (t : list (string * list string)) : bool :=
  forallb (fun e => match class_of (fst e) with Some _ => true | None => false end) t.

(* ---- data movement commutes with every element-wise function ---------------------------------------- *)
(* a movement: a shape-driven rearrangement / selection / repetition of elements, parametric in the
   element type (the default element [d] only fills positions that do not exist) *)
Definition movement (g : forall A, A -> tensor A -> res (tensor A)) : Prop :=
  forall A B (f : A -> B) (d : A) (t : tensor A),
    g B (f d) (t_map f t) = (r <- g A d t ;; Ok (t_map f r)).

Section Deq.
Context {F : Type} `{NF : Num F}.

(* dequantization of a per-tensor (scalar scale) 8-bit tensor with a non-0-dim payload *)
Definition deq_scalar (s : F) (data : tensor F) : tensor F := t_map (n_mul s) data.

(* C05 (move class): moving the payload and re-wrapping with the same scalar scale gives exactly the
   moved dequantized tensor *)
Theorem move_commutes_with_dequantize (g : forall A, A -> tensor A -> res (tensor A)) (s : F) (data : tensor F) :
  movement g ->
  g F (n_mul s f0) (deq_scalar s data) = (moved <- g F f0 data ;; Ok (deq_scalar s moved)).
Proof. intros Hg. unfold deq_scalar. apply Hg. Qed.
End Deq.

(* the concrete movers of the vocabulary are movements *)
Lemma reshape_movement sh : movement (fun A _ t => t_reshape sh t).
Proof.
  intros A B f d t. unfold t_reshape, numel, t_map. cbn [shape data].
  destruct ((prodZ sh =? prodZ (shape t))%Z && forallb (fun x => (0 <=? x)%Z) sh); reflexivity.
Qed.

Lemma zget_map {A B} (f : A -> B) (l : list A) i d : zget (map f l) i (f d) = f (zget l i d).
Proof. unfold zget. apply map_nth. Qed.

Lemma permute_movement p : movement (fun A d t => t_permute d p t).
Proof.
  intros A B f d t. unfold t_permute, t_map. cbn [shape data].
  destruct (is_perm p && (zlen p =? zlen (shape t))%Z); [|reflexivity]. cbn [bind]. f_equal. f_equal.
  cbn [data]. rewrite map_map. apply map_ext. intros j. apply zget_map.
Qed.

Lemma slice0_movement a b : movement (fun A _ t => Ok (t_slice0 t a b)).
Proof.
  intros A B f d t. unfold t_slice0, t_map, dim0, stride0, tailshape. cbn [shape data bind].
  destruct (slice_bounds (hd 1%Z (shape t)) a b) as [s n]. cbn [shape data]. f_equal. f_equal.
  rewrite skipn_map, firstn_map. reflexivity.
Qed.

(* ---- C06: the invariant between what a QBytesTensor reports and what it holds ------------------------- *)
Section Inv.
Context {F : Type}.

Definition scale_fits (axis : option Z) (size sshape : list Z) : bool :=
  match axis with
  | None => (prodZ sshape =? 1)%Z
  | Some 0%Z => match size with d0 :: rest => zlist_eqb sshape (d0 :: map (fun _ => 1%Z) rest) | [] => false end
  | Some (-1)%Z => zlist_eqb sshape (map (fun _ => 1%Z) (removelast size) ++ [last size 1%Z])
  | _ => false
  end.

Definition qb_inv (q : qbytes F) : bool :=
  zlist_eqb (shape (qb_data q)) (qb_size q)          (* one code per reported element, same layout *)
  && scale_fits (qb_axis q) (qb_size q) (shape (qb_scale q)).

(* the re-wrap used by every move-class implementation after its repair: size and stride are those of the
   moved payload, axis and scale unchanged (per-tensor) *)
Definition rewrap_moved (q : qbytes F) (moved : tensor F) : qbytes F :=
  QBytes (qb_qtype q) None (shape moved) (contig_strides (shape moved)) moved (qb_scale q).

Theorem rewrap_preserves_inv (q : qbytes F) (moved : tensor F) :
  qb_axis q = None -> qb_inv q = true -> qb_inv (rewrap_moved q moved) = true.
Proof.
  intros Ha H. unfold qb_inv in *. rewrite Ha in H. cbn [rewrap_moved qb_data qb_size qb_axis qb_scale scale_fits] in *.
  apply andb_true_iff in H. destruct H as [_ H2]. apply andb_true_iff. split; [|exact H2].
  generalize (shape moved). intros l. induction l as [|x l IH]; [reflexivity|]. cbn. rewrite Z.eqb_refl. exact IH.
Qed.

(* the stale-size re-wrap (what split did before its repair) breaks the invariant: witness *)
Definition rewrap_stale (q : qbytes F) (moved : tensor F) : qbytes F :=
  QBytes (qb_qtype q) None (qb_size q) (qb_stride q) moved (qb_scale q).
End Inv.

Example stale_size_refuted :
  let q := QBytes qint8 None [4; 6]%Z [6; 1]%Z (T [4; 6]%Z (repeat 0%Z 24)) (T [] [1%Z]) in
  qb_inv q = true /\ qb_inv (rewrap_stale q (T [2; 6]%Z (repeat 0%Z 12))) = false.
Proof. vm_compute. split; reflexivity. Qed.
