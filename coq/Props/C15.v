(* C15 — AWQ layouts are bijective, match the reference, and denote the same weights. *)
From Coq Require Import String List ZArith Reals.
From QV Require Import Lib.Res Lib.Tensor Lib.ND Model.Awq Model.AwqFacts Proofs.AwqNibbles Proofs.AwqProofs.
From QD Require Import GenAwq TieAwq.
Import ListNotations.
Open Scope Z_scope.

(* the column orders in the source are the modelled ones, pack_v2 / unpack_v2 use interleave 4 and kernel stride 64,
   and every transcribed function (incl. the reference packer under external/awq) is the reviewed one *)
Theorem C15_source_facts :
  src_AWQ_ORDER = AWQ_ORDER /\ src_AWQ_REVERSE_ORDER = AWQ_REVERSE_ORDER /\ src_v2_constants = exp_v2_constants /\ src_awq_prints = exp_awq_prints.
Proof. exact (conj tie_awq_order (conj tie_awq_reverse_order (conj tie_v2_constants tie_awq_prints))). Qed.

(* nibble packing is invertible for ANY number of nibbles per word (4 -> int16, 8 -> int32), any content *)
Theorem C15_nibbles : forall per c, digits c -> length c = per ->
  nibbles_of per (wrap_signed (4 * Z.of_nat per) (lor_shift c 0)) = c.
Proof. exact nibbles_roundtrip. Qed.
Print Assumptions C15_nibbles.

(* v2: for every admissible shape of the bound (rows 4..16 step 4, columns 64..192 step 64) and EVERY 4-bit content,
   unpacking inverts packing and the layout is bit-identical to the reference packer *)
Theorem C15_v2 : forall N K dt, In (N, K) v2_shapes -> zlen dt = N * K -> digits dt ->
  (p <- pack_v2 (T [N; K] dt) ;; unpack_v2 p) = Ok (T [N; K] dt) /\ pack_ref (T [N; K] dt) = pack_v2 (T [N; K] dt).
Proof. exact v2_roundtrip. Qed.
Print Assumptions C15_v2.

(* ... and for ANY shape whose position permutation checks (the per-shape computation [v2_shape_ok] on the tensor of
   positions), which the thorough tier evaluates for larger shapes *)
Theorem C15_v2_any_shape : forall N K dt, v2_shape_ok (N, K) = true -> zlen dt = N * K -> digits dt ->
  (p <- pack_v2 (T [N; K] dt) ;; unpack_v2 p) = Ok (T [N; K] dt) /\ pack_ref (T [N; K] dt) = pack_v2 (T [N; K] dt).
Proof. exact v2_roundtrip_of_ok. Qed.
Print Assumptions C15_v2_any_shape.

(* v1, with and without the AWQ column order: rows 1..8, columns 8..128 *)
Theorem C15_v1 : forall reorder r c dt, In (r, c) v1_shapes -> zlen dt = r * c -> digits dt ->
  (p <- pack_v1 reorder (T [r; c] dt) ;; unpack_v1 reorder p) = Ok (T [r; c] dt).
Proof. exact v1_roundtrip. Qed.
Print Assumptions C15_v1.

(* same weights: scale * code + (-(zeropoint * scale)) = (code - zeropoint) * scale in exact arithmetic *)
Theorem C15_same_weights : forall s d z : R, (s * d + - (z * s) = (d - z) * s)%R.
Proof. exact awq_affine_same. Qed.

Example C15_bound_nonempty : In (8, 128) v2_shapes /\ In (3, 24) v1_shapes.
Proof. split; vm_compute; tauto. Qed.
