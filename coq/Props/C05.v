(* C05 — Operations on quantized tensors equal the same operations on dequantized values.
   The per-op implementations are modelled by hand (Model/QOps.v); TieOps proves that the registered
   ops and the fingerprint of every implementation are those the model was written against. *)
From Coq Require Import String List ZArith Bool Reals.
From QV Require Import Lib.Res Lib.Tensor Lib.ND Lib.Num Lib.QTensor Model.QOps Proofs.RealNum Proofs.QOpsReal.
From QD Require Import GenOps TieOps.
Import ListNotations.
Open Scope string_scope.

(* every registered implementation (aten tables of QBytesTensor / QBitsTensor and the function table)
   has a class in the model: a newly registered op without a model entry breaks this *)
Theorem C05_table_covered :
  covered src_table_qbytes = true /\ covered src_table_qbits = true /\ covered src_table_funcs = true.
Proof. rewrite tie_table_qbytes, tie_table_qbits, tie_table_funcs. repeat split; reflexivity. Qed.
Print Assumptions C05_table_covered.

(* move class, for ANY data movement g (parametric rearrangement / selection / repetition), any number
   type, any shape: applying g to the dequantized tensor equals dequantizing the re-wrapped moved payload *)
Theorem C05_move_exact : forall (F : Type) (NF : Num F) (g : forall A, A -> tensor A -> res (tensor A)) (s : F) (data : tensor F),
  movement g ->
  g F (n_mul s f0) (deq_scalar s data) = (moved <- g F f0 data ;; Ok (deq_scalar s moved)).
Proof. intros F NF. exact (@move_commutes_with_dequantize F NF). Qed.
Print Assumptions C05_move_exact.

(* view/reshape, permute/transpose and slicing/select are movements *)
Theorem C05_movers :
  (forall sh, movement (fun A _ t => t_reshape sh t)) /\
  (forall p, movement (fun A d t => t_permute d p t)) /\
  (forall a b, movement (fun A _ t => Ok (t_slice0 t a b))).
Proof. repeat split; [apply reshape_movement | apply permute_movement | apply slice0_movement]. Qed.
Print Assumptions C05_movers.

(* PROGRAMS of data-movement ops (the property's quantifier: sequences of any depth).  Every op quanto forwards to
   the payload of a per-tensor tensor (view / reshape, transpose / permute, select, slice, unsqueeze, expand, split
   chunks) is a gather - result elements are operand elements at indices computed from the operand's shape only -,
   gathers are movements, movements compose: for EVERY sequence [ops] of movements, of any length, any number type,
   any shapes, running it on the payload then dequantizing equals running it on the dequantized tensor; raising is
   preserved too (both sides are the same [res]).  cat / stack of payloads sharing their scale likewise. *)
From QV Require Import Proofs.QOpsMoves.
Theorem C05_program_exact : forall (F : Type) (NF : Num F) (ops : list mover) (s : F) (data : tensor F),
  Forall movement ops ->
  run ops F (n_mul s f0) (deq_scalar s data) = (moved <- run ops F f0 data ;; Ok (deq_scalar s moved)).
Proof. intros F NF. exact (@program_commutes_with_dequantize F NF). Qed.
Print Assumptions C05_program_exact.
Theorem C05_gathers_are_movements :
  (forall plan, movement (gather plan)) /\ (forall target, movement (t_expand target)) /\
  (forall i, movement (t_select0 i)) /\ movement t_unsqueeze0.
Proof. repeat split; [apply gather_movement | apply expand_movement | apply select0_movement | apply unsqueeze0_movement]. Qed.
Theorem C05_cat_exact : forall (F : Type) (NF : Num F) (s : F) (payloads : list (tensor F)),
  t_cat0 (map (deq_scalar s) payloads) = (r <- t_cat0 payloads ;; Ok (deq_scalar s r)).
Proof. intros F NF. exact (@cat0_commutes_with_dequantize F NF). Qed.
Print Assumptions C05_cat_exact.

(* the one op that keeps a PER-AXIS tensor quantized while moving data - aten.t on a matrix quantized along its
   first axis (the payload and the (a,1) scale are transposed, the axis flips): for any number type and any a x b
   matrix, transposing the dequantized matrix equals dequantizing the transposed payload with the transposed scale *)
From QV Require Import Proofs.QuantProofs Proofs.QOpsAxisT.
Theorem C05_per_axis_transpose_exact : forall (F : Type) (NF : Num F) (a b : Z) (sd dd : list F),
  (0 < a)%Z -> (0 < b)%Z -> zlen dd = (a * b)%Z ->
  t_permute f0 [1; 0]%Z (deq_axis [a; b]%Z [a; 1]%Z sd dd) =
  (moved <- t_permute f0 [1; 0]%Z (T [a; b]%Z dd) ;; Ok (deq_axis [b; a]%Z [1; a]%Z sd (data moved))).
Proof. intros F NF. exact (@transpose2d_commutes_with_dequantize F NF). Qed.
Print Assumptions C05_per_axis_transpose_exact.

(* comparison class (lt on integer codes when qtype and scale agree): with a positive common scale the order of the
   dequantized values is the order of the codes *)
Theorem C05_compare_exact : forall s a b : R, (0 < s)%R -> ((s * a < s * b)%R <-> (a < b)%R).
Proof. exact compare_codes_exact. Qed.

Example C05_classes : class_of "split" = Some CMove /\ class_of "mul" = Some CRescale /\ class_of "_softmax" = Some CRequant.
Proof. repeat split. Qed.

(* arithmetic classes, in exact arithmetic: rescale (mul / div by a scalar touch the scale only) and sign (neg, relu
   act on the codes) equal the float operation on the dequantized value; relu needs a non-negative scale, and the
   statement is refuted for a negative one (known finding F25) *)
Theorem C05_rescale_mul_exact : forall (s k : R) (data : tensor R), deqR (k * s) data = t_map (Rmult k) (deqR s data).
Proof. exact rescale_mul_exact. Qed.
Theorem C05_rescale_div_exact : forall (s k : R) (data : tensor R), k <> 0%R -> deqR (s / k) data = t_map (fun y => (y / k)%R) (deqR s data).
Proof. exact rescale_div_exact. Qed.
Theorem C05_sign_neg_exact : forall (s : R) (data : tensor R), deqR s (t_map Ropp data) = t_map Ropp (deqR s data).
Proof. exact sign_neg_exact. Qed.
Theorem C05_sign_relu_exact : forall (s : R) (data : tensor R), (0 <= s)%R ->
  deqR s (t_map (fun d => Rmax d 0) data) = t_map (fun y => Rmax y 0) (deqR s data).
Proof. exact sign_relu_exact. Qed.
Theorem C05_relu_negative_scale_refuted : exists (s : R) (data : tensor R), (s < 0)%R /\
  deqR s (t_map (fun d => Rmax d 0) data) <> t_map (fun y => Rmax y 0) (deqR s data).
Proof. exact sign_relu_negative_scale_refuted. Qed.
Print Assumptions C05_sign_relu_exact.

(* re-quantizing class (_softmax, where), exact arithmetic, element level, qint8: "within one step of the output
   scale when it re-quantizes" - in fact within half a step whenever the float result fits the output grid.
   softmax: scale 1/127, outputs in [0,1]: never saturated.  where: elements kept from the quantized input are
   reproduced EXACTLY, elements of [other] within half a step if they fit, else saturated (F22, refuted form). *)
From QV Require Import Proofs.QuantProofs Proofs.QOpsRequant.
Theorem C05_requant_half_step : forall y s : R, (0 < s)%R -> (-128 * s <= y <= 127 * s)%R ->
  (Rabs (symdq qint8 y s - y) <= s / 2)%R.
Proof. exact requant_half_step_R. Qed.
Theorem C05_requant_softmax : forall y : R, (0 <= y <= 1)%R -> (Rabs (symdq qint8 y (/ 127) - y) <= / 254)%R.
Proof. exact requant_softmax_R. Qed.
Theorem C05_requant_where_kept : forall (s : R) (k : Z), (0 < s)%R -> (-128 <= k <= 127)%Z ->
  symq qint8 (s * IZR k)%R s = IZR k /\ symdq qint8 (s * IZR k)%R s = (s * IZR k)%R.
Proof. exact requant_where_kept_R. Qed.
Theorem C05_requant_where_other : forall y s : R, (0 < s)%R -> (Rabs y <= 127 * s)%R ->
  (Rabs (symdq qint8 y s - y) <= s / 2)%R.
Proof. exact requant_where_other_R. Qed.
Theorem C05_requant_where_saturation_refuted : exists y s : R, (0 < s)%R /\ (s / 2 < Rabs (symdq qint8 y s - y))%R.
Proof. exact requant_where_saturates_R. Qed.
Print Assumptions C05_requant_where_kept.

(* the same "kept exactly" statement at the level of IEEE arithmetic (Flocq), float32 and float16: the float
   product s*k of ANY finite positive scale with a representable grid and ANY code k re-quantizes to k *)
From Coq Require Import Lia.
From Flocq Require Import Core IEEE754.BinarySingleNaN.
From QV Require Import Float.F Proofs.FloatFacts Proofs.C01Float Proofs.C01Requant.
Definition C05_where_kept_float_statement (prec emax : Z) (NF : Num (binary_float prec emax)) : Prop :=
  forall (s : binary_float prec emax) (k : Z),
  is_finite s = true -> (0 < B2R s)%R -> (128 * B2R s <= Fmax prec emax)%R -> (-128 <= k <= 127)%Z ->
  @symq _ NF qint8 (@n_mul _ NF s (@n_of_Z _ NF k)) s = @n_of_Z _ NF k.
Theorem C05_requant_where_kept_float32 : C05_where_kept_float_statement 24 128 Num32.
Proof. exact (qint8_code_of_grid_point 24 128 Hp24 Hpe24 ltac:(lia) ltac:(lia)). Qed.
Theorem C05_requant_where_kept_float16 : C05_where_kept_float_statement 11 16 Num16.
Proof. exact (qint8_code_of_grid_point 11 16 Hp11 Hpe11 ltac:(lia) ltac:(lia)). Qed.
Print Assumptions C05_requant_where_kept_float16.
