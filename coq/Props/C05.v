(* C05 — Operations on quantized tensors equal the same operations on dequantized values.
   The per-op implementations are modelled by hand (Model/QOps.v); TieOps proves that the registered
   ops and the fingerprint of every implementation are those the model was written against. *)
From Coq Require Import String List ZArith Bool Reals.
From QV Require Import Lib.Res Lib.Tensor Lib.ND Lib.Num Lib.QTensor Model.QOps Proofs.RealNum Proofs.QOpsReal.
From QD Require Import GenOps TieOps.
Import ListNotations.
Open Scope string_scope.

(* every registered implementation (aten tables of QBytesTensor / QBitsTensor and the function table)
   has a class in the model: a newly registered op without a model entry breaks this *)
Theorem C05_table_covered :
  covered src_table_qbytes = true /\ covered src_table_qbits = true /\ covered src_table_funcs = true.
Proof. rewrite tie_table_qbytes, tie_table_qbits, tie_table_funcs. repeat split; reflexivity. Qed.
Print Assumptions C05_table_covered.

(* move class, for ANY data movement g (parametric rearrangement / selection / repetition), any number
   type, any shape: applying g to the dequantized tensor equals dequantizing the re-wrapped moved payload *)
Theorem C05_move_exact : forall (F : Type) (NF : Num F) (g : forall A, A -> tensor A -> res (tensor A)) (s : F) (data : tensor F),
  movement g ->
  g F (n_mul s f0) (deq_scalar s data) = (moved <- g F f0 data ;; Ok (deq_scalar s moved)).
Proof. intros F NF. exact (@move_commutes_with_dequantize F NF). Qed.
Print Assumptions C05_move_exact.

(* view/reshape, permute/transpose and slicing/select are movements *)
Theorem C05_movers :
  (forall sh, movement (fun A _ t => t_reshape sh t)) /\
  (forall p, movement (fun A d t => t_permute d p t)) /\
  (forall a b, movement (fun A _ t => Ok (t_slice0 t a b))).
Proof. repeat split; [apply reshape_movement | apply permute_movement | apply slice0_movement]. Qed.
Print Assumptions C05_movers.

Example C05_classes : class_of "split" = Some CMove /\ class_of "mul" = Some CRescale /\ class_of "_softmax" = Some CRequant.
Proof. repeat split. Qed.

(* arithmetic classes, in exact arithmetic: rescale (mul / div by a scalar touch the scale only) and sign (neg, relu
   act on the codes) equal the float operation on the dequantized value; relu needs a non-negative scale, and the
   statement is refuted for a negative one (known finding F25) *)
Theorem C05_rescale_mul_exact : forall (s k : R) (data : tensor R), deqR (k * s) data = t_map (Rmult k) (deqR s data).
Proof. exact rescale_mul_exact. Qed.
Theorem C05_rescale_div_exact : forall (s k : R) (data : tensor R), k <> 0%R -> deqR (s / k) data = t_map (fun y => (y / k)%R) (deqR s data).
Proof. exact rescale_div_exact. Qed.
Theorem C05_sign_neg_exact : forall (s : R) (data : tensor R), deqR s (t_map Ropp data) = t_map Ropp (deqR s data).
Proof. exact sign_neg_exact. Qed.
Theorem C05_sign_relu_exact : forall (s : R) (data : tensor R), (0 <= s)%R ->
  deqR s (t_map (fun d => Rmax d 0) data) = t_map (fun y => Rmax y 0) (deqR s data).
Proof. exact sign_relu_exact. Qed.
Theorem C05_relu_negative_scale_refuted : exists (s : R) (data : tensor R), (s < 0)%R /\
  deqR s (t_map (fun d => Rmax d 0) data) <> t_map (fun y => Rmax y 0) (deqR s data).
Proof. exact sign_relu_negative_scale_refuted. Qed.
Print Assumptions C05_sign_relu_exact.
