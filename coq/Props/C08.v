(* C08 — quantize() swaps exactly the eligible modules and each computes its float twin. *)
From Coq Require Import String List ZArith Bool.
From QV Require Import Model.Module Model.ModuleFacts Proofs.ModuleProofs.
From QD Require Import GenMod TieMod.
Import ListNotations.
Open Scope string_scope.

(* the registry declared by the @register_qmodule decorators, the arguments each qcreate mirrors, the
   LayerNorm condition and the loop of quantize() are the modelled ones *)
Theorem C08_source_facts :
  src_registry = registry /\ src_qcreate = exp_qcreate /\ src_quantize_loop = exp_quantize_loop /\
  src_quantize_module = exp_quantize_module /\ src_mod_prints = exp_mod_prints.
Proof. exact (conj tie_registry (conj tie_qcreate (conj tie_quantize_loop (conj tie_quantize_module tie_mod_prints)))). Qed.
Print Assumptions C08_source_facts.

(* at ANY nesting depth and for ANY tree: the module at a non-root path of the quantized tree is the
   image of the module at the same path of the original tree ... *)
Theorem C08_swap_exact : forall cfg filter t n p,
  at_path (quantize_tree cfg filter t) (n :: p) = option_map (qchild cfg filter) (at_path t (n :: p)).
Proof. exact quantize_swaps_exactly. Qed.
Print Assumptions C08_swap_exact.

(* ... where the image keeps identity (hyper-parameters, parameter values, dtype, device, name) and
   children names, and changes kind exactly when selected by the filter and eligible: Linear and Conv2d
   always, LayerNorm only when activations are quantized; every other module is untouched *)
Theorem C08_image : forall cfg filter t,
  id_of (qchild cfg filter t) = id_of t /\ children_names (qchild cfg filter t) = children_names t /\
  kind_of (qchild cfg filter t) =
    (if selected filter (id_of t) then match qkind cfg (kind_of t) with Some q => q | None => kind_of t end
     else kind_of t).
Proof. intros. split; [apply qchild_id|]. split; [apply qchild_names | apply qchild_kind]. Qed.
Print Assumptions C08_image.

Example C08_eligibility :
  qkind {| cfg_activations := false |} KLayerNorm = None /\ qkind {| cfg_activations := true |} KLayerNorm = Some KQLayerNorm /\
  qkind {| cfg_activations := false |} KLinear = Some KQLinear /\ qkind {| cfg_activations := false |} KOther = None.
Proof. repeat split. Qed.

(* named_modules() after quantize() lists the same dotted names in the same order with the same identities:
   nothing is added, removed, renamed or moved *)
Theorem C08_names_kept : forall cfg filter t,
  map name_id (named "" (quantize_tree cfg filter t)) = map name_id (named "" t).
Proof. exact named_quantize_names. Qed.
Print Assumptions C08_names_kept.
