(* C02 — int2/int4 affine quantization error is at most half a step per group.
   Statements only, over the functions generated from the current source. *)
From Coq Require Import String List ZArith Bool Lia Reals Lra.
From QV Require Import Lib.Res Lib.Tensor Lib.ND Lib.NDFacts Lib.Num Lib.QTensor Model.Quant
     Proofs.QuantProofs Proofs.RealNum Proofs.GroupProofs Proofs.AffineReal Proofs.AffineProofs Proofs.ScaleProofs Proofs.MaxCells.
From Flocq Require Import Core.
From QD Require Import GenNum TieC02.
Import ListNotations.
Open Scope Z_scope.

(* (1) shape: grouping along the first axis is inverted by ungroup, for every shape and every
       admissible group size; the grouped tensor has (numel/g) rows of g elements *)
Theorem C02_shape_axis0 : forall (F : Type) (NF : Num F) (base : tensor F) d0 rest g,
  shape base = d0 :: rest -> pos_dims (d0 :: rest) -> zlen (data base) = numel base ->
  0 < g -> g <= prodZ rest -> prodZ rest mod g = 0 ->
  exists G, src_group base (Some 0) g = Ok G /\ shape G = [numel base / g; g] /\ data G = data base /\
            src_ungroup G (Some 0) (shape base) = Ok base.
Proof. intros F NF. rewrite tie_group, tie_ungroup. exact (@group_ungroup_axis0 F NF). Qed.
Print Assumptions C02_shape_axis0.

(* (2) shape: grouping along the last axis (reshape, permute (1,2,0), reshape) is inverted by ungroup
       (reshape, permute (2,0,1), reshape), for every rank, shape and admissible group size *)
Theorem C02_shape_axis_last : forall (F : Type) (NF : Num F) (base : tensor F) init dl g,
  shape base = init ++ [dl] -> pos_dims (init ++ [dl]) -> zlen (data base) = numel base ->
  0 < g -> g <= prodZ init -> prodZ init mod g = 0 ->
  exists G, src_group base (Some (-1)) g = Ok G /\ shape G = [g; dl * (prodZ init / g)] /\
            src_ungroup G (Some (-1)) (shape base) = Ok base.
Proof. intros F NF. rewrite tie_group, tie_ungroup. exact (@group_ungroup_axis_last F NF). Qed.
Print Assumptions C02_shape_axis_last.

(* (3) structure: every element of the (grouped) tensor is coded with the scale and zero-point of its
       own cell, by the element-level function affq *)
Theorem C02_elementwise : forall (F : Type) (NF : Num F) (base : tensor F) q axis scale zp z,
  src_affine_forward base q axis None scale zp = Ok z ->
  shape base <> [] -> pos_dims (shape base) -> bsub (shape scale) (shape base) -> shape zp = shape scale ->
  let sj := fun j => zget (data scale) (sidx (shape base) (shape scale) j) f0 in
  let zj := fun j => zget (data zp) (sidx (shape base) (shape scale) j) f0 in
  qz_data z = T (shape base)
                (map (fun j => affq (q_bits q) (zget (data base) j f0) (sj j) (zj j)) (zrange (numel base))).
Proof. intros F NF. rewrite tie_affine_forward. exact (@affine_forward_elementwise F NF). Qed.
Print Assumptions C02_elementwise.

(* (4) exact arithmetic, element level: for a range [lo, hi] containing zero and the element, with
       scale (hi-lo)/(2^bits-1) and zero-point round(-lo/scale): the zero-point and the code are
       integers of [0, 2^bits-1] (so neither the int8 zero-point nor the uint8 code wraps) and the
       dequantized value is within half a step of the element *)
Theorem C02_half_step_exact : forall (bits : Z) (x lo hi : R),
  1 <= bits <= 7 -> (lo <= 0 <= hi)%R -> (lo <= x <= hi)%R -> (lo < hi)%R ->
  let L := 2 ^ bits - 1 in
  let s := ((hi - lo) / IZR L)%R in
  let zp := IZR (ZnearestE (- lo / s)) in
  exists c zi : Z, 0 <= c <= L /\ 0 <= zi <= L /\ zp = IZR zi /\
    affq bits x s zp = IZR c /\ (Rabs (affdq s (IZR c) zp - x) <= s / 2)%R.
Proof. exact affine_element_half_step. Qed.
Print Assumptions C02_half_step_exact.

(* non-vacuity: bits = 4, range [0, 11] (a group confined far from zero, after the repair of the
   optimizer), x = 10.4 *)
Example C02_hyps_satisfiable : (0 <= 0 <= 11)%R /\ (0 <= 104 / 10 <= 11)%R /\ (0 < 11)%R.
Proof. repeat split; lra. Qed.

(* MaxOptimizer (int2 / int4), for any number type, rank and shape: one scale per cell of the reduction (per kept-axis
   index, or per group after grouping), equal to (max(cell max, 0) - min(cell min, 0)) / (2^bits - 1), where the cell
   minimum and maximum are folds over exactly the members of that cell: the quantization range is the hull of the
   cell and zero, and nothing outside the cell influences it *)
Theorem C02_max_optimizer_cells : forall (F : Type) (NF : Num F) (base S Zp : tensor F) bits a,
  pos_dims (shape base) -> shape base <> [] ->
  src_max_optimize base bits (Some a) = Ok (S, Zp) ->
  let rd := opt_dims base (Some a) in
  shape S = red_shape (shape base) rd /\
  forall c, 0 <= c < prodZ (shape S) ->
    exists mn mx, cell_fold n_min base rd c = Some mn /\ cell_fold n_max base rd c = Some mx /\
      zget (data S) c f0 =
      n_div (n_sub (n_max mx (n_of_Z 0)) (n_min mn (n_of_Z 0))) (n_of_Z ((2 ^ (bits - 1) - 1) - (- 2 ^ (bits - 1)))).
Proof. intros F NF. rewrite tie_max_optimize. exact (@max_optimize_cells F NF). Qed.
Print Assumptions C02_max_optimizer_cells.
