(* C02 — int2/int4 affine quantization error is at most half a step per group.
   Statements only, over the functions generated from the current source. *)
From Coq Require Import String List ZArith Bool Lia Reals Lra.
From QV Require Import Lib.Res Lib.Tensor Lib.ND Lib.NDFacts Lib.Num Lib.QTensor Model.Quant
     Proofs.QuantProofs Proofs.RealNum Proofs.GroupProofs Proofs.AffineReal Proofs.AffineProofs Proofs.ScaleProofs Proofs.MaxCells.
From Flocq Require Import Core.
From QD Require Import GenNum TieC02.
Import ListNotations.
Open Scope Z_scope.

(* (1) shape: grouping along the first axis is inverted by ungroup, for every shape and every
       admissible group size; the grouped tensor has (numel/g) rows of g elements *)
Theorem C02_shape_axis0 : forall (F : Type) (NF : Num F) (base : tensor F) d0 rest g,
  shape base = d0 :: rest -> pos_dims (d0 :: rest) -> zlen (data base) = numel base ->
  0 < g -> g <= prodZ rest -> prodZ rest mod g = 0 ->
  exists G, src_group base (Some 0) g = Ok G /\ shape G = [numel base / g; g] /\ data G = data base /\
            src_ungroup G (Some 0) (shape base) = Ok base.
Proof. intros F NF. rewrite tie_group, tie_ungroup. exact (@group_ungroup_axis0 F NF). Qed.
Print Assumptions C02_shape_axis0.

(* (2) shape: grouping along the last axis (reshape, permute (1,2,0), reshape) is inverted by ungroup
       (reshape, permute (2,0,1), reshape), for every rank, shape and admissible group size *)
Theorem C02_shape_axis_last : forall (F : Type) (NF : Num F) (base : tensor F) init dl g,
  shape base = init ++ [dl] -> pos_dims (init ++ [dl]) -> zlen (data base) = numel base ->
  0 < g -> g <= prodZ init -> prodZ init mod g = 0 ->
  exists G, src_group base (Some (-1)) g = Ok G /\ shape G = [g; dl * (prodZ init / g)] /\
            src_ungroup G (Some (-1)) (shape base) = Ok base.
Proof. intros F NF. rewrite tie_group, tie_ungroup. exact (@group_ungroup_axis_last F NF). Qed.
Print Assumptions C02_shape_axis_last.

(* (3) structure: every element of the (grouped) tensor is coded with the scale and zero-point of its
       own cell, by the element-level function affq *)
Theorem C02_elementwise : forall (F : Type) (NF : Num F) (base : tensor F) q axis scale zp z,
  src_affine_forward base q axis None scale zp = Ok z ->
  shape base <> [] -> pos_dims (shape base) -> bsub (shape scale) (shape base) -> shape zp = shape scale ->
  let sj := fun j => zget (data scale) (sidx (shape base) (shape scale) j) f0 in
  let zj := fun j => zget (data zp) (sidx (shape base) (shape scale) j) f0 in
  qz_data z = T (shape base)
                (map (fun j => affq (q_bits q) (zget (data base) j f0) (sj j) (zj j)) (zrange (numel base))).
Proof. intros F NF. rewrite tie_affine_forward. exact (@affine_forward_elementwise F NF). Qed.
Print Assumptions C02_elementwise.

(* (4) exact arithmetic, element level: for a range [lo, hi] containing zero and the element, with
       scale (hi-lo)/(2^bits-1) and zero-point round(-lo/scale): the zero-point and the code are
       integers of [0, 2^bits-1] (so neither the int8 zero-point nor the uint8 code wraps) and the
       dequantized value is within half a step of the element *)
Theorem C02_half_step_exact : forall (bits : Z) (x lo hi : R),
  1 <= bits <= 7 -> (lo <= 0 <= hi)%R -> (lo <= x <= hi)%R -> (lo < hi)%R ->
  let L := 2 ^ bits - 1 in
  let s := ((hi - lo) / IZR L)%R in
  let zp := IZR (ZnearestE (- lo / s)) in
  exists c zi : Z, 0 <= c <= L /\ 0 <= zi <= L /\ zp = IZR zi /\
    affq bits x s zp = IZR c /\ (Rabs (affdq s (IZR c) zp - x) <= s / 2)%R.
Proof. exact affine_element_half_step. Qed.
Print Assumptions C02_half_step_exact.

(* non-vacuity: bits = 4, range [0, 11] (a group confined far from zero, after the repair of the
   optimizer), x = 10.4 *)
Example C02_hyps_satisfiable : (0 <= 0 <= 11)%R /\ (0 <= 104 / 10 <= 11)%R /\ (0 < 11)%R.
Proof. repeat split; lra. Qed.

(* (5) IEEE arithmetic (Flocq; float32 / float16 / bfloat16), element level.  For EVERY finite x within
       2^(prec-2) steps of zero, every finite positive scale with a representable grid and every integer
       zero-point of [0, L], L = 2^bits - 1, bits <= 7:
       - the code is an integer c of [0, L] stored exactly: the uint8 cast of the code and the int8 casts of
         the dequantizer never wrap;
       - the dequantized value is finite and, up to the stated rounding slack, a closest point of the affine
         grid { s * (v - zp) : 0 <= v <= L }  (C02_nearest_float: saturation to the nearer end beyond it);
       - inside the span of the grid the error is at most HALF A STEP s/2 plus that slack (C02_half_step_float).
       slack = 2(u|x| + s*eta) + (u|s(c-zp)| + eta),  u = 2^-prec, eta = half the smallest subnormal. *)
From Flocq Require Import IEEE754.BinarySingleNaN.
From QV Require Import Float.F Proofs.FloatFacts Proofs.C01Float Proofs.AffineFloat.
Open Scope Z_scope.
Definition C02_nearest_float_statement (prec emax : Z) (NF : Num (binary_float prec emax)) : Prop :=
  forall (bits : Z) (x s : binary_float prec emax) (zi : Z),
  let L := 2 ^ bits - 1 in let ofZ := @n_of_Z _ NF in
  1 <= bits <= 7 -> 0 <= zi <= L ->
  is_finite x = true -> is_finite s = true -> (0 < B2R s)%R ->
  (Rabs (B2R x) <= IZR (2 ^ (prec - 2)) * B2R s)%R -> (IZR L * B2R s <= Fmax prec emax)%R ->
  exists c : Z, 0 <= c <= L /\ @affq _ NF bits x s (ofZ zi) = ofZ c /\
    is_finite (@affdq _ NF s (ofZ c) (ofZ zi)) = true /\
    forall v : Z, 0 <= v <= L ->
      (Rabs (B2R (@affdq _ NF s (ofZ c) (ofZ zi)) - B2R x) <=
       Rabs (B2R s * IZR (v - zi) - B2R x)
       + (2 * (uro prec * Rabs (B2R x) + B2R s * eta prec emax)
          + (uro prec * Rabs (B2R s * IZR (c - zi)) + eta prec emax)))%R.

Definition C02_half_step_float_statement (prec emax : Z) (NF : Num (binary_float prec emax)) : Prop :=
  forall (bits : Z) (x s : binary_float prec emax) (zi : Z),
  let L := 2 ^ bits - 1 in let ofZ := @n_of_Z _ NF in
  1 <= bits <= 7 -> 0 <= zi <= L ->
  is_finite x = true -> is_finite s = true -> (0 < B2R s)%R ->
  (Rabs (B2R x) <= IZR (2 ^ (prec - 2)) * B2R s)%R -> (IZR L * B2R s <= Fmax prec emax)%R ->
  (B2R s * IZR (0 - zi) <= B2R x <= B2R s * IZR (L - zi))%R ->
  exists c : Z, 0 <= c <= L /\ @affq _ NF bits x s (ofZ zi) = ofZ c /\
    is_finite (@affdq _ NF s (ofZ c) (ofZ zi)) = true /\
    (Rabs (B2R (@affdq _ NF s (ofZ c) (ofZ zi)) - B2R x) <=
       B2R s / 2 + (2 * (uro prec * Rabs (B2R x) + B2R s * eta prec emax)
                    + (uro prec * Rabs (B2R s * IZR (c - zi)) + eta prec emax)))%R.

Theorem C02_nearest_float32 : C02_nearest_float_statement 24 128 Num32.
Proof. exact (affine_nearest_float 24 128 Hp24 Hpe24 ltac:(lia) ltac:(lia)). Qed.
Print Assumptions C02_nearest_float32.
Theorem C02_nearest_float16 : C02_nearest_float_statement 11 16 Num16.
Proof. exact (affine_nearest_float 11 16 Hp11 Hpe11 ltac:(lia) ltac:(lia)). Qed.
Print Assumptions C02_nearest_float16.
Theorem C02_nearest_bfloat16 : C02_nearest_float_statement 8 128 NumB16.
Proof. exact (affine_nearest_float 8 128 Hp8 Hpe8 ltac:(lia) ltac:(lia)). Qed.
Print Assumptions C02_nearest_bfloat16.
Theorem C02_half_step_float32 : C02_half_step_float_statement 24 128 Num32.
Proof. exact (affine_half_step_float 24 128 Hp24 Hpe24 ltac:(lia) ltac:(lia)). Qed.
Print Assumptions C02_half_step_float32.
Theorem C02_half_step_float16 : C02_half_step_float_statement 11 16 Num16.
Proof. exact (affine_half_step_float 11 16 Hp11 Hpe11 ltac:(lia) ltac:(lia)). Qed.
Print Assumptions C02_half_step_float16.
Theorem C02_half_step_bfloat16 : C02_half_step_float_statement 8 128 NumB16.
Proof. exact (affine_half_step_float 8 128 Hp8 Hpe8 ltac:(lia) ltac:(lia)). Qed.
Print Assumptions C02_half_step_bfloat16.

(* (6) IEEE arithmetic, last sentence of the property - requantization stability, int2 / int4, all three working
       formats (bfloat16 included: |c - zp| <= 15 keeps the two roundings far below a half): for EVERY finite positive
       scale with a representable grid, every integer zero-point and every code c of [0, L], the dequantized value
       s * (c - zp), quantized again with the same scale and zero-point, gives back exactly c. *)
From QV Require Import Proofs.AffineRequant.
Definition C02_requant_statement (prec emax : Z) (NF : Num (binary_float prec emax)) : Prop :=
  forall (bits : Z) (s : binary_float prec emax) (zi c : Z),
  let L := 2 ^ bits - 1 in let ofZ := @n_of_Z _ NF in
  1 <= bits <= 4 -> 0 <= zi <= L -> 0 <= c <= L ->
  is_finite s = true -> (0 < B2R s)%R -> (IZR L * B2R s <= Fmax prec emax)%R ->
  @affq _ NF bits (@affdq _ NF s (ofZ c) (ofZ zi)) s (ofZ zi) = ofZ c.
Theorem C02_requant_stable_float32 : C02_requant_statement 24 128 Num32.
Proof. exact (affine_requant_stable 24 128 Hp24 Hpe24 ltac:(lia) ltac:(lia)). Qed.
Print Assumptions C02_requant_stable_float32.
Theorem C02_requant_stable_float16 : C02_requant_statement 11 16 Num16.
Proof. exact (affine_requant_stable 11 16 Hp11 Hpe11 ltac:(lia) ltac:(lia)). Qed.
Print Assumptions C02_requant_stable_float16.
Theorem C02_requant_stable_bfloat16 : C02_requant_statement 8 128 NumB16.
Proof. exact (affine_requant_stable 8 128 Hp8 Hpe8 ltac:(lia) ltac:(lia)). Qed.
Print Assumptions C02_requant_stable_bfloat16.

(* non-vacuity of (5), float16: x = 0.3, s = 0.01 (grid step), zero-point 7, int4: code 15 (saturated at the
   upper end: 0.3/0.01 + 7 = 37 > 15); x = 0.05: code 12 *)
Example C02_float_example :
  f16_code SUInt8 (@affq _ Num16 4 (f16_of_bits 13517) (f16_of_bits 8479) (@n_of_Z _ Num16 7)) = 15 /\
  f16_code SUInt8 (@affq _ Num16 4 (f16_of_bits 10854) (f16_of_bits 8479) (@n_of_Z _ Num16 7)) = 12.
Proof. vm_compute. split; reflexivity. Qed.

(* MaxOptimizer (int2 / int4), for any number type, rank and shape: one scale per cell of the reduction (per kept-axis
   index, or per group after grouping), equal to (max(cell max, 0) - min(cell min, 0)) / (2^bits - 1), where the cell
   minimum and maximum are folds over exactly the members of that cell: the quantization range is the hull of the
   cell and zero, and nothing outside the cell influences it *)
Theorem C02_max_optimizer_cells : forall (F : Type) (NF : Num F) (base S Zp : tensor F) bits a,
  pos_dims (shape base) -> shape base <> [] ->
  src_max_optimize base bits (Some a) = Ok (S, Zp) ->
  let rd := opt_dims base (Some a) in
  shape S = red_shape (shape base) rd /\
  forall c, 0 <= c < prodZ (shape S) ->
    exists mn mx, cell_fold n_min base rd c = Some mn /\ cell_fold n_max base rd c = Some mx /\
      zget (data S) c f0 =
      n_div (n_sub (n_max mx (n_of_Z 0)) (n_min mn (n_of_Z 0))) (n_of_Z ((2 ^ (bits - 1) - 1) - (- 2 ^ (bits - 1)))).
Proof. intros F NF. rewrite tie_max_optimize. exact (@max_optimize_cells F NF). Qed.
Print Assumptions C02_max_optimizer_cells.
