(* C06 — A quantized tensor's reported metadata always matches what it holds. *)
From Coq Require Import String List ZArith Bool.
From QV Require Import Lib.Res Lib.Tensor Lib.ND Lib.Num Lib.QTensor Model.QOps.
From QD Require Import GenOps TieOps.
Import ListNotations.
Open Scope string_scope.

(* the implementations are the ones the model was written against (same fingerprints) *)
Theorem C06_implementations_unchanged :
  src_prints_qbytes = prints_qbytes /\ src_prints_qbits = prints_qbits /\ src_prints_funcs = prints_funcs /\
  src_prints_entry = prints_entry.
Proof. split; [apply tie_prints_qbytes|]. split; [apply tie_prints_qbits|]. split; [apply tie_prints_funcs | apply tie_prints_entry]. Qed.
Print Assumptions C06_implementations_unchanged.

(* re-wrapping a moved payload with the payload's own size keeps the invariant
   (shape = payload shape, scale broadcastable along the declared axis), for any payload *)
Theorem C06_rewrap_preserves : forall (F : Type) (q : qbytes F) (moved : tensor F),
  qb_axis q = None -> qb_inv q = true -> qb_inv (rewrap_moved q moved) = true.
Proof. intros F. exact (@rewrap_preserves_inv F). Qed.
Print Assumptions C06_rewrap_preserves.

(* the stale-size re-wrap (split before its repair) violates it *)
Example C06_split_stale_refuted :
  let q := QBytes qint8 None [4; 6]%Z [6; 1]%Z (T [4; 6]%Z (repeat 0%Z 24)) (T [] [1%Z]) in
  qb_inv q = true /\ qb_inv (rewrap_stale q (T [2; 6]%Z (repeat 0%Z 12))) = false.
Proof. exact stale_size_refuted. Qed.

(* the invariant is kept by EVERY way the op implementations build a result - same layout (mul / div / neg / relu /
   detach / clone / _to_copy / copy_), moved payload with its own size (move class, per-tensor), 2-D transpose of a
   per-axis tensor (payload and scale transposed, axis flipped 0 <-> -1) - hence along every program of such steps,
   of any length (induction over the program) *)
From QV Require Import Proofs.QOpsInv.
Theorem C06_same_layout_preserves : forall (F : Type) (q : qbytes F) (data' scale' : tensor F),
  shape data' = shape (qb_data q) -> shape scale' = shape (qb_scale q) ->
  qb_inv q = true -> qb_inv (rewrap_same q data' scale') = true.
Proof. intros F. exact (@same_layout_preserves_inv F). Qed.
Theorem C06_transpose2d_preserves : forall (F : Type) (q : qbytes F) (d0 d1 : Z) (data' scale' : tensor F),
  qb_size q = [d0; d1]%Z -> shape data' = [d1; d0]%Z ->
  (qb_axis q = None -> shape scale' = shape (qb_scale q)) ->
  (qb_axis q <> None -> shape scale' = rev (shape (qb_scale q))) ->
  qb_inv q = true -> qb_inv (rewrap_t q data' scale') = true.
Proof. intros F. exact (@transpose2d_preserves_inv F). Qed.
Theorem C06_invariant_along_programs : forall (F : Type) (q q' : qbytes F),
  steps q q' -> qb_inv q = true -> qb_inv q' = true.
Proof. intros F. exact (@invariant_along_programs F). Qed.
Print Assumptions C06_invariant_along_programs.

(* copy_ from a source of the same size quantized along another axis: the destination adopts scale AND axis *)
Theorem C06_copy_adopts_preserves : forall (F : Type) (q src : qbytes F) (data' : tensor F),
  qb_size q = qb_size src -> shape data' = shape (qb_data src) ->
  qb_inv src = true -> qb_inv (rewrap_adopt q src data') = true.
Proof. intros F. exact (@adopt_preserves_inv F). Qed.
Print Assumptions C06_copy_adopts_preserves.
