(* C13 — Calibration is scoped; inference and quantization are free of side effects.
   [src_enter]/[src_exit] are the action lists read from Calibration.__enter__/__exit__ of the current
   source; [src_effects_f] the syntactic write-set of function f. *)
From Coq Require Import String List ZArith Bool.
From QV Require Import Model.Calib Proofs.CalibProofs.
From QD Require Import GenCalib TieC13.
Import ListNotations.
Open Scope string_scope.

(* for EVERY program of nested and sequential Calibration contexts, module forwards and exceptions
   raised at any point, the global forward(-pre) hook registries and the torch-function mode stack
   are, after the program, exactly what they were before *)
Theorem C13_scoped : forall (p : prog) (g : gstate), fst (run src_enter src_exit p g) = g.
Proof. rewrite tie_enter, tie_exit. exact calibration_scoped. Qed.
Print Assumptions C13_scoped.

(* exceptions are not swallowed by the context *)
Theorem C13_propagates : forall c body g,
  snd (run src_enter src_exit (With c body) g) = snd (run src_enter src_exit body (run_actions c src_enter g)).
Proof. rewrite tie_enter, tie_exit. exact calibration_propagates. Qed.
Print Assumptions C13_propagates.

(* inference and quantization entry points contain no attribute/subscript store, no in-place tensor
   method, no setattr/del/global: the forward pass reads scales and never writes them *)
Theorem C13_pure_forward :
  src_effects_qmodule_forward = [] /\ src_effects_qmodule_qweight = [] /\
  src_effects_qlinear_qforward = [] /\ src_effects_qconv2d_qforward = [] /\ src_effects_qlayernorm_qforward = [] /\
  src_effects_quantize_weight = [] /\ src_effects_quantize_activation = [] /\
  src_effects_sym_forward = [] /\ src_effects_affine_forward = [] /\
  src_effects_qbytes_dequantize = [] /\ src_effects_qbits_dequantize = [] /\
  src_effects_group = [] /\ src_effects_ungroup = [] /\
  src_effects_absmax_optimize = [] /\ src_effects_max_optimize = [] /\ src_effects_absmax_scale = [].
Proof. repeat split; reflexivity. Qed.
Print Assumptions C13_pure_forward.

(* freeze() writes only the weight; quantize() only re-parents modules and clears the OLD module's
   parameters; disable_extensions restores the switch in a finally block *)
(* the only aten op with in-place semantics that has a quantized implementation is copy_ (used to load
   weights): no registered op can write into a scale or payload that a module buffer aliases *)
Theorem C13_no_inplace_ops : src_inplace_ops = ["aten.copy_"].
Proof. exact tie_inplace_ops. Qed.
Print Assumptions C13_no_inplace_ops.

(* no op implementation, kernel wrapper or quantization entry point computes in place (x *= y, x.mul_(y), out=): a result
   computed in place can alias an operand - Tensor.to() returns its argument when nothing changes - i.e. a module's scale *)
Theorem C13_no_inplace_arithmetic : src_op_inplace_arith = [].
Proof. exact tie_op_inplace_arith. Qed.

Theorem C13_write_sets :
  src_effects_freeze = ["store self.weight"] /\
  src_effects_quantize = ["call setattr"; "store qmodule.name"] /\
  src_disable_extensions_restores = true.
Proof. repeat split; reflexivity. Qed.
Print Assumptions C13_write_sets.

Example C13_program_with_exception :
  run src_enter src_exit (Seq (With 1 (Seq Forward (With 2 (Seq Forward Raise)))) Forward) (G [9] [9] [])%nat
  = (G [9] [9] [], true)%nat.
Proof. vm_compute. reflexivity. Qed.
