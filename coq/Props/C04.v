(* C04 — Sub-byte packing is lossless, dense, and identical across unpack kernels.
   Only statements, each closed by [exact] of a lemma from Proofs/, with Print Assumptions. *)
From Coq Require Import String List ZArith Bool.
From QV Require Import Lib.Res Lib.Tensor Model.Pack Proofs.PackProofs.
From QD Require Import GenC04 TieC04.
Import ListNotations.
Open Scope Z_scope.

(* lossless for EVERY shape (any leading dimension >= 1, any trailing dims), dense, and the
   PackedTensor.unpack path returns the original through both kernels *)
Theorem C04_roundtrip : forall dev bits (t : tensor Z),
  bits = 2 \/ bits = 4 -> wf t -> 1 <= dim0 t -> fits bits t ->
  exists p, src_pack_weights dev t bits = Ok p
    /\ shape p = ((dim0 t * bits + 7) / 8) :: tailshape t
    /\ zlen (data p) = ((dim0 t * bits + 7) / 8) * stride0 t
    /\ bytes (data p)
    /\ src_packed_unpack (src_unpack_py dev) p bits (shape t) = Ok t
    /\ src_packed_unpack src_unpack_cpp p bits (shape t) = Ok t.
Proof.
  rewrite tie_pack_weights, tie_packed_unpack, tie_unpack_py, tie_unpack_cpp.
  exact pack_roundtrip_all.
Qed.
Print Assumptions C04_roundtrip.

(* the C++ and the PyTorch kernel return identical results on EVERY byte tensor *)
Theorem C04_kernels_agree : forall dev (p : tensor Z) bits,
  bits = 2 \/ bits = 4 -> bytes (data p) -> src_unpack_cpp p bits = src_unpack_py dev p bits.
Proof. rewrite tie_unpack_py, tie_unpack_cpp. exact kernels_agree. Qed.
Print Assumptions C04_kernels_agree.

(* quanto::unpack returns the same whichever route it takes (extension present or not,
   extensions enabled or disabled) *)
Theorem C04_routes_agree : forall dev en ext (p : tensor Z) bits,
  bits = 2 \/ bits = 4 -> bytes (data p) -> ext = None \/ ext = Some src_unpack_cpp ->
  quanto_unpack en ext (src_unpack_py dev) p bits = src_unpack_py dev p bits.
Proof. rewrite tie_unpack_py, tie_unpack_cpp. exact routes_agree. Qed.
Print Assumptions C04_routes_agree.

(* any tensor operation applied to a packed tensor acts on its unpacked values *)
Theorem C04_dispatch : forall kernel op p u,
  src_packed_unpack kernel (p_data p) (p_bits p) (p_size p) = Ok u ->
  match op with
  | Detach | Clone | ToCopy true => (r <- p_dispatch kernel op p ;; pres_value kernel r) = Ok u
  | ToCopy false => p_dispatch kernel op p = Err "ValueError"%string
  | Other f => (r <- p_dispatch kernel op p ;; pres_value kernel r) = f u
  end.
Proof. rewrite tie_packed_unpack. exact dispatch_acts_on_unpacked. Qed.
Print Assumptions C04_dispatch.

(* the hand-modelled parts (PackedTensor.__torch_dispatch__, constructors, quanto:: routing) are the ones
   p_dispatch / quanto_unpack were written against *)
Theorem C04_dispatch_source_unchanged : src_packed_prints = packed_prints.
Proof. exact tie_packed_prints. Qed.

(* non-vacuity: a 5 x 3 tensor of 2-bit values (tail block shorter than the others) meets the
   hypotheses, and the generated code really round-trips it *)
Definition ex_t : tensor Z := T [5; 3] [0; 1; 2; 3; 0; 1; 3; 3; 3; 2; 1; 0; 1; 1; 2].
Example C04_hyps_satisfiable : wf ex_t /\ 1 <= dim0 ex_t /\ fits 2 ex_t.
Proof.
  repeat split; try discriminate; try (vm_compute; congruence);
    repeat constructor; vm_compute; congruence.
Qed.
Example C04_example_runs :
  (p <- src_pack_weights "cpu" ex_t 2 ;; src_packed_unpack (src_unpack_py "cpu") p 2 (shape ex_t)) = Ok ex_t
  /\ (p <- src_pack_weights "cpu" ex_t 2 ;; Ok (shape p)) = Ok [2; 3].
Proof. split; vm_compute; reflexivity. Qed.
