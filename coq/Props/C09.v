(* C09 — freeze() preserves outputs bit-for-bit, is idempotent and compacts storage. *)
From Coq Require Import String List ZArith Bool.
From QV Require Import Lib.Res Lib.Tensor Model.Pack Proofs.PackProofs Model.Module Model.ModuleFacts Proofs.ModuleProofs.
From QD Require Import GenMod TieMod GenC04 TieC04.
Import ListNotations.
Open Scope string_scope.

(* freeze() stores exactly what the dynamic path computes: qweight is called with axis 0, the module's
   group size and optimizer, returns a frozen weight as is; freeze assigns only the weight *)
Theorem C09_source_facts :
  src_qweight_call = ["self.weight"; "qtype=self.weight_qtype"; "axis=0"; "group_size=self.weight_group_size"; "optimizer=self.optimizer"] /\
  src_qweight_early = exp_qweight_early /\ src_freeze_body = exp_freeze_body.
Proof. exact (conj tie_qweight_call (conj tie_qweight_early tie_freeze_body)). Qed.
Print Assumptions C09_source_facts.

(* for every state (float or already frozen weights) and any deterministic quantization function: the
   weights the forward pass uses are the same before and after freeze; freezing twice changes nothing;
   after any number of further freezes they still are *)
Theorem C09_freeze_forward : forall (W Q : Type) (quant : W -> Q) (s : wstate W Q),
  qweight W Q quant (freeze W Q quant s) = qweight W Q quant s.
Proof. exact freeze_preserves_qweight. Qed.
Print Assumptions C09_freeze_forward.

Theorem C09_idempotent : forall (W Q : Type) (quant : W -> Q) (s : wstate W Q),
  freeze W Q quant (freeze W Q quant s) = freeze W Q quant s.
Proof. exact freeze_idempotent. Qed.
Print Assumptions C09_idempotent.

Theorem C09_history : forall (W Q : Type) (quant : W -> Q) (s : wstate W Q) (n : nat),
  qweight W Q quant (Nat.iter n (freeze W Q quant) (freeze W Q quant s)) = qweight W Q quant s.
Proof. exact frozen_stable. Qed.
Print Assumptions C09_history.

(* storage: the low-bit payload built on construction (pack_weights, as generated from the current source)
   takes exactly ceil(rows * bits / 8) * (numel / rows) bytes, for every shape *)
Theorem C09_payload_bytes : forall dev bits (t : tensor Z),
  bits = 2 \/ bits = 4 -> wf t -> (1 <= dim0 t)%Z -> fits bits t ->
  exists p, src_pack_weights dev t bits = Ok p
    /\ zlen (data p) = ((dim0 t * bits + 7) / 8 * stride0 t)%Z /\ bytes (data p).
Proof.
  intros dev bits t Hb Hw Hd Hf. rewrite tie_pack_weights.
  destruct (pack_roundtrip_all dev bits t Hb Hw Hd Hf) as [p [H1 [_ [H3 [H4 _]]]]].
  exists p. split; [exact H1|]. split; [exact H3|exact H4].
Qed.
Print Assumptions C09_payload_bytes.

(* along ANY history without a calibration pass or a conversion to another float dtype (forwards, freezes, device
   moves, copies, reloads in any order and number) the outputs stay in the class they were in; once frozen, a model
   stays frozen (conversions included) *)
Theorem C09_histories : forall act ops s,
  ~ In LCalibrate ops -> ~ In LConvert ops -> Forall (fun fe => snd fe = l_epoch s) (ltrace act s ops).
Proof. exact history_epoch_only. Qed.
Print Assumptions C09_histories.

Theorem C09_frozen_absorbing : forall act ops s,
  l_frozen s = true -> Forall (fun fe => fst fe = true) (ltrace act s ops).
Proof. exact history_frozen_absorbing. Qed.
Print Assumptions C09_frozen_absorbing.
