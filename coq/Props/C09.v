(* C09 — freeze() preserves outputs bit-for-bit, is idempotent and compacts storage. *)
From Coq Require Import String List ZArith Bool.
From QV Require Import Model.Module Model.ModuleFacts Proofs.ModuleProofs.
From QD Require Import GenMod TieMod.
Import ListNotations.
Open Scope string_scope.

(* freeze() stores exactly what the dynamic path computes: qweight is called with axis 0, the module's
   group size and optimizer, returns a frozen weight as is; freeze assigns only the weight *)
Theorem C09_source_facts :
  src_qweight_call = ["self.weight"; "qtype=self.weight_qtype"; "axis=0"; "group_size=self.weight_group_size"; "optimizer=self.optimizer"] /\
  src_qweight_early = exp_qweight_early /\ src_freeze_body = exp_freeze_body.
Proof. repeat split; [apply tie_qweight_call | apply tie_qweight_early | apply tie_freeze_body]. Qed.
Print Assumptions C09_source_facts.

(* for every state (float or already frozen weights) and any deterministic quantization function: the
   weights the forward pass uses are the same before and after freeze; freezing twice changes nothing;
   after any number of further freezes they still are *)
Theorem C09_freeze_forward : forall (W Q : Type) (quant : W -> Q) (s : wstate W Q),
  qweight W Q quant (freeze W Q quant s) = qweight W Q quant s.
Proof. exact freeze_preserves_qweight. Qed.
Print Assumptions C09_freeze_forward.

Theorem C09_idempotent : forall (W Q : Type) (quant : W -> Q) (s : wstate W Q),
  freeze W Q quant (freeze W Q quant s) = freeze W Q quant s.
Proof. exact freeze_idempotent. Qed.
Print Assumptions C09_idempotent.

Theorem C09_history : forall (W Q : Type) (quant : W -> Q) (s : wstate W Q) (n : nat),
  qweight W Q quant (Nat.iter n (freeze W Q quant) (freeze W Q quant s)) = qweight W Q quant s.
Proof. exact frozen_stable. Qed.
Print Assumptions C09_history.
