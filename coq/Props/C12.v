(* C12 — Calibration scales are the configured-momentum average of batch absmax ranges. *)
From Coq Require Import String List ZArith Bool Reals Lra.
From Flocq Require Import Core IEEE754.BinarySingleNaN.
From QV Require Import Lib.Res Lib.Tensor Lib.ND Lib.Num Lib.QTensor Model.Quant Model.Calib
     Proofs.QuantProofs Proofs.RealNum Proofs.CalibProofs.
From QD Require Import GenNum GenCalib TieC12 TieC12N.
Import ListNotations.

(* both scale updates pass the momentum the Calibration object was configured with, and the output
   hook recomputes the raw output before updating (read from the current source) *)
Theorem C12_configured_momentum :
  src_input_momentum = MConfigured /\ src_output_momentum = MConfigured /\
  src_init_stores_momentum = true /\ src_output_hook_recomputes = true.
Proof. repeat split; reflexivity. Qed.
Print Assumptions C12_configured_momentum.

(* exact arithmetic: one update of a scalar scale is the EMA step with first-batch initialisation *)
Theorem C12_update_step : forall (s new : R) (mom : b64),
  src_updated_scale (T [] [s]) (T [] [new]) mom =
  Ok (T [] [ema_step (@B2R 53 1024 mom) (@B2R 53 1024 (b64_sub (b64_lit 4503599627370496 (-52)) mom)) s new]).
Proof. rewrite tie_updated_scale. exact updated_scale_scalar. Qed.
Print Assumptions C12_update_step.

(* any history of batches: the scale after batches s1, x1..xn is the closed-form exponential moving
   average initialised by the first batch, provided no intermediate average equals the sentinel 1 *)
Theorem C12_ema : forall (m m' s1 : R) (xs : list R),
  no_sentinel m m' s1 xs -> fold_left (ema_step m m') (s1 :: xs) 1%R = ema_closed m m' s1 xs.
Proof. exact ema_history. Qed.
Print Assumptions C12_ema.

(* it is an average: shifting every batch range by d shifts the result by d (weights sum to one) *)
Theorem C12_average : forall (m s1 d : R) (xs : list R),
  ema_closed m (1 - m) (s1 + d) (map (fun x => (x + d)%R) xs) = (ema_closed m (1 - m) s1 xs + d)%R.
Proof. exact ema_closed_affine. Qed.
Print Assumptions C12_average.

(* IEEE arithmetic, first batch: a running scale still holding its initial value 1 is REPLACED by the range of the
   batch, whatever the momentum (float32 / float16 / bfloat16 scales).  With C03_no_saturation_float* (the scale
   absmax/qmax saturates no element of the tensor it was computed from beyond rounding) this is the last sentence of
   the property: after a single batch no activation of that batch saturates. *)
From QV Require Import Float.F Proofs.CalibFloat.
Theorem C12_first_batch_float32 : forall (new : tensor f32) (mom : b64),
  @src_updated_scale f32 Num32 (T [] [@n_of_Z f32 Num32 1%Z]) new mom = Ok new.
Proof. rewrite tie_updated_scale. exact first_batch_f32. Qed.
Theorem C12_first_batch_float16 : forall (new : tensor f16) (mom : b64),
  @src_updated_scale f16 Num16 (T [] [@n_of_Z f16 Num16 1%Z]) new mom = Ok new.
Proof. rewrite tie_updated_scale. exact first_batch_f16. Qed.
Theorem C12_first_batch_bfloat16 : forall (new : tensor bf16) (mom : b64),
  @src_updated_scale bf16 NumB16 (T [] [@n_of_Z bf16 NumB16 1%Z]) new mom = Ok new.
Proof. rewrite tie_updated_scale. exact first_batch_bf16. Qed.
Print Assumptions C12_first_batch_float16.

(* the sentinel history (known finding F9): a running scale of exactly 1 re-initialises *)
Example C12_sentinel_refuted : ema_step (9/10) (1/10) 1 5 = 5%R.
Proof. exact sentinel_reinitialises. Qed.
