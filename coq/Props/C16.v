(* C16 — Finite tensors never quantize to NaN/Inf, whatever their range.
   Statements only, over the functions generated from the current source. *)
From Coq Require Import String List ZArith Bool Lia Reals.
From Flocq Require Import Core IEEE754.BinarySingleNaN.
From QV Require Import Lib.Res Lib.Tensor Lib.ND Lib.NDFacts Lib.Num Lib.QTensor Float.F Model.Quant
     Proofs.QuantProofs Proofs.RealNum Proofs.FloatFacts Proofs.C01Float.
From QD Require Import GenNum TieC16.
Import ListNotations.

(* every element of a per-tensor quantized tensor is [symdq q x s] (any number type, rank, shape), so
   finiteness of the tensor is finiteness of the element-level function *)
Theorem C16_elements : forall (F : Type) (NF : Num F) (base : tensor F) q (s0 : F) r,
  src_sym_forward base q None (T [] [s0]) = Ok r -> shape base <> [] ->
  src_qbytes_dequantize r = Ok (t_map (fun x => symdq q x s0) base).
Proof.
  intros F NF base q s0 r H Hne. rewrite tie_sym_forward in H. rewrite tie_qbytes_dequantize.
  exact (proj2 (@sym_scalar_elementwise F NF base q s0 r H Hne)).
Qed.
Print Assumptions C16_elements.

(* IEEE arithmetic, qint8, float32 / float16 / bfloat16: for EVERY finite element and EVERY finite
   non-negative scale with a representable grid — including a zero scale (all-zero row, or absmax/qmax
   underflowing to zero), where the quotient is NaN or infinite — the dequantized value is finite *)
Definition C16_statement (prec emax : Z) (NF : Num (binary_float prec emax)) : Prop :=
  forall x s : binary_float prec emax,
  is_finite x = true -> is_finite s = true -> (0 <= B2R s)%R -> (128 * B2R s <= Fmax prec emax)%R ->
  is_finite (@symdq _ NF qint8 x s) = true.

Theorem C16_finite_int8_float32 : C16_statement 24 128 Num32.
Proof. exact (qint8_finite 24 128 Hp24 Hpe24 ltac:(lia) ltac:(lia)). Qed.
Print Assumptions C16_finite_int8_float32.
Theorem C16_finite_int8_float16 : C16_statement 11 16 Num16.
Proof. exact (qint8_finite 11 16 Hp11 Hpe11 ltac:(lia) ltac:(lia)). Qed.
Print Assumptions C16_finite_int8_float16.
Theorem C16_finite_int8_bfloat16 : C16_statement 8 128 NumB16.
Proof. exact (qint8_finite 8 128 Hp8 Hpe8 ltac:(lia) ltac:(lia)). Qed.
Print Assumptions C16_finite_int8_bfloat16.

(* a zero scale dequantizes to exactly zero, whatever the element *)
Theorem C16_zero_scale_float16 : forall (x : f16) (ss : bool),
  is_finite x = true ->
  is_finite (@symdq _ Num16 qint8 x (B754_zero ss)) = true /\ B2R (@symdq _ Num16 qint8 x (B754_zero ss)) = 0%R.
Proof. exact (qint8_zero_scale_finite 11 16 Hp11 Hpe11 ltac:(lia) ltac:(lia)). Qed.
Print Assumptions C16_zero_scale_float16.

(* the float8 types, float32 / float16 / bfloat16 working formats: for EVERY finite element and EVERY finite
   non-negative scale with a representable grid (M*s <= largest float, M = 448 / 57344), a zero scale
   included, the dequantized value is finite; with a zero scale it is exactly zero (proof through
   nan_to_num, clamp, the cast to the storage format and back, and the product) *)
From QV Require Import Proofs.C01Float8.
Definition C16_float8_statement (prec emax : Z) (NF : Num (binary_float prec emax)) (q : qtype) (M : Z) : Prop :=
  forall x s : binary_float prec emax,
  is_finite x = true -> is_finite s = true -> (0 <= B2R s)%R -> (IZR M * B2R s <= Fmax prec emax)%R ->
  is_finite (@symdq _ NF q x s) = true.

Theorem C16_finite_e4m3_float32 : C16_float8_statement 24 128 Num32 qfloat8_e4m3fn 448.
Proof. exact (e4m3_finite 24 128 Hp24 Hpe24 ltac:(lia) ltac:(lia)). Qed.
Print Assumptions C16_finite_e4m3_float32.
Theorem C16_finite_e4m3_float16 : C16_float8_statement 11 16 Num16 qfloat8_e4m3fn 448.
Proof. exact (e4m3_finite 11 16 Hp11 Hpe11 ltac:(lia) ltac:(lia)). Qed.
Print Assumptions C16_finite_e4m3_float16.
Theorem C16_finite_e4m3_bfloat16 : C16_float8_statement 8 128 NumB16 qfloat8_e4m3fn 448.
Proof. exact (e4m3_finite 8 128 Hp8 Hpe8 ltac:(lia) ltac:(lia)). Qed.
Print Assumptions C16_finite_e4m3_bfloat16.
Theorem C16_finite_e5m2_float32 : C16_float8_statement 24 128 Num32 qfloat8_e5m2 57344.
Proof. exact (e5m2_finite 24 128 Hp24 Hpe24 ltac:(lia) ltac:(lia) ltac:(lia)). Qed.
Print Assumptions C16_finite_e5m2_float32.
Theorem C16_finite_e5m2_float16 : C16_float8_statement 11 16 Num16 qfloat8_e5m2 57344.
Proof. exact (e5m2_finite 11 16 Hp11 Hpe11 ltac:(lia) ltac:(lia) ltac:(lia)). Qed.
Print Assumptions C16_finite_e5m2_float16.
Theorem C16_finite_e5m2_bfloat16 : C16_float8_statement 8 128 NumB16 qfloat8_e5m2 57344.
Proof. exact (e5m2_finite 8 128 Hp8 Hpe8 ltac:(lia) ltac:(lia) ltac:(lia)). Qed.
Print Assumptions C16_finite_e5m2_bfloat16.

(* int2 / int4 (affine), float32 / float16 / bfloat16: a zero scale (constant or all-zero group, or a range
   underflowing to zero) paired with the null zero-point the optimizer gives it: for EVERY finite element the
   code is an integer of [0, 2^bits-1] stored exactly and the dequantized value is finite and exactly zero.
   (For a positive scale, finiteness is part of C02_nearest_float*: Props/C02.v.) *)
From QV Require Import Proofs.AffineReal Proofs.AffineProofs Proofs.AffineFloat.
Open Scope Z_scope.
Definition C16_affine_zero_statement (prec emax : Z) (NF : Num (binary_float prec emax)) : Prop :=
  forall (bits : Z) (x : binary_float prec emax) (ss : bool),
  let L := (2 ^ bits - 1)%Z in let ofZ := @n_of_Z _ NF in
  (1 <= bits <= 7)%Z -> is_finite x = true ->
  exists c : Z, (0 <= c <= L)%Z /\ @affq _ NF bits x (B754_zero ss) (ofZ 0%Z) = ofZ c /\
    is_finite (@affdq _ NF (B754_zero ss) (ofZ c) (ofZ 0%Z)) = true /\
    B2R (@affdq _ NF (B754_zero ss) (ofZ c) (ofZ 0%Z)) = 0%R.

Theorem C16_affine_zero_scale_float32 : C16_affine_zero_statement 24 128 Num32.
Proof. exact (affine_zero_scale_finite 24 128 Hp24 Hpe24 ltac:(lia) ltac:(lia)). Qed.
Print Assumptions C16_affine_zero_scale_float32.
Theorem C16_affine_zero_scale_float16 : C16_affine_zero_statement 11 16 Num16.
Proof. exact (affine_zero_scale_finite 11 16 Hp11 Hpe11 ltac:(lia) ltac:(lia)). Qed.
Print Assumptions C16_affine_zero_scale_float16.
Theorem C16_affine_zero_scale_bfloat16 : C16_affine_zero_statement 8 128 NumB16.
Proof. exact (affine_zero_scale_finite 8 128 Hp8 Hpe8 ltac:(lia) ltac:(lia)). Qed.
Print Assumptions C16_affine_zero_scale_bfloat16.

(* the hypothesis "the grid qmax*s is representable" of the theorems above cannot be dropped, and the optimizer does
   produce such scales: float16 x = 65504 (the largest finite number), s = x / 127 as AbsmaxOptimizer computes it
   (515.78 rounded up to 516): the code is 127 and 127 * 516 overflows.  Same with qfloat8_e4m3fn, where the code of
   127 is 128.  This is known finding F33, replayed on the implementation by the audit (class "dtypemax"). *)
Example C16_unrepresentable_grid_refuted :
  let x := f16_of_bits 31743 in let s := @n_div _ Num16 x (@n_of_Z _ Num16 127%Z) in
  is_finite x = true /\ is_finite s = true /\
  is_finite (@symdq _ Num16 qint8 x s) = false /\ is_finite (@symdq _ Num16 qfloat8_e4m3fn x s) = false.
Proof. vm_compute. repeat split. Qed.

(* regression witnesses, evaluated on the generated code: float8 with a zero scale no longer stores NaN *)
Example C16_f8_zero_row_is_finite :
  (r <- src_sym_forward (F:=f16) (H:=Num16) (T [2] [f16_of_bits 0; f16_of_bits 0]) qfloat8_e4m3fn None (T [] [f16_of_bits 0]) ;;
   d <- src_qbytes_dequantize (F:=f16) (H:=Num16) r ;; Ok (map f16_to_bits (data d))) = Ok [0%Z; 0%Z].
Proof. vm_compute. reflexivity. Qed.
