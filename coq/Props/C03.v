(* C03 — Scale selection is non-saturating, full-range and local to its axis/group.
   Statements only, over the functions generated from the current source. *)
From Coq Require Import String List ZArith Bool Lia Reals.
From QV Require Import Lib.Res Lib.Tensor Lib.ND Lib.NDFacts Lib.Num Lib.QTensor Model.Quant
     Proofs.QuantProofs Proofs.RealNum Proofs.ScaleProofs Proofs.ScaleReal Proofs.MaxCells.
From QD Require Import GenNum TieC03.
Import ListNotations.
Open Scope Z_scope.

(* exactly one scale per cell of the reduction (= per kept-axis index, or per group after grouping),
   and it is computed from the values of that cell only: max |x| over the cell, divided by qmax *)
Theorem C03_one_scale_per_cell : forall (F : Type) (NF : Num F) (base S : tensor F) bits a,
  src_absmax_optimize base bits (Some a) = Ok S ->
  let rd := opt_dims base (Some a) in
  shape S = red_shape (shape base) rd /\
  forall c, 0 <= c < prodZ (shape S) ->
    exists m, cell_fold n_max (tf_abs (tf_abs base)) rd c = Some m /\
              zget (data S) c f0 = n_div m (n_of_Z (2 ^ (bits - 1) - 1)).
Proof. intros F NF. rewrite tie_absmax_optimize. exact (@absmax_optimize_cells F NF). Qed.
Print Assumptions C03_one_scale_per_cell.

(* locality of the scale: changing, scaling or permuting OTHER cells never changes it *)
Theorem C03_scale_local : forall (F : Type) (NF : Num F) (base base' S S' : tensor F) bits a c,
  src_absmax_optimize base bits (Some a) = Ok S -> src_absmax_optimize base' bits (Some a) = Ok S' ->
  shape base = shape base' -> zlen (data base) = numel base -> zlen (data base') = numel base' ->
  (forall j, In j (members (shape base) (opt_dims base (Some a)) c) ->
             zget (data base) j f0 = zget (data base') j f0) ->
  0 <= c < prodZ (shape S) ->
  zget (data S) c f0 = zget (data S') c f0.
Proof. intros F NF. rewrite tie_absmax_optimize. exact (@absmax_scale_local F NF). Qed.
Print Assumptions C03_scale_local.

(* locality of the codes: element j is quantized (and dequantized) with the scale of the cell it
   projects onto, and with nothing else *)
Theorem C03_codes_local : forall (F : Type) (NF : Num F) (base : tensor F) q axis (S : tensor F) rd r,
  src_sym_forward base q axis S = Ok r ->
  shape base <> [] -> pos_dims (shape base) -> shape S = red_shape (shape base) rd ->
  let sc := fun j => zget (data S) (proj (shape base) rd j) f0 in
  qb_data r = T (shape base) (map (fun j => symq q (zget (data base) j f0) (sc j)) (zrange (numel base))) /\
  src_qbytes_dequantize r =
    Ok (T (shape base) (map (fun j => symdq q (zget (data base) j f0) (sc j)) (zrange (numel base)))).
Proof.
  intros F NF. rewrite tie_sym_forward, tie_qbytes_dequantize. exact (@sym_forward_cellwise F NF).
Qed.
Print Assumptions C03_codes_local.

(* exact arithmetic: no element saturates under the scale of its own cell, and the scale is exactly
   absmax/qmax (qmax = 127 is the quantity the weight optimizer divides by for every 8-bit type) *)
Theorem C03_no_saturation_exact : forall (base S : tensor R) a j,
  src_absmax_optimize base 8 (Some a) = Ok S ->
  pos_dims (shape base) -> zlen (data base) = numel base -> 0 <= j < numel base ->
  let c := proj (shape base) (opt_dims base (Some a)) j in
  (Rabs (zget (data base) j 0%R) <= 127 * zget (data S) c 0%R)%R.
Proof. rewrite tie_absmax_optimize. exact absmax_no_saturation_R. Qed.
Print Assumptions C03_no_saturation_exact.

(* IEEE arithmetic (Flocq; float32 / float16 / bfloat16), qint8: the scale of a cell is the float quotient
   s = A / 127 of the cell's largest magnitude A (C03_one_scale_per_cell).  When the quotient is in the normal range
   and the grid is representable:  |s - A/127| <= u*A/127  (full range, not larger than absmax/qmax beyond one
   rounding), and EVERY finite element with |x| <= A - every member of the cell - is dequantized within
   half a step + 254*u*s (the amount by which A/s can exceed 127) + the rounding slack of C01: no element
   saturates by more than rounding. *)
From Flocq Require Import Core IEEE754.BinarySingleNaN.
From QV Require Import Float.F Proofs.FloatFacts Proofs.C01Float Proofs.ScaleFloat.
Open Scope Z_scope.
Definition C03_float_statement (prec emax : Z) (NF : Num (binary_float prec emax)) : Prop :=
  forall A x : binary_float prec emax,
  is_finite A = true -> is_finite x = true -> (0 < B2R A)%R -> (Rabs (B2R x) <= B2R A)%R ->
  (bpow radix2 (3 - emax - prec + prec - 1) <= B2R A / 127)%R ->
  let s := @n_div _ NF A (@n_of_Z _ NF 127) in
  (128 * B2R s <= Fmax prec emax)%R ->
  is_finite s = true /\ (0 < B2R s)%R /\
  (Rabs (B2R s - B2R A / 127) <= uro prec * (B2R A / 127))%R /\
  exists k : Z, -128 <= k <= 127 /\ B2R (@symq _ NF qint8 x s) = IZR k /\
    is_finite (@symdq _ NF qint8 x s) = true /\
    (Rabs (B2R (@symdq _ NF qint8 x s) - B2R x) <=
       B2R s / 2 + 254 * uro prec * B2R s
       + (2 * (uro prec * Rabs (B2R x) + B2R s * eta prec emax) + (uro prec * Rabs (B2R s * IZR k) + eta prec emax)))%R.

Theorem C03_no_saturation_float32 : C03_float_statement 24 128 Num32.
Proof. exact (absmax_no_saturation_float 24 128 Hp24 Hpe24 ltac:(lia) ltac:(lia)). Qed.
Print Assumptions C03_no_saturation_float32.
Theorem C03_no_saturation_float16 : C03_float_statement 11 16 Num16.
Proof. exact (absmax_no_saturation_float 11 16 Hp11 Hpe11 ltac:(lia) ltac:(lia)). Qed.
Print Assumptions C03_no_saturation_float16.
Theorem C03_no_saturation_bfloat16 : C03_float_statement 8 128 NumB16.
Proof. exact (absmax_no_saturation_float 8 128 Hp8 Hpe8 ltac:(lia) ltac:(lia)). Qed.
Print Assumptions C03_no_saturation_bfloat16.

(* non-vacuity: a 2x3 tensor, axis 0 -> two cells whose members are the two rows *)
Example C03_cells_example :
  members [2; 3] (eff_dims [2; 3] (zrange2 1 2)) 0 = [0; 1; 2] /\
  members [2; 3] (eff_dims [2; 3] (zrange2 1 2)) 1 = [3; 4; 5] /\
  members [2; 3] (eff_dims [2; 3] (zrange2 0 1)) 2 = [2; 5].
Proof. vm_compute. repeat split. Qed.

(* MaxOptimizer (int2 / int4), for any number type, rank and shape: one scale per cell of the reduction (per kept-axis
   index, or per group after grouping), equal to (max(cell max, 0) - min(cell min, 0)) / (2^bits - 1), where the cell
   minimum and maximum are folds over exactly the members of that cell: the quantization range is the hull of the
   cell and zero, and nothing outside the cell influences it *)
Theorem C03_max_optimizer_cells : forall (F : Type) (NF : Num F) (base S Zp : tensor F) bits a,
  pos_dims (shape base) -> shape base <> [] ->
  src_max_optimize base bits (Some a) = Ok (S, Zp) ->
  let rd := opt_dims base (Some a) in
  shape S = red_shape (shape base) rd /\
  forall c, 0 <= c < prodZ (shape S) ->
    exists mn mx, cell_fold n_min base rd c = Some mn /\ cell_fold n_max base rd c = Some mx /\
      zget (data S) c f0 =
      n_div (n_sub (n_max mx (n_of_Z 0)) (n_min mn (n_of_Z 0))) (n_of_Z ((2 ^ (bits - 1) - 1) - (- 2 ^ (bits - 1)))).
Proof. intros F NF. rewrite tie_max_optimize. exact (@max_optimize_cells F NF). Qed.
Print Assumptions C03_max_optimizer_cells.
