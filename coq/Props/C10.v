(* C10 — state_dict save/load round trips reproduce the quantized model exactly. *)
From Coq Require Import String List ZArith Bool.
From QV Require Import Model.Codec Model.Serial Model.SerialFacts Proofs.CodecProofs Proofs.SerialProofs.
From QD Require Import GenSer TieSer.
Import ListNotations.
Open Scope string_scope.

(* the meta strings: for EVERY integer, optional integer, list and tuple of integers (any length, any sign),
   the fragment of ast.literal_eval used by the loaders reads back what str() printed *)
Theorem C10_literal_roundtrip : forall v : pyval, parse (show v) = Some v.
Proof. exact parse_show. Qed.
Print Assumptions C10_literal_roundtrip.

(* flattening a quantized tensor under a prefix into ANY state_dict whose other keys do not start with that
   prefix, then running the loader generated from the current source, rebuilds exactly the same tensor
   (same leaves, qtype, axis, group size, size, stride - whatever their values) and removes exactly its keys *)
Theorem C10_qbytes_roundtrip : forall p t pre post, prefix_free p pre -> prefix_free p post ->
  src_load_qbytes p (pre ++ addp p (src_flat_qbytes t) ++ post)%list = Some (t, (pre ++ post)%list).
Proof. rewrite tie_load_qbytes, tie_flat_qbytes. exact qbytes_roundtrip. Qed.
Print Assumptions C10_qbytes_roundtrip.

Theorem C10_packed_roundtrip : forall p t pre post, prefix_free p pre -> prefix_free p post ->
  src_load_packed p (pre ++ addp p (src_flat_packed t) ++ post)%list = Some (t, (pre ++ post)%list).
Proof. rewrite tie_load_packed, tie_flat_packed. exact packed_roundtrip. Qed.
Print Assumptions C10_packed_roundtrip.

Theorem C10_qbits_roundtrip : forall p t pre post, prefix_free p pre -> prefix_free p post ->
  src_load_qbits p (pre ++ addp p (src_flat_qbits t) ++ post)%list = Some (t, (pre ++ post)%list).
Proof. rewrite tie_load_qbits, tie_flat_qbits. exact qbits_roundtrip. Qed.
Print Assumptions C10_qbits_roundtrip.

(* the module-level save / load, the generic flattener, safe_save / safe_load and requantize are the reviewed ones *)
Theorem C10_glue_unchanged : src_ser_prints = exp_ser_prints.
Proof. exact tie_ser_prints. Qed.

(* non-vacuity: a grouped int2 weight in a two-layer state_dict *)
Definition ex_qi := {| qi_data := {| pk_data := 3%nat; pk_bits := 2; pk_size := [30; 32]%Z; pk_stride := [32; 1]%Z |}; qi_scale := 4%nat; qi_zp := 5%nat;
                       qi_qtype := "qint2"; qi_axis := Some 0%Z; qi_group := Some 32%Z; qi_size := [6; 160]%Z; qi_stride := [160; 1]%Z |}.
Example C10_hyps_satisfiable :
  prefix_free "1.weight." [("0.bias", LT 9%nat); ("0.weight", LT 8%nat)] /\
  src_load_qbits "1.weight." ([("0.bias", LT 9%nat); ("0.weight", LT 8%nat)] ++ addp "1.weight." (src_flat_qbits ex_qi) ++ [("1.bias", LT 7%nat)])%list
  = Some (ex_qi, [("0.bias", LT 9%nat); ("0.weight", LT 8%nat); ("1.bias", LT 7%nat)]).
Proof. split; [repeat constructor|vm_compute; reflexivity]. Qed.
