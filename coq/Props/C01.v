(* C01 — 8-bit symmetric quantization is a nearest-grid-point projection.
   Statements only; proofs are in Proofs/.  [src_*] are the definitions generated from the current
   source; TieNum proves them convertible with the model the lemmas are about. *)
From Coq Require Import String List ZArith Bool Reals.
From QV Require Import Lib.Res Lib.Tensor Lib.ND Lib.NDFacts Lib.Num Lib.QTensor Model.Quant
     Proofs.QuantProofs Proofs.RealNum.
From QD Require Import GenNum TieC01.
Import ListNotations.

(* (1) per-tensor scale: for ANY number type (exact reals or IEEE floats), any rank and shape, every
       element is quantized, and dequantized, with the one scale: codes = symq x s, values = s * symq x s *)
Theorem C01_tensor_scalar : forall (F : Type) (NF : Num F) (base : tensor F) q (s0 : F) r,
  src_sym_forward base q None (T [] [s0]) = Ok r -> shape base <> [] ->
  qb_data r = t_map (fun x => symq q x s0) base /\
  src_qbytes_dequantize r = Ok (t_map (fun x => symdq q x s0) base).
Proof. intros F NF. rewrite tie_sym_forward, tie_qbytes_dequantize. exact (@sym_scalar_elementwise F NF). Qed.
Print Assumptions C01_tensor_scalar.

(* (2) per-axis scale (one value per index of the first or last axis, or any shape whose dims are 1
       or equal to the base's): element j meets exactly the scale value at its own axis index *)
Theorem C01_tensor_axis : forall (F : Type) (NF : Num F) (base : tensor F) q axis scale r,
  src_sym_forward base q axis scale = Ok r ->
  shape base <> [] -> bsub (shape scale) (shape base) -> pos_dims (shape base) ->
  let sj := fun j => zget (data scale) (sidx (shape base) (shape scale) j) f0 in
  qb_data r = T (shape base) (map (fun j => symq q (zget (data base) j f0) (sj j)) (zrange (numel base))) /\
  src_qbytes_dequantize r =
    Ok (T (shape base) (map (fun j => symdq q (zget (data base) j f0) (sj j)) (zrange (numel base)))).
Proof. intros F NF. rewrite tie_sym_forward, tie_qbytes_dequantize. exact (@sym_axis_elementwise F NF). Qed.
Print Assumptions C01_tensor_axis.

(* (3) exact arithmetic, qint8: the code is an integer of [-128,127] (so the int8 cast is exact: no
       wrap-around) and the dequantized value is a closest grid point, for every x and every s > 0 *)
Theorem C01_nearest_int8_exact : forall x s : R, (0 < s)%R ->
  exists k : Z, (-128 <= k <= 127)%Z /\ symq qint8 x s = IZR k /\
    forall v : Z, (-128 <= v <= 127)%Z ->
      (Rabs (symdq qint8 x s - x) <= Rabs (s * IZR v - x))%R.
Proof. exact sym_int8_nearest_R. Qed.
Print Assumptions C01_nearest_int8_exact.

(* (4) exact arithmetic: beyond the grid the end points are taken *)
Theorem C01_saturates_int8_exact : forall x s : R, (0 < s)%R ->
  ((127 <= x / s)%R -> symq qint8 x s = 127%R) /\ ((x / s <= -128)%R -> symq qint8 x s = (-128)%R).
Proof. exact sym_int8_saturates_R. Qed.
Print Assumptions C01_saturates_int8_exact.
