(* C01 — 8-bit symmetric quantization is a nearest-grid-point projection.
   Statements only; proofs are in Proofs/.  [src_*] are the definitions generated from the current
   source; TieNum proves them convertible with the model the lemmas are about. *)
From Coq Require Import String List ZArith Bool Reals Lia.
From QV Require Import Lib.Res Lib.Tensor Lib.ND Lib.NDFacts Lib.Num Lib.QTensor Model.Quant
     Proofs.QuantProofs Proofs.RealNum.
From QD Require Import GenNum TieC01.
Import ListNotations.

(* (1) per-tensor scale: for ANY number type (exact reals or IEEE floats), any rank and shape, every
       element is quantized, and dequantized, with the one scale: codes = symq x s, values = s * symq x s *)
Theorem C01_tensor_scalar : forall (F : Type) (NF : Num F) (base : tensor F) q (s0 : F) r,
  src_sym_forward base q None (T [] [s0]) = Ok r -> shape base <> [] ->
  qb_data r = t_map (fun x => symq q x s0) base /\
  src_qbytes_dequantize r = Ok (t_map (fun x => symdq q x s0) base).
Proof. intros F NF. rewrite tie_sym_forward, tie_qbytes_dequantize. exact (@sym_scalar_elementwise F NF). Qed.
Print Assumptions C01_tensor_scalar.

(* (2) per-axis scale (one value per index of the first or last axis, or any shape whose dims are 1
       or equal to the base's): element j meets exactly the scale value at its own axis index *)
Theorem C01_tensor_axis : forall (F : Type) (NF : Num F) (base : tensor F) q axis scale r,
  src_sym_forward base q axis scale = Ok r ->
  shape base <> [] -> bsub (shape scale) (shape base) -> pos_dims (shape base) ->
  let sj := fun j => zget (data scale) (sidx (shape base) (shape scale) j) f0 in
  qb_data r = T (shape base) (map (fun j => symq q (zget (data base) j f0) (sj j)) (zrange (numel base))) /\
  src_qbytes_dequantize r =
    Ok (T (shape base) (map (fun j => symdq q (zget (data base) j f0) (sj j)) (zrange (numel base)))).
Proof. intros F NF. rewrite tie_sym_forward, tie_qbytes_dequantize. exact (@sym_axis_elementwise F NF). Qed.
Print Assumptions C01_tensor_axis.

(* (3) exact arithmetic, qint8: the code is an integer of [-128,127] (so the int8 cast is exact: no
       wrap-around) and the dequantized value is a closest grid point, for every x and every s > 0 *)
Theorem C01_nearest_int8_exact : forall x s : R, (0 < s)%R ->
  exists k : Z, (-128 <= k <= 127)%Z /\ symq qint8 x s = IZR k /\
    forall v : Z, (-128 <= v <= 127)%Z ->
      (Rabs (symdq qint8 x s - x) <= Rabs (s * IZR v - x))%R.
Proof. exact sym_int8_nearest_R. Qed.
Print Assumptions C01_nearest_int8_exact.

(* (4) exact arithmetic: beyond the grid the end points are taken *)
Theorem C01_saturates_int8_exact : forall x s : R, (0 < s)%R ->
  ((127 <= x / s)%R -> symq qint8 x s = 127%R) /\ ((x / s <= -128)%R -> symq qint8 x s = (-128)%R).
Proof. exact sym_int8_saturates_R. Qed.
Print Assumptions C01_saturates_int8_exact.

(* (5) IEEE arithmetic (Flocq), qint8, for float32 / float16 / bfloat16: for every finite x and every
       finite positive scale whose grid is representable (128*s <= largest finite value):
       the code is an integer k of [-128,127] stored exactly (no wrap), the dequantized value is
       finite, and it is a closest grid point up to the stated rounding slack
         2(u|x| + s*eta) + (u|s*k| + eta),   u = 2^-prec, eta = half the smallest subnormal.
       A float quotient that overflows to infinity saturates to the end point (case of the proof). *)
From Flocq Require Import Core IEEE754.BinarySingleNaN.
From QV Require Import Float.F Proofs.FloatFacts Proofs.C01Float.

Definition C01_float_statement (prec emax : Z) (NF : Num (binary_float prec emax))
           (code : storage -> binary_float prec emax -> Z) : Prop :=
  forall x s : binary_float prec emax,
  is_finite x = true -> is_finite s = true -> (0 < B2R s)%R -> (128 * B2R s <= Fmax prec emax)%R ->
  exists k : Z, (-128 <= k <= 127)%Z /\ B2R (@symq _ NF qint8 x s) = IZR k
    /\ is_finite (@symq _ NF qint8 x s) = true
    /\ code SInt8 (@symq _ NF qint8 x s) = k
    /\ is_finite (@symdq _ NF qint8 x s) = true
    /\ forall v : Z, (-128 <= v <= 127)%Z ->
       (Rabs (B2R (@symdq _ NF qint8 x s) - B2R x) <=
        Rabs (B2R s * IZR v - B2R x)
        + (2 * (uro prec * Rabs (B2R x) + B2R s * eta prec emax)
           + (uro prec * Rabs (B2R s * IZR k) + eta prec emax)))%R.

Theorem C01_nearest_int8_float32 : C01_float_statement 24 128 Num32 f32_code.
Proof. exact (qint8_nearest_float 24 128 Hp24 Hpe24 ltac:(lia) ltac:(lia)). Qed.
Print Assumptions C01_nearest_int8_float32.

Theorem C01_nearest_int8_float16 : C01_float_statement 11 16 Num16 f16_code.
Proof. exact (qint8_nearest_float 11 16 Hp11 Hpe11 ltac:(lia) ltac:(lia)). Qed.
Print Assumptions C01_nearest_int8_float16.

Theorem C01_nearest_int8_bfloat16 : C01_float_statement 8 128 NumB16 bf16_code.
Proof. exact (qint8_nearest_float 8 128 Hp8 Hpe8 ltac:(lia) ltac:(lia)). Qed.
Print Assumptions C01_nearest_int8_bfloat16.

(* non-vacuity: float16 x = 0.3, s = 0.01 satisfy the hypotheses; x = 3.0 saturates at code 127 *)
Example C01_float_hyps_satisfiable :
  let x := f16_of_bits 13517 in let s := f16_of_bits 8479 in
  is_finite x = true /\ is_finite s = true /\
  f16_code SInt8 (@symq _ Num16 qint8 x s) = 30%Z /\
  f16_code SInt8 (@symq _ Num16 qint8 (f16_of_bits 16896) s) = 127%Z.
Proof. vm_compute. repeat split. Qed.
