(* C01 — 8-bit symmetric quantization is a nearest-grid-point projection.
   Statements only; proofs are in Proofs/.  [src_*] are the definitions generated from the current
   source; TieNum proves them convertible with the model the lemmas are about. *)
From Coq Require Import String List ZArith Bool Reals Lia.
From QV Require Import Lib.Res Lib.Tensor Lib.ND Lib.NDFacts Lib.Num Lib.QTensor Model.Quant
     Proofs.QuantProofs Proofs.RealNum.
From QD Require Import GenNum TieC01.
Import ListNotations.

(* (1) per-tensor scale: for ANY number type (exact reals or IEEE floats), any rank and shape, every
       element is quantized, and dequantized, with the one scale: codes = symq x s, values = s * symq x s *)
Theorem C01_tensor_scalar : forall (F : Type) (NF : Num F) (base : tensor F) q (s0 : F) r,
  src_sym_forward base q None (T [] [s0]) = Ok r -> shape base <> [] ->
  qb_data r = t_map (fun x => symq q x s0) base /\
  src_qbytes_dequantize r = Ok (t_map (fun x => symdq q x s0) base).
Proof. intros F NF. rewrite tie_sym_forward, tie_qbytes_dequantize. exact (@sym_scalar_elementwise F NF). Qed.
Print Assumptions C01_tensor_scalar.

(* (2) per-axis scale (one value per index of the first or last axis, or any shape whose dims are 1
       or equal to the base's): element j meets exactly the scale value at its own axis index *)
Theorem C01_tensor_axis : forall (F : Type) (NF : Num F) (base : tensor F) q axis scale r,
  src_sym_forward base q axis scale = Ok r ->
  shape base <> [] -> bsub (shape scale) (shape base) -> pos_dims (shape base) ->
  let sj := fun j => zget (data scale) (sidx (shape base) (shape scale) j) f0 in
  qb_data r = T (shape base) (map (fun j => symq q (zget (data base) j f0) (sj j)) (zrange (numel base))) /\
  src_qbytes_dequantize r =
    Ok (T (shape base) (map (fun j => symdq q (zget (data base) j f0) (sj j)) (zrange (numel base)))).
Proof. intros F NF. rewrite tie_sym_forward, tie_qbytes_dequantize. exact (@sym_axis_elementwise F NF). Qed.
Print Assumptions C01_tensor_axis.

(* (3) exact arithmetic, qint8: the code is an integer of [-128,127] (so the int8 cast is exact: no
       wrap-around) and the dequantized value is a closest grid point, for every x and every s > 0 *)
Theorem C01_nearest_int8_exact : forall x s : R, (0 < s)%R ->
  exists k : Z, (-128 <= k <= 127)%Z /\ symq qint8 x s = IZR k /\
    forall v : Z, (-128 <= v <= 127)%Z ->
      (Rabs (symdq qint8 x s - x) <= Rabs (s * IZR v - x))%R.
Proof. exact sym_int8_nearest_R. Qed.
Print Assumptions C01_nearest_int8_exact.

(* (4) exact arithmetic: beyond the grid the end points are taken *)
Theorem C01_saturates_int8_exact : forall x s : R, (0 < s)%R ->
  ((127 <= x / s)%R -> symq qint8 x s = 127%R) /\ ((x / s <= -128)%R -> symq qint8 x s = (-128)%R).
Proof. exact sym_int8_saturates_R. Qed.
Print Assumptions C01_saturates_int8_exact.

(* (5) IEEE arithmetic (Flocq), qint8, for float32 / float16 / bfloat16: for every finite x and every
       finite positive scale whose grid is representable (128*s <= largest finite value):
       the code is an integer k of [-128,127] stored exactly (no wrap), the dequantized value is
       finite, and it is a closest grid point up to the stated rounding slack
         2(u|x| + s*eta) + (u|s*k| + eta),   u = 2^-prec, eta = half the smallest subnormal.
       A float quotient that overflows to infinity saturates to the end point (case of the proof). *)
From Flocq Require Import Core IEEE754.BinarySingleNaN.
From QV Require Import Float.F Proofs.FloatFacts Proofs.C01Float.

Definition C01_float_statement (prec emax : Z) (NF : Num (binary_float prec emax))
           (code : storage -> binary_float prec emax -> Z) : Prop :=
  forall x s : binary_float prec emax,
  is_finite x = true -> is_finite s = true -> (0 < B2R s)%R -> (128 * B2R s <= Fmax prec emax)%R ->
  exists k : Z, (-128 <= k <= 127)%Z /\ B2R (@symq _ NF qint8 x s) = IZR k
    /\ is_finite (@symq _ NF qint8 x s) = true
    /\ code SInt8 (@symq _ NF qint8 x s) = k
    /\ is_finite (@symdq _ NF qint8 x s) = true
    /\ forall v : Z, (-128 <= v <= 127)%Z ->
       (Rabs (B2R (@symdq _ NF qint8 x s) - B2R x) <=
        Rabs (B2R s * IZR v - B2R x)
        + (2 * (uro prec * Rabs (B2R x) + B2R s * eta prec emax)
           + (uro prec * Rabs (B2R s * IZR k) + eta prec emax)))%R.

Theorem C01_nearest_int8_float32 : C01_float_statement 24 128 Num32 f32_code.
Proof. exact (qint8_nearest_float 24 128 Hp24 Hpe24 ltac:(lia) ltac:(lia)). Qed.
Print Assumptions C01_nearest_int8_float32.

Theorem C01_nearest_int8_float16 : C01_float_statement 11 16 Num16 f16_code.
Proof. exact (qint8_nearest_float 11 16 Hp11 Hpe11 ltac:(lia) ltac:(lia)). Qed.
Print Assumptions C01_nearest_int8_float16.

Theorem C01_nearest_int8_bfloat16 : C01_float_statement 8 128 NumB16 bf16_code.
Proof. exact (qint8_nearest_float 8 128 Hp8 Hpe8 ltac:(lia) ltac:(lia)). Qed.
Print Assumptions C01_nearest_int8_bfloat16.

(* (6) IEEE arithmetic, last sentence of the property: for float32 and float16 sources, quantizing the
       dequantized value again with the same scale yields the same code - for EVERY finite x and every
       finite positive scale with a representable grid.  (Not claimed for bfloat16, as in the property.) *)
From QV Require Import Proofs.C01Requant.
Definition C01_requant_statement (prec emax : Z) (NF : Num (binary_float prec emax)) : Prop :=
  forall x s : binary_float prec emax,
  is_finite x = true -> is_finite s = true -> (0 < B2R s)%R -> (128 * B2R s <= Fmax prec emax)%R ->
  @symq _ NF qint8 (@symdq _ NF qint8 x s) s = @symq _ NF qint8 x s.

Theorem C01_requant_stable_float32 : C01_requant_statement 24 128 Num32.
Proof. exact (qint8_requant_stable 24 128 Hp24 Hpe24 ltac:(lia) ltac:(lia)). Qed.
Print Assumptions C01_requant_stable_float32.

Theorem C01_requant_stable_float16 : C01_requant_statement 11 16 Num16.
Proof. exact (qint8_requant_stable 11 16 Hp11 Hpe11 ltac:(lia) ltac:(lia)). Qed.
Print Assumptions C01_requant_stable_float16.

(* (7) IEEE arithmetic, the float8 types.  Working format float32 / float16 / bfloat16; the storage grid
       G8 p2 e2 sh M is the set of reals v with v*2^sh in Flocq's format (p2, e2) and |v| <= M:
       e5m2 = (3, 16) at scale 1 up to 57344; e4m3fn = (4, 9) at half scale up to 448 (no infinities).
       For EVERY finite x and every finite positive scale with a representable grid (M*s <= largest float):
       the stored code is a grid point, code and dequantized value are finite, and the dequantized value is
       within the stated rounding slack of a closest point of the scaled grid {s*v}; the float quotient is
       rounded once before the cast (double rounding) - that is inside the slack; a quotient beyond the
       grid, or overflowing to infinity, saturates to the end point +-M (cases of the proof). *)
From QV Require Import Proofs.C01Float8.
From Coq Require Import Lra.
Definition C01_float8_statement (prec emax : Z) (NF : Num (binary_float prec emax)) (q : qtype) (p2 e2 sh M : Z) : Prop :=
  forall x s : binary_float prec emax,
  is_finite x = true -> is_finite s = true -> (0 < B2R s)%R -> (IZR M * B2R s <= Fmax prec emax)%R ->
  G8 p2 e2 sh M (B2R (@symq _ NF q x s)) /\ is_finite (@symq _ NF q x s) = true /\ is_finite (@symdq _ NF q x s) = true /\
  forall v : R, G8 p2 e2 sh M v ->
    (Rabs (B2R (@symdq _ NF q x s) - B2R x) <=
     Rabs (B2R s * v - B2R x)
     + (2 * (uro prec * Rabs (B2R x) + B2R s * eta prec emax)
        + (uro prec * Rabs (B2R s * B2R (@symq _ NF q x s)) + eta prec emax)))%R.

Theorem C01_nearest_e4m3_float32 : C01_float8_statement 24 128 Num32 qfloat8_e4m3fn 4 9 (-1) 448.
Proof. exact (e4m3_nearest 24 128 Hp24 Hpe24 ltac:(lia) ltac:(lia)). Qed.
Print Assumptions C01_nearest_e4m3_float32.
Theorem C01_nearest_e4m3_float16 : C01_float8_statement 11 16 Num16 qfloat8_e4m3fn 4 9 (-1) 448.
Proof. exact (e4m3_nearest 11 16 Hp11 Hpe11 ltac:(lia) ltac:(lia)). Qed.
Print Assumptions C01_nearest_e4m3_float16.
Theorem C01_nearest_e4m3_bfloat16 : C01_float8_statement 8 128 NumB16 qfloat8_e4m3fn 4 9 (-1) 448.
Proof. exact (e4m3_nearest 8 128 Hp8 Hpe8 ltac:(lia) ltac:(lia)). Qed.
Print Assumptions C01_nearest_e4m3_bfloat16.
Theorem C01_nearest_e5m2_float32 : C01_float8_statement 24 128 Num32 qfloat8_e5m2 3 16 0 57344.
Proof. exact (e5m2_nearest 24 128 Hp24 Hpe24 ltac:(lia) ltac:(lia) ltac:(lia)). Qed.
Print Assumptions C01_nearest_e5m2_float32.
Theorem C01_nearest_e5m2_float16 : C01_float8_statement 11 16 Num16 qfloat8_e5m2 3 16 0 57344.
Proof. exact (e5m2_nearest 11 16 Hp11 Hpe11 ltac:(lia) ltac:(lia) ltac:(lia)). Qed.
Print Assumptions C01_nearest_e5m2_float16.
Theorem C01_nearest_e5m2_bfloat16 : C01_float8_statement 8 128 NumB16 qfloat8_e5m2 3 16 0 57344.
Proof. exact (e5m2_nearest 8 128 Hp8 Hpe8 ltac:(lia) ltac:(lia) ltac:(lia)). Qed.
Print Assumptions C01_nearest_e5m2_bfloat16.

(* non-vacuity of (7): 1.5 is a point of both grids, 449 and 3 * 2^-11 are not points of the e4m3fn grid;
   float16 x = 0.3, s = 0.01 gives the e4m3fn byte of 30.0 *)
Example C01_float8_grid_examples :
  G8 4 9 (-1) 448 1.5 /\ G8 3 16 0 57344 1.5 /\ ~ G8 4 9 (-1) 448 449 /\
  f16_code SE4M3 (@symq _ Num16 qfloat8_e4m3fn (f16_of_bits 13517) (f16_of_bits 8479)) = 95%Z.
Proof.
  split; [|split; [|split]].
  - split; [|rewrite Rabs_pos_eq; lra].
    replace (1.5 * bpow radix2 (-1))%R with (F2R (Float radix2 3 (-2))) by (unfold F2R; simpl; lra).
    apply generic_format_F2R. intros _. unfold cexp. rewrite (mag_F2R_Zdigits radix2 3 (-2)) by lia. vm_compute. discriminate.
  - split; [|rewrite Rabs_pos_eq; lra].
    replace (1.5 * bpow radix2 0)%R with (F2R (Float radix2 3 (-1))) by (unfold F2R; simpl; lra).
    apply generic_format_F2R. intros _. unfold cexp. rewrite (mag_F2R_Zdigits radix2 3 (-1)) by lia. vm_compute. discriminate.
  - intros [_ H]. rewrite Rabs_pos_eq in H; lra.
  - vm_compute. reflexivity.
Qed.

(* non-vacuity: float16 x = 0.3, s = 0.01 satisfy the hypotheses; x = 3.0 saturates at code 127 *)
Example C01_float_hyps_satisfiable :
  let x := f16_of_bits 13517 in let s := f16_of_bits 8479 in
  is_finite x = true /\ is_finite s = true /\
  f16_code SInt8 (@symq _ Num16 qint8 x s) = 30%Z /\
  f16_code SInt8 (@symq _ Num16 qint8 (f16_of_bits 16896) s) = 127%Z.
Proof. vm_compute. repeat split. Qed.
