(* C11 — Gradients pass straight through quantization and match the float linear backward. *)
From Coq Require Import String List ZArith Reals.
From QV Require Import Model.Grad Model.GradFacts Proofs.GradProofs Model.Module Proofs.ModuleProofs.
From QD Require Import GenGrad TieGrad.
Import ListNotations.

(* the explicit backward in the source is the one transcribed by grad_input / grad_weight / grad_bias, every
   quantizer / dequantizer backward returns its incoming gradient unchanged, and the surrounding forward code
   is the reviewed one *)
Theorem C11_source_facts :
  src_linear_backward = exp_linear_backward /\ src_ste_backward = exp_ste_backward /\ src_grad_prints = exp_grad_prints.
Proof. exact (conj tie_linear_backward (conj tie_ste_backward tie_grad_prints)). Qed.

(* For EVERY number of rows N (the product of any leading shape: any input rank), M, K, operands, bias and
   upstream gradient G: the forward is affine in the input, the weight and the bias, and the three backward
   formulas are exactly its gradient - the vector that pairs with every perturbation like the change of <G, output> *)
Theorem C11_input_gradient : forall N M K (X dX W : mat R) (b : vec R) (G : mat R),
  (pairing R 0 Rplus Rmult N M G (lin_forward R 0 Rplus Rmult K (fun n k => X n k + dX n k) W b)
   - pairing R 0 Rplus Rmult N M G (lin_forward R 0 Rplus Rmult K X W b)
   = bsum R 0 Rplus N (fun n => bsum R 0 Rplus K (fun k => grad_input R 0 Rplus Rmult M G W n k * dX n k)))%R.
Proof. exact grad_input_adjoint_R. Qed.
Print Assumptions C11_input_gradient.

Theorem C11_weight_gradient : forall N M K (X W dW : mat R) (b : vec R) (G : mat R),
  (pairing R 0 Rplus Rmult N M G (lin_forward R 0 Rplus Rmult K X (fun m k => W m k + dW m k) b)
   - pairing R 0 Rplus Rmult N M G (lin_forward R 0 Rplus Rmult K X W b)
   = bsum R 0 Rplus M (fun m => bsum R 0 Rplus K (fun k => grad_weight R 0 Rplus Rmult N G X m k * dW m k)))%R.
Proof. exact grad_weight_adjoint_R. Qed.
Print Assumptions C11_weight_gradient.

Theorem C11_bias_gradient : forall N M K (X W : mat R) (b db : vec R) (G : mat R),
  (pairing R 0 Rplus Rmult N M G (lin_forward R 0 Rplus Rmult K X W (fun m => b m + db m))
   - pairing R 0 Rplus Rmult N M G (lin_forward R 0 Rplus Rmult K X W b)
   = bsum R 0 Rplus M (fun m => grad_bias R 0 Rplus N G m * db m))%R.
Proof. exact grad_bias_adjoint_R. Qed.
Print Assumptions C11_bias_gradient.

(* ... and that vector is unique *)
Theorem C11_gradient_unique : forall n (g h : nat -> R),
  (forall d : nat -> R, bsum R 0%R Rplus n (fun j => g j * d j)%R = bsum R 0%R Rplus n (fun j => h j * d j)%R) ->
  forall i, (i < n)%nat -> g i = h i.
Proof. exact (gradient_unique R 0%R 1%R Rplus Rmult Rminus Ropp RTheory). Qed.
Print Assumptions C11_gradient_unique.

(* freshness: until frozen every forward quantizes the CURRENT float weights; once frozen updates are ignored *)
Theorem C11_unfrozen_tracks_updates : forall (W Q : Type) (quant : W -> Q) (w w' : W),
  qweight W Q quant (update W Q w' (Float W Q w)) = quant w'.
Proof. exact unfrozen_tracks_updates. Qed.
Print Assumptions C11_unfrozen_tracks_updates.
