(* C07 — Quantized matmul/linear kernels compute scale-corrected products on every path. *)
From Coq Require Import String List ZArith Bool Reals.
From QV Require Import Model.MM Proofs.MMProofs.
From QD Require Import GenMM TieC07.
Import ListNotations.

(* exact arithmetic, any length of the contraction: the quantized route (matmul of codes, then the
   product of the two scales) and the float-activation route both equal the product of the DEQUANTIZED
   operands plus bias *)
Theorem C07_routes_agree : forall (sa sw : R) (a w : list R) (bias : R),
  route_qbytes_mm sa sw a w bias = ref_linear sa sw a w bias /\
  route_float_act sw a w bias = ref_linear 1 sw a w bias.
Proof. exact routes_agree. Qed.
Print Assumptions C07_routes_agree.

(* the int32 accumulator of the integer GEMM never wraps for int8 codes and K < 2^17, and denotes the
   same number as the float accumulation *)
Theorem C07_int_mm_exact : forall (a b : list Z),
  Forall (fun x => (-128 <= x <= 127)%Z) a -> Forall (fun x => (-128 <= x <= 127)%Z) b ->
  (Z.of_nat (length a) < 131072)%Z ->
  wrap32 (zdot a b) = zdot a b /\ IZR (zdot a b) = dot (map IZR a) (map IZR b).
Proof. intros a b Ha Hb Hk. split; [apply int_mm_no_wrap; assumption | apply zdot_IZR]. Qed.
Print Assumptions C07_int_mm_exact.

(* routing (read from the current source) is total and selects each kernel only for the dtypes it accepts *)
Theorem C07_route_cpu : forall ge24 adt wdt tokens inf outf,
  match src_route_cpu ge24 adt wdt tokens inf outf with
  | RIntMM => adt = DInt8 /\ wdt = DInt8 /\ ge24 = true
  | RInt8Pack => adt = DBF16 /\ wdt = DInt8 /\ (inf mod 4 = 0)%Z
  | RFloat => True
  end.
Proof. rewrite tie_route_cpu. exact route_cpu_sound. Qed.
Print Assumptions C07_route_cpu.

Theorem C07_route_cuda : forall ge24 adt wdt tokens inf outf,
  src_route_cuda ge24 adt wdt tokens inf outf = RIntMM ->
  adt = DInt8 /\ wdt = DInt8 /\ (16 < tokens /\ tokens mod 8 = 0 /\ inf mod 8 = 0 /\ outf mod 8 = 0)%Z.
Proof. rewrite tie_route_cuda. exact route_cuda_sound. Qed.
Print Assumptions C07_route_cuda.

(* the numeric route bodies are the ones the exact-arithmetic model was written against *)
Theorem C07_route_bodies_unchanged : src_mm_prints = mm_prints /\ src_route_mps = route_mps /\ src_mm_int_route = mm_int_route.
Proof. split; [apply tie_mm_prints|]. split; [apply tie_route_mps | apply tie_mm_int_route]. Qed.
Print Assumptions C07_route_bodies_unchanged.

(* known finding F14 as a witness of the model: the int8-pack kernel is selected for in_features = 4 *)
Example C07_int8pack_refuted : exists inf, src_route_cpu true DBF16 DInt8 1 inf 8 = RInt8Pack /\ (inf mod 16 <> 0)%Z.
Proof. rewrite tie_route_cpu. exact int8pack_precondition_refuted. Qed.

(* "within the floating-point error of one accumulation", IEEE arithmetic (Flocq), ANY binary format and ANY order
   of accumulation.  An accumulation is a tree (Proofs/DotFloat.v): leaves are rounded products, inner nodes rounded
   additions of two partial sums or fused multiply-adds (one rounding) - sequential, blocked, pairwise or vectorised
   kernels with or without FMA are all such trees over the same K products.  Whenever the float result is finite
   (no overflow anywhere):
        | fl(T) - sum a_i*b_i |  <=  ((1+u)^h - 1) * sum |a_i*b_i|  +  n * (1+u)^h * eta
   with h the height of the tree (<= K), n its number of nodes, u = 2^-prec, eta = half the smallest subnormal.
   The audit's tolerance ((K+2)*u_acc + 5u) * sum|x||w| is the first-order instance. *)
From Flocq Require Import Core IEEE754.BinarySingleNaN.
From QV Require Import Float.F Proofs.FloatFacts Proofs.DotFloat.
Theorem C07_accumulation_error : forall (prec emax : Z) (Hp : Prec_gt_0 prec) (Hpe : Prec_lt_emax prec emax)
  (t : sumtree prec emax),
  is_finite (feval prec emax Hp Hpe t) = true ->
  (Rabs (B2R (feval prec emax Hp Hpe t) - reval prec emax t) <=
   ((1 + uro prec) ^ height prec emax t - 1) * aeval prec emax t
   + INR (size prec emax t) * (1 + uro prec) ^ height prec emax t * eta prec emax)%R.
Proof. exact sumtree_error. Qed.
Print Assumptions C07_accumulation_error.

(* the textbook loop over K products is a tree of height K *)
Theorem C07_sequential_height : forall prec emax first rest,
  height prec emax (seq_tree prec emax first rest) = S (length rest).
Proof. exact seq_tree_height. Qed.

(* non-vacuity: a float32 accumulation of three products (one by FMA) whose result is finite *)
Example C07_accumulation_example :
  let a := f32_of_bits 1069547520%Z in let b := f32_of_bits 1077936128%Z in   (* 1.5, 3.0 *)
  let t := SFma 24 128 a b (SAdd 24 128 (SProd 24 128 a a) (SProd 24 128 b b)) in
  is_finite (feval 24 128 Hp24 Hpe24 t) = true /\ f32_to_bits (feval 24 128 Hp24 Hpe24 t) = 1098645504%Z.
Proof. vm_compute. split; reflexivity. Qed.
