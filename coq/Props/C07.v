(* C07 — Quantized matmul/linear kernels compute scale-corrected products on every path. *)
From Coq Require Import String List ZArith Bool Reals.
From QV Require Import Model.MM Proofs.MMProofs.
From QD Require Import GenMM TieC07.
Import ListNotations.

(* exact arithmetic, any length of the contraction: the quantized route (matmul of codes, then the
   product of the two scales) and the float-activation route both equal the product of the DEQUANTIZED
   operands plus bias *)
Theorem C07_routes_agree : forall (sa sw : R) (a w : list R) (bias : R),
  route_qbytes_mm sa sw a w bias = ref_linear sa sw a w bias /\
  route_float_act sw a w bias = ref_linear 1 sw a w bias.
Proof. exact routes_agree. Qed.
Print Assumptions C07_routes_agree.

(* the int32 accumulator of the integer GEMM never wraps for int8 codes and K < 2^17, and denotes the
   same number as the float accumulation *)
Theorem C07_int_mm_exact : forall (a b : list Z),
  Forall (fun x => (-128 <= x <= 127)%Z) a -> Forall (fun x => (-128 <= x <= 127)%Z) b ->
  (Z.of_nat (length a) < 131072)%Z ->
  wrap32 (zdot a b) = zdot a b /\ IZR (zdot a b) = dot (map IZR a) (map IZR b).
Proof. intros a b Ha Hb Hk. split; [apply int_mm_no_wrap; assumption | apply zdot_IZR]. Qed.
Print Assumptions C07_int_mm_exact.

(* routing (read from the current source) is total and selects each kernel only for the dtypes it accepts *)
Theorem C07_route_cpu : forall ge24 adt wdt tokens inf outf,
  match src_route_cpu ge24 adt wdt tokens inf outf with
  | RIntMM => adt = DInt8 /\ wdt = DInt8 /\ ge24 = true
  | RInt8Pack => adt = DBF16 /\ wdt = DInt8 /\ (inf mod 4 = 0)%Z
  | RFloat => True
  end.
Proof. rewrite tie_route_cpu. exact route_cpu_sound. Qed.
Print Assumptions C07_route_cpu.

Theorem C07_route_cuda : forall ge24 adt wdt tokens inf outf,
  src_route_cuda ge24 adt wdt tokens inf outf = RIntMM ->
  adt = DInt8 /\ wdt = DInt8 /\ (16 < tokens /\ tokens mod 8 = 0 /\ inf mod 8 = 0 /\ outf mod 8 = 0)%Z.
Proof. rewrite tie_route_cuda. exact route_cuda_sound. Qed.
Print Assumptions C07_route_cuda.

(* the numeric route bodies are the ones the exact-arithmetic model was written against *)
Theorem C07_route_bodies_unchanged : src_mm_prints = mm_prints /\ src_route_mps = route_mps /\ src_mm_int_route = mm_int_route.
Proof. split; [apply tie_mm_prints|]. split; [apply tie_route_mps | apply tie_mm_int_route]. Qed.
Print Assumptions C07_route_bodies_unchanged.

(* known finding F14 as a witness of the model: the int8-pack kernel is selected for in_features = 4 *)
Example C07_int8pack_refuted : exists inf, src_route_cpu true DBF16 DInt8 1 inf 8 = RInt8Pack /\ (inf mod 16 <> 0)%Z.
Proof. rewrite tie_route_cpu. exact int8pack_precondition_refuted. Qed.
