(* C14 — Configurations are either rejected with ValueError or fully honoured.
   Statements only, over the functions generated from the current source. *)
From Coq Require Import String List ZArith Bool Lia.
From QV Require Import Lib.Res Lib.Tensor Lib.ND Lib.Num Lib.QTensor Model.Quant
     Proofs.QuantProofs Proofs.ConfigProofs.
From QD Require Import GenNum TieC14.
Import ListNotations.
Open Scope Z_scope.

(* accepted => honoured: exactly the requested qtype, axis, group size, and the group size is an
   admissible divisor of the per-axis element count (the preconditions of C01-C03 / C06) *)
Theorem C14_accept_honoured : forall (F : Type) (NF : Num F) (t : tensor F) q axis gs o r,
  src_quantize_weight t q axis gs o = Ok r ->
  oz_in axis [0; -1] = true /\
  (q_bits q = 8 ->
     gs = None /\ (o = None \/ opt_is_sym o = true) /\
     exists b, r = QB b /\ qb_qtype b = q /\ qb_size b = shape t) /\
  (q_bits q <> 8 ->
     (o = None \/ opt_is_aff o = true) /\
     exists z, r = QZ z /\ qz_qtype z = q /\ qz_axis z = axis /\ qz_group z = gs /\ qz_size z = shape t
               /\ existsb (qtype_eqb q) [qint2; qint4] = true
               /\ forall g, gs = Some g ->
                    exists d, py_index_opt (shape t) axis = Ok d /\ d <> 0 /\
                              0 < g <= numel t / d /\ g <> 0 /\ (numel t / d) mod g = 0).
Proof. intros F NF. rewrite tie_quantize_weight. exact (@quantize_weight_accepts F NF). Qed.
Print Assumptions C14_accept_honoured.

(* every unsupported class named by the property is a ValueError *)
Theorem C14_rejects_axis : forall (F : Type) (NF : Num F) (t : tensor F) q axis gs o,
  oz_in axis [0; -1] = false -> src_quantize_weight t q axis gs o = Err "ValueError"%string.
Proof. intros F NF. rewrite tie_quantize_weight. exact (@quantize_weight_rejects_axis F NF). Qed.
Print Assumptions C14_rejects_axis.

Theorem C14_rejects_group_8bit : forall (F : Type) (NF : Num F) (t : tensor F) q axis g o,
  oz_in axis [0; -1] = true -> q_bits q = 8 ->
  src_quantize_weight t q axis (Some g) o = Err "ValueError"%string.
Proof. intros F NF. rewrite tie_quantize_weight. exact (@quantize_weight_rejects_group_8bit F NF). Qed.
Print Assumptions C14_rejects_group_8bit.

Theorem C14_rejects_optimizer_family : forall (F : Type) (NF : Num F) (t : tensor F) q axis gs,
  oz_in axis [0; -1] = true ->
  (q_bits q = 8 -> src_quantize_weight t q axis gs (Some MaxOpt) = Err "ValueError"%string) /\
  (q_bits q <> 8 -> src_quantize_weight t q axis gs (Some AbsmaxOpt) = Err "ValueError"%string).
Proof. intros F NF. rewrite tie_quantize_weight. exact (@quantize_weight_rejects_optimizer_family F NF). Qed.
Print Assumptions C14_rejects_optimizer_family.

Theorem C14_rejects_non_divisor : forall (F : Type) (NF : Num F) (t : tensor F) q axis g o d,
  oz_in axis [0; -1] = true -> q_bits q <> 8 -> (o = None \/ o = Some MaxOpt) ->
  py_index_opt (shape t) axis = Ok d -> d <> 0 ->
  (g <= 0 \/ numel t / d < g \/ (numel t / d) mod g <> 0) ->
  src_quantize_weight t q axis (Some g) o = Err "ValueError"%string.
Proof. intros F NF. rewrite tie_quantize_weight. exact (@quantize_weight_rejects_bad_group F NF). Qed.
Print Assumptions C14_rejects_non_divisor.

Theorem C14_activation_scalar_scale : forall (F : Type) (NF : Num F) (t : tensor F) q scale,
  (numel scale <> 1 -> src_quantize_activation t q scale = Err "ValueError"%string) /\
  (forall r, src_quantize_activation t q scale = Ok r ->
     numel scale = 1 /\ rank scale <= 0 /\ qb_qtype r = q /\ qb_axis r = None /\ qb_size r = shape t
     /\ qb_scale r = scale).
Proof.
  intros F NF t q scale. rewrite tie_quantize_activation. split.
  - exact (@quantize_activation_rejects_nonscalar F NF t q scale).
  - exact (@quantize_activation_accepts F NF t q scale).
Qed.
Print Assumptions C14_activation_scalar_scale.

(* the symmetric quantizer's own per-axis sanity checks *)
Theorem C14_symmetric_axis : forall (F : Type) (NF : Num F) (base : tensor F) q axis scale r,
  src_sym_forward base q axis scale = Ok r ->
  match axis with
  | None => qb_axis r = None /\ rank scale <= 0
  | Some a => (qb_axis r = Some 0 \/ qb_axis r = Some (-1)) /\ rank base <> 1 /\ rank scale = rank base
              /\ (a = 0 \/ a = -1 \/ a = rank base - 1) /\ sq_ndim scale <= 1
  end.
Proof. intros F NF. rewrite tie_sym_forward. exact (@sym_forward_axis F NF). Qed.
Print Assumptions C14_symmetric_axis.

(* the affine quantizer's qtype / axis checks *)
Theorem C14_affine_checks : forall (F : Type) (NF : Num F) (base : tensor F) q axis gs scale zp,
  (existsb (qtype_eqb q) [qint2; qint4] = false \/ oz_in axis [0; -1] = false ->
   src_affine_forward base q axis gs scale zp = Err "ValueError"%string) /\
  (forall z, src_affine_forward base q axis gs scale zp = Ok z ->
     qz_qtype z = q /\ qz_axis z = axis /\ qz_group z = gs /\ qz_size z = shape base).
Proof.
  intros F NF base q axis gs scale zp. rewrite tie_affine_forward. split.
  - exact (@affine_forward_rejects F NF base q axis gs scale zp).
  - intros z H. destruct (@affine_forward_fields F NF _ _ _ _ _ _ _ H) as (A & B & C & D & _).
    repeat split; assumption.
Qed.
Print Assumptions C14_affine_checks.

(* automatic group size: for EVERY weight shape (out, ...) the chosen size is one of 128/96/64/32,
   divides the per-output element count n = numel/out, and is only chosen when n > 128; the loop never
   runs out of fuel *)
Theorem C14_group_size : forall (F : Type) (NF : Num F) (w : tensor F) out rest,
  shape w = out :: rest -> out <> 0 ->
  src_auto_group_size w = Ok (gs_of (numel w / out)) /\
  forall g, gs_of (numel w / out) = Some g ->
    In g [128; 96; 64; 32] /\ (numel w / out) mod g = 0 /\ 128 < numel w / out /\ 0 < g <= numel w / out.
Proof.
  intros F NF w out rest Hs Ho. rewrite tie_auto_group_size. split.
  - exact (@auto_group_size_spec F NF w out rest Hs Ho).
  - intros g. apply gs_of_sound.
Qed.
Print Assumptions C14_group_size.

(* hence the automatically chosen group size is always accepted by group() (axis 0) *)
Example C14_group_size_examples :
  gs_of 4096 = Some 128 /\ gs_of 192 = Some 96 /\ gs_of 160 = Some 32 /\ gs_of 130 = None /\ gs_of 128 = None.
Proof. vm_compute. repeat split. Qed.
