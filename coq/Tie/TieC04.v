(* Tie for C04: the definitions generated from /repo's current source are convertible with the
   model the proofs are about.  A failure here names the function whose code changed. *)
From Coq Require Import String List ZArith Bool.
From QV Require Import Lib.Res Lib.Tensor Model.Pack.
From QD Require Import GenC04.
Lemma tie_pack_weights : src_pack_weights = pack_weights. Proof. reflexivity. Qed.
Lemma tie_unpack_py : src_unpack_py = unpack_py. Proof. reflexivity. Qed.
Lemma tie_unpack_cpp : src_unpack_cpp = unpack_cpp. Proof. reflexivity. Qed.
Lemma tie_packed_unpack : src_packed_unpack = packed_unpack. Proof. reflexivity. Qed.
Lemma tie_packed_prints : src_packed_prints = packed_prints. Proof. reflexivity. Qed.
