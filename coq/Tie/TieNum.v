(* Tie for the numeric core: generated-from-source definitions are convertible with Model/Quant.v *)
From Coq Require Import String List ZArith Bool.
From QV Require Import Lib.Res Lib.Tensor Lib.ND Lib.Num Lib.QTensor Model.Quant.
From QD Require Import GenNum.
Lemma tie_axis_to_dim : @src_axis_to_dim = @axis_to_dim. Proof. reflexivity. Qed.
Lemma tie_group : @src_group = @group. Proof. reflexivity. Qed.
Lemma tie_ungroup : @src_ungroup = @ungroup. Proof. reflexivity. Qed.
Lemma tie_affine_forward : @src_affine_forward = @affine_forward. Proof. reflexivity. Qed.
Lemma tie_max_optimize : @src_max_optimize = @max_optimize. Proof. reflexivity. Qed.
Lemma tie_qbytes_dequantize : @src_qbytes_dequantize = @qbytes_dequantize. Proof. reflexivity. Qed.
Lemma tie_qbits_dequantize : @src_qbits_dequantize = @qbits_dequantize. Proof. reflexivity. Qed.
Lemma tie_sym_forward : @src_sym_forward = @sym_forward. Proof. reflexivity. Qed.
Lemma tie_absmax_optimize : @src_absmax_optimize = @absmax_optimize. Proof. reflexivity. Qed.
Lemma tie_sym_opt_call : @src_sym_opt_call = @sym_opt_call. Proof. reflexivity. Qed.
Lemma tie_aff_opt_call : @src_aff_opt_call = @aff_opt_call. Proof. reflexivity. Qed.
Lemma tie_quantize_weight : @src_quantize_weight = @quantize_weight. Proof. reflexivity. Qed.
Lemma tie_quantize_activation : @src_quantize_activation = @quantize_activation. Proof. reflexivity. Qed.
Lemma tie_absmax_scale : @src_absmax_scale = @absmax_scale. Proof. reflexivity. Qed.
Lemma tie_updated_scale : @src_updated_scale = @updated_scale. Proof. reflexivity. Qed.
