#!/bin/bash
# runs the repository's pinned test suite (guard OFF) and compares with /root/.vp/BASELINE.json
cd /repo && env -u HUGGINGFACE_QUANTO_VERIF /venv/bin/python -m pytest -ra -q -p no:cacheprovider --timeout=900 --continue-on-collection-errors --junitxml=/tmp/baseline_run.xml > /tmp/baseline_run.log 2>&1
/venv/bin/python - <<'PY'
import json, xml.etree.ElementTree as ET
b=json.load(open('/root/.vp/BASELINE.json'))
want=set(b['stable_pass'])
t=ET.parse('/tmp/baseline_run.xml')
got=set()
for tc in t.iter('testcase'):
    ok = not any(ch.tag in ('failure','error','skipped') for ch in tc)
    name=tc.get('classname')+'::'+tc.get('name')
    if ok: got.add(name)
missing=sorted(want-got)
print("baseline stable_pass:",len(want),"passing now:",len(got&want),"missing:",len(missing))
for m in missing[:20]: print("  MISSING",m)
PY
