"""Re-take the snapshot coq/Model/AwqFacts.v (AWQ constants of pack_v2 and AST fingerprints) from /repo's current source."""
import os
import sys

sys.path.insert(0, os.path.join(os.path.dirname(os.path.abspath(__file__)), "translators"))
import gen_awq  # noqa: E402

tmp = "/tmp/GenAwq_snapshot.v"
errs = gen_awq.generate(os.environ.get("VERIF_REPO", "/repo"), tmp)
assert not errs, errs
s = open(tmp).read()
body = s[s.index("Definition src_v2_constants"):].replace("src_", "exp_")
open(os.path.join(os.path.dirname(os.path.abspath(__file__)), "coq/Model/AwqFacts.v"), "w").write(
    "(* AWQ facts at the revision of /repo that Model/Awq.v transcribes (interleave 4, kernel stride 64; AST fingerprints). *)\nFrom Coq Require Import String List ZArith.\nImport ListNotations.\nOpen Scope string_scope.\n\n" + body)
os.remove(tmp)
