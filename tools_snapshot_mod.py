"""Re-take the snapshot coq/Model/ModuleFacts.v (module-level facts: registry, qcreate arguments, quantize loop,
qweight / freeze bodies, AST fingerprints) from /repo's current source.  Run by hand after a reviewed change."""
import os
import re
import sys

sys.path.insert(0, os.path.join(os.path.dirname(os.path.abspath(__file__)), "translators"))
import gen_mod  # noqa: E402

tmp = "/tmp/GenMod_snapshot.v"
errs = gen_mod.generate(os.environ.get("VERIF_REPO", "/repo"), tmp)
assert not errs, errs
s = open(tmp).read()
body = re.sub(r"\bsrc_", "exp_", s[s.index("Definition src_registry"):])
body = "\n".join(l for l in body.splitlines() if not l.startswith("Definition exp_registry")) + "\n"
open(os.path.join(os.path.dirname(os.path.abspath(__file__)), "coq/Model/ModuleFacts.v"), "w").write(
    "(* Module-level facts of the revision of /repo that Model/Module.v models (snapshot of translators/gen_mod.py);\n   the tie lemmas prove the current source still yields exactly these. *)\nFrom Coq Require Import String List.\nImport ListNotations.\nOpen Scope string_scope.\n\n" + body)
os.remove(tmp)
