"""Re-take the snapshot coq/Model/SerialFacts.v (AST fingerprints of the serialization glue) from /repo's current source."""
import os
import re
import sys

sys.path.insert(0, os.path.join(os.path.dirname(os.path.abspath(__file__)), "translators"))
import gen_ser  # noqa: E402

tmp = "/tmp/GenSer_snapshot.v"
errs = gen_ser.generate(os.environ.get("VERIF_REPO", "/repo"), tmp)
assert not errs, errs
s = open(tmp).read()
body = s[s.index("Definition src_ser_prints"):].replace("src_ser_prints", "exp_ser_prints")
open(os.path.join(os.path.dirname(os.path.abspath(__file__)), "coq/Model/SerialFacts.v"), "w").write(
    "(* AST fingerprints of the serialization glue at the revision of /repo that Model/Serial.v models. *)\nFrom Coq Require Import String List.\nImport ListNotations.\nOpen Scope string_scope.\n\n" + body)
os.remove(tmp)
