"""Glue fingerprints: functions and module skeletons that no translator / extractor reads, but whose behaviour
a property depends on (found with tools_tie_coverage.py).  For the property being checked, emits GenGlue.v with
    Definition src_glue : list (string * string) := [(key, fingerprint); ...]
where the fingerprint is the sha256 of the normalised AST of the function (`file::Qual.name`) or of the module
skeleton (`file::<module>`: the module with every function body removed - decorators, signatures, defaults,
class attributes, top-level statements and registrations remain).  The tie is equality, entry by entry, with the
snapshot coq/Model/GlueFacts.v (tools_snapshot_glue.py), by reflexivity.  A function that disappears yields the
fingerprint "missing" (fail closed)."""
import ast
import hashlib
import os

Q = "optimum/quanto/"

NUM_SKELETONS = [("tensor/qtype.py", "<module>"), ("tensor/core.py", "<module>"), ("tensor/core.py", "dtype_info")]
OPT_ABSTRACT = [
    ("tensor/optimizers/optimizer.py", "Optimizer.__call__"),
    ("tensor/optimizers/symmetric_optimizer.py", "SymmetricOptimizer.optimize"),
    ("tensor/optimizers/affine_optimizer.py", "AffineOptimizer.optimize"),
    ("tensor/optimizers/optimizer.py", "<module>"),
    ("tensor/optimizers/symmetric_optimizer.py", "<module>"),
    ("tensor/optimizers/affine_optimizer.py", "<module>"),
    ("tensor/optimizers/absmax_optimizer.py", "<module>"),
    ("tensor/optimizers/max_optimizer.py", "<module>"),
]
QUANTIZER_SKELETONS = [
    ("tensor/quantizers/symmetric.py", "<module>"),
    ("tensor/quantizers/affine.py", "<module>"),
    ("tensor/qweight.py", "<module>"),
    ("tensor/qactivation.py", "<module>"),
    ("tensor/qbits/group.py", "<module>"),
]
TENSOR_GLUE = [
    ("tensor/qtensor.py", "QTensor.__init__"),
    ("tensor/qtensor.py", "QTensor.dequantize"),
    ("tensor/qtensor.py", "QTensor.axis"),
    ("tensor/qtensor.py", "QTensor.qtype"),
    ("tensor/qtensor.py", "<module>"),
    ("tensor/qbytes.py", "QBytesTensor.dequantize"),
    ("tensor/qbytes.py", "<module>"),
    ("tensor/qbits/qbits.py", "QBitsTensor.dequantize"),
    ("tensor/qbits/qbits.py", "QBitsTensor.qbits_tensor"),
    ("tensor/qbits/qbits.py", "<module>"),
    ("tensor/qbits/packed.py", "PackedTensor.bits"),
    ("tensor/qbits/packed.py", "PackedTensor.dtype"),
    ("tensor/qbits/packed.py", "<module>"),
    ("tensor/qbytes_ops.py", "register_qbytestensor_op"),
    ("tensor/qbytes_ops.py", "get_qbytestensor_op_dispatch"),
    ("tensor/qbytes_ops.py", "<module>"),
    ("tensor/qbits/qbits_ops.py", "register_qbitstensor_op"),
    ("tensor/qbits/qbits_ops.py", "get_qbitstensor_op_dispatch"),
    ("tensor/qbits/qbits_ops.py", "<module>"),
    ("tensor/qtensor_func.py", "register_qtensor_func"),
    ("tensor/qtensor_func.py", "get_qtensor_func"),
    ("tensor/qtensor_func.py", "<module>"),
    ("tensor/qtype.py", "<module>"),
    ("tensor/quantizers/symmetric.py", "<module>"),
    ("tensor/quantizers/symmetric.py", "SymmetricQuantizer.forward"),
    ("tensor/quantizers/affine.py", "<module>"),
    ("tensor/quantizers/affine.py", "AffineQuantizer.forward"),
    ("tensor/qweight.py", "<module>"),
    ("tensor/qweight.py", "quantize_weight"),
    ("tensor/qactivation.py", "<module>"),
    ("tensor/qactivation.py", "quantize_activation"),
]
KERNEL_GLUE = [
    ("library/ops.py", "<module>"),
    ("library/python/unpack.py", "<module>"),
    ("library/ext/__init__.py", "<module>"),
    ("library/ext/extension.py", "<module>"),
    ("library/ext/extension.py", "Extension.__init__"),
    ("library/ext/extension.py", "Extension.lib"),
    ("library/ext/cpp/__init__.py", "<module>"),
    ("library/ext/cpp/__init__.py", "unpack_cpp"),
    ("tensor/qbits/packed.py", "PackedTensor.bits"),
    ("tensor/qbits/packed.py", "PackedTensor.dtype"),
    ("tensor/qbits/packed.py", "<module>"),
]
MODULE_GLUE = [
    ("nn/qmodule.py", "QModuleMixin.qcreate"),
    ("nn/qmodule.py", "QModuleMixin.qforward"),
    ("nn/qmodule.py", "<module>"),
    ("nn/qlinear.py", "<module>"),
    ("nn/qconv2d.py", "<module>"),
    ("nn/qlayernorm.py", "<module>"),
    ("quantize.py", "<module>"),
]
CALIB_GLUE = [
    ("calibrate.py", "Calibration.__init__"),
    ("calibrate.py", "Calibration.__torch_function__"),
    ("calibrate.py", "Calibration.calibrate_input"),
    ("calibrate.py", "Calibration.calibrate_output"),
    ("calibrate.py", "<module>"),
]
AWQ_GLUE = [
    ("tensor/qbits/awq/packed.py", "AWQPackedTensor.__new__"),
    ("tensor/qbits/awq/packed.py", "AWQPackedTensor.__init__"),
    ("tensor/qbits/awq/packed.py", "AWQPackedTensor.dtype"),
    ("tensor/qbits/awq/packed.py", "AWQPackedTensor.__tensor_flatten__"),
    ("tensor/qbits/awq/packed.py", "AWQPackedTensor.__tensor_unflatten__"),
    ("tensor/qbits/awq/packed.py", "<module>"),
    ("tensor/qbits/awq/qbits.py", "AWQBitsDequantizer.backward"),
    ("tensor/qbits/awq/qbits.py", "AWQBitsTensor.__new__"),
    ("tensor/qbits/awq/qbits.py", "AWQBitsTensor.__tensor_flatten__"),
    ("tensor/qbits/awq/qbits.py", "AWQBitsTensor.__tensor_unflatten__"),
    ("tensor/qbits/awq/qbits.py", "<module>"),
]

TARGETS = {
    "C01": NUM_SKELETONS + QUANTIZER_SKELETONS[:1] + [("tensor/qactivation.py", "<module>")],
    "C02": NUM_SKELETONS + [("tensor/quantizers/affine.py", "<module>"), ("tensor/qbits/group.py", "<module>")],
    "C03": NUM_SKELETONS + OPT_ABSTRACT,
    "C04": KERNEL_GLUE,
    "C05": TENSOR_GLUE,
    "C06": TENSOR_GLUE,
    "C07": [("library/ops.py", "<module>"), ("library/qbytes_mm.py", "<module>"), ("tensor/qtensor_func.py", "<module>")],
    "C08": MODULE_GLUE,
    "C09": MODULE_GLUE + [("tensor/qbits/packed.py", "PackedTensor.bits"), ("tensor/qbits/packed.py", "PackedTensor.dtype")],
    "C10": [("tensor/qtype.py", "qtype.__str__"), ("tensor/qtype.py", "qtype.__hash__"), ("tensor/qtype.py", "<module>"),
            ("serialization.py", "<module>"), ("nn/qmodule.py", "<module>")],
    "C11": [("calibrate.py", "<module>"), ("calibrate.py", "Calibration.calibrate_input"), ("calibrate.py", "Calibration.calibrate_output"), ("calibrate.py", "Calibration.__torch_function__"),
            ("tensor/qtensor_func.py", "<module>"), ("tensor/quantizers/symmetric.py", "<module>"),
            ("tensor/quantizers/affine.py", "<module>"), ("nn/qmodule.py", "QModuleMixin.qforward"),
            # the backward of QTensorLinear multiplies float gradients with quantized activations: those products are dispatched here
            ("tensor/qbytes_ops.py", "<module>"), ("tensor/qbytes_ops.py", "mm"), ("tensor/qbytes_ops.py", "bmm"), ("tensor/qbytes_ops.py", "transpose2d"),
            ("tensor/qtensor.py", "qfallback"), ("tensor/qbytes.py", "QBytesTensor.__torch_dispatch__")],
    "C12": CALIB_GLUE,
    "C13": CALIB_GLUE,
    "C14": NUM_SKELETONS + QUANTIZER_SKELETONS + OPT_ABSTRACT,
    "C15": AWQ_GLUE,
    "C16": NUM_SKELETONS + QUANTIZER_SKELETONS[:2] + [("tensor/qactivation.py", "<module>"), ("nn/qmodule.py", "<module>"), ("nn/qmodule.py", "QModuleMixin.forward"),
            ("nn/qmodule.py", "QModuleMixin.qforward"), ("nn/qlinear.py", "<module>"), ("nn/qlinear.py", "QLinear.qforward")] + CALIB_GLUE,
}


# the anchor files of every property (properties.jsonl): every function and the module skeleton of each of them is
# part of that property's tie - a change to the code a property is anchored in always breaks an obligation of that
# property (paths outside optimum/quanto are written "@<path from the repository root>")
ANCHORS = {}
try:
    import json as _json

    for _l in open(os.path.join(os.path.dirname(os.path.dirname(os.path.abspath(__file__))), "properties.jsonl")):
        _p = _json.loads(_l)
        ANCHORS[_p["id"]] = [f for f in _p.get("anchors", {}).get("files", []) if f.endswith(".py")]
except OSError:
    pass


def _functions(tree):
    res = []

    def walk(node, prefix):
        for ch in ast.iter_child_nodes(node):
            if isinstance(ch, (ast.FunctionDef, ast.AsyncFunctionDef)):
                res.append(prefix + ch.name)
                walk(ch, prefix + ch.name + ".")
            elif isinstance(ch, ast.ClassDef):
                walk(ch, prefix + ch.name + ".")

    walk(tree, "")
    return res


def targets(repo, pid):
    """static targets + every function and the skeleton of every anchor file of the property (current source)"""
    out = list(TARGETS.get(pid, []))
    for f in ANCHORS.get(pid, []):
        rel = f[len(Q):] if f.startswith(Q) else "@" + f
        try:
            tree = ast.parse(open(os.path.join(repo, f)).read())
            quals = ["<module>"] + [q for q in _functions(tree) if not q.endswith("__repr__") and not q.endswith(".numpy")]
        except (OSError, SyntaxError):
            quals = ["<module>"]
        for q in quals:
            if (rel, q) not in out:
                out.append((rel, q))
    return out


def fingerprint(node):
    return hashlib.sha256(ast.dump(node, annotate_fields=True, include_attributes=False).encode()).hexdigest()[:16]


def find(tree, qual):
    body = tree.body
    node = None
    for p in qual.split("."):
        node = next((n for n in body if isinstance(n, (ast.FunctionDef, ast.AsyncFunctionDef, ast.ClassDef)) and n.name == p), None)
        if node is None:
            return None
        body = node.body
    return node


class _Strip(ast.NodeTransformer):
    """remove function bodies (docstrings included): what remains is the module skeleton"""

    def visit_FunctionDef(self, node):
        node.body = [ast.Pass()]
        return node

    visit_AsyncFunctionDef = visit_FunctionDef


def skeleton_print(tree):
    t = _Strip().visit(ast.parse(ast.unparse(tree)))
    # docstrings of the module / classes carry no behaviour
    for n in ast.walk(t):
        if isinstance(n, (ast.Module, ast.ClassDef)) and n.body and isinstance(n.body[0], ast.Expr) \
                and isinstance(getattr(n.body[0], "value", None), ast.Constant) and isinstance(n.body[0].value.value, str):
            n.body = n.body[1:] or [ast.Pass()]
    return fingerprint(t)


def prints(repo, pid):
    out = []
    cache = {}
    for rel, qual in targets(repo, pid):
        path = os.path.join(repo, rel[1:]) if rel.startswith("@") else os.path.join(repo, Q + rel)
        key = f"{rel}::{qual}"
        if rel not in cache:
            try:
                cache[rel] = ast.parse(open(path).read())
            except (OSError, SyntaxError):
                cache[rel] = None
        tree = cache[rel]
        if tree is None:
            out.append((key, "missing"))
        elif qual == "<module>":
            out.append((key, skeleton_print(tree)))
        else:
            node = find(tree, qual)
            out.append((key, fingerprint(node) if node is not None else "missing"))
    return out


def coq_list(entries):
    return "[\n" + ";\n".join(f'  ("{k}", "{v}")' for k, v in entries) + "]"


def generate(repo, out_path, pid):
    entries = prints(repo, pid)
    with open(out_path, "w") as f:
        f.write("(* generated by translators/gen_glue.py from the current source *)\n")
        f.write("From Coq Require Import String List.\nImport ListNotations.\nOpen Scope string_scope.\n")
        f.write(f"Definition src_glue : list (string * string) := {coq_list(entries)}.\n")
    return [f"glue:{k}: function not found" for k, v in entries if v == "missing"]


def lemma_name(key):
    return "tie_glue_" + "".join(c if c.isalnum() else "_" for c in key.replace("<module>", "module").replace(".py", "").replace("@", "ext_"))


def tie_text(pid, repo="/repo"):
    hdr = ("From Coq Require Import String List.\nFrom QV Require Import Model.GlueFacts.\nFrom QD Require Import GenGlue.\n"
           "Import ListNotations.\nOpen Scope string_scope.\n")
    t = hdr
    tg = targets(repo, pid)
    t += f"Lemma tie_glue_count : length src_glue = length glue_{pid}.\nProof. reflexivity. Qed.\n"
    for i, (rel, qual) in enumerate(tg):
        key = f"{rel}::{qual}"
        t += (f'Lemma {lemma_name(key)} : nth {i} src_glue ("", "") = nth {i} glue_{pid} ("", "").\n'
              "Proof. reflexivity. Qed.\n")
    return t
