"""Reads the AWQ layout code as facts: the two column-order constants (as values), the interleave / kernel-stride
constants of pack_v2 / unpack_v2, and AST fingerprints of every function the hand-written model (Model/Awq.v)
transcribes, including the reference packer under external/awq."""
import ast
import os
import sys

sys.path.insert(0, os.path.dirname(__file__))
from gen_ops import find, fingerprint  # noqa: E402


def cs(s):
    return '"' + s.replace('"', '""') + '"'


def generate(repo, out_path):
    errors = []
    text = "(* GENERATED on every run from /repo -- do not edit: AWQ layout facts. *)\nFrom Coq Require Import String List ZArith.\nImport ListNotations.\nOpen Scope string_scope.\n\n"
    try:
        path = os.path.join(repo, "optimum/quanto/tensor/qbits/awq/packed.py")
        tree = ast.parse(open(path).read())
        consts = {}
        for n in tree.body:
            if isinstance(n, ast.Assign) and len(n.targets) == 1 and isinstance(n.targets[0], ast.Name) and n.targets[0].id in ("AWQ_ORDER", "AWQ_REVERSE_ORDER"):
                consts[n.targets[0].id] = ast.literal_eval(n.value)
        for k in ("AWQ_ORDER", "AWQ_REVERSE_ORDER"):
            text += f"Definition src_{k} : list Z := [" + "; ".join(str(int(v)) for v in consts[k]) + "]%Z.\n"
        inner = []
        for fn in ("pack_v2", "unpack_v2"):
            f = find(tree, fn)
            for s in f.body:
                if isinstance(s, ast.Assign) and len(s.targets) == 1 and isinstance(s.targets[0], ast.Name) and s.targets[0].id in ("I", "S") and isinstance(s.value, ast.Constant):
                    inner.append((fn + "." + s.targets[0].id, int(s.value.value)))
        text += "Definition src_v2_constants : list (string * Z) := [" + "; ".join(f"({cs(a)}, {b}%Z)" for a, b in inner) + "].\n"
        prints = []
        for qual in ("pack", "reverse_awq_order", "unpack", "pack_v2", "unpack_v2", "AWQPackedTensor.pack", "AWQPackedTensor.unpack", "AWQPackedTensor.__torch_dispatch__"):
            node = find(tree, qual)
            prints.append((qual, fingerprint(node) if node is not None else "MISSING"))
        t2 = ast.parse(open(os.path.join(repo, "optimum/quanto/tensor/qbits/awq/qbits.py")).read())
        for qual in ("AWQBitsDequantizer.forward", "AWQBitsTensor.__init__", "AWQBitsTensor.qbits_tensor", "AWQBitsTensor.dequantize"):
            node = find(t2, qual)
            prints.append((qual, fingerprint(node) if node is not None else "MISSING"))
        t4 = ast.parse(open(os.path.join(repo, "optimum/quanto/tensor/qbits/qbits.py")).read())
        for qual in ("QBitsTensor.save_to_state_dict", "QBitsTensor.create", "QBitsTensor.optimize"):
            node = find(t4, qual)
            prints.append((qual, fingerprint(node) if node is not None else "MISSING"))
        t3 = ast.parse(open(os.path.join(repo, "external/awq/pack_intweight.py")).read())
        node = find(t3, "pack_intweight")
        prints.append(("external.pack_intweight", fingerprint(node) if node is not None else "MISSING"))
        text += "Definition src_awq_prints : list (string * string) := [\n  " + ";\n  ".join(f"({cs(a)}, {cs(b)})" for a, b in prints) + "].\n"
    except Exception as ex:  # noqa: BLE001
        errors.append(f"awq facts: {type(ex).__name__}: {ex}")
        text += "Definition src_AWQ_ORDER : unit := tt.\n"
    os.makedirs(os.path.dirname(out_path), exist_ok=True)
    with open(out_path, "w") as f:
        f.write(text)
    return errors


if __name__ == "__main__":
    for e in generate(sys.argv[1], sys.argv[2]):
        print("TRANSLATOR-ERROR", e)
    print(open(sys.argv[2]).read())
