"""Vocabulary for quanto's numeric code (quantizers, optimizers, dequantizers, calibration scale
update): float tensors over the abstract number type F of coq/Lib/Num.v."""
import ast

from py2coq import Expr, U


def kwmap(e):
    return {k.arg: k.value for k in e.keywords}


def fallible(tr, coq, ty, pre):
    v = tr.ctx.tmp()
    return Expr(v, ty, pre + [("bind", v, coq)])


def call_round(tr, e, env):
    if len(e.args) != 1 or e.keywords:
        U(e, "torch.round form")
    x = tr.expr(e.args[0], env)
    if x.ty != "ftensor":
        U(e, "torch.round of non float tensor")
    return Expr(f"(tf_round {x.coq})", "ftensor", x.pre)


def call_abs(tr, e, env):
    x = tr.expr(e.args[0], env)
    if len(e.args) != 1 or e.keywords or x.ty != "ftensor":
        U(e, "torch.abs form")
    return Expr(f"(tf_abs {x.coq})", "ftensor", x.pre)


def call_nan_to_num(tr, e, env):
    kws = kwmap(e)
    x = tr.expr(e.args[0], env)
    if len(e.args) != 1 or set(kws) != {"nan"} or ast.unparse(kws["nan"]) not in ("0.0", "0") or x.ty != "ftensor":
        U(e, "torch.nan_to_num form (x, nan=0.0)")
    return Expr(f"(tf_nan_to_num {x.coq})", "ftensor", x.pre)


def call_where(tr, e, env):
    if len(e.args) != 3 or e.keywords:
        U(e, "torch.where form")
    c, a, b = (tr.expr(x, env) for x in e.args)
    if (c.ty, a.ty, b.ty) != ("btensor", "ftensor", "ftensor"):
        U(e, "torch.where argument types")
    return fallible(tr, f"tf_where {c.coq} {a.coq} {b.coq}", "ftensor", c.pre + a.pre + b.pre)


def call_clamp(tr, e, env):
    kws = kwmap(e)
    if len(e.args) == 1 and set(kws) in ({"min"}, {"max"}):
        x = tr.expr(e.args[0], env)
        (k, v), = kws.items()
        b = tr.expr(v, env)
        if (x.ty, b.ty) != ("ftensor", "int"):
            U(e, "torch.clamp one-sided argument types")
        fn = "tf_clamp_max" if k == "max" else "tf_clamp_min"
        return Expr(f"({fn} {b.coq} {x.coq})", "ftensor", x.pre + b.pre)
    if len(e.args) != 1 or set(kws) != {"min", "max"}:
        U(e, "torch.clamp form")
    x, lo, hi = tr.expr(e.args[0], env), tr.expr(kws["min"], env), tr.expr(kws["max"], env)
    if (x.ty, lo.ty, hi.ty) != ("ftensor", "int", "int"):
        U(e, "torch.clamp argument types")
    return Expr(f"(tf_clamp {lo.coq} {hi.coq} {x.coq})", "ftensor", x.pre + lo.pre + hi.pre)


def call_max1(tr, e, env):
    if len(e.args) != 1 or e.keywords:
        U(e, "torch.max form (only the full reduction is understood)")
    x = tr.expr(e.args[0], env)
    if x.ty != "ftensor":
        U(e, "torch.max arg")
    return fallible(tr, f"tf_max_all {x.coq}", "ftensor", x.pre)


def mk_reduce(fn):
    def h(tr, e, env):
        kws = kwmap(e)
        if len(e.args) != 1 or set(kws) != {"dim", "keepdim"} or ast.unparse(kws["keepdim"]) != "True":
            U(e, "amax/amin form (dim=..., keepdim=True)")
        x, d = tr.expr(e.args[0], env), tr.expr(kws["dim"], env)
        if (x.ty, d.ty) != ("ftensor", "shape"):
            U(e, "amax/amin argument types")
        return fallible(tr, f"{fn} {d.coq} {x.coq}", "ftensor", x.pre + d.pre)

    return h


def call_squeeze(tr, e, env):
    x = tr.expr(e.args[0], env)
    if len(e.args) != 1 or e.keywords or x.ty != "ftensor":
        U(e, "torch.squeeze form")
    return Expr(x.coq, "squeezed", x.pre)


def call_all(tr, e, env):
    # torch.all(scale == 1)
    a = e.args[0]
    if len(e.args) != 1 or not (isinstance(a, ast.Compare) and isinstance(a.ops[0], ast.Eq)):
        U(e, "torch.all form")
    x, k = tr.expr(a.left, env), tr.expr(a.comparators[0], env)
    if (x.ty, k.ty) != ("ftensor", "int"):
        U(e, "torch.all(t == int) types")
    return Expr(f"(tf_all_eq_int {x.coq} {k.coq})", "bool", x.pre + k.pre)


def call_dtype_info(tr, e, env):
    if len(e.args) != 1 or ast.unparse(e.args[0]) != "qtype.dtype":
        U(e, "dtype_info form")
    q = tr.expr(ast.Name(id="qtype", ctx=ast.Load()), env)
    return Expr(f"(q_storage {q.coq})", "storage", q.pre)


def call_list_range(tr, e, env):
    # list(range(a, b)) / list(range(n))
    r = e.args[0]
    if len(e.args) != 1 or not (isinstance(r, ast.Call) and ast.unparse(r.func) == "range"):
        U(e, "list(...) form")
    xs = [tr.expr(a, env) for a in r.args]
    if any(x.ty != "int" for x in xs) or len(xs) not in (1, 2):
        U(e, "range argument types")
    pre = sum((x.pre for x in xs), [])
    if len(xs) == 1:
        return Expr(f"(zrange {xs[0].coq})", "shape", pre)
    return Expr(f"(zrange2 {xs[0].coq} {xs[1].coq})", "shape", pre)


def call_axis_to_dim(tr, e, env):
    t, a = tr.expr(e.args[0], env), tr.expr(e.args[1], env)
    if len(e.args) != 2 or (t.ty, a.ty) != ("ftensor", "optint"):
        U(e, "axis_to_dim form")
    return fallible(tr, f"src_axis_to_dim {t.coq} {a.coq}", "shape", t.pre + a.pre)


def meth_to(tr, e, env):
    x = tr.expr(e.func.value, env)
    if x.ty not in ("ftensor", "i8tensor", "u8tensor") or len(e.args) != 1 or e.keywords:
        U(e, ".to() form")
    a = ast.unparse(e.args[0])
    if a == "qtype.dtype":
        q = tr.expr(ast.Name(id="qtype", ctx=ast.Load()), env)
        return Expr(f"(tf_cast (q_storage {q.coq}) {x.coq})", "ftensor", x.pre)
    if a == "torch.int8":
        return Expr(f"(tf_cast SInt8 {x.coq})", "i8tensor", x.pre)
    if a == "torch.uint8":
        return Expr(f"(tf_cast SUInt8 {x.coq})", "u8tensor", x.pre)
    if a.endswith("_scale.dtype") or a.endswith("scale.dtype"):
        # upcast of an 8-bit code to the scale dtype: exact (codes are held as values of F)
        return Expr(x.coq, "ftensor", x.pre)
    U(e, f".to({a}) not understood")


def meth_reshape(tr, e, env):
    x = tr.expr(e.func.value, env)
    if x.ty != "ftensor" or e.keywords:
        U(e, ".reshape form")
    if len(e.args) == 1:
        a = tr.expr(e.args[0], env)
        if a.ty != "shape":
            U(e, ".reshape argument")
        return fallible(tr, f"t_reshape_py {a.coq} {x.coq}", "ftensor", x.pre + a.pre)
    xs = [tr.expr(a, env) for a in e.args]
    if any(a.ty != "int" for a in xs):
        U(e, ".reshape varargs")
    return fallible(tr, "t_reshape_py [" + "; ".join(a.coq for a in xs) + f"] {x.coq}", "ftensor", x.pre + sum((a.pre for a in xs), []))


def meth_permute(tr, e, env):
    x = tr.expr(e.func.value, env)
    xs = [tr.expr(a, env) for a in e.args]
    if x.ty != "ftensor" or e.keywords or any(a.ty != "int" or a.pre for a in xs):
        U(e, ".permute form")
    return fallible(tr, "t_permute f0 [" + "; ".join(a.coq for a in xs) + f"] {x.coq}", "ftensor", x.pre)


def meth_numel(tr, e, env):
    x = tr.expr(e.func.value, env)
    if x.ty not in ("ftensor", "i8tensor", "u8tensor") or e.args or e.keywords:
        U(e, ".numel() form")
    return Expr(f"(numel {x.coq})", "int", x.pre)


def meth_unpack(tr, e, env):
    x = tr.expr(e.func.value, env)
    if x.ty != "packeddata" or e.args or e.keywords:
        U(e, ".unpack() form")
    return Expr(x.coq, "u8tensor", x.pre)


def call_isinstance(tr, e, env):
    if len(e.args) != 2 or e.keywords:
        U(e, "isinstance form")
    x = tr.expr(e.args[0], env)
    cls = ast.unparse(e.args[1])
    if x.ty == "optopt" and cls in ("SymmetricOptimizer", "AffineOptimizer"):
        fn = "opt_is_sym" if cls == "SymmetricOptimizer" else "opt_is_aff"
        return Expr(f"({fn} {x.coq})", "bool", x.pre)
    U(e, "isinstance arguments")


def call_optimizer(tr, e, env):
    o = tr.expr(e.func, env)
    xs = [tr.expr(a, env) for a in e.args]
    pre = o.pre + sum((x.pre for x in xs), [])
    tys = [x.ty for x in xs]
    if o.ty != "optopt" or e.keywords:
        U(e, "optimizer call form")
    if tys == ["ftensor", "int", "optint"]:
        return fallible(tr, "apply_sym_optimizer " + " ".join([o.coq] + [x.coq for x in xs]), "ftensor", pre)
    if tys == ["ftensor", "int", "optint", "optint"]:
        return fallible(tr, "apply_aff_optimizer " + " ".join([o.coq] + [x.coq for x in xs]), "ftpair", pre)
    U(e, "optimizer call argument types " + str(tys))


def call_sym_apply(tr, e, env):
    xs = [tr.expr(a, env) for a in e.args]
    coqs = []
    for x, want in zip(xs, ["ftensor", "qtype", "optint", "ftensor"]):
        c = x.coq
        if x.ty == "none" and want == "optint":
            c = "None"
        elif x.ty != want:
            U(e, "SymmetricQuantizer.apply argument types")
        coqs.append(c)
    if len(xs) != 4 or e.keywords:
        U(e, "SymmetricQuantizer.apply form")
    r = fallible(tr, "src_sym_forward " + " ".join(coqs), "qbytes", sum((x.pre for x in xs), []))
    if tr.ctx.vocab.get("wrap_qany"):
        return Expr(f"(QB {r.coq})", "qany", r.pre)
    return r


def call_aff_apply(tr, e, env):
    xs = [tr.expr(a, env) for a in e.args]
    if e.keywords or [x.ty for x in xs] != ["ftensor", "qtype", "optint", "optint", "ftensor", "ftensor"]:
        U(e, "AffineQuantizer.apply argument types " + str([x.ty for x in xs]))
    r = fallible(tr, "src_affine_forward " + " ".join(x.coq for x in xs), "qbits", sum((x.pre for x in xs), []))
    return Expr(f"(QZ {r.coq})", "qany", r.pre)


def call_qbits_create(tr, e, env):
    xs = [tr.expr(a, env) for a in e.args]
    want = ["qtype", "optint", "optint", "shape", "shape", "u8tensor", "ftensor", "i8tensor"]
    if e.keywords or [x.ty for x in xs] != want:
        U(e, "QBitsTensor.create(...) argument list: " + str([x.ty for x in xs]))
    return Expr("(QBits " + " ".join(x.coq for x in xs) + ")", "qbits", sum((x.pre for x in xs), []))


def meth_size(tr, e, env):
    x = tr.expr(e.func.value, env)
    if x.ty != "ftensor" or e.args or e.keywords:
        U(e, ".size() form")
    return Expr(f"(shape {x.coq})", "shape", x.pre)


def meth_stride(tr, e, env):
    x = tr.expr(e.func.value, env)
    if x.ty != "ftensor" or e.args or e.keywords:
        U(e, ".stride() form")
    return Expr(f"(t_stride {x.coq})", "shape", x.pre)


def call_qbytes(tr, e, env):
    xs = [tr.expr(a, env) for a in e.args]
    if e.keywords or [x.ty for x in xs] != ["qtype", "optint", "shape", "shape", "ftensor", "ftensor"]:
        U(e, "QBytesTensor(...) argument list")
    return Expr("(QBytes " + " ".join(x.coq for x in xs) + ")", "qbytes", sum((x.pre for x in xs), []))


def stmt_remove(tr, s, env, k):
    f = s.value.func
    lst = f.value.id
    if env.get(lst) != "shape" or len(s.value.args) != 1:
        U(s, ".remove form")
    x = tr.expr(s.value.args[0], env)
    fn = {"int": "list_remove", "optint": "list_remove_opt"}.get(x.ty)
    if fn is None:
        U(s, ".remove argument type")
    from py2coq import cname

    return tr.emit_pre(x.pre) + f"{cname(lst)} <- {fn} {cname(lst)} {x.coq} ;;\n" + k(env)


VOCAB = {
    "stmt_methods": {"remove": stmt_remove},
    "binops": {
        ("ftensor", "ftensor", "Div"): ("tf_div {a} {b}", True, None),
        ("ftensor", "ftensor", "Mult"): ("tf_mul {a} {b}", True, None),
        ("ftensor", "ftensor", "Add"): ("tf_add {a} {b}", True, None),
        ("ftensor", "ftensor", "Sub"): ("tf_sub {a} {b}", True, None),
        ("ftensor", "i8tensor", "Add"): ("tf_add {a} {b}", True, None),
        ("ftensor", "i8tensor", "Mult"): ("tf_mul {a} {b}", True, None),
        ("i8tensor", "i8tensor", "Sub"): ("ti8_sub {a} {b}", True, None),
        ("ftensor", "int", "Div"): ("tf_div_int {a} {b}", False, None),
        ("ftensor", "int", "Mult"): ("tf_mul_int {a} {b}", False, None),
        ("ftensor", "pyfloat", "Mult"): ("tf_mul_py {a} {b}", False, None),
        ("pyfloat", "ftensor", "Mult"): ("tf_mul_py {b} {a}", False, None),
        ("pyfloat", "pyfloat", "Sub"): ("b64_sub {a} {b}", False, None),
        ("pyfloat", "pyfloat", "Add"): ("b64_add {a} {b}", False, None),
        ("pyfloat", "pyfloat", "Mult"): ("b64_mul {a} {b}", False, None),
    },
    "binop_result": {("pyfloat", "ftensor", "Mult"): "ftensor"},
    "compares": {("shape", "shape", "Eq"): "shape_eqb {a} {b}"},
    "tensor_compares": {("ftensor", "int", "Eq"): "tf_eq_int {a} {b}"},
    "unops": {("ftensor", "USub"): "tf_neg {a}"},
    "attrs": {
        ("ftensor", "ndim"): ("rank {a}", "int"),
        ("i8tensor", "ndim"): ("rank {a}", "int"),
        ("ftensor", "shape"): ("shape {a}", "shape"),
        ("squeezed", "ndim"): ("sq_ndim {a}", "int"),
        ("qtype", "is_floating_point"): ("q_isfloat {a}", "bool"),
        ("qbytes", "qtype"): ("qb_qtype {a}", "qtype"),
        ("qbytes", "_scale"): ("qb_scale {a}", "ftensor"),
        ("qbytes", "_data"): ("qb_data {a}", "ftensor"),
        ("qbits", "qtype"): ("qz_qtype {a}", "qtype"),
        ("qbits", "_scale"): ("qz_scale {a}", "ftensor"),
        ("qbits", "_data"): ("qz_data {a}", "packeddata"),
        ("qbits", "_zeropoint"): ("qz_zp {a}", "i8tensor"),
        ("qbits", "axis"): ("qz_axis {a}", "optint"),
        ("qbits", "shape"): ("qz_size {a}", "shape"),
        ("qtype", "bits"): ("q_bits {a}", "int"),
        ("storage", "min"): ("st_min {a}", "int"),
        ("storage", "max"): ("st_max {a}", "int"),
    },
    "globals": {
        "qint2": ("qint2", "qtype"),
        "qint4": ("qint4", "qtype"),
        "qint8": ("qint8", "qtype"),
        "default_symmetric_optimizer": ("(Some AbsmaxOpt)", "optopt"),
        "default_affine_optimizer": ("(Some MaxOpt)", "optopt"),
    },
    "calls": {
        "torch.round": call_round,
        "torch.abs": call_abs,
        "torch.clamp": call_clamp,
        "torch.nan_to_num": call_nan_to_num,
        "torch.where": call_where,
        "torch.max": call_max1,
        "torch.amax": mk_reduce("tf_amax"),
        "torch.amin": mk_reduce("tf_amin"),
        "torch.squeeze": call_squeeze,
        "torch.all": call_all,
        "dtype_info": call_dtype_info,
        "list": call_list_range,
        "axis_to_dim": call_axis_to_dim,
        "QBytesTensor": call_qbytes,
        "QBitsTensor.create": call_qbits_create,
        "isinstance": call_isinstance,
        "optimizer": call_optimizer,
        "SymmetricQuantizer.apply": call_sym_apply,
        "AffineQuantizer.apply": call_aff_apply,
    },
    "methods": {
        "to": meth_to,
        "size": meth_size,
        "stride": meth_stride,
        "reshape": meth_reshape,
        "permute": meth_permute,
        "numel": meth_numel,
        "unpack": meth_unpack,
    },
    "funcs": {
        "group": ("src_group", ["base", "axis", "group_size"], ["ftensor", "optint", "int"], "ftensor"),
        "ungroup": ("src_ungroup", ["grouped", "axis", "orig_shape"], ["ftensor", "optint", "shape"], "ftensor"),
        "self.optimize": ("optimize", ["base", "bits", "axis"], ["ftensor", "int", "optint"], "ftensor"),
    },
    "narrow": ("group_size",),
    "extra_binders": ["{F : Type}", "`{Num F}"],
}
