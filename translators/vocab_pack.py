"""Vocabulary (whitelist) for the uint8 bit-packing code: which torch calls are understood and
which Coq function of coq/Lib/Tensor.v models each."""
import ast

from py2coq import Expr, U


def call_torch_zeros(tr, e, env):
    kws = {k.arg: k.value for k in e.keywords}
    if len(e.args) != 1 or set(kws) - {"device", "dtype"}:
        U(e, "torch.zeros form")
    if "dtype" not in kws or ast.unparse(kws["dtype"]) != "torch.uint8":
        U(e, "torch.zeros dtype is not torch.uint8")
    sh = tr.expr(e.args[0], env)
    if sh.ty != "shape":
        U(e, "torch.zeros shape")
    v = tr.ctx.tmp("z")
    return Expr(v, "tensor", sh.pre + [("bind", v, f"t_zeros {sh.coq}")])


def call_torch_cat(tr, e, env):
    if len(e.args) != 1 or e.keywords:
        U(e, "torch.cat form (dim must be the default 0)")
    l = tr.expr(e.args[0], env)
    if l.ty != "tlist":
        U(e, "torch.cat of non list")
    v = tr.ctx.tmp("c")
    return Expr(v, "tensor", l.pre + [("bind", v, f"t_cat0 {l.coq}")])


def meth_to(tr, e, env):
    # x.to(torch.uint8)
    x = tr.expr(e.func.value, env)
    if x.ty != "tensor" or len(e.args) != 1 or e.keywords or ast.unparse(e.args[0]) != "torch.uint8":
        U(e, ".to() form")
    return Expr(f"(t_to_u8 {x.coq})", "tensor", x.pre)


VOCAB = {
    "tensor_int_ops": {
        # op -> (coq function, optional guard)
        "LShift": ("t_shl", None),
        "RShift": ("t_shr", None),
        "BitAnd": ("t_and", None),
        "Mult": ("t_mul_u8", None),
        "FloorDiv": ("t_floordiv_u8", "guard_nz {b}"),
    },
    "slice_augassign": {"BitOr": "t_ior_slice0"},
    "calls": {"torch.zeros": call_torch_zeros, "torch.cat": call_torch_cat},
    "methods": {"to": meth_to},
}
