"""Translates the (de)serialization code of the quantized tensor classes into the vocabulary of
coq/Model/Serial.v: for QBytesTensor, QBitsTensor and PackedTensor, __tensor_flatten__ becomes
src_flat_<cls> (which leaves, which string expressions), load_from_state_dict + __tensor_unflatten__
become src_load_<cls> (which keys are popped, how many meta entries are demanded, how each is parsed and
where it goes in the constructor).  Fail-closed: anything not recognised yields a unit definition, so the
tie lemma fails.  Module-level save / load, the generic recursive flattener, serialization.py and
requantize() are tied by AST fingerprint."""
import ast
import os
import sys

sys.path.insert(0, os.path.dirname(__file__))
from gen_ops import find, fingerprint  # noqa: E402


def cs(s):
    return '"' + s.replace('"', '""') + '"'


class Unsupported(Exception):
    pass


# record vocabulary of Model/Serial.v per class: constructor parameter -> (record field, type)
CLASSES = {
    "QBytesTensor": {"file": "tensor/qbytes.py", "rec": "qbytes", "pre": "qb_", "ctor": ["qtype", "axis", "size", "stride", "data", "scale"],
                     "fields": {"qtype": "str", "axis": "opt", "size": "seq", "stride": "seq", "data": "tensor", "scale": "tensor"}},
    "QBitsTensor": {"file": "tensor/qbits/qbits.py", "rec": "qbits", "pre": "qi_", "ctor": ["qtype", "axis", "group_size", "size", "stride", "data", "scale", "zeropoint"],
                    "fields": {"qtype": "str", "axis": "opt", "group_size": "opt", "size": "seq", "stride": "seq", "data": "packed", "scale": "tensor", "zeropoint": "tensor"},
                    "rename": {"group_size": "group", "zeropoint": "zp"}},
    "PackedTensor": {"file": "tensor/qbits/packed.py", "rec": "packed", "pre": "pk_", "ctor": ["data", "bits", "size", "stride"],
                     "fields": {"data": "tensor", "bits": "int", "size": "seq", "stride": "seq"}},
}

# how a meta expression of __tensor_flatten__ reads in the model
SELF_ATTR = {"_qtype": "qtype", "_axis": "axis", "_group_size": "group_size", "_bits": "bits"}


def fld(cls, name):
    c = CLASSES[cls]
    return c["pre"] + c.get("rename", {}).get(name, name)


def meta_expr(cls, e):
    """python expression (ast) of a meta value -> Coq term of type string over the record t"""
    src = ast.unparse(e)
    if src == "self._qtype.name":
        return f"{fld(cls, 'qtype')} t"
    if isinstance(e, ast.Call) and ast.unparse(e.func) == "str" and len(e.args) == 1 and not e.keywords:
        a = e.args[0]
        asrc = ast.unparse(a)
        if isinstance(a, ast.Attribute) and asrc.startswith("self.") and a.attr in SELF_ATTR:
            name = SELF_ATTR[a.attr]
            kind = CLASSES[cls]["fields"].get(name)
            if kind == "opt":
                return f"show_opt ({fld(cls, name)} t)"
            if kind == "int":
                return f"show (PInt ({fld(cls, name)} t))"
        if asrc in ("list(self.size())", "list(self.stride())"):
            return f"show (PList ({fld(cls, asrc[10:-3])} t))"
        if asrc in ("self.size()", "self.stride()", "tuple(self.size())", "tuple(self.stride())"):
            n = "size" if "size" in asrc else "stride"
            return f"show (PTuple ({fld(cls, n)} t))"
    raise Unsupported(f"{cls}.__tensor_flatten__: meta expression {src}")


def gen_flat(cls, tree):
    fn = find(tree, cls + ".__tensor_flatten__")
    if fn is None:
        raise Unsupported(cls + ".__tensor_flatten__ missing")
    inner = meta = None
    for s in fn.body:
        if isinstance(s, ast.Assign) and len(s.targets) == 1 and isinstance(s.targets[0], ast.Name):
            if s.targets[0].id == "inner_tensors" and isinstance(s.value, ast.List):
                inner = [ast.literal_eval(x) for x in s.value.elts]
            elif s.targets[0].id == "meta" and isinstance(s.value, ast.Dict):
                meta = [(ast.literal_eval(k), v) for k, v in zip(s.value.keys, s.value.values)]
            else:
                raise Unsupported(f"{cls}.__tensor_flatten__: statement {ast.unparse(s)}")
        elif isinstance(s, ast.Return):
            if ast.unparse(s.value) != "(inner_tensors, meta)":
                raise Unsupported(f"{cls}.__tensor_flatten__ returns {ast.unparse(s.value)}")
        elif isinstance(s, ast.Expr) and isinstance(s.value, ast.Constant):
            pass
        else:
            raise Unsupported(f"{cls}.__tensor_flatten__: statement {ast.unparse(s)}")
    if inner is None or meta is None:
        raise Unsupported(cls + ".__tensor_flatten__: inner_tensors / meta not found")
    items = []
    nested = None
    for n in inner:
        if not n.startswith("_"):
            raise Unsupported(f"{cls}: inner tensor name {n}")
        kind = CLASSES[cls]["fields"].get(n[1:])
        if kind == "tensor":
            items.append(f"({cs(n)}, LT ({fld(cls, n[1:])} t))")
        elif kind == "packed":
            # serialize_tensor_subclass recurses into a non-plain inner tensor under "<name>."
            nested = n
        else:
            raise Unsupported(f"{cls}: inner tensor {n}")
    for k, v in meta:
        items.append(f"({cs(k)}, LS ({meta_expr(cls, v)}))")
    rec = CLASSES[cls]["rec"]
    body = "[" + "; ".join(items) + "]"
    if nested is not None:
        if inner[0] != nested:
            raise Unsupported(f"{cls}: nested inner tensor is not the first")
        body = f"app (addp {cs(nested + '.')} (src_flat_packed ({fld(cls, nested[1:])} t))) {body}"
    return f"Definition src_flat_{rec} (t : {rec}) : list (string * leaf) :=\n  {body}.\n"


def gen_load(cls, tree):
    c = CLASSES[cls]
    rec = c["rec"]
    ld = find(tree, cls + ".load_from_state_dict")
    un = find(tree, cls + ".__tensor_unflatten__")
    if ld is None or un is None:
        raise Unsupported(cls + ": loader missing")
    if [a.arg for a in ld.args.args] != ["state_dict", "prefix"]:
        raise Unsupported(cls + ".load_from_state_dict signature")
    steps = []  # ("pop", name) | ("nested", name, suffix)
    seen_meta = 0
    for s in ld.body:
        src = ast.unparse(s)
        if isinstance(s, ast.Assign) and src.startswith("inner_tensors_dict = "):
            if not isinstance(s.value, ast.Dict):
                raise Unsupported(cls + ": " + src)
            for k, v in zip(s.value.keys, s.value.values):
                name = ast.literal_eval(k)
                vs = ast.unparse(v)
                if vs == f"state_dict.pop(prefix + '{name}')":
                    steps.append(("pop", name))
                elif vs == f"PackedTensor.load_from_state_dict(state_dict, prefix + '{name}.')":
                    steps.append(("nested", name))
                else:
                    raise Unsupported(cls + ": " + vs)
        elif isinstance(s, ast.For) and ast.unparse(s.target) == "name" and isinstance(s.iter, ast.List) and len(s.body) == 1 and \
                ast.unparse(s.body[0]) == "inner_tensors_dict[name] = state_dict.pop(prefix + name)":
            steps += [("pop", ast.literal_eval(x)) for x in s.iter.elts]
        elif src == "meta = [name.replace(prefix, '') for name in state_dict.keys() if name.startswith(prefix)]":
            seen_meta += 1
        elif src == "meta_dict = {}":
            seen_meta += 1
        elif isinstance(s, ast.For) and src == "for name in meta:\n    meta_dict[name] = state_dict.pop(prefix + name)":
            seen_meta += 1
        elif isinstance(s, ast.Return):
            if ast.unparse(s.value) != f"{cls}.__tensor_unflatten__(inner_tensors_dict, meta_dict, None, None)":
                raise Unsupported(cls + ": " + src)
        else:
            raise Unsupported(cls + ".load_from_state_dict: " + src)
    if seen_meta != 3:
        raise Unsupported(cls + ".load_from_state_dict: meta collection not recognised")
    # __tensor_unflatten__
    nmeta = None
    binds = {}  # python variable -> coq term source
    ret = None
    for s in un.body:
        src = ast.unparse(s)
        if isinstance(s, ast.Assert):
            if src.startswith("assert len(meta) == "):
                nmeta = int(src.split("==")[1])
            elif src.startswith("assert len(inner_tensors) == "):
                if int(src.split("==")[1]) != len(steps):
                    raise Unsupported(cls + ": number of inner tensors")
            else:
                raise Unsupported(cls + ": " + src)
        elif isinstance(s, ast.Assign) and len(s.targets) == 1:
            tg, v = s.targets[0], s.value
            if isinstance(tg, ast.Tuple):
                names = [x.id for x in tg.elts]
                vals = v.elts if isinstance(v, ast.Tuple) else None
                if vals is None or len(vals) != len(names):
                    raise Unsupported(cls + ": " + src)
                pairs = list(zip(names, vals))
            else:
                pairs = [(tg.id, v)]
            for n, e in pairs:
                es = ast.unparse(e)
                if es.startswith("inner_tensors['") and es.endswith("']"):
                    binds[n] = ("inner", es[15:-2])
                elif es.startswith("ast.literal_eval(meta['") and es.endswith("'])"):
                    binds[n] = ("literal", es[23:-3])
                elif es.startswith("qtypes[meta['") and es.endswith("']]"):
                    binds[n] = ("qtype", es[13:-3])
                else:
                    raise Unsupported(cls + ".__tensor_unflatten__: " + es)
        elif isinstance(s, ast.Return):
            ret = s.value
        elif isinstance(s, ast.Expr) and isinstance(s.value, ast.Constant):
            pass
        else:
            raise Unsupported(cls + ".__tensor_unflatten__: " + src)
    if nmeta is None or ret is None or not isinstance(ret, ast.Call) or ast.unparse(ret.func) != cls or ret.keywords:
        raise Unsupported(cls + ".__tensor_unflatten__: shape")
    args = [ast.unparse(a) for a in ret.args]
    if len(args) != len(c["ctor"]):
        raise Unsupported(cls + ": constructor arity")
    lines = []
    tvar = {}
    dcur = "d"
    for i, st in enumerate(steps):
        name = st[1]
        if st[0] == "pop":
            lines.append(f"  x <- pop (p ++ {cs(name)}) {dcur} ;; let '(l{i}, d{i}) := x in t{i} <- as_tensor l{i} ;;")
        else:
            lines.append(f"  x <- src_load_packed (p ++ {cs(name + '.')}) {dcur} ;; let '(t{i}, d{i}) := x in")
        tvar[name] = f"t{i}"
        dcur = f"d{i}"
    lines.append(f"  let '(m, dm) := collect p {dcur} in")
    lines.append(f"  if negb (Nat.eqb (length m) {nmeta}) then None else")
    fieldvals = {}
    for param, a in zip(c["ctor"], args):
        if a not in binds:
            raise Unsupported(f"{cls}: constructor argument {a}")
        how, key = binds[a]
        kind = c["fields"][param]
        if how == "inner":
            if kind not in ("tensor", "packed") or key not in tvar:
                raise Unsupported(f"{cls}: {param} <- inner {key}")
            fieldvals[param] = tvar[key]
        elif how == "qtype":
            if kind != "str":
                raise Unsupported(f"{cls}: {param} <- qtypes[...]")
            lines.append(f"  f_{param} <- meta_str {cs(key)} m ;;")
            fieldvals[param] = f"f_{param}"
        else:
            conv = {"opt": "as_opt_int", "seq": "as_seq", "int": "as_int"}.get(kind)
            if conv is None:
                raise Unsupported(f"{cls}: {param} <- literal_eval")
            lines.append(f"  f_{param} <- (v <- meta_val {cs(key)} m ;; {conv} v) ;;")
            fieldvals[param] = f"f_{param}"
    recv = "; ".join(f"{fld(cls, p)} := {fieldvals[p]}" for p in c["ctor"])
    lines.append(f"  Some ({{| {recv} |}}, dm).")
    return f"Definition src_load_{rec} (p : string) (d : sdict) : option ({rec} * sdict) :=\n" + "\n".join(lines) + "\n"


PRINTS = [
    ("tensor/qtensor.py", ["QTensor.save_to_state_dict"]),
    ("tensor/qbits/qbits.py", ["QBitsTensor.save_to_state_dict", "QBitsTensor.optimize", "QBitsTensor.__init__", "QBitsTensor.create"]),
    ("tensor/qbytes.py", ["QBytesTensor.__init__"]),
    ("tensor/qbits/packed.py", ["PackedTensor.__init__"]),
    ("nn/qmodule.py", ["QModuleMixin._save_to_state_dict", "QModuleMixin._load_from_state_dict"]),
    ("serialization.py", ["safe_save", "safe_load"]),
    ("quantize.py", ["requantize"]),
]


def generate(repo, out_path):
    q = os.path.join(repo, "optimum/quanto")
    errors = []
    text = ("(* GENERATED on every run from /repo -- do not edit: (de)serialization of the quantized tensor classes. *)\n"
            "From Coq Require Import String List ZArith Bool.\nFrom QV Require Import Model.Codec Model.Serial.\nImport ListNotations.\nOpen Scope string_scope.\n\n")
    for cls in ("PackedTensor", "QBytesTensor", "QBitsTensor"):
        rec = CLASSES[cls]["rec"]
        try:
            tree = ast.parse(open(os.path.join(q, CLASSES[cls]["file"])).read())
            text += gen_flat(cls, tree)
        except Exception as ex:  # noqa: BLE001
            errors.append(f"src_flat_{rec}: {type(ex).__name__}: {ex}")
            text += f"Definition src_flat_{rec} : unit := tt.\n"
        try:
            text += gen_load(cls, tree)
        except Exception as ex:  # noqa: BLE001
            errors.append(f"src_load_{rec}: {type(ex).__name__}: {ex}")
            text += f"Definition src_load_{rec} : unit := tt.\n"
    prints = []
    for rel, quals in PRINTS:
        try:
            tr = ast.parse(open(os.path.join(q, rel)).read())
        except Exception:  # noqa: BLE001
            tr = None
        for qual in quals:
            node = find(tr, qual) if tr is not None else None
            prints.append((qual, fingerprint(node) if node is not None else "MISSING"))
    text += "Definition src_ser_prints : list (string * string) := [\n  " + ";\n  ".join(f"({cs(a)}, {cs(b)})" for a, b in prints) + "].\n"
    os.makedirs(os.path.dirname(out_path), exist_ok=True)
    with open(out_path, "w") as f:
        f.write(text)
    return errors


if __name__ == "__main__":
    for e in generate(sys.argv[1], sys.argv[2]):
        print("TRANSLATOR-ERROR", e)
    print(open(sys.argv[2]).read())
