"""Reads the two dispatch tables (aten ops of QBytesTensor / QBitsTensor) and the function table of
QTensor from the decorators, plus a structural fingerprint (sha256 of the normalised AST) of every
registered implementation and of the dispatch entry points, and emits GenOps.v.  Any edit of an op
implementation, any newly registered op and any change of the dispatch logic changes a generated
definition and breaks the corresponding tie lemma (fail closed)."""
import ast
import hashlib
import os
import sys

sys.path.insert(0, os.path.dirname(__file__))

FILES = {
    "qbytes": ("tensor/qbytes_ops.py", "register_qbytestensor_op"),
    "qbits": ("tensor/qbits/qbits_ops.py", "register_qbitstensor_op"),
    "funcs": ("tensor/qtensor_func.py", "register_qtensor_func"),
}
ENTRY_POINTS = [
    ("tensor/qtensor.py", "qfallback"),
    ("tensor/qtensor.py", "QTensor.__torch_function__"),
    ("tensor/qbytes.py", "QBytesTensor.__torch_dispatch__"),
    ("tensor/qbytes.py", "QBytesTensor.__new__"),
    ("tensor/qbytes.py", "QBytesTensor.__init__"),
    ("tensor/qbits/qbits.py", "QBitsTensor.__torch_dispatch__"),
    ("tensor/qbits/qbits.py", "QBitsTensor.__new__"),
    ("tensor/qbits/qbits.py", "QBitsTensor.__init__"),
    ("tensor/qbits/qbits.py", "QBitsTensor.create"),
    ("tensor/qbits/packed.py", "PackedTensor.__torch_dispatch__"),
    ("tensor/qbytes_ops.py", "is_scalar"),
    ("tensor/qbytes_ops.py", "cannot_mm"),
]

# expected reading of the current source: function -> (registered ops, fingerprint, class of the op in
# the model).  Classes: move, rescale, sign, requant, contraction, compare, copy, fallback, meta
EXPECTED = None  # filled from coq/Model/QOpsTable.py


def fingerprint(node):
    return hashlib.sha256(ast.dump(node, annotate_fields=True, include_attributes=False).encode()).hexdigest()[:16]


def find(tree, qual):
    body = tree.body
    node = None
    for p in qual.split("."):
        node = next((n for n in body if isinstance(n, (ast.FunctionDef, ast.ClassDef)) and n.name == p), None)
        if node is None:
            return None
        body = node.body
    return node


def read_tables(repo):
    q = os.path.join(repo, "optimum/quanto")
    out = {}
    for key, (rel, deco) in FILES.items():
        tree = ast.parse(open(os.path.join(q, rel)).read())
        entries = []
        for n in tree.body:
            if isinstance(n, ast.FunctionDef):
                for d in n.decorator_list:
                    if isinstance(d, ast.Call) and ast.unparse(d.func) == deco and len(d.args) == 1 and isinstance(d.args[0], ast.List):
                        ops = [ast.unparse(e).replace("torch.ops.aten.", "aten.") for e in d.args[0].elts]
                        entries.append((n.name, ops, fingerprint(n)))
        out[key] = entries
    return out


def table_ops(repo):
    t = read_tables(repo)
    return {k: sorted(op for _, ops, _ in v for op in ops) for k, v in t.items()}


def cs(s):
    return '"' + s.replace('"', '""') + '"'


def generate(repo, out_path):
    errors = []
    text = "(* GENERATED on every run from /repo -- do not edit.  Dispatch tables and implementation fingerprints. *)\n"
    text += "From Coq Require Import String List.\nImport ListNotations.\nOpen Scope string_scope.\n\n"
    try:
        tabs = read_tables(repo)
        for key in ("qbytes", "qbits", "funcs"):
            text += f"Definition src_table_{key} : list (string * list string) := [\n  " + ";\n  ".join(
                f"({cs(name)}, [" + "; ".join(cs(o) for o in ops) + "])" for name, ops, _ in tabs[key]
            ) + "].\n"
            text += f"Definition src_prints_{key} : list (string * string) := [\n  " + ";\n  ".join(f"({cs(name)}, {cs(fp)})" for name, _, fp in tabs[key]) + "].\n"
        q = os.path.join(repo, "optimum/quanto")
        items = []
        for rel, qual in ENTRY_POINTS:
            tree = ast.parse(open(os.path.join(q, rel)).read())
            node = find(tree, qual)
            items.append((qual, fingerprint(node) if node is not None else "MISSING"))
        text += "Definition src_prints_entry : list (string * string) := [\n  " + ";\n  ".join(f"({cs(n)}, {cs(fp)})" for n, fp in items) + "].\n"
    except (OSError, SyntaxError) as ex:
        errors.append(f"ops tables: {ex}")
        text += "Definition src_table_qbytes : unit := tt.\n"
    os.makedirs(os.path.dirname(out_path), exist_ok=True)
    with open(out_path, "w") as f:
        f.write(text)
    return errors


def tie_text():
    return (
        "(* Tie for the op tables: the registered ops and the fingerprint of every implementation are the ones the\n"
        "   hand-written model (Model/QOps.v) was written against. *)\n"
        "From Coq Require Import String List.\nFrom QV Require Import Model.QOps.\nFrom QD Require Import GenOps.\nImport ListNotations.\nOpen Scope string_scope.\n"
        "Lemma tie_table_qbytes : src_table_qbytes = table_qbytes. Proof. reflexivity. Qed.\n"
        "Lemma tie_table_qbits : src_table_qbits = table_qbits. Proof. reflexivity. Qed.\n"
        "Lemma tie_table_funcs : src_table_funcs = table_funcs. Proof. reflexivity. Qed.\n"
        "Lemma tie_prints_qbytes : src_prints_qbytes = prints_qbytes. Proof. reflexivity. Qed.\n"
        "Lemma tie_prints_qbits : src_prints_qbits = prints_qbits. Proof. reflexivity. Qed.\n"
        "Lemma tie_prints_funcs : src_prints_funcs = prints_funcs. Proof. reflexivity. Qed.\n"
        "Lemma tie_prints_entry : src_prints_entry = prints_entry. Proof. reflexivity. Qed.\n"
    )


if __name__ == "__main__":
    for e in generate(sys.argv[1], sys.argv[2]):
        print("TRANSLATOR-ERROR", e)
    print(open(sys.argv[2]).read())
