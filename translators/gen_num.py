"""Regenerates GenNum.v: the numeric core of quanto (symmetric / affine quantizers, absmax / max
optimizers, absmax_scale, axis_to_dim, dequantizers, calibration scale update)."""
import os
import sys

sys.path.insert(0, os.path.dirname(__file__))
from py2coq import translate_function  # noqa: E402
from vocab_num import VOCAB  # noqa: E402

HEADER = """(* GENERATED on every run from /repo -- do not edit.  Sources:
{srcs}
   Ignored: docstrings, comments, annotations; `ctx` arguments of autograd Functions. *)
From Coq Require Import String List ZArith Bool.
From QV Require Import Lib.Res Lib.Tensor Lib.ND Lib.Num Lib.QTensor.
Import ListNotations.
Open Scope Z_scope.

"""


def extract_group_size(fn):
    """QModuleMixin.__init__ -> def auto_group_size(weight): the body of
    `if self.weight_qtype in (qint2, qint4):` with self.weight_group_size as a local"""
    import ast as A

    from py2coq import Untranslatable

    target = None
    for st in fn.body:
        if isinstance(st, A.If) and A.unparse(st.test) == "self.weight_qtype in (qint2, qint4)":
            target = st
    if target is None or target.orelse:
        raise Untranslatable("group-size block `if self.weight_qtype in (qint2, qint4):` not found in QModuleMixin.__init__")
    # the attribute must be initialised to None right before
    idx = fn.body.index(target)
    prev = fn.body[idx - 1]
    if A.unparse(prev) != "self.weight_group_size = None":
        raise Untranslatable("self.weight_group_size = None does not precede the group-size block")

    class R(A.NodeTransformer):
        def visit_Attribute(self, node):
            if isinstance(node.value, A.Name) and node.value.id == "self":
                if node.attr in ("weight_group_size", "weight"):
                    return A.copy_location(A.Name(id=node.attr, ctx=node.ctx), node)
                raise Untranslatable(f"self.{node.attr} inside the group-size block")
            return self.generic_visit(node)

    body = [R().visit(x) for x in target.body]
    init = A.parse("weight_group_size = None").body[0]
    ret = A.parse("return weight_group_size").body[0]
    new = A.FunctionDef(
        name="auto_group_size",
        args=A.arguments(posonlyargs=[], args=[A.arg(arg="weight")], kwonlyargs=[], kw_defaults=[], defaults=[]),
        body=[init] + body + [ret],
        decorator_list=[],
        lineno=target.lineno,
    )
    return A.fix_missing_locations(new)


# fixed glue (not derived from the source): how an Optimizer object is applied.  The two concrete
# optimizer classes only override optimize(); __call__ comes from their family base class.
GLUE = """Definition apply_sym_optimizer {F : Type} `{Num F} (o : option optkind) (base : tensor F) (bits : Z)
           (axis : option Z) : res (tensor F) :=
  match o with
  | Some AbsmaxOpt => src_sym_opt_call src_absmax_optimize base bits axis
  | _ => Err "TypeError"%string
  end.
Definition apply_aff_optimizer {F : Type} `{Num F} (o : option optkind) (base : tensor F) (bits : Z)
           (axis group_size : option Z) : res (tensor F * tensor F) :=
  match o with
  | Some MaxOpt => src_aff_opt_call src_max_optimize base bits axis group_size
  | _ => Err "TypeError"%string
  end.
"""


def generate(repo, out_path, only=None):
    q = os.path.join(repo, "optimum/quanto")
    FT = "ftensor"
    OPT = "optint"
    srcs = [
        (f"{q}/tensor/core.py", "axis_to_dim", "axis_to_dim", {"t": FT, "axis": "optint"}),
        (f"{q}/tensor/qbits/group.py", "group", "group", {"base": FT, "axis": OPT, "group_size": "int"}),
        (f"{q}/tensor/qbits/group.py", "ungroup", "ungroup", {"grouped": FT, "axis": OPT, "orig_shape": "shape"}),
        (f"{q}/tensor/quantizers/affine.py", "AffineQuantizer.forward", "affine_forward", {"base": FT, "axis": OPT, "group_size": OPT, "scale": FT, "zeropoint": "i8tensor"}),
        (f"{q}/tensor/optimizers/max_optimizer.py", "MaxOptimizer.optimize", "max_optimize", {"base": FT, "axis": OPT}),
        (f"{q}/tensor/qbytes.py", "QBytesDequantizer.forward", "qbytes_dequantize", {"t": "qbytes"}),
        (f"{q}/tensor/qbits/qbits.py", "QBitsDequantizer.forward", "qbits_dequantize", {"t": "qbits"}),
        (f"{q}/tensor/quantizers/symmetric.py", "SymmetricQuantizer.forward", "sym_forward", {"base": FT, "scale": FT, "axis": "optint"}),
        (f"{q}/tensor/optimizers/absmax_optimizer.py", "AbsmaxOptimizer.optimize", "absmax_optimize", {"base": FT, "axis": "optint"}),
        (f"{q}/tensor/optimizers/symmetric_optimizer.py", "SymmetricOptimizer.__call__", "sym_opt_call", {"base": FT, "axis": OPT}, "sym_opt"),
        (f"{q}/tensor/optimizers/affine_optimizer.py", "AffineOptimizer.__call__", "aff_opt_call", {"base": FT, "axis": OPT, "group_size": OPT}, "aff_opt"),
        ("GLUE", None, None, None),
        (f"{q}/tensor/qweight.py", "quantize_weight", "quantize_weight", {"t": FT, "axis": OPT, "group_size": OPT, "optimizer": "optopt"}, "qw"),
        (f"{q}/tensor/qactivation.py", "quantize_activation", "quantize_activation", {"t": FT, "scale": FT}),
        (f"{q}/calibrate.py", "absmax_scale", "absmax_scale", {"base": FT, "axis": "optint"}),
        (f"{q}/nn/qmodule.py", "QModuleMixin.__init__", "auto_group_size", {"weight": FT, "weight_group_size": OPT}, "gs"),
        (f"{q}/calibrate.py", "_updated_scale", "updated_scale", {"scale": FT, "new_scale": FT, "momentum": "pyfloat"}),
    ]
    errors = []
    text = HEADER.format(srcs="\n".join("     " + s[0] + " :: " + s[1] for s in srcs if s[1]))
    for entry in srcs:
        path, qual, name, ptys = entry[:4]
        if path == "GLUE":
            text += GLUE + "\n"
            continue
        if only and name not in only:
            continue
        vocab = VOCAB
        variant = entry[4] if len(entry) > 4 else None
        if variant:
            vocab = dict(VOCAB)
            vocab["funcs"] = dict(VOCAB["funcs"])
            if variant == "sym_opt":
                vocab["extra_binders"] = VOCAB["extra_binders"] + ["(optimize : tensor F -> Z -> option Z -> res (tensor F))"]
            if variant == "aff_opt":
                vocab["funcs"]["self.optimize"] = ("optimize", ["base", "bits", "axis"], ["ftensor", "int", "optint"], "ftpair")
                vocab["extra_binders"] = VOCAB["extra_binders"] + ["(optimize : tensor F -> Z -> option Z -> res (tensor F * tensor F))"]
            if variant == "qw":
                vocab["wrap_qany"] = True
            if variant == "gs":
                vocab["while_fuel"] = 8
        t, err = translate_function(path, qual, name, ptys, vocab, rewrite=extract_group_size if variant == "gs" else None)
        text += t + "\n"
        if err:
            errors.append(f"{qual}: {err}")
    os.makedirs(os.path.dirname(out_path), exist_ok=True)
    with open(out_path, "w") as f:
        f.write(text)
    return errors


if __name__ == "__main__":
    for e in generate(sys.argv[1], sys.argv[2]):
        print("TRANSLATOR-ERROR", e)
