"""Reads the module-level glue (quantize.py, nn/qmodule.py, nn/q*.py) as facts: the registry declared by
the decorators, the arguments each qcreate mirrors, the call shape of the dynamic weight quantization,
the structure of quantize()/freeze(), and fingerprints of every method the hand-written model covers."""
import ast
import os
import sys

sys.path.insert(0, os.path.dirname(__file__))
from gen_ops import find, fingerprint  # noqa: E402


def cs(s):
    return '"' + s.replace('"', '""') + '"'


def lst(xs):
    return "[" + "; ".join(xs) + "]"


def generate(repo, out_path):
    q = os.path.join(repo, "optimum/quanto")
    errors = []
    text = "(* GENERATED on every run from /repo -- do not edit: module-level facts. *)\nFrom Coq Require Import String List.\nImport ListNotations.\nOpen Scope string_scope.\n\n"
    try:
        reg = []
        qcreate = []
        for rel in ("nn/qlinear.py", "nn/qconv2d.py", "nn/qlayernorm.py"):
            tree = ast.parse(open(os.path.join(q, rel)).read())
            for n in tree.body:
                if isinstance(n, ast.ClassDef):
                    for d in n.decorator_list:
                        if isinstance(d, ast.Call) and ast.unparse(d.func) == "register_qmodule":
                            reg.append((ast.unparse(d.args[0]), n.name))
                    qc = find(tree, n.name + ".qcreate")
                    if qc is not None:
                        ret = [s for s in ast.walk(qc) if isinstance(s, ast.Return) and isinstance(s.value, ast.Call) and ast.unparse(s.value.func) == "cls"]
                        if len(ret) == 1:
                            call = ret[0].value
                            args = [ast.unparse(a) for a in call.args] + [f"{k.arg}={ast.unparse(k.value)}" for k in call.keywords]
                            qcreate.append((n.name, args))
                        guards = [ast.unparse(s.test) for s in qc.body if isinstance(s, ast.If) and len(s.body) == 1 and isinstance(s.body[0], ast.Return) and ast.unparse(s.body[0]) == "return None"]
                        qcreate.append((n.name + ".returns_none_if", guards))
        text += "Definition src_registry : list (string * string) := " + lst(f"({cs(a)}, {cs(b)})" for a, b in reg) + ".\n"
        text += "Definition src_qcreate : list (string * list string) := " + lst(f"({cs(a)}, {lst(cs(x) for x in b)})" for a, b in qcreate) + ".\n"
        tree = ast.parse(open(os.path.join(q, "nn/qmodule.py")).read())
        qw = find(tree, "QModuleMixin.qweight")
        calls = [c for c in ast.walk(qw) if isinstance(c, ast.Call) and ast.unparse(c.func) == "quantize_weight"]
        kw = [f"{ast.unparse(a)}" for a in calls[0].args] + [f"{k.arg}={ast.unparse(k.value)}" for k in calls[0].keywords] if len(calls) == 1 else ["?"]
        text += "Definition src_qweight_call : list string := " + lst(cs(x) for x in kw) + ".\n"
        early = [ast.unparse(s.test) + " -> " + ast.unparse(s.body[0]) for s in qw.body if isinstance(s, ast.If)]
        text += "Definition src_qweight_early : list string := " + lst(cs(x) for x in early) + ".\n"
        fz = find(tree, "QModuleMixin.freeze")
        text += "Definition src_freeze_body : list string := " + lst(cs(ast.unparse(s)) for s in fz.body) + ".\n"
        qm = find(tree, "quantize_module")
        text += "Definition src_quantize_module : string := " + cs(fingerprint(qm)) + ".\n"
        t2 = ast.parse(open(os.path.join(q, "quantize.py")).read())
        qz = find(t2, "quantize")
        loop = [s for s in qz.body if isinstance(s, ast.For)]
        body = [ast.unparse(s).split("\n")[0] for s in loop[0].body] if loop else ["?"]
        text += "Definition src_quantize_loop : list string := " + lst(cs(x) for x in [ast.unparse(loop[0].iter) if loop else "?"] + body) + ".\n"
        prints = []
        for rel, quals in (("quantize.py", ["quantize", "set_module_by_name", "freeze", "requantize"]),
                           ("nn/qmodule.py", ["QModuleMixin.__init__", "QModuleMixin.forward", "QModuleMixin.from_module", "QModuleMixin.qweight", "QModuleMixin.freeze", "QModuleMixin.frozen",
                                              "QModuleMixin._save_to_state_dict", "QModuleMixin._load_from_state_dict", "register_qmodule", "quantize_module"]),
                           ("nn/qlinear.py", ["QLinear.qcreate", "QLinear.qforward"]), ("nn/qconv2d.py", ["QConv2d.qcreate", "QConv2d.qforward"]),
                           ("nn/qlayernorm.py", ["QLayerNorm.qcreate", "QLayerNorm.qforward"])):
            tr = ast.parse(open(os.path.join(q, rel)).read())
            for qual in quals:
                node = find(tr, qual)
                prints.append((qual, fingerprint(node) if node is not None else "MISSING"))
        text += "Definition src_mod_prints : list (string * string) := [\n  " + ";\n  ".join(f"({cs(a)}, {cs(b)})" for a, b in prints) + "].\n"
    except Exception as ex:  # noqa: BLE001
        errors.append(f"module facts: {type(ex).__name__}: {ex}")
        text += "Definition src_registry : unit := tt.\n"
    os.makedirs(os.path.dirname(out_path), exist_ok=True)
    with open(out_path, "w") as f:
        f.write(text)
    return errors


if __name__ == "__main__":
    for e in generate(sys.argv[1], sys.argv[2]):
        print("TRANSLATOR-ERROR", e)
    print(open(sys.argv[2]).read())
