"""Fail-closed translator from a small, whitelisted subset of Python (as used by quanto's
index / bit / decision code) to Gallina definitions over the vocabulary of coq/Lib/*.v.

Shallow embedding: the output IS an executable Coq function (`src_<name>`), so the
correspondence check runs exactly what the theorems talk about, and `Tie*.v` proves
`src_f = Model.f` by `reflexivity` (conversion), which is insensitive to local names and
let-inlining but to nothing else.

Anything outside the whitelist raises Untranslatable; the caller then emits a definition of
the wrong type so every dependent Tie lemma fails (fail closed).

Types tracked by the (deliberately tiny) forward type inference:
  int bool str none tensor shape(list of int) tlist(list of tensors) fun
"""
import ast
import textwrap


class Untranslatable(Exception):
    pass


def U(node, why):
    ln = getattr(node, "lineno", "?")
    raise Untranslatable(f"line {ln}: {why}: {ast.dump(node)[:160]}")


def find_function(tree, qualname):
    parts = qualname.split(".")
    body = tree.body
    node = None
    for p in parts:
        node = None
        for n in body:
            if isinstance(n, (ast.FunctionDef, ast.ClassDef)) and n.name == p:
                node = n
                break
        if node is None:
            raise Untranslatable(f"function {qualname} not found")
        body = node.body
    return node


ANNOT_TYPES = {
    "qtype": "qtype",
    "int": "int",
    "bool": "bool",
    "str": "str",
    "torch.Tensor": "tensor",
    "torch.Size": "shape",
}

COQ_TYPES = {
    "ftensor": "tensor F",
    "i8tensor": "tensor F",
    "btensor": "tensor bool",
    "u8tensor": "tensor F",
    "qany": "qany F",
    "optopt": "option optkind",
    "pyfloat": "b64",
    "qtype": "qtype",
    "optint": "option Z",
    "qbytes": "qbytes F",
    "qbits": "qbits F",
    "ftpair": "(tensor F * tensor F)",
    "storage": "storage",
    "int": "Z",
    "bool": "bool",
    "str": "string",
    "tensor": "tensor Z",
    "shape": "list Z",
    "tlist": "list (tensor Z)",
}


def annot_type(a):
    if a is None:
        return None
    s = ast.unparse(a)
    return ANNOT_TYPES.get(s)


class Ctx:
    """Translation context for one function."""

    def __init__(self, name, param_types=None, vocab=None):
        self.name = name
        self.param_types = param_types or {}
        self.vocab = vocab or {}
        self.fresh = 0
        self.uses_dev = False
        self.ignored = []

    def tmp(self, base="tmp"):
        self.fresh += 1
        return f"{base}{self.fresh}_"


def cname(pyname):
    # Coq-safe identifier for a Python local
    if pyname in ("end", "in", "at", "as", "fun", "let", "match", "with", "type", "return", "if", "then", "else"):
        return pyname + "_"
    return pyname


class Expr:
    """translated expression: coq text, type, prelude (list of (kind, var, coq)) executed before."""

    def __init__(self, coq, ty, pre=None):
        self.coq = coq
        self.ty = ty
        self.pre = pre or []


def lit(n):
    return f"{n}" if n >= 0 else f"({n})"


class FunTranslator:
    def __init__(self, ctx):
        self.ctx = ctx

    # ---------------- expressions ----------------
    def expr(self, e, env):
        m = getattr(self, "e_" + type(e).__name__, None)
        if m is None:
            U(e, "expression kind not in whitelist")
        return m(e, env)

    def e_Constant(self, e, env):
        v = e.value
        if isinstance(v, bool):
            return Expr("true" if v else "false", "bool")
        if isinstance(v, int):
            return Expr(lit(v), "int")
        if isinstance(v, float):
            import math

            m, ex = math.frexp(v)
            mi = int(m * (1 << 53))
            return Expr(f"(b64_lit {lit(mi)} {lit(ex - 53)})", "pyfloat")
        if isinstance(v, str):
            return Expr('"%s"%%string' % v.replace('"', '""'), "str")
        if v is None:
            return Expr("None", "none")
        U(e, "constant kind")

    def e_Name(self, e, env):
        if e.id not in env and e.id in self.ctx.vocab.get("globals", {}):
            coq, ty = self.ctx.vocab["globals"][e.id]
            return Expr(coq, ty)
        if e.id not in env:
            U(e, f"unknown name {e.id}")
        ty = env[e.id]
        return Expr(cname(e.id), ty)

    def e_Tuple(self, e, env):
        if len(e.elts) == 2 and not any(isinstance(el, ast.Starred) for el in e.elts):
            a, b = self.expr(e.elts[0], env), self.expr(e.elts[1], env)
            if a.ty == "ftensor" and b.ty in ("ftensor", "i8tensor"):
                return Expr(f"({a.coq}, {b.coq})", "ftpair", a.pre + b.pre)
        parts, pre = [], []
        for el in e.elts:
            if isinstance(el, ast.Starred):
                x = self.expr(el.value, env)
                if x.ty != "shape":
                    U(e, "starred non-shape")
                parts.append(x.coq)
            else:
                x = self.expr(el, env)
                if x.ty != "int":
                    U(e, "tuple of non-int")
                parts.append(f"[{x.coq}]")
            pre += x.pre
        if not parts:
            return Expr("(@nil Z)", "shape", pre)
        return Expr("(" + " ++ ".join(parts) + ")", "shape", pre)

    def e_List(self, e, env):
        if not e.elts:
            return Expr("[]", "emptylist")
        xs = [self.expr(el, env) for el in e.elts]
        pre = sum((x.pre for x in xs), [])
        tys = {x.ty for x in xs}
        if tys == {"tensor"}:
            return Expr("[" + "; ".join(x.coq for x in xs) + "]", "tlist", pre)
        if tys == {"int"}:
            return Expr("[" + "; ".join(x.coq for x in xs) + "]", "shape", pre)
        U(e, "list element types")

    def e_UnaryOp(self, e, env):
        x = self.expr(e.operand, env)
        if isinstance(e.op, ast.USub) and x.ty == "int":
            return Expr(f"(- {x.coq})", "int", x.pre)
        if isinstance(e.op, ast.Not) and x.ty == "bool":
            return Expr(f"(negb {x.coq})", "bool", x.pre)
        ut = self.ctx.vocab.get("unops", {})
        if (x.ty, type(e.op).__name__) in ut:
            return Expr("(" + ut[(x.ty, type(e.op).__name__)].format(a=x.coq) + ")", x.ty, x.pre)
        U(e, "unary op")

    INT_OPS = {ast.Add: "+", ast.Sub: "-", ast.Mult: "*"}

    def e_BinOp(self, e, env):
        a, b = self.expr(e.left, env), self.expr(e.right, env)
        pre = a.pre + b.pre
        op = type(e.op)
        if a.ty == "int" and b.ty == "int":
            if op in self.INT_OPS:
                return Expr(f"({a.coq} {self.INT_OPS[op]} {b.coq})", "int", pre)
            if op is ast.FloorDiv:
                return Expr(f"({a.coq} / {b.coq})", "int", pre + [("guard", None, f"guard_nz {b.coq}")])
            if op is ast.Mod:
                return Expr(f"({a.coq} mod {b.coq})", "int", pre + [("guard", None, f"guard_nz {b.coq}")])
            if op is ast.Pow:
                return Expr(
                    f"({a.coq} ^ {b.coq})", "int", pre + [("guard", None, f'guard (0 <=? {b.coq}) "Unsupported:negpow"%string')]
                )
            if op is ast.LShift:
                return Expr(f"(Z.shiftl {a.coq} {b.coq})", "int", pre)
            if op is ast.RShift:
                return Expr(f"(Z.shiftr {a.coq} {b.coq})", "int", pre)
            if op is ast.BitAnd:
                return Expr(f"(Z.land {a.coq} {b.coq})", "int", pre)
            if op is ast.BitOr:
                return Expr(f"(Z.lor {a.coq} {b.coq})", "int", pre)
        tab = self.ctx.vocab.get("binops", {})
        if (a.ty, b.ty, op.__name__) in tab:
            tmpl, fallible, guard = tab[(a.ty, b.ty, op.__name__)]
            g = [("guard", None, guard.format(a=a.coq, b=b.coq))] if guard else []
            coq = tmpl.format(a=a.coq, b=b.coq)
            rty = self.ctx.vocab.get("binop_result", {}).get((a.ty, b.ty, op.__name__), a.ty)
            if fallible:
                v = self.ctx.tmp()
                return Expr(v, rty, pre + g + [("bind", v, coq)])
            return Expr(f"({coq})", rty, pre + g)
        if a.ty == "tensor" and b.ty == "int":
            t = self.ctx.vocab.get("tensor_int_ops", {})
            key = op.__name__
            if key in t:
                fn, guard = t[key]
                g = [("guard", None, guard.format(b=b.coq))] if guard else []
                return Expr(f"({fn} {a.coq} {b.coq})", "tensor", pre + g)
        if a.ty == "tensor" and b.ty == "tensor":
            t = self.ctx.vocab.get("tensor_tensor_ops", {})
            key = op.__name__
            if key in t:
                v = self.ctx.tmp()
                return Expr(v, "tensor", pre + [("bind", v, f"{t[key]} {a.coq} {b.coq}")])
        U(e, f"binary op on {a.ty},{b.ty}")

    CMP = {ast.Eq: "=?", ast.Lt: "<?", ast.LtE: "<=?", ast.Gt: ">?", ast.GtE: ">=?"}

    def e_Compare(self, e, env):
        if len(e.ops) != 1:
            U(e, "chained comparison")
        # t.device.type == "mps"  -> device test on the ambient device parameter
        l = e.left
        if (
            isinstance(l, ast.Attribute)
            and l.attr == "type"
            and isinstance(l.value, ast.Attribute)
            and l.value.attr == "device"
            and isinstance(e.ops[0], ast.Eq)
            and isinstance(e.comparators[0], ast.Constant)
            and isinstance(e.comparators[0].value, str)
        ):
            base = self.expr(l.value.value, env)
            if base.ty != "tensor":
                U(e, "device of non-tensor")
            self.ctx.uses_dev = True
            return Expr(f'(String.eqb dev "{e.comparators[0].value}"%string)', "bool", base.pre)
        op = type(e.ops[0])
        r = e.comparators[0]
        if op in (ast.Is, ast.IsNot) and isinstance(r, ast.Constant) and r.value is None:
            a = self.expr(e.left, env)
            if a.ty not in ("optint", "optopt"):
                U(e, f"'is None' on {a.ty}")
            t = f"(match {a.coq} with None => true | Some _ => false end)"
            return Expr(t if op is ast.Is else f"(negb {t})", "bool", a.pre)
        if op in (ast.In, ast.NotIn) and isinstance(r, (ast.Tuple, ast.List)):
            a = self.expr(e.left, env)
            xs = [self.expr(x, env) for x in r.elts]
            if a.ty == "qtype" and all(x.ty == "qtype" for x in xs):
                t = "(existsb (qtype_eqb %s) [%s])" % (a.coq, "; ".join(x.coq for x in xs))
            elif a.ty in ("int", "optint") and all(x.ty in ("int", "none") and not x.pre for x in xs):
                fn = "oz_in" if a.ty == "optint" else "zmem"
                t = "(%s %s [%s])" % (fn, a.coq, "; ".join(x.coq for x in xs if x.ty == "int"))
                if any(x.ty == "none" for x in xs):
                    if a.ty != "optint":
                        U(e, "None in a membership test of an int")
                    t = f"((match {a.coq} with None => true | Some _ => false end) || {t})"
            else:
                U(e, "membership test form")
            return Expr(t if op is ast.In else f"(negb {t})", "bool", a.pre)
        a, b = self.expr(e.left, env), self.expr(e.comparators[0], env)
        if a.ty == "optint" and b.ty == "int" and op in (ast.Eq, ast.NotEq):
            t = f"(oz_eqb {a.coq} {b.coq})"
            return Expr(t if op is ast.Eq else f"(negb {t})", "bool", a.pre + b.pre)
        tc = self.ctx.vocab.get("tensor_compares", {})
        if (a.ty, b.ty, op.__name__) in tc:
            return Expr("(" + tc[(a.ty, b.ty, op.__name__)].format(a=a.coq, b=b.coq) + ")", "btensor", a.pre + b.pre)
        ct = self.ctx.vocab.get("compares", {})
        if (a.ty, b.ty, op.__name__) in ct:
            return Expr("(" + ct[(a.ty, b.ty, op.__name__)].format(a=a.coq, b=b.coq) + ")", "bool", a.pre + b.pre)
        if a.ty == "int" and b.ty == "int":
            if op in self.CMP:
                return Expr(f"({a.coq} {self.CMP[op]} {b.coq})", "bool", a.pre + b.pre)
            if op is ast.NotEq:
                return Expr(f"(negb ({a.coq} =? {b.coq}))", "bool", a.pre + b.pre)
        U(e, f"comparison on {a.ty},{b.ty}")

    def e_BoolOp(self, e, env):
        xs = [self.expr(v, env) for v in e.values]
        if any(x.ty != "bool" for x in xs):
            U(e, "boolop on non-bool")
        if any(x.pre for x in xs[1:]):
            # operands with effects (guards) are only evaluated when Python would evaluate them
            acc = xs[-1]
            text = self.emit_pre(acc.pre) + f"Ok {acc.coq}"
            for x in reversed(xs[1:-1]):
                inner = text
                if isinstance(e.op, ast.Or):
                    text = self.emit_pre(x.pre) + f"if {x.coq} then Ok true else (\n{ind(inner)})"
                else:
                    text = self.emit_pre(x.pre) + f"if {x.coq} then (\n{ind(inner)}) else Ok false"
            v = self.ctx.tmp("b")
            first = xs[0]
            if isinstance(e.op, ast.Or):
                coq = f"(if {first.coq} then Ok true else (\n{ind(text)}))"
            else:
                coq = f"(if {first.coq} then (\n{ind(text)}) else Ok false)"
            return Expr(v, "bool", first.pre + [("bind", v, coq)])
        op = "&&" if isinstance(e.op, ast.And) else "||"
        return Expr("(" + f" {op} ".join(x.coq for x in xs) + ")", "bool", xs[0].pre)

    def e_IfExp(self, e, env):
        c, a, b = self.expr(e.test, env), self.expr(e.body, env), self.expr(e.orelse, env)
        if c.ty != "bool" or a.ty != b.ty:
            U(e, "conditional expression types")
        if a.pre or b.pre:
            v = self.ctx.tmp("c")
            coq = f"(if {c.coq} then (\n{ind(self.emit_pre(a.pre) + 'Ok ' + a.coq)}) else (\n{ind(self.emit_pre(b.pre) + 'Ok ' + b.coq)}))"
            return Expr(v, a.ty, c.pre + [("bind", v, coq)])
        return Expr(f"(if {c.coq} then {a.coq} else {b.coq})", a.ty, c.pre)

    def e_Attribute(self, e, env):
        if isinstance(e.value, ast.Name) and e.value.id == "self":
            sa = self.ctx.vocab.get("self_attrs", {})
            if e.attr in sa:
                nm, ty = sa[e.attr]
                return Expr(nm, ty)
            U(e, f"self.{e.attr} not in whitelist")
        x = self.expr(e.value, env)
        at = self.ctx.vocab.get("attrs", {})
        if (x.ty, e.attr) in at:
            tmpl, rty = at[(x.ty, e.attr)]
            return Expr("(" + tmpl.format(a=x.coq) + ")", rty, x.pre)
        if x.ty == "tensor" and e.attr == "shape":
            return Expr(f"(shape {x.coq})", "shape", x.pre)
        U(e, f"attribute .{e.attr} on {x.ty}")

    def slice_part(self, s, env):
        if s is None:
            return "None", []
        x = self.expr(s, env)
        if x.ty != "int":
            U(s, "slice bound not int")
        return f"(Some {x.coq})", x.pre

    def e_Subscript(self, e, env):
        x = self.expr(e.value, env)
        s = e.slice
        if isinstance(s, ast.Slice):
            if s.step is not None:
                U(e, "slice step")
            lo, p1 = self.slice_part(s.lower, env)
            hi, p2 = self.slice_part(s.upper, env)
            if x.ty == "shape":
                return Expr(f"(py_slice {x.coq} {lo} {hi})", "shape", x.pre + p1 + p2)
            if x.ty == "tensor":
                return Expr(f"(t_slice0 {x.coq} {lo} {hi})", "tensor", x.pre + p1 + p2)
            U(e, f"slice of {x.ty}")
        i = self.expr(s, env)
        if x.ty == "shape" and i.ty == "optint":
            v = self.ctx.tmp("ix")
            return Expr(v, "int", x.pre + i.pre + [("bind", v, f"py_index_opt {x.coq} {i.coq}")])
        if x.ty == "shape" and i.ty == "int":
            v = self.ctx.tmp("ix")
            return Expr(v, "int", x.pre + i.pre + [("bind", v, f"py_index {x.coq} {i.coq}")])
        U(e, f"subscript of {x.ty}")

    def e_Call(self, e, env):
        f = e.func
        fname = ast.unparse(f)
        args = e.args
        kws = {k.arg: k.value for k in e.keywords}
        # python builtins
        if fname in ("min", "max") and len(args) == 2 and not kws:
            a, b = self.expr(args[0], env), self.expr(args[1], env)
            if a.ty == b.ty == "int":
                return Expr(f"(Z.{fname} {a.coq} {b.coq})", "int", a.pre + b.pre)
        if fname == "len" and len(args) == 1:
            a = self.expr(args[0], env)
            if a.ty in ("shape", "tlist"):
                return Expr(f"(zlen {a.coq})", "int", a.pre)
        # local (nested) functions
        if isinstance(f, ast.Name) and env.get(f.id) == "fun":
            xs = [self.expr(a, env) for a in args]
            sig = env["__sig_" + f.id]
            if [x.ty for x in xs] != sig[0]:
                U(e, "local function argument types")
            v = self.ctx.tmp("r")
            call = f"{cname(f.id)} " + " ".join(x.coq for x in xs)
            return Expr(v, sig[1], sum((x.pre for x in xs), []) + [("bind", v, call)])
        funcs = self.ctx.vocab.get("funcs", {})
        if fname in funcs:
            coqname, pnames, ptys, rty = funcs[fname]
            given = {}
            for i, a in enumerate(args):
                given[pnames[i]] = a
            for k_, v_ in kws.items():
                if k_ not in pnames or k_ in given:
                    U(e, f"keyword {k_} of {fname}")
                given[k_] = v_
            if set(given) != set(pnames):
                U(e, f"arguments of {fname}: {sorted(given)} vs {pnames}")
            xs = []
            for pn, pt in zip(pnames, ptys):
                x = self.expr(given[pn], env)
                coq = x.coq
                if x.ty != pt:
                    if pt == "optint" and x.ty == "int":
                        coq = f"(Some {x.coq})"
                    elif pt == "optint" and x.ty == "none":
                        coq = "None"
                    else:
                        U(e, f"argument {pn} of {fname}: {x.ty} where {pt} expected")
                xs.append(Expr(coq, pt, x.pre))
            v = self.ctx.tmp("r")
            return Expr(v, rty, sum((x.pre for x in xs), []) + [("bind", v, coqname + " " + " ".join(x.coq for x in xs))])
        # vocabulary calls
        calls = self.ctx.vocab.get("calls", {})
        if fname in calls:
            return calls[fname](self, e, env)
        # method calls x.m(...)
        if isinstance(f, ast.Attribute):
            meths = self.ctx.vocab.get("methods", {})
            if f.attr in meths:
                return meths[f.attr](self, e, env)
        U(e, f"call {fname} not in whitelist")

    # ---------------- statements ----------------
    def assigned(self, stmts):
        out = []
        for s in stmts:
            if isinstance(s, ast.Assign):
                for t in s.targets:
                    if isinstance(t, ast.Name) and t.id not in out:
                        out.append(t.id)
                    if isinstance(t, ast.Tuple):
                        for el in t.elts:
                            if isinstance(el, ast.Name) and el.id not in out:
                                out.append(el.id)
            elif isinstance(s, ast.AugAssign):
                t = s.target
                while isinstance(t, ast.Subscript):
                    t = t.value
                if isinstance(t, ast.Name) and t.id not in out:
                    out.append(t.id)
            elif isinstance(s, ast.Expr) and isinstance(s.value, ast.Call):
                f = s.value.func
                if isinstance(f, ast.Attribute) and f.attr in ("append", "remove") and isinstance(f.value, ast.Name):
                    if f.value.id not in out:
                        out.append(f.value.id)
            elif isinstance(s, (ast.If,)):
                for v in self.assigned(s.body) + self.assigned(s.orelse):
                    if v not in out:
                        out.append(v)
            elif isinstance(s, (ast.For, ast.While)):
                for v in self.assigned(s.body):
                    if v not in out:
                        out.append(v)
        return out

    def emit_pre(self, pre):
        out = ""
        for kind, var, coq in pre:
            if kind == "guard":
                out += f"_ <- {coq} ;;\n"
            elif kind == "bind":
                out += f"{var} <- {coq} ;;\n"
            else:
                raise AssertionError(kind)
        return out

    def always_returns(self, stmts):
        if not stmts:
            return False
        s = stmts[-1]
        if isinstance(s, (ast.Return, ast.Raise)):
            return True
        if isinstance(s, ast.If):
            return self.always_returns(s.body) and self.always_returns(s.orelse)
        return False

    def block(self, stmts, env, tail):
        """Translate stmts; `tail(env)` gives the coq text for what follows the block
        (used for joins); returns coq text of type res _."""
        if not stmts:
            return tail(env)
        s, rest = stmts[0], stmts[1:]
        env = dict(env)
        k = lambda env2: self.block(rest, env2, tail)
        if isinstance(s, ast.Expr) and isinstance(s.value, ast.Constant) and isinstance(s.value.value, str):
            return k(env)  # docstring
        if isinstance(s, ast.Pass):
            return k(env)
        if isinstance(s, ast.Return):
            if s.value is None:
                return "Ok tt"
            x = self.expr(s.value, env)
            self.ret_types.add(x.ty)
            return self.emit_pre(x.pre) + f"Ok {x.coq}"
        if isinstance(s, ast.Raise):
            exc = s.exc
            nm = None
            if isinstance(exc, ast.Call):
                nm = ast.unparse(exc.func)
            elif isinstance(exc, ast.Name):
                nm = exc.id
            if nm is None:
                U(s, "raise form")
            return f'Err "{nm}"%string'
        if isinstance(s, ast.Assert) and ".dtype" in ast.unparse(s.test) or isinstance(s, ast.Assert) and ".device" in ast.unparse(s.test):
            self.ctx.ignored.append(f"line {s.lineno}: assert {ast.unparse(s.test)} (dtype/device are not part of the model)")
            return k(env)
        if isinstance(s, ast.Assert):
            c = self.expr(s.test, env)
            if c.ty != "bool":
                U(s, "assert non-bool")
            return self.emit_pre(c.pre) + f'_ <- guard {c.coq} "AssertionError"%string ;;\n' + k(env)
        if isinstance(s, ast.FunctionDef):
            return self.local_fun(s, env, k)
        if isinstance(s, ast.Assign) and len(s.targets) == 1 and isinstance(s.targets[0], ast.Tuple):
            names = [t.id for t in s.targets[0].elts if isinstance(t, ast.Name)]
            x = self.expr(s.value, env)
            if len(names) != 2 or len(s.targets[0].elts) != 2 or x.ty != "ftpair":
                U(s, "tuple assignment form")
            env[names[0]] = env[names[1]] = "ftensor"
            return self.emit_pre(x.pre) + f"let '({cname(names[0])}, {cname(names[1])}) := {x.coq} in\n" + k(env)
        if isinstance(s, ast.Assign):
            if len(s.targets) != 1 or not isinstance(s.targets[0], ast.Name):
                U(s, "assignment target")
            x = self.expr(s.value, env)
            name = s.targets[0].id
            ty = x.ty
            if ty == "emptylist":
                ty = self.ctx.param_types.get(name)
                if ty is None:
                    U(s, f"type of empty list {name} unknown")
            coq = x.coq
            if name not in env and self.ctx.param_types.get(name) == "optint":
                env[name] = "optint"
            if env.get(name) == "optint" and ty == "int":
                ty, coq = "optint", f"(Some {x.coq})"
            if env.get(name) == "optint" and ty == "none":
                ty, coq = "optint", "None"
            env[name] = ty
            return self.emit_pre(x.pre) + f"let {cname(name)} : {COQ_TYPES[ty]} := {coq} in\n" + k(env)
        if isinstance(s, ast.AugAssign):
            return self.augassign(s, env, k)
        if isinstance(s, ast.Expr) and isinstance(s.value, ast.Call):
            f = s.value.func
            if isinstance(f, ast.Attribute) and f.attr == "append" and isinstance(f.value, ast.Name):
                lst = f.value.id
                if env.get(lst) != "tlist":
                    U(s, "append to non tensor list")
                x = self.expr(s.value.args[0], env)
                if x.ty != "tensor":
                    U(s, "append non-tensor")
                return self.emit_pre(x.pre) + f"let {cname(lst)} := ({cname(lst)} ++ [{x.coq}]) in\n" + k(env)
            sm = self.ctx.vocab.get("stmt_methods", {})
            if isinstance(f, ast.Attribute) and f.attr in sm and isinstance(f.value, ast.Name):
                return sm[f.attr](self, s, env, k)
            U(s, "expression statement")
        if isinstance(s, ast.If):
            return self.if_stmt(s, env, rest, tail)
        if isinstance(s, ast.For):
            return self.for_stmt(s, env, k)
        if isinstance(s, ast.While):
            return self.while_stmt(s, env, k)
        U(s, "statement kind not in whitelist")

    def local_fun(self, s, env, k):
        ptys, binders = [], []
        fenv = dict(env)
        for a in s.args.args:
            ty = annot_type(a.annotation)
            if ty is None:
                U(s, f"nested function parameter {a.arg} needs an annotation")
            ptys.append(ty)
            fenv[a.arg] = ty
            binders.append(f"({cname(a.arg)} : {COQ_TYPES[ty]})")
        saved = self.ret_types
        self.ret_types = set()
        body = self.block(s.body, fenv, lambda e: "Ok tt")
        if len(self.ret_types) != 1:
            U(s, "nested function return types")
        rty = self.ret_types.pop()
        self.ret_types = saved
        env[s.name] = "fun"
        env["__sig_" + s.name] = (ptys, rty)
        return f"let {cname(s.name)} := fun {' '.join(binders)} =>\n{ind(body)} in\n" + k(env)

    def pure_fun_body(self, stmts, env):
        """nested helper bodies:  [if c: return a]* return b  with effect-free expressions"""
        stmts = [s for s in stmts if not (isinstance(s, ast.Expr) and isinstance(s.value, ast.Constant))]
        if not stmts:
            raise Untranslatable("empty nested function")
        s = stmts[0]
        if isinstance(s, ast.Return) and len(stmts) == 1:
            x = self.expr(s.value, env)
            if x.pre:
                U(s, "nested function with effects")
            return x
        if isinstance(s, ast.If) and not s.orelse and len(s.body) == 1 and isinstance(s.body[0], ast.Return):
            c = self.expr(s.test, env)
            a = self.expr(s.body[0].value, env)
            b = self.pure_fun_body(stmts[1:], env)
            if c.pre or a.pre or a.ty != b.ty or c.ty != "bool":
                U(s, "nested function shape")
            return Expr(f"(if {c.coq} then {a.coq} else {b.coq})", a.ty)
        U(s, "nested function body not in whitelist")

    def augassign(self, s, env, k):
        t = s.target
        if isinstance(t, ast.Name):
            x = self.expr(ast.BinOp(left=ast.Name(id=t.id, ctx=ast.Load()), op=s.op, right=s.value), env)
            return self.emit_pre(x.pre) + f"let {cname(t.id)} : {COQ_TYPES[x.ty]} := {x.coq} in\n" + k(env)
        if (
            isinstance(t, ast.Subscript)
            and isinstance(t.value, ast.Name)
            and env.get(t.value.id) == "tensor"
            and isinstance(t.slice, ast.Slice)
            and t.slice.lower is None
            and t.slice.step is None
        ):
            table = self.ctx.vocab.get("slice_augassign", {})
            key = type(s.op).__name__
            if key not in table:
                U(s, "augmented slice assignment operator")
            hi, p1 = self.slice_part(t.slice.upper, env)
            x = self.expr(s.value, env)
            if x.ty != "tensor":
                U(s, "augmented slice assignment of non tensor")
            nm = cname(t.value.id)
            return self.emit_pre(p1 + x.pre) + f"{nm} <- {table[key]} {nm} {hi} {x.coq} ;;\n" + k(env)
        U(s, "augmented assignment target")

    def narrow(self, test, env):
        """(name, positive) when test is `name is not None` / `name is None` on an optint variable"""
        if (
            isinstance(test, ast.Compare)
            and len(test.ops) == 1
            and isinstance(test.ops[0], (ast.Is, ast.IsNot))
            and isinstance(test.left, ast.Name)
            and env.get(test.left.id) == "optint"
            and test.left.id in self.ctx.vocab.get("narrow", ())
            and isinstance(test.comparators[0], ast.Constant)
            and test.comparators[0].value is None
        ):
            return test.left.id, isinstance(test.ops[0], ast.IsNot)
        return None

    def if_stmt(self, s, env, rest, tail):
        nr = self.narrow(s.test, env)
        if nr is not None:
            name, positive = nr
            some_body, none_body = (s.body, s.orelse) if positive else (s.orelse, s.body)
            ab, ao = self.assigned(s.body), self.assigned(s.orelse)
            vs = [v for v in self.assigned(s.body + s.orelse) if (v in env or (v in ab and v in ao)) and v != name]
            if name in self.assigned(s.body + s.orelse):
                U(s, f"narrowed variable {name} is reassigned")
            if not (self.always_returns(s.body) or self.always_returns(s.orelse)) and not vs:
                U(s, "narrowing if without visible assignments")
            if self.always_returns(s.body) or self.always_returns(s.orelse):
                # branches that return: continue with the rest in the other branch
                senv = dict(env)
                senv[name] = "int"
                sb = self.block(some_body + ([] if self.always_returns(some_body) else rest), senv, tail)
                nb = self.block(none_body + ([] if self.always_returns(none_body) else rest), env, tail)
                return f"match {cname(name)} with\n| Some {cname(name)} => (\n{ind(sb)}\n)\n| None => (\n{ind(nb)}\n)\nend"
            tys = {}

            def branch(stmts, benv):
                def t(env2):
                    for v in vs:
                        tys.setdefault(v, env2[v])
                    return "Ok " + tup([cname(v) for v in vs])

                return self.block(stmts, benv, t)

            senv = dict(env)
            senv[name] = "int"
            sb, nb = branch(some_body, senv), branch(none_body, env)
            pat = tup([cname(v) for v in vs])
            bindpat = pat if len(vs) == 1 else "'" + pat
            env2 = dict(env)
            for v in vs:
                env2[v] = tys[v]
            return (
                f"{bindpat} <- (match {cname(name)} with\n| Some {cname(name)} => (\n{ind(sb)}\n)\n| None => (\n{ind(nb)}\n)\nend) ;;\n"
                + self.block(rest, env2, tail)
            )
        c = self.expr(s.test, env)
        if c.ty != "bool":
            U(s, "if on non-bool")
        pre = self.emit_pre(c.pre)
        # guard:  if c: raise E
        if len(s.body) == 1 and isinstance(s.body[0], ast.Raise) and not s.orelse:
            exc = s.body[0].exc
            nm = ast.unparse(exc.func) if isinstance(exc, ast.Call) else ast.unparse(exc)
            return pre + f'_ <- guard (negb {c.coq}) "{nm}"%string ;;\n' + self.block(rest, env, tail)
        # early exit:  if c: ...return ; rest
        if self.always_returns(s.body) and not s.orelse:
            a = self.block(s.body, env, tail)
            b = self.block(rest, env, tail)
            return pre + f"if {c.coq} then (\n{ind(a)}\n) else (\n{ind(b)}\n)"
        if self.always_returns(s.body) and self.always_returns(s.orelse):
            a = self.block(s.body, env, tail)
            b = self.block(s.orelse, env, tail)
            return pre + f"if {c.coq} then (\n{ind(a)}\n) else (\n{ind(b)}\n)"
        # join on the variables assigned in either branch
        ab, ao = self.assigned(s.body), self.assigned(s.orelse)
        vs = [v for v in self.assigned(s.body + s.orelse) if v in env or (v in ab and v in ao)]
        if not vs:
            U(s, "if without assignments (visible afterwards) or returns")
        tys = {}

        def branch(stmts):
            def t(env2):
                for v in vs:
                    if v not in env2:
                        raise Untranslatable(f"line {s.lineno}: {v} not assigned on every path")
                    tys.setdefault(v, env2[v])
                    if tys[v] != env2[v]:
                        raise Untranslatable(f"line {s.lineno}: {v} has two types")
                return "Ok " + tup([cname(v) for v in vs])

            return self.block(stmts, env, t)

        a, b = branch(s.body), branch(s.orelse)
        env = dict(env)
        for v in vs:
            env[v] = tys[v]
        pat = tup([cname(v) for v in vs])
        bindpat = pat if len(vs) == 1 else "'" + pat
        return pre + f"{bindpat} <- (if {c.coq} then (\n{ind(a)}\n) else (\n{ind(b)}\n)) ;;\n" + self.block(rest, env, tail)

    def while_stmt(self, s, env, k):
        """while c: body  ->  bounded iteration (fuel from the vocabulary; running out of fuel is an
        explicit error value that the theorems must exclude)"""
        if s.orelse:
            U(s, "while/else")
        fuel = self.ctx.vocab.get("while_fuel")
        if fuel is None:
            U(s, "while loop (no fuel configured)")
        vs = [v for v in self.assigned(s.body) if v in env]
        if not vs:
            U(s, "loop mutates nothing")
        pat = tup([cname(v) for v in vs])
        lam_pat = pat if len(vs) == 1 else "'" + pat
        accty = " * ".join(COQ_TYPES[env[v]] for v in vs)
        c = self.expr(s.test, env)
        if c.ty != "bool":
            U(s, "while condition")
        cond = self.emit_pre(c.pre) + f"Ok {c.coq}"

        def t(env2):
            for v in vs:
                if env2[v] != env[v]:
                    raise Untranslatable(f"line {s.lineno}: loop changes the type of {v}")
            return "Ok " + pat

        body = self.block(s.body, dict(env), t)
        bindpat = pat if len(vs) == 1 else "'" + pat
        return (
            f"{bindpat} <- mwhile {fuel}%nat\n"
            + ind(f"(fun (acc_ : {accty}) =>\n" + ind(f"let {lam_pat} := acc_ in\n" + cond) + ")\n")
            + "\n"
            + ind(f"(fun (acc_ : {accty}) =>\n" + ind(f"let {lam_pat} := acc_ in\n" + body) + ")\n")
            + f"\n  {pat} ;;\n"
            + k(env)
        )

    def for_stmt(self, s, env, k):
        if s.orelse or not isinstance(s.target, ast.Name):
            U(s, "for form")
        it = s.iter
        if not (isinstance(it, ast.Call) and ast.unparse(it.func) == "range" and len(it.args) == 1):
            U(s, "for iterable is not range(n)")
        n = self.expr(it.args[0], env)
        if n.ty != "int":
            U(s, "range bound")
        vs = [v for v in self.assigned(s.body) if v in env]
        if not vs:
            U(s, "loop mutates nothing")
        benv = dict(env)
        benv[s.target.id] = "int"
        pat = tup([cname(v) for v in vs])

        def t(env2):
            for v in vs:
                if env2[v] != env[v]:
                    raise Untranslatable(f"line {s.lineno}: loop changes the type of {v}")
            return "Ok " + pat

        body = self.block(s.body, benv, t)
        lam_pat = pat if len(vs) == 1 else "'" + pat
        accty = " * ".join(COQ_TYPES[env[v]] for v in vs)
        bindpat = pat if len(vs) == 1 else "'" + pat
        return (
            self.emit_pre(n.pre)
            + f"{bindpat} <- mfold (fun (acc_ : {accty}) ({cname(s.target.id)} : Z) =>\n"
            + ind(f"let {lam_pat} := acc_ in\n" + body)
            + f"\n) (zrange {n.coq}) {pat} ;;\n"
            + k(env)
        )

    # ---------------- function ----------------
    def function(self, fn, extra_env=None):
        env = dict(extra_env or {})
        binders = []
        for a in fn.args.args:
            if a.arg in ("self", "cls", "ctx"):
                continue
            ty = self.ctx.param_types.get(a.arg) or annot_type(a.annotation)
            if ty is None:
                raise Untranslatable(f"parameter {a.arg} of {fn.name} has no known type")
            env[a.arg] = ty
            binders.append(f"({cname(a.arg)} : {COQ_TYPES[ty]})")
        self.ret_types = set()
        body = self.block(fn.body, env, lambda e: "Ok tt")
        if len(self.ret_types) != 1:
            raise Untranslatable(f"{fn.name}: return types {self.ret_types}")
        rty = COQ_TYPES[self.ret_types.pop()]
        if self.ctx.uses_dev:
            binders.insert(0, "(dev : string)")
        binders = list(self.ctx.vocab.get("extra_binders", [])) + binders
        return f"Definition src_{self.ctx.name} {' '.join(binders)} : res ({rty}) :=\n{ind(body)}.\n"


def tup(vs):
    return vs[0] if len(vs) == 1 else "(" + ", ".join(vs) + ")"


def ind(s):
    return textwrap.indent(s, "  ")


def translate_function(path, qualname, outname, param_types=None, vocab=None, rewrite=None):
    """returns (coq_text, error_or_None); on error coq_text defines src_<outname> : unit.
    rewrite: optional function FunctionDef -> FunctionDef (extracts a snippet as a function)"""
    try:
        tree = ast.parse(open(path).read())
        fn = find_function(tree, qualname)
        if rewrite is not None:
            fn = rewrite(fn)
        ctx = Ctx(outname, param_types, vocab)
        return FunTranslator(ctx).function(fn), None
    except Untranslatable as ex:
        msg = str(ex).replace("*)", "* )")
        return f"(* UNTRANSLATABLE {qualname}: {msg} *)\nDefinition src_{outname} : unit := tt.\n", str(ex)
    except (OSError, SyntaxError) as ex:
        return f"(* UNREADABLE {path}: {ex} *)\nDefinition src_{outname} : unit := tt.\n", str(ex)
