"""Reads optimum/quanto/calibrate.py (Calibration hooks, context manager) and library/ops.py
(disable_extensions) as event lists: which hooks are registered / removed, in which order, which
momentum expression each _updated_scale call site passes, which attributes each hook assigns.
Fail closed: anything not matching the expected shapes yields an `unknown` marker that no Model term
contains, so the tie lemmas fail."""
import ast
import os
import sys

sys.path.insert(0, os.path.dirname(__file__))
from py2coq import find_function, Untranslatable  # noqa: E402

HEADER = """(* GENERATED on every run from /repo -- do not edit.  Sources:
     {cal} :: Calibration.__init__/__enter__/__exit__/calibrate_input/calibrate_output
     {ops} :: disable_extensions *)
From Coq Require Import String List ZArith Bool.
From QV Require Import Model.Calib.
Import ListNotations.
Open Scope string_scope.

"""


def coq_str(s):
    return '"' + s.replace('"', '""') + '"'


def action_of_stmt(s):
    """one statement of __enter__/__exit__ as an action name"""
    u = ast.unparse(s)
    table = {
        "super().__enter__()": "PushMode",
        "super().__exit__(exc_type, exc_val, exc_tb)": "PopMode",
        "self.pre_handle = register_module_forward_pre_hook(self.calibrate_input)": "RegisterPre",
        "self.post_handle = register_module_forward_hook(self.calibrate_output)": "RegisterPost",
        "self.pre_handle.remove()": "RemovePre",
        "self.post_handle.remove()": "RemovePost",
    }
    if u in table:
        return table[u]
    return "(UnknownAction " + coq_str(u[:80]) + ")"


def momentum_at(fn, target_attr):
    """the third argument of the `_updated_scale(module.<attr>, ..., X)` call assigned to module.<attr>"""
    found = []
    for node in ast.walk(fn):
        if isinstance(node, ast.Assign) and len(node.targets) == 1 and ast.unparse(node.targets[0]) == f"module.{target_attr}":
            v = node.value
            if isinstance(v, ast.Call) and ast.unparse(v.func) == "_updated_scale" and len(v.args) == 3 and ast.unparse(v.args[0]) == f"module.{target_attr}":
                found.append(ast.unparse(v.args[2]))
            elif isinstance(v, ast.Call) and ast.unparse(v.func) == "torch.max":
                continue
            else:
                found.append("?" + ast.unparse(v)[:60])
    if len(found) != 1:
        return "(MUnknown " + coq_str(";".join(found)) + ")"
    x = found[0]
    if x == "self.momentum":
        return "MConfigured"
    # a parameter of the hook with a constant default: the global hook is called without it
    for a, d in zip(reversed(fn.args.args), reversed(fn.args.defaults)):
        if a.arg == x and isinstance(d, ast.Constant) and isinstance(d.value, float):
            import math

            m, ex = math.frexp(d.value)
            return f"(MHookDefault ({int(m * (1 << 53))}) ({ex - 53}))"
    return "(MUnknown " + coq_str(x) + ")"


def attr_writes(fn):
    out = []
    for node in ast.walk(fn):
        tgts = []
        if isinstance(node, ast.Assign):
            tgts = node.targets
        elif isinstance(node, (ast.AugAssign, ast.AnnAssign)):
            tgts = [node.target]
        for t in tgts:
            if isinstance(t, ast.Attribute):
                out.append(ast.unparse(t))
    return sorted(set(out))


def side_effects(fn):
    """syntactic write-set of a function body: attribute / subscript stores, in-place tensor methods
    (trailing underscore), setattr/delattr, del, global/nonlocal"""
    out = []
    # containers created fresh inside the function (x = {} / [] / set() / comprehension): storing into them is local
    params = {a.arg for a in fn.args.args + fn.args.kwonlyargs} if hasattr(fn, "args") else set()
    fresh = set()
    for node in ast.walk(fn):
        if isinstance(node, ast.Assign) and len(node.targets) == 1 and isinstance(node.targets[0], ast.Name) and node.targets[0].id not in params:
            v = node.value
            if isinstance(v, (ast.Dict, ast.List, ast.Set, ast.ListComp, ast.DictComp, ast.SetComp)) or \
                    (isinstance(v, ast.Call) and isinstance(v.func, ast.Name) and v.func.id in ("dict", "list", "set") and not v.args):
                fresh.add(node.targets[0].id)
    for node in ast.walk(fn):
        tgts = []
        if isinstance(node, ast.Assign):
            tgts = node.targets
        elif isinstance(node, (ast.AugAssign, ast.AnnAssign)):
            tgts = [node.target]
        elif isinstance(node, ast.Delete):
            tgts = node.targets
        for t in tgts:
            for el in (t.elts if isinstance(t, ast.Tuple) else [t]):
                if isinstance(el, ast.Subscript) and isinstance(el.value, ast.Name) and el.value.id in fresh:
                    continue
                if isinstance(el, (ast.Attribute, ast.Subscript)):
                    out.append("store " + ast.unparse(el))
        if isinstance(node, ast.Call):
            f = node.func
            if isinstance(f, ast.Attribute) and f.attr.endswith("_") and not f.attr.startswith("__"):
                out.append("inplace ." + f.attr)
            if isinstance(f, ast.Name) and f.id in ("setattr", "delattr"):
                out.append("call " + f.id)
        if isinstance(node, (ast.Global, ast.Nonlocal)):
            out.append("global " + ",".join(node.names))
    return sorted(set(out))


PURE_FUNCS = [
    ("nn/qmodule.py", "QModuleMixin.forward", "qmodule_forward"),
    ("nn/qmodule.py", "QModuleMixin.qweight", "qmodule_qweight"),
    ("nn/qlinear.py", "QLinear.qforward", "qlinear_qforward"),
    ("nn/qconv2d.py", "QConv2d.qforward", "qconv2d_qforward"),
    ("nn/qlayernorm.py", "QLayerNorm.qforward", "qlayernorm_qforward"),
    ("tensor/qweight.py", "quantize_weight", "quantize_weight"),
    ("tensor/qactivation.py", "quantize_activation", "quantize_activation"),
    ("tensor/quantizers/symmetric.py", "SymmetricQuantizer.forward", "sym_forward"),
    ("tensor/quantizers/affine.py", "AffineQuantizer.forward", "affine_forward"),
    ("tensor/qbytes.py", "QBytesDequantizer.forward", "qbytes_dequantize"),
    ("tensor/qbits/qbits.py", "QBitsDequantizer.forward", "qbits_dequantize"),
    ("tensor/qbits/group.py", "group", "group"),
    ("tensor/qbits/group.py", "ungroup", "ungroup"),
    ("tensor/optimizers/absmax_optimizer.py", "AbsmaxOptimizer.optimize", "absmax_optimize"),
    ("tensor/optimizers/max_optimizer.py", "MaxOptimizer.optimize", "max_optimize"),
    ("tensor/optimizers/symmetric_optimizer.py", "SymmetricOptimizer.__call__", "sym_opt_call"),
    ("tensor/optimizers/affine_optimizer.py", "AffineOptimizer.__call__", "aff_opt_call"),
    ("calibrate.py", "absmax_scale", "absmax_scale"),
    ("nn/qmodule.py", "QModuleMixin.freeze", "freeze"),
    ("quantize.py", "quantize", "quantize"),
    ("quantize.py", "freeze", "freeze_model"),
]


def generate(repo, out_path):
    cal = os.path.join(repo, "optimum/quanto/calibrate.py")
    ops = os.path.join(repo, "optimum/quanto/library/ops.py")
    errors = []
    text = HEADER.format(cal=cal, ops=ops)
    try:
        tree = ast.parse(open(cal).read())
        enter = find_function(tree, "Calibration.__enter__")
        exit_ = find_function(tree, "Calibration.__exit__")
        ci = find_function(tree, "Calibration.calibrate_input")
        co = find_function(tree, "Calibration.calibrate_output")
        init = find_function(tree, "Calibration.__init__")
        text += "Definition src_enter : list action := [" + "; ".join(action_of_stmt(s) for s in enter.body) + "].\n"
        text += "Definition src_exit : list action := [" + "; ".join(action_of_stmt(s) for s in exit_.body) + "].\n"
        text += f"Definition src_input_momentum : momentum_source := {momentum_at(ci, 'input_scale')}.\n"
        text += f"Definition src_output_momentum : momentum_source := {momentum_at(co, 'output_scale')}.\n"
        stores = "self.momentum = momentum" in [ast.unparse(s) for s in init.body]
        text += f"Definition src_init_stores_momentum : bool := {'true' if stores else 'false'}.\n"
        text += "Definition src_input_hook_writes : list string := [" + "; ".join(coq_str(w) for w in attr_writes(ci)) + "].\n"
        text += "Definition src_output_hook_writes : list string := [" + "; ".join(coq_str(w) for w in attr_writes(co)) + "].\n"
        # does the output hook recompute the raw output and re-run forward?
        src_co = ast.unparse(co)
        text += "Definition src_output_hook_recomputes : bool := " + ("true" if "qoutput = module.qforward(input[0])" in src_co and "output = module.forward(input[0])" in src_co else "false") + ".\n"
    except (Untranslatable, OSError, SyntaxError) as ex:
        errors.append(f"calibrate.py: {ex}")
        text += "Definition src_enter : unit := tt.\nDefinition src_exit : unit := tt.\n"
    try:
        tree = ast.parse(open(ops).read())
        de = find_function(tree, "disable_extensions")
        # expected: try: global; _ext_enabled = False; yield  finally: _ext_enabled = True
        body = [s for s in de.body if not (isinstance(s, ast.Expr) and isinstance(s.value, ast.Constant))]
        ok = (
            len(body) == 1
            and isinstance(body[0], ast.Try)
            and [ast.unparse(s) for s in body[0].body] == ["global _ext_enabled", "_ext_enabled = False", "yield"]
            and [ast.unparse(s) for s in body[0].finalbody] == ["_ext_enabled = True"]
            and not body[0].handlers
        )
        text += f"Definition src_disable_extensions_restores : bool := {'true' if ok else 'false'}.\n"
    except (Untranslatable, OSError, SyntaxError) as ex:
        errors.append(f"ops.py: {ex}")
        text += "Definition src_disable_extensions_restores : unit := tt.\n"
    q = os.path.join(repo, "optimum/quanto")
    # aten ops with in-place semantics (trailing underscore) that have a quantized implementation registered
    try:
        import gen_ops

        tabs = gen_ops.read_tables(repo)
        inplace = sorted(o for key in ("qbytes", "qbits") for _, ops, _ in tabs[key] for o in ops if o.endswith("_"))
        text += "Definition src_inplace_ops : list string := [" + "; ".join(coq_str(o) for o in inplace) + "].\n"
    except Exception as ex:  # noqa: BLE001
        errors.append(f"op tables: {ex}")
        text += "Definition src_inplace_ops : unit := tt.\n"
    # in-place arithmetic (x *= y, x.mul_(y), out= arguments) anywhere in the op implementations and kernels: a result computed in place
    # may alias an operand (Tensor.to() returns self when nothing changes), i.e. a module's scale buffer
    try:
        aug = []
        for rel in ("tensor/qbytes_ops.py", "tensor/qbits/qbits_ops.py", "tensor/qtensor_func.py", "library/qbytes_mm.py", "library/ops.py", "tensor/qactivation.py", "tensor/qweight.py"):
            tr = ast.parse(open(os.path.join(q, rel)).read())
            for node in ast.walk(tr):
                if isinstance(node, ast.AugAssign):
                    aug.append(f"{rel}: {ast.unparse(node)}")
                elif isinstance(node, ast.Call) and isinstance(node.func, ast.Attribute) and node.func.attr.endswith("_") and not node.func.attr.startswith("_") and node.func.attr not in ("requires_grad_",):
                    aug.append(f"{rel}: .{node.func.attr}()")
                elif isinstance(node, ast.Call) and any(k.arg == "out" for k in node.keywords):
                    aug.append(f"{rel}: out= in {ast.unparse(node.func)}")
        text += "Definition src_op_inplace_arith : list string := [" + "; ".join(coq_str(e) for e in sorted(set(aug))) + "].\n"
    except Exception as ex:  # noqa: BLE001
        errors.append(f"in-place scan: {ex}")
        text += "Definition src_op_inplace_arith : unit := tt.\n"
    for rel, qual, name in PURE_FUNCS:
        try:
            tree = ast.parse(open(os.path.join(q, rel)).read())
            fn = find_function(tree, qual)
            eff = side_effects(fn)
            text += f"Definition src_effects_{name} : list string := [" + "; ".join(coq_str(e) for e in eff) + "].\n"
        except (Untranslatable, OSError, SyntaxError) as ex:
            errors.append(f"{rel}:{qual}: {ex}")
            text += f"Definition src_effects_{name} : unit := tt.\n"
    os.makedirs(os.path.dirname(out_path), exist_ok=True)
    with open(out_path, "w") as f:
        f.write(text)
    return errors


if __name__ == "__main__":
    for e in generate(sys.argv[1], sys.argv[2]):
        print("TRANSLATOR-ERROR", e)
