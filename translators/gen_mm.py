"""Reads the kernel-routing decisions of optimum/quanto/library/qbytes_mm.py (CPU / CUDA / MPS), the
integer-GEMM condition of qbytes_ops.mm and the class dispatch of QTensorLinear.forward as decision
functions over (dtypes, sizes, torch version), plus fingerprints of the numeric route bodies."""
import ast
import hashlib
import os
import sys

sys.path.insert(0, os.path.dirname(__file__))
from gen_ops import find, fingerprint  # noqa: E402


class Bad(Exception):
    pass


def cond(e):
    """boolean condition -> Coq bool expression over the route parameters"""
    if isinstance(e, ast.BoolOp):
        op = " && " if isinstance(e.op, ast.And) else " || "
        return "(" + op.join(cond(v) for v in e.values) + ")"
    u = ast.unparse(e)
    table = {
        "activations.dtype == torch.int8": "dt_eqb adt DInt8",
        "weights.dtype == torch.int8": "dt_eqb wdt DInt8",
        "activations.dtype == torch.bfloat16": "dt_eqb adt DBF16",
        "version.parse(torch.__version__).release >= version.parse('2.4.0').release": "ge24",
        "tokens > 16": "(tokens >? 16)",
        "tokens % 8 == 0": "(tokens mod 8 =? 0)",
        "in_features % 8 == 0": "(inf mod 8 =? 0)",
        "out_features % 8 == 0": "(outf mod 8 =? 0)",
        "in_features % 4 == 0": "(inf mod 4 =? 0)",
        "in_features % 32 == 0": "(inf mod 32 =? 0)",
        "out_features % 32 == 0": "(outf mod 32 =? 0)",
        "input.device.type == 'cuda'": "dev_cuda",
        "input.device.type == 'cpu'": "dev_cpu",
        "input.qtype == qint8": "a_qint8",
        "other.qtype == qint8": "w_qint8",
        "input.axis in (None, 0)": "a_outer_axis",
        "other.axis in (None, -1)": "w_outer_axis",
        "n > 16": "(tokens >? 16)",
        "n % 8 == 0": "(tokens mod 8 =? 0)",
        "m % 8 == 0": "(inf mod 8 =? 0)",
        "p % 8 == 0": "(outf mod 8 =? 0)",
    }
    if u in table:
        return table[u]
    raise Bad(f"condition not understood: {u}")


def route_of_return(r):
    u = ast.unparse(r.value)
    for name, k in (("qbytes_int_mm(", "RIntMM"), ("qbytes_int8pack_mm(", "RInt8Pack"), ("qbytes_mm(", "RFloat")):
        if u.startswith(name):
            return k
    raise Bad(f"return not understood: {u}")


def decision(fn):
    """if c: return R ... return R  (ignoring size bookkeeping assignments, asserts and the dequantize-if-subclass line)"""
    out = []
    for s in fn.body:
        if isinstance(s, ast.Expr) and isinstance(s.value, ast.Constant):
            continue
        if isinstance(s, (ast.Assign, ast.Assert)):
            continue
        if isinstance(s, ast.If):
            rets = [x for x in s.body if isinstance(x, ast.Return)]
            inner_ok = all(isinstance(x, ast.Return) or (isinstance(x, ast.If) and ast.unparse(x.test) == "type(activations) != torch.Tensor") for x in s.body)
            if len(rets) != 1 or s.orelse or not inner_ok:
                raise Bad("if-branch shape")
            out.append((cond(s.test), route_of_return(rets[0])))
            continue
        if isinstance(s, ast.Return):
            out.append((None, route_of_return(s)))
            break
        raise Bad("statement not understood: " + ast.unparse(s)[:60])
    if not out or out[-1][0] is not None:
        raise Bad("no final return")
    body = out[-1][1]
    for c, r in reversed(out[:-1]):
        body = f"if {c} then {r} else {body}"
    return body


PARAMS = "(ge24 : bool) (adt wdt : dtype) (tokens inf outf : Z)"


def generate(repo, out_path):
    q = os.path.join(repo, "optimum/quanto")
    errors = []
    text = "(* GENERATED on every run from /repo -- do not edit: kernel routing of quantized matmul. *)\n"
    text += "From Coq Require Import String List ZArith Bool.\nFrom QV Require Import Model.MM.\nImport ListNotations.\nOpen Scope Z_scope.\n\n"
    try:
        tree = ast.parse(open(os.path.join(q, "library/qbytes_mm.py")).read())
        for name, fn in (("cpu", "qbytes_mm_impl_cpu"), ("cuda", "qbytes_mm_impl_cuda"), ("mps", "qbytes_mm_impl_mps")):
            try:
                text += f"Definition src_route_{name} {PARAMS} : route :=\n  {decision(find(tree, fn))}.\n"
            except Bad as ex:
                errors.append(f"{fn}: {ex}")
                text += f"Definition src_route_{name} : unit := tt.\n"
        prints = [(n, fingerprint(find(tree, n))) for n in ("qbytes_mm", "qbytes_int_mm", "qbytes_int8pack_mm", "qbytes_mm_impl_default")]
        t2 = ast.parse(open(os.path.join(q, "tensor/qbytes_ops.py")).read())
        mm = find(t2, "mm")
        try:
            outer = [s for s in mm.body if isinstance(s, ast.If)][0]
            inner = [s for s in outer.body if isinstance(s, ast.If)][0]
            if ast.unparse(outer.test) != "isinstance(input, QBytesTensor) and isinstance(other, QBytesTensor)":
                raise Bad("outer test of mm")
            text += f"Definition src_mm_int_route (dev_cuda dev_cpu ge24 a_qint8 w_qint8 a_outer_axis w_outer_axis : bool) (tokens inf outf : Z) : bool :=\n  {cond(inner.test)}.\n"
        except (Bad, IndexError) as ex:
            errors.append(f"qbytes_ops.mm: {ex}")
            text += "Definition src_mm_int_route : unit := tt.\n"
        prints += [("aten.mm", fingerprint(mm)), ("aten.bmm", fingerprint(find(t2, "bmm")))]
        t3 = ast.parse(open(os.path.join(q, "tensor/qtensor_func.py")).read())
        prints += [("QTensorLinear.forward", fingerprint(find(t3, "QTensorLinear.forward"))), ("linear", fingerprint(find(t3, "linear")))]
        for rel, qual in (("nn/qlinear.py", "QLinear.qforward"), ("nn/qconv2d.py", "QConv2d.qforward")):
            prints.append((qual, fingerprint(find(ast.parse(open(os.path.join(q, rel)).read()), qual))))
        text += "Definition src_mm_prints : list (string * string) := [\n  " + ";\n  ".join(f'("{n}"%string, "{fp}"%string)' for n, fp in prints) + "].\n"
    except (OSError, SyntaxError) as ex:
        errors.append(f"mm sources: {ex}")
        text += "Definition src_route_cpu : unit := tt.\n"
    os.makedirs(os.path.dirname(out_path), exist_ok=True)
    with open(out_path, "w") as f:
        f.write(text)
    return errors


def tie_text():
    return (
        "(* Tie for C07: routing decisions read from the source are the modelled ones; numeric route bodies unchanged. *)\n"
        "From Coq Require Import String List ZArith Bool.\nFrom QV Require Import Model.MM.\nFrom QD Require Import GenMM.\n"
        "Lemma tie_route_cpu : src_route_cpu = route_cpu. Proof. reflexivity. Qed.\n"
        "Lemma tie_route_cuda : src_route_cuda = route_cuda. Proof. reflexivity. Qed.\n"
        "Lemma tie_route_mps : src_route_mps = route_mps. Proof. reflexivity. Qed.\n"
        "Lemma tie_mm_int_route : src_mm_int_route = mm_int_route. Proof. reflexivity. Qed.\n"
        "Lemma tie_mm_prints : src_mm_prints = mm_prints. Proof. reflexivity. Qed.\n"
    )


if __name__ == "__main__":
    for e in generate(sys.argv[1], sys.argv[2]):
        print("TRANSLATOR-ERROR", e)
    print(open(sys.argv[2]).read())
