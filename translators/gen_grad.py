"""Reads the autograd glue as facts: the three expressions of QTensorLinear.backward with their guards and
return order, the return tuples of the quantizer / dequantizer backwards (straight-through), and AST
fingerprints of the surrounding functions."""
import ast
import os
import sys

sys.path.insert(0, os.path.dirname(__file__))
from gen_ops import find, fingerprint  # noqa: E402


def cs(s):
    return '"' + s.replace('"', '""') + '"'


def lst(xs):
    return "[" + "; ".join(xs) + "]"


def generate(repo, out_path):
    q = os.path.join(repo, "optimum/quanto")
    errors = []
    text = "(* GENERATED on every run from /repo -- do not edit: autograd facts. *)\nFrom Coq Require Import String List.\nImport ListNotations.\nOpen Scope string_scope.\n\n"
    try:
        tree = ast.parse(open(os.path.join(q, "tensor/qtensor_func.py")).read())
        bw = find(tree, "QTensorLinear.backward")
        facts = []
        for s in bw.body:
            if isinstance(s, ast.If):
                for b in s.body:
                    if isinstance(b, ast.Assign):
                        facts.append(ast.unparse(s.test) + " -> " + ast.unparse(b))
            elif isinstance(s, ast.Return):
                facts.append("return " + ast.unparse(s.value))
            elif isinstance(s, ast.Assign):
                facts.append(ast.unparse(s))
        text += "Definition src_linear_backward : list string := " + lst(cs(x) for x in facts) + ".\n"
        ste = []
        for rel, qual in (("tensor/quantizers/symmetric.py", "SymmetricQuantizer.backward"), ("tensor/quantizers/affine.py", "AffineQuantizer.backward"),
                          ("tensor/qbytes.py", "QBytesDequantizer.backward"), ("tensor/qbits/qbits.py", "QBitsDequantizer.backward")):
            t = ast.parse(open(os.path.join(q, rel)).read())
            f = find(t, qual)
            stmts = [s for s in f.body if not (isinstance(s, ast.Expr) and isinstance(s.value, ast.Constant))]
            if len(stmts) == 1 and isinstance(stmts[0], ast.Return):
                v = stmts[0].value
                ste.append((qual, [ast.unparse(e) for e in v.elts] if isinstance(v, ast.Tuple) else [ast.unparse(v)]))
            else:
                ste.append((qual, ["<not a single return>"]))
        text += "Definition src_ste_backward : list (string * list string) := " + lst(f"({cs(a)}, {lst(cs(x) for x in b)})" for a, b in ste) + ".\n"
        prints = []
        for rel, quals in (("tensor/qtensor_func.py", ["QTensorLinear.forward", "QTensorLinear.backward", "linear"]),
                           ("tensor/quantizers/symmetric.py", ["SymmetricQuantizer.forward"]), ("tensor/quantizers/affine.py", ["AffineQuantizer.forward"]),
                           ("tensor/qbytes.py", ["QBytesDequantizer.forward"]), ("tensor/qbits/qbits.py", ["QBitsDequantizer.forward"]),
                           ("nn/qmodule.py", ["QModuleMixin.qweight", "QModuleMixin.forward", "QModuleMixin.freeze"]),
                           ("nn/qlinear.py", ["QLinear.qforward"]), ("nn/qconv2d.py", ["QConv2d.qforward"])):
            tr = ast.parse(open(os.path.join(q, rel)).read())
            for qual in quals:
                node = find(tr, qual)
                prints.append((qual, fingerprint(node) if node is not None else "MISSING"))
        text += "Definition src_grad_prints : list (string * string) := [\n  " + ";\n  ".join(f"({cs(a)}, {cs(b)})" for a, b in prints) + "].\n"
    except Exception as ex:  # noqa: BLE001
        errors.append(f"autograd facts: {type(ex).__name__}: {ex}")
        text += "Definition src_linear_backward : unit := tt.\n"
    os.makedirs(os.path.dirname(out_path), exist_ok=True)
    with open(out_path, "w") as f:
        f.write(text)
    return errors


if __name__ == "__main__":
    for e in generate(sys.argv[1], sys.argv[2]):
        print("TRANSLATOR-ERROR", e)
    print(open(sys.argv[2]).read())
