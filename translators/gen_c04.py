"""Regenerates GenC04.v from /repo's current pack/unpack sources."""
import os
import sys

sys.path.insert(0, os.path.dirname(__file__))
import cpp_unpack  # noqa: E402
from py2coq import translate_function  # noqa: E402
from vocab_pack import VOCAB  # noqa: E402

HEADER = """(* GENERATED on every run from /repo -- do not edit.  Sources:
{srcs}
   Ignored by the translator: docstrings, comments, type annotations, keyword `device=`. *)
From Coq Require Import String List ZArith Bool.
From QV Require Import Lib.Res Lib.Tensor.
Import ListNotations.
Open Scope Z_scope.

"""


def generate(repo, out_path):
    q = os.path.join(repo, "optimum/quanto")
    srcs = [
        (f"{q}/tensor/qbits/packed.py", "pack_weights", "pack_weights", {}),
        (f"{q}/library/python/unpack.py", "unpack", "unpack_py", {"unpacked": "tlist"}),
    ]
    errors = []
    text = HEADER.format(srcs="\n".join("     " + s[0] + " :: " + s[1] for s in srcs) + f"\n     {q}/library/ext/cpp/unpack.cpp")
    for path, qual, name, ptys in srcs:
        t, err = translate_function(path, qual, name, ptys, VOCAB)
        text += t + "\n"
        if err:
            errors.append(f"{qual}: {err}")
    # PackedTensor.unpack: self._data/_bits/shape become parameters, the quanto:: op a parameter
    def call_quanto_unpack(tr, e, env):
        from py2coq import Expr, U
        if len(e.args) != 2 or e.keywords:
            U(e, "quanto.unpack call form")
        a, b = tr.expr(e.args[0], env), tr.expr(e.args[1], env)
        if (a.ty, b.ty) != ("tensor", "int"):
            U(e, "quanto.unpack argument types")
        v = tr.ctx.tmp("u")
        return Expr(v, "tensor", a.pre + b.pre + [("bind", v, f"kernel {a.coq} {b.coq}")])

    v2 = dict(VOCAB)
    v2["calls"] = dict(VOCAB["calls"])
    v2["calls"]["torch.ops.quanto.unpack"] = call_quanto_unpack
    v2["self_attrs"] = {"_data": ("data_", "tensor"), "_bits": ("bits", "int"), "shape": ("size", "shape")}
    v2["extra_binders"] = [
        "(kernel : tensor Z -> Z -> res (tensor Z))",
        "(data_ : tensor Z)",
        "(bits : Z)",
        "(size : list Z)",
    ]
    t, err = translate_function(f"{q}/tensor/qbits/packed.py", "PackedTensor.unpack", "packed_unpack", {}, v2)
    text += t + "\n"
    if err:
        errors.append(f"PackedTensor.unpack: {err}")
    t, err = cpp_unpack.translate(f"{q}/library/ext/cpp/unpack.cpp")
    text += t
    if err:
        errors.append(f"unpack.cpp: {err}")
    # fingerprints of the parts of PackedTensor that are modelled by hand (dispatch, constructors, (de)serialisation)
    # and of the quanto:: op routing
    try:
        import ast

        from gen_ops import find, fingerprint

        tree = ast.parse(open(f"{q}/tensor/qbits/packed.py").read())
        items = [(n, fingerprint(find(tree, "PackedTensor." + n))) for n in ("__torch_dispatch__", "pack", "__new__", "__init__", "__tensor_flatten__", "__tensor_unflatten__", "load_from_state_dict")]
        t2 = ast.parse(open(f"{q}/library/ops.py").read())
        items += [("ops.define", fingerprint(find(t2, "define"))), ("ops.disable_extensions", fingerprint(find(t2, "disable_extensions")))]
        text += "\nDefinition src_packed_prints : list (string * string) := [\n  " + ";\n  ".join(f'("{n}"%string, "{fp}"%string)' for n, fp in items) + "].\n"
    except Exception as ex:  # noqa: BLE001
        errors.append(f"PackedTensor fingerprints: {ex}")
        text += "\nDefinition src_packed_prints : unit := tt.\n"
    os.makedirs(os.path.dirname(out_path), exist_ok=True)
    with open(out_path, "w") as f:
        f.write(text)
    return errors


if __name__ == "__main__":
    errs = generate(sys.argv[1], sys.argv[2])
    for e in errs:
        print("TRANSLATOR-ERROR", e)
