"""Fail-closed reader for optimum/quanto/library/ext/cpp/unpack.cpp.

Understands exactly:   static torch::Tensor NAME(torch::Tensor &t) { return torch::cat({ E, ... }, 0); }
with  E ::= (t & HEX) | (t & HEX).__rshift__(INT)
and   torch::Tensor unpack(torch::Tensor &t, int bits) { TORCH_CHECK(uint8...); switch(bits) { case N: return F(t); ... default: throw ...; } }
Everything else makes the generated definition ill-typed."""
import re


class CppUntranslatable(Exception):
    pass


def strip_comments(src):
    src = re.sub(r"//[^\n]*", "", src)
    src = re.sub(r"/\*.*?\*/", "", src, flags=re.S)
    return src


def parse_elem(s):
    s = s.strip()
    m = re.fullmatch(r"\(\s*t\s*&\s*(0[xX][0-9a-fA-F]+|\d+)\s*\)", s)
    if m:
        return f"(t_and t {int(m.group(1), 0)})"
    m = re.fullmatch(r"\(\s*t\s*&\s*(0[xX][0-9a-fA-F]+|\d+)\s*\)\s*\.\s*__rshift__\s*\(\s*(\d+)\s*\)", s)
    if m:
        return f"(t_shr (t_and t {int(m.group(1), 0)}) {int(m.group(2))})"
    raise CppUntranslatable(f"element not understood: {s!r}")


def split_top(s):
    out, depth, cur = [], 0, ""
    for ch in s:
        if ch == "(":
            depth += 1
        if ch == ")":
            depth -= 1
        if ch == "," and depth == 0:
            out.append(cur)
            cur = ""
        else:
            cur += ch
    if cur.strip():
        out.append(cur)
    return out


def translate(path):
    try:
        src = strip_comments(open(path).read())
        helpers = {}
        for m in re.finditer(
            r"static\s+torch::Tensor\s+(\w+)\s*\(\s*torch::Tensor\s*&\s*t\s*\)\s*\{\s*return\s+torch::cat\s*\(\s*\{(.*?)\}\s*,\s*0\s*\)\s*;\s*\}",
            src,
            flags=re.S,
        ):
            helpers[m.group(1)] = [parse_elem(x) for x in split_top(m.group(2))]
        m = re.search(
            r"torch::Tensor\s+unpack\s*\(\s*torch::Tensor\s*&\s*t\s*,\s*int\s+bits\s*\)\s*\{(.*)\}\s*$", src, flags=re.S
        )
        if not m:
            raise CppUntranslatable("unpack() not found")
        body = m.group(1)
        if not re.search(r"TORCH_CHECK\s*\(\s*t\.scalar_type\(\)\s*==\s*torch::kUInt8", body):
            raise CppUntranslatable("uint8 TORCH_CHECK missing")
        sw = re.search(r"switch\s*\(\s*bits\s*\)\s*\{(.*)\}", body, flags=re.S)
        if not sw:
            raise CppUntranslatable("switch(bits) missing")
        cases = re.findall(r"case\s+(\d+)\s*:\s*return\s+(\w+)\s*\(\s*t\s*\)\s*;", sw.group(1))
        rest = re.sub(r"case\s+(\d+)\s*:\s*return\s+(\w+)\s*\(\s*t\s*\)\s*;", "", sw.group(1)).strip()
        if not re.fullmatch(r"default\s*:\s*throw\s+std::invalid_argument\s*\(.*?\)\s*;", rest, flags=re.S):
            raise CppUntranslatable(f"switch has unexpected content: {rest[:80]!r}")
        if not cases:
            raise CppUntranslatable("no cases")
        out = ""
        used = []
        for name, elems in helpers.items():
            out += f"Definition src_cpp_{name} (t : tensor Z) : res (tensor Z) :=\n  t_cat0 [{'; '.join(elems)}].\n"
            used.append(name)
        body = 'Err "invalid_argument"%string'
        for n, fn in reversed(cases):
            if fn not in helpers:
                raise CppUntranslatable(f"case {n} calls unknown {fn}")
            body = f"if bits =? {n} then src_cpp_{fn} t else {body}"
        out += f"Definition src_unpack_cpp (t : tensor Z) (bits : Z) : res (tensor Z) :=\n  {body}.\n"
        return out, None
    except (CppUntranslatable, OSError) as ex:
        return f"(* UNTRANSLATABLE unpack.cpp: {ex} *)\nDefinition src_unpack_cpp : unit := tt.\n", str(ex)
