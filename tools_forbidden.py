"""Scan the Coq development for constructs the brief forbids (axiom declarations, admitted proofs, disabled checks).
String literals and (nested) comments are removed first, so a fact string such as "torch.nn.Parameter(...)" or a
comment mentioning an axiom does not count."""
import os
import re
import sys

FORBIDDEN = re.compile(r"\b(Admitted|admit|Axiom|Axioms|Parameter|Parameters|Conjecture|Conjectures|Hypothesis|Hypotheses|Variable|Variables|Admit\s+Obligations|Unset\s+Guard\s+Checking|"
                       r"Unset\s+Positivity\s+Checking|Unset\s+Universe\s+Checking|bypass_check|type-in-type|impredicative-set)\b")
SECTIONED = {"Hypothesis", "Hypotheses", "Variable", "Variables"}


def strip(src):
    out, i, depth, n = [], 0, 0, len(src)
    while i < n:
        if src.startswith("(*", i):
            depth += 1
            i += 2
        elif depth and src.startswith("*)", i):
            depth -= 1
            i += 2
        elif depth:
            if src[i] == "\n":
                out.append("\n")
            i += 1
        elif src[i] == '"':
            i += 1
            while i < n:
                if src[i] == '"':
                    if i + 1 < n and src[i + 1] == '"':
                        i += 2
                        continue
                    i += 1
                    break
                if src[i] == "\n":
                    out.append("\n")
                i += 1
            out.append('""')
        else:
            out.append(src[i])
            i += 1
    return "".join(out)


def main(root):
    bad = []
    for d, _, fs in os.walk(root):
        for f in fs:
            if not f.endswith(".v"):
                continue
            p = os.path.join(d, f)
            text = strip(open(p).read())
            depth = 0
            for ln, line in enumerate(text.splitlines(), 1):
                if re.match(r"\s*Section\b", line):
                    depth += 1
                m = FORBIDDEN.search(line)
                if m and not (m.group(1) in SECTIONED and depth > 0):
                    bad.append(f"{p}:{ln}: {line.strip()[:120]}")
                if re.match(r"\s*End\b", line) and depth > 0:
                    depth -= 1
    for b in bad:
        print(b)
    return 1 if bad else 0


if __name__ == "__main__":
    sys.exit(main(sys.argv[1] if len(sys.argv) > 1 else "coq"))
