"""Developer tool: snapshot of the generated op tables / fingerprints as coq/Model/QOpsTable.v."""
import re, sys
s = open(sys.argv[1]).read()
body = s[s.index("From Coq"):]
body = re.sub(r"\bsrc_", "", body)
open(sys.argv[2], "w").write("(* Dispatch tables and implementation fingerprints of the revision of /repo that Model/QOps.v models\n   (tools_snapshot_ops.py). TieOps proves the current source still yields exactly these. *)\n" + body)
