#!/venv/bin/python
"""Tie coverage: which functions of optimum/quanto are inside the model's tie?

For every function / method of the in-scope source files, a scratch copy of the repository gets that one
function perturbed by a semantically neutral edit (a `pass` statement, then a dead assignment, in front of its body), all generators
(translators/gen_*.py) are re-run on the scratch copy and their outputs are compared with the outputs on the
unperturbed tree.  A function whose perturbation changes no generated file (and raises no translation error)
is OUTSIDE the tie: a behavioural change there can only be caught by the correspondence / audit stages.

usage: tools_tie_coverage.py <scratch worktree of /repo>      (the worktree is restored afterwards)
writes tie_coverage.json and prints a summary.
"""
import ast
import hashlib
import json
import os
import subprocess
import sys
import tempfile

VERIF = os.path.dirname(os.path.abspath(__file__))
sys.path.insert(0, os.path.join(VERIF, "translators"))

import gen_awq  # noqa: E402
import gen_c04  # noqa: E402
import gen_calib  # noqa: E402
import gen_glue  # noqa: E402
import gen_grad  # noqa: E402
import gen_mm  # noqa: E402
import gen_mod  # noqa: E402
import gen_num  # noqa: E402
import gen_ops  # noqa: E402
import gen_ser  # noqa: E402

GENS = [("GenNum", gen_num), ("GenC04", gen_c04), ("GenOps", gen_ops), ("GenMM", gen_mm), ("GenMod", gen_mod),
        ("GenSer", gen_ser), ("GenGrad", gen_grad), ("GenCalib", gen_calib), ("GenAwq", gen_awq)]
USERS = {"GenNum": "C01 C02 C03 C12 C14 C16", "GenC04": "C04 C09", "GenOps": "C05 C06", "GenMM": "C07", "GenMod": "C08 C09 C11",
         "GenSer": "C10", "GenGrad": "C11", "GenCalib": "C12 C13", "GenAwq": "C15"}
SKIP_DIRS = ("/models/", "/cuda/", "/mps/", "/hip/", "/subpackage/")


def run_all(repo):
    out = {}
    # glue fingerprints, per property
    for pid in sorted(gen_glue.TARGETS):
        out["Glue:" + pid] = hashlib.sha256(repr(gen_glue.prints(repo, pid)).encode()).hexdigest()
    with tempfile.TemporaryDirectory() as d:
        for name, mod in GENS:
            path = os.path.join(d, name + ".v")
            try:
                errs = mod.generate(repo, path)
            except Exception as ex:  # a generator that crashes is fail-closed too
                errs = ["crash:" + repr(ex)[:80]]
            txt = open(path).read() if os.path.exists(path) else ""
            out[name] = hashlib.sha256((txt + "\n".join(map(str, errs))).encode()).hexdigest()
    return out


def functions(src):
    tree = ast.parse(src)
    res = []

    def walk(node, prefix):
        for ch in ast.iter_child_nodes(node):
            if isinstance(ch, (ast.FunctionDef, ast.AsyncFunctionDef)):
                res.append((prefix + ch.name, ch))
                walk(ch, prefix + ch.name + ".")
            elif isinstance(ch, ast.ClassDef):
                walk(ch, prefix + ch.name + ".")
            else:
                walk(ch, prefix)

    walk(tree, "")
    return res


def perturb(src, fn, stmt="pass"):
    """insert a neutral statement before the first statement of the body that is not the docstring"""
    body = fn.body
    first = body[0]
    if isinstance(first, ast.Expr) and isinstance(getattr(first, "value", None), ast.Constant) and isinstance(first.value.value, str) and len(body) > 1:
        first = body[1]
    lines = src.split("\n")
    ln = first.lineno - 1
    if first.lineno == fn.lineno:  # one-line def: skip
        return None
    # decorators of a nested def / class start earlier than lineno
    if getattr(first, "decorator_list", None):
        ln = min(d.lineno for d in first.decorator_list) - 1
    indent = lines[ln][: len(lines[ln]) - len(lines[ln].lstrip())]
    lines.insert(ln, indent + stmt)
    new = "\n".join(lines)
    try:
        ast.parse(new)
    except SyntaxError:
        return None
    return new


def main():
    repo = sys.argv[1]
    assert repo not in ("/repo", "/repo/"), "use a scratch worktree"
    subprocess.run(["git", "-C", repo, "checkout", "-q", "--", "."], check=True)
    base = run_all(repo)
    files = []
    for root, _, fs in os.walk(os.path.join(repo, "optimum", "quanto")):
        for f in fs:
            p = os.path.join(root, f)
            if f.endswith(".py") and not any(s in p + "/" for s in SKIP_DIRS):
                files.append(p)
    report = {}
    for p in sorted(files):
        src = open(p).read()
        rel = os.path.relpath(p, repo)
        for qual, fn in functions(src):
            new = perturb(src, fn)
            if new is None:
                report[f"{rel}::{qual}"] = {"covered_by": None, "note": "not perturbable (one-line body)"}
                continue
            hit = []
            names = [n for n, _ in GENS] + ["Glue:" + pid for pid in sorted(gen_glue.TARGETS)]
            # `pass` changes every AST fingerprint; translators skip it, so a dead assignment is tried as well
            for stmt in ("pass", "tie_probe_ = 0"):
                open(p, "w").write(perturb(src, fn, stmt))
                try:
                    now = run_all(repo)
                finally:
                    open(p, "w").write(src)
                hit += [n for n in names if now[n] != base[n] and n not in hit]
            report[f"{rel}::{qual}"] = {"covered_by": hit, "properties": sorted(set(" ".join(USERS.get(h, h[5:]) for h in hit).split()))}
    subprocess.run(["git", "-C", repo, "checkout", "-q", "--", "."], check=True)
    cov = [k for k, v in report.items() if v["covered_by"]]
    unc = [k for k, v in report.items() if v["covered_by"] == []]
    json.dump({"functions": len(report), "inside_tie": len(cov), "outside_tie": unc, "detail": report},
              open(os.path.join(VERIF, "tie_coverage.json"), "w"), indent=1)
    print(f"{len(report)} functions, {len(cov)} inside a tie, {len(unc)} outside:")
    for k in unc:
        print("  OUTSIDE", k)


if __name__ == "__main__":
    main()
