#!/bin/bash
# Offline build of the static part of the framework: Coq libraries, models and proofs (independent of
# /repo), a scan for forbidden constructs, and the hand build of quanto's C++ kernel (cached by source hash).
set -e
cd "$(dirname "$0")"
if ! python3 tools_forbidden.py coq; then
  echo "forbidden construct found in the Coq development" >&2; exit 1
fi
cd coq
coq_makefile -f _CoqProject -o Makefile > /dev/null
timeout 3000 make -j16 > ../build.log 2>&1 || { mkdir -p ../build; tail -50 ../build.log; exit 1; }
cd ..
mkdir -p build && mv build.log build/ 2>/dev/null || true
PYTHONPATH=/repo /venv/bin/python vlib/cppkernel.py > build/cpp.log 2>&1 || echo "note: C++ kernel not prebuilt (checks will try again)"
echo setup-ok
