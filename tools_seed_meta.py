#!/venv/bin/python
"""tools_seed_meta.py <seed dir> <property> <verdict text> [log files...] : writes meta.json for an archived seeded change
from its notes.txt and the evaluation logs written by tools_seed_eval.sh (sections '##### <seed name>')."""
import json
import os
import re
import sys

d, prop, verdict = sys.argv[1], sys.argv[2], sys.argv[3]
sid = os.path.basename(d.rstrip("/"))
det = []
for f in sys.argv[4:]:
    cur = None
    for line in open(f, errors="replace"):
        m = re.match(r"##### (\S+)", line)
        if m:
            cur = m.group(1)
            continue
        if cur == sid and (line.startswith("== ") or line.startswith("demo on") or "baseline stable_pass" in line or "MISSING" in line):
            det.append(f"[{os.path.basename(f)}] " + line.strip()[:500])
notes = open(os.path.join(d, "notes.txt")).read().strip() if os.path.exists(os.path.join(d, "notes.txt")) else ""
meta = {
    "property": prop,
    "origin": "written by an independent sub-agent given only the property text and a scratch worktree (round 4)",
    "what_it_needs_to_manifest": notes,
    "confirmed": "; ".join(x for x in det if "demo on" in x or "baseline" in x or "MISSING" in x)[:1200],
    "ran": f"./tools_seed_eval.sh seeded/{sid} {prop}  (git -C /repo apply patch.diff; demo; pinned suite; ./check {prop} quick; git -C /repo checkout -- .)",
    "detection": " | ".join(x for x in det if "== " in x)[:2000],
    "verdict": verdict,
}
json.dump(meta, open(os.path.join(d, "meta.json"), "w"), indent=1)
print("written", os.path.join(d, "meta.json"))
