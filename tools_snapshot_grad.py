"""Re-take the snapshot coq/Model/GradFacts.v (autograd facts) from /repo's current source."""
import os
import re
import sys

sys.path.insert(0, os.path.join(os.path.dirname(os.path.abspath(__file__)), "translators"))
import gen_grad  # noqa: E402

tmp = "/tmp/GenGrad_snapshot.v"
errs = gen_grad.generate(os.environ.get("VERIF_REPO", "/repo"), tmp)
assert not errs, errs
s = open(tmp).read()
body = re.sub(r"\bsrc_", "exp_", s[s.index("Definition src_linear_backward"):])
open(os.path.join(os.path.dirname(os.path.abspath(__file__)), "coq/Model/GradFacts.v"), "w").write(
    "(* Autograd facts at the revision of /repo that Model/Grad.v models: exp_linear_backward is what grad_input / grad_weight /\n   grad_bias transcribe (matmul(gO, other); matmul(gO.reshape(-1, M).t(), input.reshape(-1, K)); gO.sum over all dims but the last),\n   exp_ste_backward says every quantizer / dequantizer backward returns the incoming gradient for its tensor argument and None elsewhere. *)\nFrom Coq Require Import String List.\nImport ListNotations.\nOpen Scope string_scope.\n\n" + body)
os.remove(tmp)
