#!/bin/bash
# tools_seed_eval.sh <seed dir> <check ids...> : applies patch.diff to /repo, confirms demo fails with it and
# passes without, runs the given checks (quick), reverts. Prints a one-line verdict per check.
D="$1"; shift
cd /repo && git checkout -q -- .
if ! git apply --check "$D/patch.diff" 2>/dev/null; then echo "PATCH DOES NOT APPLY to current /repo HEAD"; exit 2; fi
PYTHONPATH=/repo /venv/bin/python "$D/demo.py" > /tmp/demo_clean.log 2>&1; echo "demo on clean tree: rc=$?"
git apply "$D/patch.diff"
PYTHONPATH=/repo /venv/bin/python "$D/demo.py" > /tmp/demo_patched.log 2>&1; echo "demo on patched tree: rc=$?"
[ -n "$SEED_EVAL_NO_BASELINE" ] || /verif/tools_baseline.sh 2>&1 | grep -v conda | tail -1
for c in "$@"; do
  out=$(cd /verif && ./check $c quick 2>&1); rc=$?
  echo "== $c rc=$rc: $(echo "$out" | grep -c '^VIOLATION') violation line(s); $(echo "$out" | grep -m2 'detail' | cut -c1-220 | tr '\n' '|')"
done
git checkout -q -- .; git status --short | head -3
# evidence / replay files written while the patch was applied describe the patched tree: restore the committed ones
git -C /verif checkout -q -- evidence 2>/dev/null || true
