"""Developer tool (not used by checks): writes coq/Model/<Name>.v as a copy of a generated file with
the src_ prefix removed.  The committed Model file is what the proofs are about; Tie*.v proves the
freshly generated definitions convertible with it on every run."""
import re
import sys

gen, out, title = sys.argv[1:4]
s = open(gen).read()
body = s[s.index("From Coq"):]
body = re.sub(r"\bsrc_", "", body)
open(out, "w").write(f"(* {title}\n   Snapshot of the translator output for the revision of /repo the proofs were written against\n   (tools_snapshot.py); Tie proves the current source still translates to a convertible term. *)\n" + body)
