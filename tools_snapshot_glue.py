"""Re-take the snapshot coq/Model/GlueFacts.v (glue fingerprints per property) from /repo's current source.
Run after a REVIEWED change of /repo (a fix: commit), never as part of a check."""
import os
import sys

HERE = os.path.dirname(os.path.abspath(__file__))
sys.path.insert(0, os.path.join(HERE, "translators"))
import gen_glue  # noqa: E402

repo = os.environ.get("VERIF_REPO", "/repo")
out = ("(* Glue fingerprints at the revision of /repo the hand-written models and audits were written against\n"
       "   (tools_snapshot_glue.py): per property, the functions and module skeletons that no translator or extractor\n"
       "   reads but the property depends on.  TieGlue (generated per run) proves the current source yields the same. *)\n"
       "From Coq Require Import String List.\nImport ListNotations.\nOpen Scope string_scope.\n\n")
for pid in sorted(gen_glue.TARGETS):
    entries = gen_glue.prints(repo, pid)
    assert all(v != "missing" for _, v in entries), [k for k, v in entries if v == "missing"]
    out += f"Definition glue_{pid} : list (string * string) := {gen_glue.coq_list(entries)}.\n\n"
open(os.path.join(HERE, "coq/Model/GlueFacts.v"), "w").write(out)
print("GlueFacts.v written:", sum(len(gen_glue.targets(repo, p)) for p in gen_glue.TARGETS), "entries")
