"""Implementation side of C08: quantize() on random module trees; structure before / after and, per replaced
leaf, the output against the float twin."""
import copy
import json
import sys
import warnings

warnings.filterwarnings("ignore")
import os  # noqa: E402

sys.path.insert(0, os.path.dirname(os.path.abspath(__file__)))
import torch  # noqa: E402
from modlib import DT, QMAX, QT, U, QBytesTensor, QModuleMixin, QTensor, base_kind, bits, build, deq, describe, grid_step, leaf_input, named_specs  # noqa: E402

import optimum.quanto as Q  # noqa: E402
from optimum.quanto import quantize, quantize_activation  # noqa: E402


def absmax_scale(t, qname):
    return (t.abs().max() / QMAX[qname]).to(t.dtype)


def twin_check(q, m0, spec, case, gen, variant):
    """q: quantized leaf; m0: the original float leaf (deep copy taken before quantize)"""
    dtype = DT[case["dtype"]]
    act = case["activations"]
    u = U[dtype]
    x = leaf_input(spec, dtype, gen, variant)
    r = {"variant": variant, "input_shape": list(x.shape)}
    kind = spec["t"]
    with torch.no_grad():
        # the twin: the original float module with the dequantized quantized weight
        twin = copy.deepcopy(m0)
        qw = q.qweight
        if qw is not None:
            r["qweight"] = {"cls": type(qw).__name__, "qtype": qw.qtype.name, "axis": qw.axis, "shape": list(qw.shape)}
            twin.weight.data = qw.dequantize().to(dtype)
        yfloat = m0(x)
        if act is not None:
            # realistic scales (as calibration would set them), perturbed
            f_in = [1.0, 0.7, 1.6][variant % 3]
            q.input_scale = (absmax_scale(x, act) * f_in).to(dtype)
            q.output_scale = (absmax_scale(yfloat, act) * [1.0, 1.3, 0.8][variant % 3]).to(dtype)
        x_given = x
        inmode = "float"
        if act is not None and variant % 4 == 1:
            # the input arrives already quantized with the module's activation qtype
            x_given = quantize_activation(x, QT[act], (absmax_scale(x, act) * 1.1).to(dtype))
            inmode = "quantized-same-qtype"
        elif act is not None and variant % 4 == 3:
            other = "qfloat8" if act == "qint8" else "qint8"
            x_given = quantize_activation(x, QT[other], absmax_scale(x, other).to(dtype))
            inmode = "quantized-other-qtype"
        r["input_mode"] = inmode
        # expected (de)quantized input
        xq = None
        if act is None:
            x_eff = x
        elif isinstance(x_given, QBytesTensor):
            if x_given.qtype == QT[act] and x_given.axis is None:
                xq = x_given
            else:
                xq = quantize_activation(x_given.dequantize(), QT[act], q.input_scale)
            x_eff = xq.dequantize()
        elif kind == "ln":
            x_eff = x
        else:
            xq = quantize_activation(x, QT[act], q.input_scale)
            x_eff = xq.dequantize()
        if xq is not None and qw is not None and kind == "linear":
            # the product of the two scales as quanto forms it (in the module dtype)
            r["scale_prod_min"] = float((xq._scale * qw._scale).abs().min())
            r["scale_prod_exact_min"] = float((xq._scale.double() * qw._scale.double()).abs().min())
        y = q(x_given)
        yref = twin(x_eff).double()
        if variant % 2 == 0 and not isinstance(x_given, QBytesTensor):
            # the same input OBJECT fed again after being overwritten in place (a reused staging buffer): the module must see
            # the new values, i.e. return what it returns for a fresh tensor holding them
            keep = x_given.clone()
            x_given.copy_(torch.flip(keep, dims=[-1]) * 0.5 + 0.25)
            y_again = q(x_given)
            y_fresh = q(x_given.clone())
            same = type(y_again) is type(y_fresh) and bool(torch.equal(deq(y_again).double(), deq(y_fresh).double()))
            r["reused_input_object_ok"] = same
            x_given.copy_(keep)
        # magnitude of the accumulated terms (for the rounding tolerance)
        if kind == "ln":
            absref = yref.abs() + (m0.bias.abs().double() if getattr(m0, "bias", None) is not None else 0) + 1.0
            K = 8
        else:
            tw2 = copy.deepcopy(twin)
            tw2.weight.data = twin.weight.data.abs()
            if tw2.bias is not None:
                tw2.bias.data = twin.bias.data.abs()
            absref = tw2.double()(x_eff.abs().double())
            K = twin.weight[0].numel()
        tol = ((K + 2) * max(u, 2.0 ** -24) + 5 * u) * absref + 1e-30
        r["out_cls"] = type(y).__name__
        if act is None and kind != "ln" and not isinstance(x_given, QBytesTensor):
            # the FROZEN module (weights-only inference), on the same input and on a large-magnitude one (un-normalised data): still the twin
            qf = copy.deepcopy(q)
            qf.freeze()
            for tag_, xx in (("frozen", x_given), ("frozen_big", x_given * 200)):
                yb = qf(xx)
                yb_ref = twin(xx).double()
                absb = tw2.double()(xx.abs().double())
                if bool(torch.isfinite(yb_ref).all()) and float(absb.max()) < 0.25 * float(torch.finfo(dtype).max):
                    tolb = ((K + 2) * max(u, 2.0 ** -24) + 5 * u) * absb + 1e-30
                    rat = (deq(yb).double() - yb_ref).abs() / tolb
                    r[tag_ + "_ratio"] = float(torch.nan_to_num(rat, nan=float("inf")).max())
        if act is None:
            if isinstance(y, QTensor):
                r["bad"] = "output is quantized although activations are not"
                return r
            err = (y.double() - yref).abs()
            r["ratio"] = float((err / tol).max())
            k = int((err / tol).argmax())
            r["worst"] = {"err": float(err.reshape(-1)[k]), "ref": float(yref.reshape(-1)[k]), "got": float(y.double().reshape(-1)[k]), "allowed": float(tol.reshape(-1)[k])}
            r["dtype_ok"] = y.dtype == dtype
        else:
            if not isinstance(y, QBytesTensor):
                r["bad"] = "output is not quantized although activations are"
                return r
            r["out_qtype"] = y.qtype.name
            r["out_axis"] = y.axis
            r["out_scale_is_output_scale"] = bool(torch.equal(y._scale.reshape(()), q.output_scale.reshape(())))
            s = float(q.output_scale)
            qmax = QMAX[act]
            yd = y.dequantize().double()
            ycl = yref.clamp((-128.0 if act == 'qint8' else -qmax) * s, qmax * s)
            err = (yd - ycl).abs()
            flat_ref = ycl.reshape(-1).tolist()
            step = torch.tensor([grid_step(v, act, s) for v in flat_ref], dtype=torch.float64).reshape(ycl.shape)
            allow = tol + 0.5 * step * (1 + 4 * u) + 2 * u * ycl.abs()
            r["ratio"] = float((err / allow).max())
            k = int((err / allow).argmax())
            r["worst"] = {"err": float(err.reshape(-1)[k]), "ref": float(yref.reshape(-1)[k]), "got": float(yd.reshape(-1)[k]), "allowed": float(allow.reshape(-1)[k]),
                          "tol": float(tol.reshape(-1)[k]), "grid_step": float(step.reshape(-1)[k]), "scale": s}
            r["dtype_ok"] = y.dtype == dtype
        r["float_rel"] = float((deq(y).double() - yfloat.double()).abs().max() / (yfloat.double().abs().max() + 1e-30))
    return r


def run_case(c):
    torch.manual_seed(c["seed"])
    gen = torch.Generator().manual_seed(c["seed"] + 1)
    dtype = DT[c["dtype"]]
    model = build(c["tree"]).to(dtype)
    if c.get("eval", True):
        model.eval()
    specs = dict(named_specs(c["tree"]))
    pre_named = list(model.named_modules(remove_duplicate=False))
    ident = {}
    for n, m in pre_named:
        ident.setdefault(id(m), len(ident))
    pre = [{"name": n, "id": ident[id(m)], **describe(m)} for n, m in pre_named]
    originals = {n: m for n, m in pre_named}
    m0 = copy.deepcopy(model)
    floats = dict(m0.named_modules(remove_duplicate=False))
    flt = None if c["filter"] is None else [originals[n] for n in c["filter"]]
    from modlib import make_optimizer
    kwargs = {"weights": QT[c["weights"]], "activations": QT[c["activations"]]}
    if c.get("optimizer"):
        kwargs["optimizer"] = make_optimizer(c["optimizer"], c["weights"])
    if c.get("explicit_none_filter"):
        kwargs["modules"] = None
    elif flt is not None:
        kwargs["modules"] = flt
    quantize(model, **kwargs)
    post_named = list(model.named_modules(remove_duplicate=False))
    post = []
    for n, m in post_named:
        d = {"name": n, "same_object": n in originals and originals[n] is m, **describe(m)}
        if isinstance(m, QModuleMixin):
            d["qname"] = getattr(m, "name", None)
            d["weight_qtype"] = None if m.weight_qtype is None else m.weight_qtype.name
            d["activation_qtype"] = None if m.activation_qtype is None else m.activation_qtype.name
            d["frozen"] = m.frozen
        post.append(d)
    # the whole model still runs when the tree is a runnable chain
    whole = None
    if c.get("chain_input"):
        try:
            x = torch.randn(*c["chain_input"], generator=gen).to(dtype)
            y = model(x)
            whole = {"ok": True, "finite": bool(torch.isfinite(deq(y)).all())}
        except Exception as ex:  # noqa: BLE001
            whole = {"ok": False, "exn": type(ex).__name__, "msg": str(ex)[:300]}
    twins = []
    for n, m in post_named:
        if isinstance(m, QModuleMixin) and n in specs and specs[n]["t"] in ("linear", "conv", "ln"):
            for variant in c.get("variants", [0]):
                try:
                    t = twin_check(m, floats[n], specs[n], c, gen, variant)
                except Exception as ex:  # noqa: BLE001
                    t = {"variant": variant, "exn": type(ex).__name__, "msg": str(ex)[:300]}
                t["name"] = n
                t["spec"] = specs[n]
                twins.append(t)
    return {"ok": True, "pre": pre, "post": post, "twins": twins, "whole": whole}


def main():
    payload = json.loads(sys.stdin.read())
    if payload.get("prelude", True):
        import os as _os
        sys.path.insert(0, _os.path.dirname(_os.path.abspath(__file__)))
        from prelude import run_prelude
        run_prelude()
    out = []
    for c in payload["cases"]:
        try:
            out.append(run_case(c))
        except Exception as ex:  # noqa: BLE001
            import traceback

            out.append({"ok": False, "exn": type(ex).__name__, "msg": str(ex)[:300], "tb": traceback.format_exc()[-600:]})
    print("RESULT " + json.dumps(out))


main()
