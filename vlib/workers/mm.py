"""Implementation side of C07: quantized linear / mm / bmm on every route, against the product of the
dequantized operands computed in float64.  Runs one batch of cases; the driver isolates crashes
(torch._weight_int8pack_mm is memory-unsafe for some sizes on this build) by bisection."""
import json
import sys
import warnings

warnings.filterwarnings("ignore")
import torch  # noqa: E402
import torch.nn.functional as Fn  # noqa: E402

import optimum.quanto as Q  # noqa: E402
from optimum.quanto import absmax_scale, quantize_activation, quantize_weight  # noqa: E402
from optimum.quanto.library import qbytes_mm as R  # noqa: E402
from optimum.quanto.tensor import QTensor  # noqa: E402

DT = {"float32": torch.float32, "float16": torch.float16, "bfloat16": torch.bfloat16}
QT = {"qint8": Q.qint8, "qfloat8_e4m3fn": Q.qfloat8_e4m3fn, "qfloat8_e5m2": Q.qfloat8_e5m2, "qint4": Q.qint4, "qint2": Q.qint2}


def stats(out, ref, absref):
    if list(out.shape) != list(ref.shape):
        return {"finite": bool(torch.isfinite(out.double()).all()), "shape": list(out.shape), "ref_shape": list(ref.shape), "dtype": str(out.dtype), "maxdiff": float("inf"), "at_diff": float("inf"),
                "at_absref": 0.0, "at_ref": 0.0, "refmax": float(ref.abs().max())}
    o = out.double()
    d = (o - ref).abs()
    fin = bool(torch.isfinite(o).all())
    d = torch.where(torch.isfinite(d), d, torch.full_like(d, float("inf")))
    # per-element excess over the allowed bound is computed by the driver from these maxima
    idx = int(torch.argmax(d / (absref + 1e-300)).item()) if d.numel() else 0
    return {"finite": fin, "shape": list(out.shape), "dtype": str(out.dtype), "maxdiff": float(d.max()) if d.numel() else 0.0,
            "at_diff": float(d.reshape(-1)[idx]), "at_absref": float(absref.reshape(-1)[idx]), "at_ref": float(ref.reshape(-1)[idx]), "refmax": float(ref.abs().max())}


def main():
    payload = json.loads(sys.stdin.read())
    if payload.get("prelude", True):
        import os as _os
        sys.path.insert(0, _os.path.dirname(_os.path.abspath(__file__)))
        from prelude import run_prelude
        run_prelude()
    out = []
    for c in payload["cases"]:
        r = {"id": c["id"]}
        try:
            gen = torch.Generator().manual_seed(c["seed"])
            dtype = DT[c["dtype"]]
            if c["op"] == "linear":
                lead, inf, outf = c["lead"], c["in"], c["out"]
                if c.get("exact"):
                    x = torch.randint(-3, 4, (*lead, inf), generator=gen).to(dtype)
                    w = torch.randint(-4, 5, (outf, inf), generator=gen).to(dtype)
                    b = torch.randint(-5, 6, (outf,), generator=gen).to(dtype) if c["bias"] else None
                else:
                    x = (torch.randn((*lead, inf), generator=gen) * c.get("xmag", 1.0)).to(dtype)
                    w = (torch.randn((outf, inf), generator=gen) * c.get("wmag", 0.1)).to(dtype)
                    b = torch.randn((outf,), generator=gen).to(dtype) if c["bias"] else None
                if c.get("ones"):
                    x = torch.ones((*lead, inf), dtype=dtype) * c["ones"]
                    w = torch.ones((outf, inf), dtype=dtype)
                qw = quantize_weight(w, QT[c["wq"]], 0, c.get("group_size"))
                if c.get("per_tensor_weight") and c["wq"] in ("qint8", "qfloat8_e4m3fn", "qfloat8_e5m2"):
                    # a weight quantized per-tensor (one scalar scale): what quantize_activation-style code and some checkpoints hold
                    from optimum.quanto.tensor.quantizers import SymmetricQuantizer
                    qw = SymmetricQuantizer.apply(w, QT[c["wq"]], None, absmax_scale(w, QT[c["wq"]]))
                if c.get("layout") == "transposed" and len(lead) >= 2:
                    # same logical shape, non-contiguous memory (a transposed activation, as after attention head reshuffling)
                    x = x.reshape(lead[1], lead[0], *lead[2:], inf).transpose(0, 1)
                if c["act"] == "float":
                    qx = x
                else:
                    aq = QT[c["act"]]
                    s = absmax_scale(x, aq)
                    if c.get("exact"):
                        s = torch.tensor(1.0, dtype=dtype)
                    qx = quantize_activation(x, aq, s)
                if c.get("layout") == "expanded" and len(lead) >= 1:
                    # a broadcast activation: the first row repeated through expand() (stride 0 along the token dimension)
                    qx = qx[..., :1, :].expand(*lead, inf) if len(lead) >= 1 else qx
                xd = qx.dequantize().double() if isinstance(qx, QTensor) else qx.double()
                wd = qw.dequantize().double()
                ref = xd @ wd.t() + (b.double() if b is not None else 0)
                absref = xd.abs() @ wd.abs().t() + (b.double().abs() if b is not None else 0)
                r["route_expected"] = c.get("route")
                sa = float(qx._scale.double().abs().max()) if isinstance(qx, QTensor) else 1.0
                sw = qw._scale.double().abs()
                r["scale_prod_min"] = sa * float(sw[sw > 0].min()) if bool((sw > 0).any()) else 0.0
                r["act_quantized"] = isinstance(qx, QTensor)
                with torch.no_grad():
                    y = Fn.linear(qx, qw, b)
                r["cls"] = type(y).__name__
                # a result must not be overwritten by a later call with operands of the same shapes
                snap = y.clone()
                with torch.no_grad():
                    if isinstance(qx, QTensor):
                        qx2 = quantize_activation(-x * 0.5, qx.qtype, qx._scale)
                    else:
                        qx2 = -x * 0.5
                    y2 = Fn.linear(qx2, qw, b)
                # bitwise (NaN-safe): the values held by y must be the ones it held when it was returned
                r["result_stable"] = bool(torch.equal(y.contiguous().view(torch.uint8), snap.contiguous().view(torch.uint8)))
                del y2
                # the same float activation OBJECT fed again after an in-place update (a reused buffer) must give what a fresh
                # tensor holding the same values gives
                if not isinstance(qx, QTensor) and qx.is_contiguous():
                    with torch.no_grad():
                        xb = qx.clone()
                        Fn.linear(xb, qw, b)
                        xb.mul_(0.5).add_(0.125)
                        y_again = Fn.linear(xb, qw, b)
                        y_fresh = Fn.linear(xb.clone(), qw, b)
                    r["reused_input_ok"] = bool(torch.equal(y_again.contiguous().view(torch.uint8), y_fresh.contiguous().view(torch.uint8)))
                # the same weight OBJECT after its codes and scales were overwritten in place (QBytesTensor.copy_): the next product
                # must use the current codes
                if type(qw).__name__ == "QBytesTensor" and not isinstance(qx, QTensor):
                    with torch.no_grad():
                        w2 = quantize_weight((w * 0.5 + 0.01).flip(0), QT[c["wq"]], 0, c.get("group_size")) if not c.get("per_tensor_weight") else None
                        if w2 is not None:
                            qw_work = qw.clone()
                            Fn.linear(qx, qw_work, b)
                            qw_work.copy_(w2)
                            y_a = Fn.linear(qx, qw_work, b)
                            y_f = Fn.linear(qx, w2.clone(), b)
                            r["reused_weight_ok"] = bool(torch.equal(y_a.contiguous().view(torch.uint8), y_f.contiguous().view(torch.uint8)))
                r.update(stats(y, ref, absref))
                r["K"] = inf
                # all internal routes on the same 8-bit operands must agree with the reference as well
                if c["wq"] in ("qint8", "qfloat8_e4m3fn", "qfloat8_e5m2"):
                    routes = {}
                    a_data = qx._data if isinstance(qx, QTensor) else qx
                    scales = (qx._scale * qw._scale) if isinstance(qx, QTensor) else qw._scale
                    with torch.no_grad():
                        routes["qbytes_mm"] = R.qbytes_mm(a_data, qw._data, scales)
                        if a_data.dtype == torch.int8 and qw._data.dtype == torch.int8:
                            routes["qbytes_int_mm"] = R.qbytes_int_mm(a_data, qw._data, scales)
                        if a_data.dtype == torch.bfloat16 and qw._data.dtype == torch.int8 and inf % 16 == 0:
                            routes["qbytes_int8pack_mm"] = R.qbytes_int8pack_mm(a_data, qw._data, scales)
                    r["routes"] = {}
                    for k, v in routes.items():
                        vv = v + b if b is not None else v
                        st = stats(vv, ref, absref)
                        st["bit_equal_to_linear"] = bool(torch.equal(vv, y))
                        r["routes"][k] = st
            elif c["op"] in ("mm", "bmm"):
                n, m, p = c["n"], c["m"], c["p"]
                sh_a = (n, m) if c["op"] == "mm" else (c["batch"], n, m)
                sh_b = (m, p) if c["op"] == "mm" else (c["batch"], m, p)
                a = (torch.randn(sh_a, generator=gen) * c.get("mag", 1.0)).to(dtype)
                bb = (torch.randn(sh_b, generator=gen) * c.get("mag", 1.0)).to(dtype)
                aq = QT[c["aq"]]
                qa = quantize_activation(a, aq, absmax_scale(a, aq)) if c["a_q"] else a
                qb = quantize_activation(bb, aq, absmax_scale(bb, aq)) if c["b_q"] else bb
                # operands quantized per-axis (along their first or last dimension), rows / columns of very different magnitude
                if c.get("a_axis") is not None and c["a_q"] and c["op"] == "mm":
                    a = a * torch.logspace(-2, 1, sh_a[0 if c["a_axis"] == 0 else 1]).reshape((-1, 1) if c["a_axis"] == 0 else (1, -1)).to(dtype)
                    qa = quantize_weight(a, aq, c["a_axis"])
                if c.get("b_axis") is not None and c["b_q"] and c["op"] == "mm":
                    bb = bb * torch.logspace(-2, 1, sh_b[0 if c["b_axis"] == 0 else 1]).reshape((-1, 1) if c["b_axis"] == 0 else (1, -1)).to(dtype)
                    qb = quantize_weight(bb, aq, c["b_axis"])
                if c.get("layout") == "expanded":
                    qa = qa[..., :1, :].expand(*sh_a)  # broadcast rows (stride 0)
                ad = qa.dequantize().double() if isinstance(qa, QTensor) else qa.double()
                bd = qb.dequantize().double() if isinstance(qb, QTensor) else qb.double()
                ref = ad @ bd
                absref = ad.abs() @ bd.abs()
                with torch.no_grad():
                    y = torch.mm(qa, qb) if c["op"] == "mm" else torch.bmm(qa, qb)
                if isinstance(y, QTensor):
                    y = y.dequantize()
                r["cls"] = type(y).__name__
                r.update(stats(y, ref, absref))
                r["K"] = m
                if isinstance(qa, QTensor) and isinstance(qb, QTensor):
                    # the product of the two scales as formed in the tensor dtype
                    r["scale_prod_min"] = float(qa._scale.double().abs().min() * qb._scale.double().abs().min())
                    r["act_quantized"] = True
            r["ok"] = True
        except Exception as ex:  # noqa: BLE001
            import traceback

            r.update(ok=False, exn=type(ex).__name__, msg=str(ex)[:200], tb=traceback.format_exc()[-400:])
        out.append(r)
        print("DONE " + str(c["id"]), flush=True)
    print("RESULT " + json.dumps(out))


main()
