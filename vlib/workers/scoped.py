"""Implementation side of C13: runs programs of nested Calibration contexts / forwards / exceptions and
snapshots torch's global hook registries, the function-mode stack, the extension switch, and digests
of every parameter / buffer / float input."""
import copy
import hashlib
import json
import sys
import warnings

warnings.filterwarnings("ignore")
import torch  # noqa: E402
from torch.nn.modules import module as tmod  # noqa: E402
from torch.overrides import _get_current_function_mode_stack  # noqa: E402

import optimum.quanto as Q  # noqa: E402
import optimum.quanto.library.ops as qops  # noqa: E402
from optimum.quanto import Calibration, freeze, quantize, quantize_activation, quantize_weight  # noqa: E402
from optimum.quanto.library.ops import disable_extensions  # noqa: E402


class Boom(Exception):
    pass


class AttnBlock(torch.nn.Module):
    """single-head attention scores: two quantized projections multiplied by bmm, no clone in between"""

    def __init__(self):
        super().__init__()
        self.q_proj = torch.nn.Linear(16, 16)
        self.k_proj = torch.nn.Linear(16, 16)

    def forward(self, x):
        q = self.q_proj(x)
        k = self.k_proj(x)
        s = torch.bmm(q, k.transpose(1, 2))
        return s.dequantize() if isinstance(s, Q.QTensor) else s


class InplaceBlock(torch.nn.Module):
    """a block that post-processes quantized module outputs with in-place scalar arithmetic"""

    def __init__(self):
        super().__init__()
        self.q_proj = torch.nn.Linear(16, 16)
        self.k_proj = torch.nn.Linear(16, 16)
        self.out = torch.nn.Linear(16, 4)

    def forward(self, x):
        q = self.q_proj(x)
        q /= 4.0
        k = self.k_proj(x)
        k *= 0.5
        k.neg_() if not isinstance(k, Q.QTensor) else None
        return self.out(q + k)


def digest(t):
    if isinstance(t, Q.QTensor):
        parts = []
        inner, meta = t.__tensor_flatten__()
        for n in inner:
            parts.append(digest(getattr(t, n)))
        return "Q(" + ",".join(parts) + "|" + json.dumps(meta, sort_keys=True) + ")"
    if hasattr(t, "_data") and hasattr(t, "_bits"):
        return "P(" + digest(t._data) + ")"
    t = t.detach().cpu().contiguous()
    raw = t.reshape(-1).view(torch.uint8).numpy().tobytes() if t.numel() else b""
    return hashlib.sha1(raw).hexdigest()[:16] + str(tuple(t.shape)) + str(t.dtype)


def snap_globals():
    return {"pre": len(tmod._global_forward_pre_hooks), "post": len(tmod._global_forward_hooks), "modes": len(_get_current_function_mode_stack()), "ext": qops._ext_enabled,
            "pre_ids": sorted(tmod._global_forward_pre_hooks.keys()), "post_ids": sorted(tmod._global_forward_hooks.keys())}


def snap_model(model):
    return {k: digest(v) for k, v in model.state_dict().items() if isinstance(v, torch.Tensor)} | {
        "qtypes:" + n: (str(m.weight_qtype), str(m.activation_qtype)) for n, m in model.named_modules() if hasattr(m, "weight_qtype")}


def run_prog(p, model, ctxs, x, trace):
    """p: nested list program; returns nothing, raises Boom"""
    kind = p[0]
    if kind == "seq":
        for q in p[1:]:
            run_prog(q, model, ctxs, x, trace)
    elif kind == "with":
        c = ctxs[p[1]]
        at_entry = snap_globals()
        try:
            with c:
                trace.append(("inside", snap_globals()))
                run_prog(p[2], model, ctxs, x, trace)
        finally:
            # leaving a context (normally or through an exception) restores what the registries held when it was entered
            trace.append(("left", {"restored": at_entry == snap_globals(), "pre": len(tmod._global_forward_pre_hooks) - at_entry["pre"], "post": len(tmod._global_forward_hooks) - at_entry["post"]}))
    elif kind == "forward":
        model(x)
    elif kind == "raise":
        at = getattr(model, "_raise_at", None)
        if at is None:
            raise Boom()
        # the exception is raised INSIDE a forward pass, when module [at] is about to run (its own pre-hook raises:
        # torch has already run the global pre-hooks of that module and will skip its post-hooks)
        def boom(mod, args):
            raise Boom()

        h = model[at].register_forward_pre_hook(boom)
        try:
            model(x)
        finally:
            h.remove()


def main():
    payload = json.loads(sys.stdin.read())
    if payload.get("prelude", True):
        import os as _os
        sys.path.insert(0, _os.path.dirname(_os.path.abspath(__file__)))
        from prelude import run_prelude
        run_prelude()
    out = []
    for case in payload["cases"]:
        try:
            torch.manual_seed(case["seed"])
            r = {"ok": True}
            if case["kind"] == "program":
                model = torch.nn.Sequential(torch.nn.Linear(8, 8), torch.nn.ReLU(), torch.nn.Linear(8, 4))
                quantize(model, weights=Q.qint8, activations=Q.qint8)
                x = torch.randn(2, 8)
                model._raise_at = case.get("raise_at")
                ctxs = [Calibration(momentum=0.9, streamline=False) for _ in range(case["nctx"])]
                before = snap_globals()
                trace = []
                raised = False
                try:
                    with torch.no_grad():
                        run_prog(case["prog"], model, ctxs, x, trace)
                except Boom:
                    raised = True
                after = snap_globals()
                r.update(before=before, after=after, raised=raised, max_inside=max([t[1]["pre"] - before["pre"] for t in trace if t[0] == "inside"] + [0]),
                         left=[t[1] for t in trace if t[0] == "left"])
                # modules run afterwards are unaffected: outside every context the model behaves as its state_dict says - a control
                # model of the same architecture, freshly quantized and loaded with the state_dict, gives the same outputs
                try:
                    with torch.no_grad():
                        y_after = model(x)
                    control = torch.nn.Sequential(torch.nn.Linear(8, 8), torch.nn.ReLU(), torch.nn.Linear(8, 4))
                    quantize(control, weights=Q.qint8, activations=Q.qint8)
                    control.load_state_dict(model.state_dict())
                    with torch.no_grad():
                        y_control = control(x)
                    r["after_cls"] = [type(y_after).__name__, type(y_control).__name__]
                    r["after_matches_control"] = type(y_after) is type(y_control) and digest(y_after) == digest(y_control)
                except Exception as ex:  # noqa: BLE001
                    r["after_cls"] = ["raised " + type(ex).__name__ + ": " + str(ex)[:80]]
                    r["after_matches_control"] = False
                # modules created / run afterwards are unaffected: a fresh float model must not be touched by leftover hooks
                fresh = torch.nn.Sequential(torch.nn.Linear(8, 4))
                quantize(fresh, weights=Q.qint8, activations=Q.qint8)
                s0 = snap_model(fresh)
                with torch.no_grad():
                    fresh(x)
                r["fresh_unchanged"] = s0 == snap_model(fresh)
            elif case["kind"] == "purity":
                wq = {"qint8": Q.qint8, "qint4": Q.qint4, "qint2": Q.qint2, "qfloat8": Q.qfloat8}[case["weights"]]
                aq = {None: None, "qint8": Q.qint8, "qfloat8": Q.qfloat8}[case["activations"]]
                model = AttnBlock() if case.get("attn") else InplaceBlock() if case.get("inplace") else torch.nn.Sequential(torch.nn.Linear(16, 16), torch.nn.LayerNorm(16), torch.nn.Linear(16, 4))
                x = torch.randn(2, 5, 16) if case.get("attn") else torch.randn(3, 16)
                float_before = {k: digest(v) for k, v in model.state_dict().items()}
                float_params = {k: v.detach().clone() for k, v in model.state_dict().items()}
                # the caller's own references to the float Parameter objects (an optimizer, a teacher model, a tied embedding outside
                # the quantized sub-tree hold such references): quantize() reads them, it must not modify them
                held = [(k, p_, digest(p_)) for k, p_ in model.named_parameters()]
                quantize(model, weights=wq, activations=aq)
                r["held_params_changed"] = [k for k, p_, d in held if digest(p_) != d]
                # quantize() keeps the float parameters bit-identical
                r["quantize_keeps_params"] = all(digest(model.state_dict()[k]) == float_before[k] for k in float_before if k in model.state_dict())
                if aq is not None:
                    with torch.no_grad(), Calibration(streamline=not (case.get("inplace") or case.get("attn"))):
                        model(x)
                if case.get("frozen"):
                    freeze(model)
                s0 = snap_model(model)
                xd = digest(x)
                with torch.no_grad():
                    y1 = model(x)
                    y2 = model(x)
                r["forward_changes_state"] = s0 != snap_model(model)
                r["input_changed"] = xd != digest(x)
                r["repeat_identical"] = digest(y1) == digest(y2)
                # library entry points do not modify the tensors they read
                w = torch.randn(8, 32)
                wd = digest(w)
                quantize_weight(w, wq, 0, 16 if wq in (Q.qint2, Q.qint4) else None)
                s = torch.tensor(0.05)
                a = torch.randn(4, 8)
                ad, sd = digest(a), digest(s)
                quantize_activation(a, Q.qint8, s)
                r["library_inputs_changed"] = not (wd == digest(w) and ad == digest(a) and sd == digest(s))
                # special scales: exactly one (the value every activation scale holds before calibration), a power of two
                for sv in (1.0, 0.5, 2.0):
                    for qt_ in (Q.qint8, Q.qfloat8):
                        a2 = torch.randn(4, 8) * 3
                        s2 = torch.tensor(sv)
                        d2 = digest(a2)
                        quantize_activation(a2, qt_, s2)
                        if digest(a2) != d2 or float(s2) != sv:
                            r["library_inputs_changed"] = True
                # an uncalibrated module (scales still one) and an input of another float dtype: neither the input nor the model may change
                m_unc = torch.nn.Sequential(torch.nn.Linear(16, 8))
                quantize(m_unc, weights=wq, activations=aq)
                for dt_ in (torch.float32, torch.float16):
                    xi_ = (torch.randn(3, 16) * 2).to(dt_)
                    di_, s_unc = digest(xi_), snap_model(m_unc)
                    try:
                        with torch.no_grad():
                            m_unc(xi_)
                    except Exception:  # noqa: BLE001
                        pass
                    if digest(xi_) != di_:
                        r["input_changed"] = True
                    if snap_model(m_unc) != s_unc:
                        r["forward_changes_state"] = True
                # freeze() leaves biases, scales and qtypes untouched
                if not case.get("frozen"):
                    sa = snap_model(model)
                    freeze(model)
                    sb = snap_model(model)
                    r["freeze_touched_other"] = [k for k in sa if not k.endswith("weight") and "weight." not in k and sa[k] != sb.get(k)]
            elif case["kind"] == "ext":
                g0 = snap_globals()
                try:
                    with disable_extensions():
                        inside = qops._ext_enabled
                        if case["raise"]:
                            raise Boom()
                except Boom:
                    pass
                r.update(inside=inside, restored=qops._ext_enabled == g0["ext"])
        except Exception as ex:  # noqa: BLE001
            import traceback

            r = {"ok": False, "exn": type(ex).__name__, "msg": str(ex)[:300], "tb": traceback.format_exc()[-500:]}
        out.append(r)
    print("RESULT " + json.dumps(out))


main()
