"""Shared by the module-level workers (C08, C09, C10, C11): build module trees from JSON specs, describe
modules (hyper-parameters, parameter bits), make inputs and float twins."""
import copy
import hashlib
import warnings

warnings.filterwarnings("ignore")
import torch  # noqa: E402

import optimum.quanto as Q  # noqa: E402
from optimum.quanto import QBytesTensor, QTensor, quantize_activation  # noqa: E402
from optimum.quanto.nn import QModuleMixin  # noqa: E402

QT = {None: None, "qint2": Q.qint2, "qint4": Q.qint4, "qint8": Q.qint8, "qfloat8": Q.qfloat8,
      "qfloat8_e4m3fn": Q.qfloat8_e4m3fn, "qfloat8_e5m2": Q.qfloat8_e5m2}
DT = {"float32": torch.float32, "float16": torch.float16, "bfloat16": torch.bfloat16}
U = {torch.float32: 2.0 ** -24, torch.float16: 2.0 ** -11, torch.bfloat16: 2.0 ** -8}
QMAX = {"qint8": 127.0, "qfloat8": 448.0, "qfloat8_e4m3fn": 448.0, "qfloat8_e5m2": 57344.0}
MANT = {"qfloat8": 3, "qfloat8_e4m3fn": 3, "qfloat8_e5m2": 2}


class Block(torch.nn.Module):
    """a user-defined container (children as attributes)"""

    def __init__(self, children):
        super().__init__()
        for n, c in children.items():
            setattr(self, n, c)

    def forward(self, x):
        for c in self.children():
            x = c(x)
        return x


def tup(v):
    return tuple(v) if isinstance(v, list) else v


def build(spec, shared=None):
    """spec -> module.  {"t": "ref", "to": key} re-uses the module built for {"key": key, ...}"""
    shared = {} if shared is None else shared
    t = spec["t"]
    if t == "ref":
        return shared[spec["to"]]
    if t == "seq":
        m = torch.nn.Sequential(*[build(c, shared) for c in spec["ch"]])
    elif t == "list":
        m = torch.nn.ModuleList([build(c, shared) for c in spec["ch"]])
    elif t == "dict":
        m = torch.nn.ModuleDict({n: build(c, shared) for n, c in spec["ch"]})
    elif t == "block":
        m = Block({n: build(c, shared) for n, c in spec["ch"]})
    elif t == "linear":
        m = torch.nn.Linear(spec["in"], spec["out"], bias=spec["bias"])
        if "tie_weight_to" in spec:
            # weight tying (e.g. lm_head.weight is embedding.weight): the very same Parameter object
            m.weight = shared[spec["tie_weight_to"]].weight
    elif t == "conv":
        m = torch.nn.Conv2d(spec["cin"], spec["cout"], tup(spec["k"]), stride=tup(spec["stride"]), padding=tup(spec["padding"]),
                            dilation=tup(spec["dilation"]), groups=spec["groups"], bias=spec["bias"], padding_mode=spec["padding_mode"])
    elif t == "ln":
        m = torch.nn.LayerNorm(tup(spec["shape"]), eps=spec["eps"], elementwise_affine=spec["affine"], bias=spec["bias"])
        if spec["affine"]:
            with torch.no_grad():
                m.weight.copy_(torch.rand_like(m.weight) + 0.5)
                if m.bias is not None:
                    m.bias.copy_(torch.randn_like(m.bias))
    elif t == "relu":
        m = torch.nn.ReLU()
    elif t == "gelu":
        m = torch.nn.GELU()
    elif t == "dropout":
        m = torch.nn.Dropout(0.0)
    elif t == "identity":
        m = torch.nn.Identity()
    elif t == "bn":
        m = torch.nn.BatchNorm2d(spec["n"])
    elif t == "gn":
        m = torch.nn.GroupNorm(1, spec["n"])
    elif t == "conv1d":
        m = torch.nn.Conv1d(spec["cin"], spec["cout"], spec["k"])
    elif t == "emb":
        m = torch.nn.Embedding(spec["n"], spec["d"])
    elif t == "bilinear":
        m = torch.nn.Bilinear(spec["in"], spec["in"], spec["out"])
    else:
        raise ValueError("unknown spec " + t)
    if "key" in spec:
        shared[spec["key"]] = m
    return m


def bits(t):
    """sha1 of the raw bytes (bit identity)"""
    t = t.detach().contiguous().cpu().reshape(-1)
    return hashlib.sha1(t.view(torch.uint8).numpy().tobytes() if t.numel() else b"").hexdigest()[:16]


HP = {
    "Linear": ["in_features", "out_features"],
    "Conv2d": ["in_channels", "out_channels", "kernel_size", "stride", "padding", "dilation", "groups", "padding_mode", "transposed", "output_padding",
               "_reversed_padding_repeated_twice"],
    "LayerNorm": ["normalized_shape", "eps", "elementwise_affine"],
}


def base_kind(m):
    for k, cls in (("Linear", torch.nn.Linear), ("Conv2d", torch.nn.Conv2d), ("LayerNorm", torch.nn.LayerNorm)):
        if isinstance(m, cls):
            return k
    return "Other"


def describe(m):
    """everything quantize() must keep for one module (not its children)"""
    k = base_kind(m)
    d = {"cls": type(m).__name__, "kind": ("Q" + k if isinstance(m, QModuleMixin) else k), "training": m.training}
    d["hp"] = {h: repr(getattr(m, h, "<missing>")) for h in HP.get(k, [])}
    d["extra_repr"] = m.extra_repr()
    d["params"] = {}
    for n, p in m.named_parameters(recurse=False):
        d["params"][n] = {"bits": bits(p) if not isinstance(p.data, QTensor) else "qtensor", "dtype": str(p.dtype), "device": str(p.device), "shape": list(p.shape),
                          "requires_grad": p.requires_grad}
    for n in ("weight", "bias"):
        if n in getattr(m, "_parameters", {}) and m._parameters[n] is None:
            d["params"][n] = None
    d["buffers"] = {n: {"bits": bits(b), "dtype": str(b.dtype)} for n, b in m.named_buffers(recurse=False)}
    return d


def leaf_input(spec, dtype, gen, kind=0):
    """an input batch suitable for one leaf; kind selects the rank / batch shape"""
    t = spec["t"]
    # variants 12..23 / 24..35: the same shapes with small-magnitude activations (1e-2, 1e-3 of the usual range)
    mag = [1.0, 1e-2, 1e-3][(kind // 12) % 3]
    if mag != 1.0:
        return (leaf_input(spec, torch.float32, gen, kind % 12) * mag).to(dtype)
    if kind % 12 in (5, 11):
        # the same batch held non-contiguously (as after a transpose / head reshuffling upstream)
        x = leaf_input(spec, dtype, gen, kind % 12 - 1)
        return x.transpose(0, -1).contiguous().transpose(0, -1) if x.ndim >= 2 else x
    if t == "linear":
        lead = [(3,), (2, 3), (2, 2, 2), (1,)][kind % 4]
        return torch.randn(*lead, spec["in"], generator=gen).to(dtype)
    if t == "conv":
        k = spec["k"] if isinstance(spec["k"], list) else [spec["k"], spec["k"]]
        d = spec["dilation"] if isinstance(spec["dilation"], list) else [spec["dilation"], spec["dilation"]]
        h = d[0] * (k[0] - 1) + 1 + [3, 4, 6][kind % 3]
        w = d[1] * (k[1] - 1) + 1 + [4, 3, 5][kind % 3]
        return torch.randn([1, 2][kind % 2], spec["cin"], h, w, generator=gen).to(dtype)
    if t == "ln":
        lead = [(3,), (2, 2), (1,)][kind % 3]
        return (torch.randn(*lead, *spec["shape"], generator=gen) * 2 + 0.5).to(dtype)
    raise ValueError(t)


def deq(t):
    return t.dequantize() if isinstance(t, QTensor) else t


def grid_step(v, qtype_name, scale):
    """spacing of the quantization grid of qtype at value v (in units of the dequantized value)"""
    if qtype_name == "qint8":
        return scale
    a = abs(v) / scale if scale > 0 else 0.0
    mant = MANT[qtype_name]
    emin = {"qfloat8": -6, "qfloat8_e4m3fn": -6, "qfloat8_e5m2": -14}[qtype_name]
    import math

    e = max(math.floor(math.log2(a)), emin) if a > 0 else emin
    return scale * 2.0 ** (e - mant)


def named_specs(spec, prefix="", shared=None, out=None):
    """(dotted name, spec) in torch's named_modules(remove_duplicate=False) order; refs resolved"""
    shared = {} if shared is None else shared
    out = [] if out is None else out
    if spec["t"] == "ref":
        spec = shared[spec["to"]]
    if "key" in spec:
        shared[spec["key"]] = spec
    out.append((prefix, spec))
    t = spec["t"]
    if t in ("seq", "list"):
        ch = [(str(i), c) for i, c in enumerate(spec["ch"])]
    elif t in ("dict", "block"):
        ch = [(n, c) for n, c in spec["ch"]]
    else:
        ch = []
    for n, c in ch:
        named_specs(c, (prefix + "." if prefix else "") + n, shared, out)
    return out


# ---- user-defined optimizers (the documented extension point): clipping variants of the defaults -----------------
from optimum.quanto.tensor.optimizers import AbsmaxOptimizer, MaxOptimizer  # noqa: E402


class ClipAbsmax(AbsmaxOptimizer):
    """symmetric: the scale covers only 75 % of the range (outliers saturate)"""

    def optimize(self, base, *args, **kwargs):
        return super().optimize(base, *args, **kwargs) * 0.75


class ClipMax(MaxOptimizer):
    """affine: the range is shrunk around zero"""

    def optimize(self, base, bits, axis):
        dim = list(range(1, base.ndim)) if (axis == 0) else list(range(0, base.ndim - 1))
        rmin = torch.clamp(torch.amin(base, dim=dim, keepdim=True), max=0) * 0.8
        rmax = torch.clamp(torch.amax(base, dim=dim, keepdim=True), min=0) * 0.8
        scale = (rmax - rmin) / (2 ** bits - 1)
        zeropoint = torch.round(torch.where(scale == 0, scale, -rmin / scale)).to(torch.int8)
        return scale, zeropoint


def make_optimizer(name, weights):
    if name is None:
        return None
    return ClipMax() if weights in ("qint2", "qint4") else ClipAbsmax()
