"""Implementation side of C11.
 part "exact": QTensorLinear (the explicit backward) on integer-valued float64 operands of rank 2..4 with contiguous,
               permuted and expanded upstream gradients: outputs and gradients are exact integers (compared with Coq's model).
 part "modules": unfrozen / frozen QLinear and QConv2d against their float twins; weight updates between forwards."""
import copy
import json
import os
import sys
import warnings

warnings.filterwarnings("ignore")
sys.path.insert(0, os.path.dirname(os.path.abspath(__file__)))
import torch  # noqa: E402
from modlib import DT, QT, U, QBytesTensor, QModuleMixin, QTensor, build, deq, leaf_input  # noqa: E402

from optimum.quanto import freeze, quantize, quantize_activation  # noqa: E402
from optimum.quanto.tensor.qtensor_func import QTensorLinear  # noqa: E402


def ints(t):
    return [int(v) for v in t.reshape(-1).tolist()]


def make_gO(shape, layout, gen):
    g = torch.randint(-4, 5, shape, generator=gen).double()
    if layout == "permuted" and len(shape) >= 2:
        perm = list(range(len(shape)))
        perm[0], perm[-1] = perm[-1], perm[0]
        g = g.permute(perm).contiguous().permute(perm)  # same values, non-contiguous strides
    elif layout == "expanded":
        g = torch.randint(-4, 5, (1,) * (len(shape) - 1) + (shape[-1],), generator=gen).double().expand(shape)
    elif layout == "sliced":
        big = torch.randint(-4, 5, tuple(shape[:-1]) + (2 * shape[-1],), generator=gen).double()
        g = big[..., ::2]
    return g


def exact_case(c):
    gen = torch.Generator().manual_seed(c["seed"])
    lead, K, M = c["lead"], c["K"], c["M"]
    x = torch.randint(-5, 6, (*lead, K), generator=gen).double()
    if c.get("x_layout") == "permuted" and len(lead) >= 1:
        perm = list(range(x.ndim))
        perm[0], perm[-1] = perm[-1], perm[0]
        x = x.permute(perm).contiguous().permute(perm)
    x.requires_grad_(True)
    w = torch.randint(-5, 6, (M, K), generator=gen).double().requires_grad_(True)
    b = torch.randint(-5, 6, (M,), generator=gen).double().requires_grad_(True) if c["bias"] else None
    y = QTensorLinear.apply(x, w, b)
    g = make_gO(tuple(y.shape), c["layout"], gen)
    y.backward(g)
    N = 1
    for d in lead:
        N *= d
    return {"ok": True, "N": N, "X": ints(x.detach()), "W": ints(w.detach()), "b": ints(b.detach()) if b is not None else None, "G": ints(g), "y": ints(y.detach()),
            "gx": ints(x.grad), "gw": ints(w.grad), "gb": ints(b.grad) if b is not None else None, "g_contiguous": bool(g.is_contiguous()), "y_shape": list(y.shape)}


def relerr(a, b, absref, K, u):
    """max over elements of |a-b| / bound, bound = ((K+2)u + 5u) * absref"""
    tol = ((K + 2) * max(u, 2.0 ** -24) + 5 * u) * absref + 1e-30
    return float(((a.double() - b.double()).abs() / tol).max())


def module_case(c):
    torch.manual_seed(c["seed"])
    gen = torch.Generator().manual_seed(c["seed"] + 1)
    dtype = DT[c["dtype"]]
    spec = c["spec"]
    act = c["activations"]
    u = U[dtype]
    model = torch.nn.Sequential(build(spec)).to(dtype)
    m0 = copy.deepcopy(model[0])
    quantize(model, weights=QT[c["weights"]], activations=QT[act])
    q = model[0]
    x = leaf_input(spec, dtype, gen, c["variant"])
    r = {"ok": True, "input_shape": list(x.shape)}
    if act is not None:
        from modlib import QMAX
        with torch.no_grad():
            q.input_scale = (x.abs().max() / QMAX[act]).to(dtype)
            q.output_scale = (m0(x).abs().max() / QMAX[act]).to(dtype)
    if c["frozen"]:
        freeze(model)
    steps = []
    for it in range(c.get("updates", 0) + 1):
        xi = x.clone().requires_grad_(True)
        for p in q.parameters():
            p.grad = None
        if c.get("in_calibration") and act is not None:
            # training-time calibration: the forward runs inside a Calibration context with autograd enabled; gradients must still flow
            from optimum.quanto import Calibration
            s_in, s_out = q.input_scale.clone(), q.output_scale.clone()
            with Calibration(momentum=1.0 - 1e-12, streamline=False):
                y = q(xi)
            with torch.no_grad():
                q.input_scale, q.output_scale = s_in, s_out  # the twin below uses the scales the forward used (momentum ~ 1 keeps them)
        else:
            y = q(xi)
        yd = deq(y)
        gs_ = float(c.get("gscale", 1.0))  # a scaled loss (fp16 loss scaling): upstream gradients of magnitude ~ gscale
        g = (torch.randn(yd.shape, generator=gen) * gs_).to(dtype)
        if c["layout"] == "permuted" and g.ndim >= 2:
            perm = list(range(g.ndim))
            perm[0], perm[-1] = perm[-1], perm[0]
            g = g.permute(perm).contiguous().permute(perm)
        elif c["layout"] == "expanded":
            g = (torch.randn((1,) * (yd.ndim - 1) + (yd.shape[-1],), generator=gen) * gs_).to(dtype).expand(yd.shape)
        st = {"iter": it}
        try:
            yd.backward(g)
        except Exception as ex:  # noqa: BLE001
            st["exn"] = type(ex).__name__
            st["msg"] = str(ex)[:300]
            steps.append(st)
            break
        # ---- the gradients handed back own their storage: overwriting the upstream gradient buffer afterwards (a reused,
        # pre-allocated buffer) must not change them
        held = {"x": xi.grad, "w": None if c["frozen"] else q.weight.grad, "b": None if q.bias is None else q.bias.grad}
        before = {k_: (None if v_ is None else v_.detach().clone()) for k_, v_ in held.items()}
        if g.is_contiguous():
            g_saved = g.clone()
            g.mul_(3.0).add_(1.0)
            st["grads_alias_upstream"] = [k_ for k_, v_ in held.items() if v_ is not None and not torch.equal(v_, before[k_])]
            g.copy_(g_saved)
        # ---- the float twin: same module class, dequantized quantized weight, (de)quantized input, all leaves
        with torch.no_grad():
            qw = q.qweight
            wd = qw.dequantize().detach().clone()
            x_eff = quantize_activation(x, QT[act], q.input_scale).dequantize() if act is not None else x.clone()
        twin = copy.deepcopy(m0)
        twin.weight = torch.nn.Parameter(wd.to(dtype))
        if twin.bias is not None:
            twin.bias = torch.nn.Parameter(q.bias.detach().clone())
        xt = x_eff.clone().requires_grad_(True)
        yt = twin(xt)
        yt.backward(g)
        # magnitudes for the bounds (|g| through |w|, |x|)
        ta = copy.deepcopy(twin)
        with torch.no_grad():
            ta.weight.abs_()
            if ta.bias is not None:
                ta.bias.abs_()
        xa = x_eff.abs().clone().requires_grad_(True)
        ya = ta(xa)
        ya.backward(g.abs())
        Kfan = twin.weight[0].numel()
        nrows = max(yt.numel() // yt.shape[-1 if spec["t"] == "linear" else 1], 1)
        st["forward_ratio"] = None
        st["x_grad"] = None if xi.grad is None else relerr(xi.grad, xt.grad, xa.grad.abs().double(), twin.weight.shape[0] * (1 if spec["t"] == "linear" else twin.weight[0, 0].numel()), u)
        if c["frozen"]:
            st["weight_requires_grad"] = bool(q.weight.requires_grad)
            st["weight_grad_none"] = q.weight.grad is None
            st["scale_grads_none"] = all(getattr(t, "grad", None) is None for t in (q.weight._scale, q.input_scale, q.output_scale))
        else:
            st["weight_is_float_param"] = (not isinstance(q.weight.data, QTensor)) and q.weight.requires_grad
            st["w_grad"] = None if q.weight.grad is None else relerr(q.weight.grad, twin.weight.grad, ta.weight.grad.abs().double(), nrows * (1 if spec["t"] == "linear" else yt.shape[-1] * yt.shape[-2]), u)
            st["w_grad_dtype_ok"] = q.weight.grad is not None and q.weight.grad.dtype == dtype and list(q.weight.grad.shape) == list(q.weight.shape)
        if q.bias is not None:
            st["b_grad"] = None if q.bias.grad is None else relerr(q.bias.grad, twin.bias.grad, ta.bias.grad.abs().double(), yt.numel() // twin.weight.shape[0], u)
        st["scale_grads_none"] = all(getattr(t, "grad", None) is None for t in (q.input_scale, q.output_scale))
        st["x_grad_shape_ok"] = xi.grad is not None and list(xi.grad.shape) == list(x.shape)
        # ---- freshness: the forward used the CURRENT float weight
        with torch.no_grad():
            y_now = deq(q(x))
            from optimum.quanto import quantize_weight
            if not c["frozen"]:
                fresh = quantize_weight(q.weight.detach(), qtype=q.weight_qtype, axis=0, group_size=q.weight_group_size, optimizer=q.optimizer).dequantize()
                st["qweight_is_fresh"] = bool(torch.equal(fresh, wd))
            st["qweight_bits"] = hash(tuple(wd.double().reshape(-1).tolist())) & 0xFFFFFFFF
            st["out_sample"] = [float(v) for v in y_now.reshape(-1)[:3]]
            st["out_bits"] = hash(tuple(y_now.double().reshape(-1).tolist())) & 0xFFFFFFFF
        steps.append(st)
        # ---- an optimizer-like in-place update of the float weight (frozen modules: of nothing; their outputs must stay)
        if it < c.get("updates", 0):
            with torch.no_grad():
                if not c["frozen"]:
                    delta = torch.randn(q.weight.shape, generator=gen).to(dtype) * 0.5
                    if c.get("warm_no_grad"):
                        q(x.detach())  # an evaluation pass without autograd right before the update (what a validation loop does)
                    if c.get("update_via") == "data":
                        q.weight.data.add_(delta)  # hand-written SGD / clipping / EMA: does not bump the version counter
                    elif c.get("update_via") == "assign_data":
                        q.weight.data = (q.weight.data + delta).clone()  # what Module.to() / _apply do: same Parameter, same version, new storage
                    elif c.get("update_via") == "state_dict":
                        sd_ = {k_: (v_.clone() if isinstance(v_, torch.Tensor) else v_) for k_, v_ in q.state_dict().items()}
                        sd_["weight"] = sd_["weight"] + delta
                        q.load_state_dict(sd_)
                    else:
                        q.weight.add_(delta)
                    if c.get("warm_no_grad"):
                        q(x.detach())
    r["steps"] = steps
    return r


def chain_case(c):
    """two quantized linears in a row whose activation qtypes may differ (the second re-quantizes what the first hands over): after a
    backward pass every parameter of BOTH modules and the input hold a finite gradient that correlates with the float model's"""
    from optimum.quanto import Calibration
    torch.manual_seed(c["seed"])
    dtype = DT[c["dtype"]]
    model = torch.nn.Sequential(torch.nn.Linear(16, 32), torch.nn.Linear(32, 16)).to(dtype)
    ref = copy.deepcopy(model)
    m_first, m_second = model[0], model[1]
    quantize(model, modules=[m_first], weights=QT[c["weights"]], activations=QT[c["acts"][0]])
    quantize(model, modules=[m_second], weights=QT[c["weights"]], activations=QT[c["acts"][1]])
    assert [getattr(m_.activation_qtype, "name", None) for m_ in model] == [getattr(QT[a_], "name", None) for a_ in c["acts"]]
    x = torch.randn(*c["lead"], 16).to(dtype)
    with torch.no_grad(), Calibration(streamline=False):
        model(x)
    xi = x.clone().requires_grad_(True)
    y = deq(model(xi))
    g = torch.randn(y.shape).to(dtype)
    y.backward(g)
    xr = x.clone().requires_grad_(True)
    ref(xr).backward(g)
    out = {"ok": True, "grads": {}}
    pairs = [("x", xi.grad, xr.grad)] + [(n_, p_.grad, dict(ref.named_parameters())[n_].grad) for n_, p_ in model.named_parameters()]
    for n_, a_, b_ in pairs:
        if a_ is None:
            out["grads"][n_] = "none"
        elif not bool(torch.isfinite(a_).all()):
            out["grads"][n_] = "non-finite"
        else:
            cos = float(torch.nn.functional.cosine_similarity(a_.double().reshape(1, -1), b_.double().reshape(1, -1)))
            out["grads"][n_] = "ok" if cos > 0.8 else f"cosine {cos:.3f} with the float model's gradient"
    return out


def main():
    payload = json.loads(sys.stdin.read())
    if payload.get("prelude", True):
        import os as _os
        sys.path.insert(0, _os.path.dirname(_os.path.abspath(__file__)))
        from prelude import run_prelude
        run_prelude()
    out = {"exact": [], "modules": [], "chains": []}
    for c in payload.get("chains", []):
        try:
            out["chains"].append(chain_case(c))
        except Exception as ex:  # noqa: BLE001
            out["chains"].append({"ok": False, "exn": type(ex).__name__, "msg": str(ex)[:300]})
    for c in payload.get("exact", []):
        try:
            out["exact"].append(exact_case(c))
        except Exception as ex:  # noqa: BLE001
            out["exact"].append({"ok": False, "exn": type(ex).__name__, "msg": str(ex)[:300]})
    for c in payload.get("modules", []):
        try:
            out["modules"].append(module_case(c))
        except Exception as ex:  # noqa: BLE001
            import traceback

            out["modules"].append({"ok": False, "exn": type(ex).__name__, "msg": str(ex)[:300], "tb": traceback.format_exc()[-600:]})
    print("RESULT " + json.dumps(out))


main()
