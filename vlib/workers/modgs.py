"""Implementation side of C14's module part: automatic group size of QLinear / QConv2d and a forward pass."""
import json
import sys
import warnings

warnings.filterwarnings("ignore")
import torch  # noqa: E402

import optimum.quanto as Q  # noqa: E402
from optimum.quanto.nn import QConv2d, QLinear  # noqa: E402

QT = {"qint2": Q.qint2, "qint4": Q.qint4, "qint8": Q.qint8, "qfloat8": Q.qfloat8, "qfloat8_e4m3fn": Q.qfloat8_e4m3fn, "qfloat8_e5m2": Q.qfloat8_e5m2}


def main():
    payload = json.loads(sys.stdin.read())
    out = []
    torch.manual_seed(payload.get("seed", 0))
    for c in payload["cases"]:
        try:
            if c["kind"] == "linear":
                m = QLinear(c["in"], c["out"], weights=QT[c["qtype"]], bias=True)
                x = torch.randn(2, c["in"])
            else:
                m = QConv2d(c["in_ch"], c["out_ch"], c["k"], groups=c.get("groups", 1), weights=QT[c["qtype"]])
                x = torch.randn(1, c["in_ch"], c["k"] + 1, c["k"] + 1)
            r = {"ok": True, "gs": m.weight_group_size, "wshape": list(m.weight.shape)}
            if c.get("run"):
                try:
                    y = m(x)
                    r["ran"] = True
                    r["finite"] = bool(torch.isfinite(y).all())
                    m.freeze()
                    y2 = m(x)
                    r["frozen_equal"] = bool(torch.equal(y, y2))
                    r["qweight_cls"] = type(m.weight).__name__
                except Exception as ex:  # noqa: BLE001
                    r["ran"] = False
                    r["run_exn"] = type(ex).__name__ + ": " + str(ex)[:160]
        except Exception as ex:  # noqa: BLE001
            r = {"ok": False, "exn": type(ex).__name__, "msg": str(ex)[:160]}
        out.append(r)
    print("RESULT " + json.dumps(out))


main()
