"""Implementation side of C04: runs quanto's real pack / unpack code (all three kernel routes)."""
import json
import os
import sys
import warnings

sys.path.insert(0, os.path.join(os.path.dirname(os.path.abspath(__file__)), ".."))
warnings.filterwarnings("ignore")
import torch  # noqa: E402

import optimum.quanto  # noqa: E402,F401
from optimum.quanto.library.ops import disable_extensions  # noqa: E402
from optimum.quanto.tensor.qbits.packed import PackedTensor, pack_weights  # noqa: E402

import cppkernel  # noqa: E402


def mk(case):
    t = torch.tensor(case["data"], dtype=torch.uint8).reshape(case["shape"])
    lay = case.get("layout", "contig")
    if lay == "strided" and t.ndim >= 2:
        # same values, non-contiguous memory (transposed storage)
        t = t.transpose(0, -1).contiguous().transpose(0, -1)
    elif lay == "offset":
        big = torch.zeros((t.shape[0] + 2, *t.shape[1:]), dtype=torch.uint8)
        big[1:-1] = t
        t = big[1:-1]
    return t


def flat(t):
    return [int(x) for x in t.contiguous().reshape(-1).tolist()]


def outcome(f):
    try:
        r = f()
        return {"ok": True, "shape": list(r.shape), "data": flat(r), "dtype": str(r.dtype), "cls": type(r).__name__}
    except Exception as ex:  # noqa: BLE001
        return {"ok": False, "exn": type(ex).__name__, "msg": str(ex)[:200]}


OPS = {
    "add1": lambda x: x + 1,
    "sum0": lambda x: x.sum(0, dtype=torch.int64),
    "reshape_flat": lambda x: x.reshape(-1),
    "eq3": lambda x: (x == 3).to(torch.uint8),
    "mul_self": lambda x: x * x,
    "cat_self": lambda x: torch.cat([x, x]),
    "max": lambda x: x.max().reshape(1),
    "clone": lambda x: x.clone(),
    "index0": lambda x: x[0:1] * 1,
    "bitand": lambda x: x & 1,
    # slicing along every dimension, addressed by positive and by negative indices, through the python and the aten entry points
    "narrow_last": lambda x: x.narrow(-1, 0, max(1, x.shape[-1] // 2)) * 1,
    "narrow_first_neg": lambda x: x.narrow(-x.ndim, x.shape[0] // 2, x.shape[0] - x.shape[0] // 2) * 1,
    "aten_slice_neg": lambda x: torch.ops.aten.slice(x, -1, 1, x.shape[-1]) * 1,
    "aten_slice_first": lambda x: torch.ops.aten.slice(x, 0, 1, x.shape[0]) * 1,
    "slice_last": lambda x: x[..., 1:] * 1,
    "select_neg": lambda x: x.select(-1, x.shape[-1] - 1) * 1,
    "flip_last": lambda x: torch.flip(x, dims=[-1]),
}


def main():
    payload = json.loads(sys.stdin.read())
    if payload.get("prelude", True):
        import os as _os
        sys.path.insert(0, _os.path.dirname(_os.path.abspath(__file__)))
        from prelude import run_prelude
        run_prelude()
    res = {"cpp": None, "cases": [], "bytes": []}
    try:
        cppkernel.inject()
        res["cpp"] = "built-and-injected"
    except Exception as ex:  # noqa: BLE001
        res["cpp"] = "unavailable: " + str(ex)[:300]
    have_cpp = res["cpp"] == "built-and-injected"
    for case in payload["cases"]:
        t = mk(case)
        bits = case["bits"]
        out = {}
        out["pack_weights"] = outcome(lambda: pack_weights(t, bits))
        try:
            p = PackedTensor.pack(t, bits)
            out["packed_data"] = {"ok": True, "shape": list(p._data.shape), "data": flat(p._data)}
            out["size"] = list(p.size())
            with warnings.catch_warnings(record=True) as w:
                warnings.simplefilter("always")
                out["unpack_ext_on"] = outcome(lambda: p.unpack())
                out["fallback_warning"] = [str(x.message)[:120] for x in w]
            with disable_extensions():
                out["unpack_ext_off"] = outcome(lambda: p.unpack())
            out["py"] = outcome(lambda: torch.ops.quanto_py.unpack(p._data, bits))
            out["ext"] = outcome(lambda: torch.ops.quanto_ext.unpack(p._data, bits)) if have_cpp else None
            out["ops"] = {}
            for name in case.get("ops", []):
                a = outcome(lambda: OPS[name](p))
                b = outcome(lambda: OPS[name](t))
                out["ops"][name] = {"packed": a, "plain": b}
            # histories on the same objects: packing reads its argument only, the packed tensor does not alias it, packing the
            # SAME object again after an in-place update packs the new values, unpacking twice gives the same tensor and leaves
            # the payload untouched, and the unpacked result can be modified without touching the payload
            keep = t.clone()
            payload0 = p._data.clone()
            h = {"input_unchanged": bool(torch.equal(t, keep))}
            t2 = t.clone()  # a private, contiguous object we are allowed to modify
            p_a = PackedTensor.pack(t2, bits)
            t2.add_(1).remainder_(2 ** bits)
            h["packed_kept_after_input_update"] = bool(torch.equal(p_a.unpack(), keep))
            p_b = PackedTensor.pack(t2, bits)
            h["repack_sees_update"] = bool(torch.equal(p_b.unpack(), t2))
            u1 = p.unpack()
            u1.add_(1)
            h["payload_kept_after_unpacked_update"] = bool(torch.equal(p._data, payload0)) and bool(torch.equal(p.unpack(), keep))
            out["history"] = h
            if case.get("dispatch"):
                d = p.detach()
                out["detach"] = {"cls": type(d).__name__, "value": outcome(lambda: d.unpack())}
                out["to_float"] = outcome(lambda: p.to(torch.float32))
                out["to_uint8"] = {"cls": type(p.to(torch.uint8)).__name__, "value": outcome(lambda: p.to(torch.uint8).unpack())}
        except Exception as ex:  # noqa: BLE001
            out["pack_exn"] = type(ex).__name__ + ": " + str(ex)[:200]
        res["cases"].append(out)
    # binary ops between two packed tensors (incl. pairs with the same packed row count but different leading dimension)
    res["pairs"] = []
    for pc in payload.get("pairs", []):
        a, b = mk(pc["a"]), mk(pc["b"])
        bits = pc["a"]["bits"]
        out = {}
        try:
            pa, pb = PackedTensor.pack(a, bits), PackedTensor.pack(b, bits)
            for name, f in (("equal", lambda x, y: torch.tensor([int(torch.equal(x, y))], dtype=torch.uint8)),
                            ("eq_elem", lambda x, y: (x == y).to(torch.uint8) if x.shape == y.shape else torch.tensor([2], dtype=torch.uint8)),
                            ("add", lambda x, y: x + y if x.shape == y.shape else torch.tensor([2], dtype=torch.uint8)),
                            ("cat", lambda x, y: torch.cat([x, y]) if x.shape[1:] == y.shape[1:] else torch.tensor([2], dtype=torch.uint8)),
                            ("maximum", lambda x, y: torch.maximum(x, y) if x.shape == y.shape else torch.tensor([2], dtype=torch.uint8))):
                out[name] = {"packed": outcome(lambda: f(pa, pb)), "plain": outcome(lambda: f(a, b))}
        except Exception as ex:  # noqa: BLE001
            out["exn"] = type(ex).__name__ + ": " + str(ex)[:200]
        res["pairs"].append(out)
    # large tensors (payload beyond 2**20 bytes), generated here from a seed: round trip through every route and agreement
    # of the routed kernel with the definition (shift / mask / concatenate) on the payload
    res["big"] = []
    for bg in payload.get("big", []):
        g = torch.Generator().manual_seed(bg["seed"])
        bits = bg["bits"]
        t = torch.randint(0, 2 ** bits, tuple(bg["shape"]), generator=g, dtype=torch.uint8)
        out = {"shape": bg["shape"], "bits": bits}
        try:
            p = PackedTensor.pack(t, bits)
            per = 8 // bits
            out["payload_rows_ok"] = p._data.shape[0] == -(-t.shape[0] // per)
            out["unpack_ext_on"] = bool(torch.equal(p.unpack(), t))
            with disable_extensions():
                out["unpack_ext_off"] = bool(torch.equal(p.unpack(), t))
            ref = torch.cat([(p._data >> (bits * i)) & (2 ** bits - 1) for i in range(per)], dim=0)
            out["py_is_definition"] = bool(torch.equal(torch.ops.quanto_py.unpack(p._data, bits), ref))
            if have_cpp:
                out["ext_is_definition"] = bool(torch.equal(torch.ops.quanto_ext.unpack(p._data, bits), ref))
        except Exception as ex:  # noqa: BLE001
            out["exn"] = type(ex).__name__ + ": " + str(ex)[:200]
        res["big"].append(out)
    for bc in payload.get("bytes", []):
        t = torch.tensor(bc["data"], dtype=torch.uint8).reshape(bc["shape"])
        bits = bc["bits"]
        out = {"py": outcome(lambda: torch.ops.quanto_py.unpack(t, bits))}
        out["ext"] = outcome(lambda: torch.ops.quanto_ext.unpack(t, bits)) if have_cpp else None
        with warnings.catch_warnings(record=True) as w:
            warnings.simplefilter("always")
            out["routed_on"] = outcome(lambda: torch.ops.quanto.unpack(t, bits))
            out["fallback_warning"] = [str(x.message)[:120] for x in w]
        with disable_extensions():
            out["routed_off"] = outcome(lambda: torch.ops.quanto.unpack(t, bits))
        res["bytes"].append(out)
    print("RESULT " + json.dumps(res))


main()
