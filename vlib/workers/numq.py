"""Implementation side for the numeric core (C01, C02, C03, C14, C16): runs quanto's real quantization
entry points on tensors given as IEEE bit patterns and reports everything as bit patterns / code bytes."""
import json
import os
import sys
import warnings

warnings.filterwarnings("ignore")
import torch  # noqa: E402

import optimum.quanto as Q  # noqa: E402
from optimum.quanto import AbsmaxOptimizer, MaxOptimizer, absmax_scale, quantize_activation, quantize_weight  # noqa: E402
from optimum.quanto.tensor.qbits import QBitsTensor  # noqa: E402
from optimum.quanto.tensor.qbytes import QBytesTensor  # noqa: E402
from optimum.quanto.tensor.quantizers import AffineQuantizer, SymmetricQuantizer  # noqa: E402

DT = {"float32": (torch.float32, torch.int32, 0xFFFFFFFF), "float16": (torch.float16, torch.int16, 0xFFFF), "bfloat16": (torch.bfloat16, torch.int16, 0xFFFF)}
QT = {"qint2": Q.qint2, "qint4": Q.qint4, "qint8": Q.qint8, "qfloat8_e4m3fn": Q.qfloat8_e4m3fn, "qfloat8_e5m2": Q.qfloat8_e5m2, "qfloat8": Q.qfloat8}
OPT = {None: None, "absmax": AbsmaxOptimizer(), "max": MaxOptimizer()}


def from_bits(bits, shape, dtype):
    fd, idt, mask = DT[dtype]
    if fd == torch.float32:
        v = [b - (1 << 32) if b >= (1 << 31) else b for b in bits]
    else:
        v = [b - (1 << 16) if b >= (1 << 15) else b for b in bits]
    return torch.tensor(v, dtype=idt).view(fd).reshape(shape)


def canon_nan(t):
    # single canonical NaN per format (the Coq model has one NaN)
    if t.dtype == torch.float32:
        c = torch.tensor([0x7FC00000], dtype=torch.int32).view(torch.float32)[0]
    elif t.dtype == torch.float16:
        c = torch.tensor([0x7E00], dtype=torch.int16).view(torch.float16)[0]
    else:
        c = torch.tensor([0x7FC0], dtype=torch.int16).view(torch.bfloat16)[0]
    return torch.where(torch.isnan(t), c, t)


def to_bits(t):
    t = canon_nan(t.detach().contiguous())
    if t.dtype == torch.float32:
        return {"shape": list(t.shape), "data": [int(x) & 0xFFFFFFFF for x in t.view(torch.int32).reshape(-1).tolist()]}
    return {"shape": list(t.shape), "data": [int(x) & 0xFFFF for x in t.view(torch.int16).reshape(-1).tolist()]}


def code_bytes(t):
    t = t.detach().contiguous()
    if t.dtype in (torch.float8_e4m3fn, torch.float8_e5m2):
        b = t.view(torch.uint8).reshape(-1).tolist()
        if t.dtype == torch.float8_e4m3fn:
            b = [127 if (x & 0x7F) == 0x7F else x for x in b]  # canonical NaN
        else:
            b = [126 if (x & 0x7C) == 0x7C and (x & 0x03) else x for x in b]
        return {"shape": list(t.shape), "data": [int(x) for x in b]}
    return {"shape": list(t.shape), "data": [int(x) for x in t.reshape(-1).tolist()]}


def observe(q):
    out = {"cls": type(q).__name__, "size": list(q.shape), "dtype": str(q.dtype), "axis": q.axis, "qtype": q.qtype.name}
    if isinstance(q, QBytesTensor):
        out.update(kind=0, codes=code_bytes(q._data), scale=to_bits(q._scale), zp={"shape": [0], "data": []}, group=None)
    elif isinstance(q, QBitsTensor):
        out.update(kind=1, codes=code_bytes(q._data.unpack()), scale=to_bits(q._scale), zp=code_bytes(q._zeropoint), group=q._group_size,
                   packed_shape=list(q._data._data.shape), zp_dtype=str(q._zeropoint.dtype))
    out["scale_dtype"] = str(q._scale.dtype)
    d_ = q.dequantize()
    out["deq"] = to_bits(d_)
    out["deq_dtype"] = str(d_.dtype).replace("torch.", "")
    return out


def relayout(t, kind):
    """the same logical tensor held with non-contiguous strides / a storage offset (results must not depend on it)"""
    if kind == "transposed" and t.ndim >= 2:
        return t.transpose(0, -1).contiguous().transpose(0, -1)
    if kind == "strided" and t.ndim >= 1 and t.shape[-1] > 0:
        big = torch.zeros(*t.shape[:-1], t.shape[-1] * 2, dtype=t.dtype)
        big[..., ::2] = t
        return big[..., ::2]
    if kind == "offset":
        buf = torch.zeros(t.numel() + 3, dtype=t.dtype)
        buf[3:] = t.reshape(-1)
        return buf[3:].view(t.shape)
    return t


SHARED = {}


def run(call):
    fn = call["fn"]
    t = from_bits(call["bits"], call["shape"], call["dtype"]) if "bits" in call else None
    if t is not None and call.get("layout"):
        t = relayout(t, call["layout"])
    if t is not None and call.get("reuse_key") is not None:
        # the SAME tensor object is handed to successive calls (as a user quantizing one weight with several configurations does);
        # the driver compares with a second run of the same calls on fresh tensors
        t = SHARED.setdefault(call["reuse_key"], t)
        return run(dict({k: v for k, v in call.items() if k not in ("reuse_key", "layout")}, _tensor=t))
    if "_tensor" in call:
        t = call["_tensor"]
    before = t.clone() if t is not None else None
    if fn == "quantize_weight":
        q = quantize_weight(t, QT[call["qtype"]], call["axis"], call.get("group_size"), OPT[call.get("optimizer")])
        if call.get("interleave"):
            # another weight (same element count, same configuration, another shape) goes through the library before q is read
            try:
                other = torch.flip(t.detach().reshape(-1), dims=[0]).reshape(call["interleave"]).contiguous()
                quantize_weight(other, QT[call["qtype"]], call["axis"], call.get("group_size"), OPT[call.get("optimizer")]).dequantize()
            except Exception:  # noqa: BLE001
                pass
        r = observe(q)
        if call.get("requant"):
            d = q.dequantize()
            if isinstance(q, QBytesTensor):
                q2 = SymmetricQuantizer.apply(d, q.qtype, q.axis, q._scale)
            else:
                q2 = AffineQuantizer.apply(d, q.qtype, q.axis, q._group_size, q._scale, q._zeropoint)
            r["requant_codes"] = observe(q2)["codes"]
    elif fn == "quantize_activation":
        s = from_bits(call["scale_bits"], call["scale_shape"], call["dtype"])
        q = quantize_activation(t, QT[call["qtype"]], s)
        r = observe(q)
        if call.get("requant"):
            r["requant_codes"] = observe(quantize_activation(q.dequantize(), q.qtype, s))["codes"]
    elif fn == "sym_quantize":
        s = from_bits(call["scale_bits"], call["scale_shape"], call.get("scale_dtype") or call["dtype"])
        q = SymmetricQuantizer.apply(t, QT[call["qtype"]], call["axis"], s)
        r = observe(q)
        if call.get("requant"):
            r["requant_codes"] = observe(SymmetricQuantizer.apply(q.dequantize(), q.qtype, q.axis, s))["codes"]
    elif fn == "absmax_scale":
        r = {"scale": to_bits(absmax_scale(t, QT[call["qtype"]], call["axis"]))}
    elif fn == "sweep16":
        dtype = call["dtype"]
        allbits = list(range(65536))
        t = from_bits(allbits, [65536], dtype)
        s = from_bits([call["scale_bits"]], [], dtype)
        q = SymmetricQuantizer.apply(t, QT[call["qtype"]], None, s)
        codes = code_bytes(q._data)["data"]
        deq = to_bits(q.dequantize())["data"]
        sums = []
        for b in range(256):
            acc = 0
            for v in codes[b * 256:(b + 1) * 256] + deq[b * 256:(b + 1) * 256]:
                acc = (acc * 31 + v + 7) % 1000000007
            sums.append(acc)
        r = {"sums": sums}
        if call.get("full"):
            r["codes"] = codes
            r["deq"] = deq
        if call.get("requant"):
            q2 = SymmetricQuantizer.apply(q.dequantize(), q.qtype, None, s)
            r["requant_codes"] = code_bytes(q2._data)["data"]
        t = None
    elif fn == "quantize_weight_history":
        # the scale / codes are a function of the VALUES: quantize a Parameter, update it in place the way optimizers and EMA
        # code do (through .data: no version bump; under no_grad: version bump), quantize again, compare with a fresh tensor
        args = (QT[call["qtype"]], call["axis"], call.get("group_size"), OPT[call.get("optimizer")])
        p = torch.nn.Parameter(t.clone(), requires_grad=call.get("requires_grad", True))
        ctx = torch.no_grad() if call.get("no_grad_calls") else torch.enable_grad()
        with ctx:
            quantize_weight(p, *args)
        upd = call["update"]
        if upd == "data_mul":
            p.data.mul_(8.0)
        elif upd == "data_shrink":
            p.data.mul_(0.0625)
        elif upd == "data_copy":
            p.data.copy_(torch.flip(t, dims=[0]) * 3)
        elif upd == "data_index":
            p.data[0] = p.data[0] * 16
        elif upd == "no_grad_mul":
            with torch.no_grad():
                p.mul_(8.0)
        with ctx:
            q2 = quantize_weight(p, *args)
            qf = quantize_weight(p.detach().clone(), *args)
        o2, of = observe(q2), observe(qf)
        r = {"same": all(o2[k] == of[k] for k in ("codes", "scale", "zp", "deq")), "after_update": {k: o2[k] for k in ("scale",)}, "fresh": {k: of[k] for k in ("scale",)}}
        t = None
    elif fn == "huge":
        # a tensor of more than 2**27 elements (an embedding / lm_head sized weight), per-axis scales: C01's inequality checked
        # block by block against a float64 oracle (the exact-rational audit is too slow at this size)
        rows, cols = call["rows"], call["cols"]
        fd = DT[call["dtype"]][0]
        g = torch.Generator().manual_seed(call["seed"])
        t = torch.empty(rows, cols, dtype=fd)
        for r0 in range(0, rows, 256):
            t[r0:r0 + 256] = (torch.randn(min(256, rows - r0), cols, generator=g) * 3).to(fd)
        sc = (torch.rand(rows, 1, generator=g) * 0.05 + 0.01).to(fd)
        q = SymmetricQuantizer.apply(t, QT[call["qtype"]], 0, sc)
        d = q.dequantize()
        u = {torch.float32: 2.0**-24, torch.float16: 2.0**-11, torch.bfloat16: 2.0**-8}[fd]
        bad, first = 0, None
        for r0 in range(0, rows, 128):
            x = t[r0:r0 + 128].double()
            s_ = sc[r0:r0 + 128].double()
            code = torch.clamp(torch.round(x / s_), -128, 127)
            best = (s_ * code - x).abs()
            err = (d[r0:r0 + 128].double() - x).abs()
            slack = 2 * (u * x.abs() + s_ * 1e-30) + u * (s_ * code).abs() + 2 * u * s_ + 1e-30
            m = (err > best + slack) | ~torch.isfinite(d[r0:r0 + 128].double())
            n = int(m.sum())
            if n and first is None:
                idx = m.nonzero()[0].tolist()
                first = {"row": r0 + idx[0], "col": idx[1], "x": float(x[idx[0], idx[1]]), "scale": float(s_[idx[0], 0]), "deq": float(d[r0 + idx[0], idx[1]])}
            bad += n
        r = {"bad": bad, "first": first, "numel": rows * cols, "shape_ok": list(q.shape) == [rows, cols] and list(d.shape) == [rows, cols]}
        t = None
    elif fn == "qtype_table":
        r = {"table": {n: [q.is_floating_point, q.bits, str(q.dtype), (torch.finfo(q.dtype) if q.is_floating_point else torch.iinfo(q.dtype)).min, (torch.finfo(q.dtype) if q.is_floating_point else torch.iinfo(q.dtype)).max] for n, q in QT.items()}}
    else:
        raise KeyError(fn)
    if before is not None and t is not None:
        r["input_unchanged"] = bool(torch.equal(canon_nan(before).view(DT[call["dtype"]][1]), canon_nan(t).view(DT[call["dtype"]][1])))
    return r


def prelude():
    """a history before the numeric calls: the library has already been used in this process for its usual flow (quantize a
    model, calibrate it, freeze it, run it).  Nothing of that may change what quantization computes afterwards (process-wide
    float modes, caches, registries): every check below is made in this used process."""
    from optimum.quanto import Calibration, freeze, quantize
    torch.manual_seed(0)
    m = torch.nn.Sequential(torch.nn.Linear(8, 8), torch.nn.ReLU(), torch.nn.Linear(8, 4))
    quantize(m, weights=Q.qint8, activations=Q.qint8)
    with torch.no_grad(), Calibration():
        m(torch.randn(2, 8))
    freeze(m)
    with torch.no_grad():
        m(torch.randn(2, 8))


def main():
    payload = json.loads(sys.stdin.read())
    out = []
    if payload.get("prelude", True):
        try:
            prelude()
        except Exception:  # noqa: BLE001
            # a library whose model flow is broken is another property's matter: the numeric calls are still made and judged
            pass
    for call in payload["calls"]:
        try:
            r = run(call)
            r["ok"] = True
        except Exception as ex:  # noqa: BLE001
            r = {"ok": False, "exn": type(ex).__name__, "msg": str(ex)[:200]}
        out.append(r)
    print("RESULT " + json.dumps(out))


main()
