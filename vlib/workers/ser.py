"""Implementation side of C10: state_dict save / load round trips through pickle, weights_only and safetensors,
into same-quantized, default-quantized and requantize()d targets."""
import copy
import io
import json
import os
import sys
import tempfile
import warnings

warnings.filterwarnings("ignore")
sys.path.insert(0, os.path.dirname(os.path.abspath(__file__)))
import torch  # noqa: E402
from modlib import make_optimizer, DT, QT, QBytesTensor, QModuleMixin, QTensor, bits, build, deq  # noqa: E402

from optimum.quanto import Calibration, freeze, quantize, requantize, safe_load, safe_save  # noqa: E402
from optimum.quanto.tensor.qbits import QBitsTensor  # noqa: E402
from optimum.quanto.tensor.qbits.packed import PackedTensor  # noqa: E402


def out_bits(y):
    if isinstance(y, QTensor):
        return {"q": True, "qtype": y.qtype.name, "data": bits(y._data.view(torch.uint8) if y._data.dtype != torch.int8 else y._data), "scale": bits(y._scale), "deq": bits(y.dequantize())}
    return {"q": False, "deq": bits(y), "dtype": str(y.dtype)}


def sd_digest(sd):
    d = {}
    for k, v in sd.items():
        if isinstance(v, str):
            d[k] = {"str": v}
        elif type(v) is torch.Tensor:
            d[k] = {"bits": bits(v.view(torch.uint8) if v.dtype in (torch.float8_e4m3fn, torch.float8_e5m2) else v), "dtype": str(v.dtype), "shape": list(v.shape), "device": str(v.device)}
        else:
            d[k] = {"other": type(v).__name__}
    return d


def weights_meta(model):
    """per frozen quantized weight: the python values behind the meta strings, and the strings"""
    out = []
    for n, m in model.named_modules():
        if isinstance(m, QModuleMixin) and m.frozen:
            w = m.weight.data
            rec = {"prefix": (n + "." if n else "") + "weight.", "cls": type(w).__name__, "qtype": w.qtype.name, "axis": w.axis, "size": list(w.size()), "stride": list(w.stride())}
            if isinstance(w, QBitsTensor):
                rec["group_size"] = w._group_size
                p = w._data
                rec["packed"] = {"bits": p._bits, "size": list(p.size()), "stride": list(p.stride())}
            out.append(rec)
    return out


def fresh(c, how):
    torch.manual_seed(c["seed"] + 77)  # different initial weights: everything must come from the state_dict
    dtype = DT[c["dtype"]]
    model = build(c["tree"]).to(dtype).eval()
    if how == "same":
        quantize(model, weights=QT[c["weights"]], activations=QT[c["activations"]], **({"optimizer": make_optimizer(c["optimizer"], c["weights"])} if c.get("optimizer") else {}))
    elif how == "default":
        quantize(model)
    return model


def run_case(c):
    torch.manual_seed(c["seed"])
    gen = torch.Generator().manual_seed(c["seed"] + 1)
    dtype = DT[c["dtype"]]
    model = build(c["tree"]).to(dtype).eval()
    quantize(model, weights=QT[c["weights"]], activations=QT[c["activations"]], **({"optimizer": make_optimizer(c["optimizer"], c["weights"])} if c.get("optimizer") else {}))
    probes = [(torch.randn(*c["input"], generator=gen) * s).to(dtype) for s in (1.0, 3.0)]
    res = {"ok": True}
    with torch.no_grad():
        if c["calibrate"]:
            with Calibration(streamline=c.get("streamline", False)):
                for _ in range(2):
                    model((torch.randn(*c["input"], generator=gen) * 2).to(dtype))
        if c["freeze"]:
            freeze(model)
        if c.get("no_grad_params"):
            model.requires_grad_(False)  # an inference model: no parameter is tracked by autograd when it is saved
        ref_out = [out_bits(model(x)) for x in probes]
        sd = model.state_dict()
        res["kinds"] = sorted({("str" if isinstance(v, str) else "Tensor" if type(v) is torch.Tensor else type(v).__name__) for v in sd.values()})
        res["bad_values"] = [k for k, v in sd.items() if not isinstance(v, str) and type(v) is not torch.Tensor]
        ref = sd_digest(sd)
        res["keys"] = list(sd.keys())
        res["meta"] = weights_meta(model)
        res["strings"] = {k: v for k, v in sd.items() if isinstance(v, str)}
        res["ref_out"] = ref_out
        # ---- serializers
        loaded = {}
        ser = {}
        for name in ("pickle", "weights_only", "safetensors"):
            try:
                if name == "safetensors":
                    with tempfile.TemporaryDirectory() as td:
                        f = os.path.join(td, "m.safetensors")
                        safe_save(sd, f)
                        sd2 = safe_load(f)
                else:
                    b = io.BytesIO()
                    torch.save(sd, b)
                    b.seek(0)
                    sd2 = torch.load(b, weights_only=(name == "weights_only"))
                d2 = sd_digest(sd2)
                ser[name] = {"ok": True, "equal": d2 == ref, "diff": [k for k in set(d2) | set(ref) if d2.get(k) != ref.get(k)][:5]}
                loaded[name] = sd2
            except Exception as ex:  # noqa: BLE001
                ser[name] = {"ok": False, "exn": type(ex).__name__, "msg": str(ex)[:300]}
        res["serializers"] = ser
        # ---- targets
        tg = {}
        for how in ("same", "default", "requantize"):
            for sname in c["load_from"]:
                if sname not in loaded:
                    continue
                key = f"{how}/{sname}"
                try:
                    src = dict(loaded[sname])  # loaders pop keys
                    m2 = fresh(c, how)
                    if how == "requantize":
                        requantize(m2, src)
                    else:
                        m2.load_state_dict(src)
                    m2.eval()
                    out2 = [out_bits(m2(x)) for x in probes]
                    sd3 = m2.state_dict()
                    d3 = sd_digest(sd3)
                    t = {"ok": True, "outputs_equal": out2 == ref_out, "state_equal": d3 == ref, "diff": [k for k in list(dict.fromkeys(list(d3) + list(ref))) if d3.get(k) != ref.get(k)][:6],
                         "devices": sorted({str(p.device) for p in m2.parameters()} | {str(b.device) for b in m2.buffers()}),
                         "frozen": [bool(m.frozen) for m in m2.modules() if isinstance(m, QModuleMixin) and m.weight_qtype is not None]}
                    # a second cycle: save the reloaded model, load into another fresh one
                    if c.get("second_cycle"):
                        m3 = fresh(c, "same")
                        m3.load_state_dict(dict(sd3))
                        m3.eval()
                        t["second_outputs_equal"] = [out_bits(m3(x)) for x in probes] == ref_out
                        t["second_state_equal"] = sd_digest(m3.state_dict()) == ref
                    # a second checkpoint loaded into the SAME target: the first state_dict (and the model it came from) must not
                    # be written through - a load may share storage with what it was given, a later load must not modify it
                    if how == "same" and c.get("second_load", True):
                        first = loaded[sname]
                        d_first = sd_digest(first)
                        m4 = fresh(c, "same")
                        m4.load_state_dict(dict(first))
                        other = fresh(dict(c, seed=c["seed"] + 1234), "same")
                        if c["freeze"]:
                            freeze(other)
                        try:
                            m4.load_state_dict(other.state_dict())
                            t["first_state_dict_unchanged"] = sd_digest(first) == d_first
                            t["saved_model_unchanged"] = [out_bits(model(x)) for x in probes] == ref_out and sd_digest(model.state_dict()) == ref
                        except Exception as ex2:  # noqa: BLE001
                            t["second_load_exn"] = type(ex2).__name__ + ": " + str(ex2)[:120]
                    # the same TARGET OBJECT requantized twice: first from a checkpoint of another model in the opposite state
                    # (frozen <-> not frozen), then from the checkpoint under test - it must reproduce the saved model
                    if how == "requantize" and c.get("requantize_twice", True):
                        try:
                            other = fresh(dict(c, seed=c["seed"] + 4321), "same")
                            if not c["freeze"]:
                                freeze(other)
                            m5 = fresh(c, "none")
                            requantize(m5, dict(other.state_dict()))
                            m5.eval()
                            m5(probes[0])
                            requantize(m5, dict(loaded[sname]))
                            m5.eval()
                            t["requantize_twice_outputs_equal"] = [out_bits(m5(x)) for x in probes] == ref_out
                            t["requantize_twice_state_equal"] = sd_digest(m5.state_dict()) == ref
                        except Exception as ex5:  # noqa: BLE001
                            t["requantize_twice_exn"] = type(ex5).__name__ + ": " + str(ex5)[:160]
                    tg[key] = t
                except Exception as ex:  # noqa: BLE001
                    import traceback

                    tg[key] = {"ok": False, "exn": type(ex).__name__, "msg": str(ex)[:400], "tb": traceback.format_exc()[-400:]}
        res["targets"] = tg
        # ---- the loaders on their own: what the implementation rebuilds from the flattened keys of each frozen weight
        rebuilt = []
        for rec in res["meta"]:
            p = rec["prefix"]
            sub = {k: v for k, v in sd.items() if k.startswith(p)}
            try:
                if rec["cls"] == "QBytesTensor":
                    w = QBytesTensor.load_from_state_dict(dict(sub), p)
                else:
                    w = QBitsTensor.load_from_state_dict(dict(sub), p)
                r = {"prefix": p, "ok": True, "qtype": w.qtype.name, "axis": w.axis, "size": list(w.size()), "stride": list(w.stride())}
                if isinstance(w, QBitsTensor):
                    r["group_size"] = w._group_size
                    r["packed"] = {"bits": w._data._bits, "size": list(w._data.size()), "stride": list(w._data.stride())}
                rebuilt.append(r)
            except Exception as ex:  # noqa: BLE001
                rebuilt.append({"prefix": p, "ok": False, "exn": type(ex).__name__, "msg": str(ex)[:200]})
        res["rebuilt"] = rebuilt
    return res


def main():
    payload = json.loads(sys.stdin.read())
    if payload.get("prelude", True):
        import os as _os
        sys.path.insert(0, _os.path.dirname(_os.path.abspath(__file__)))
        from prelude import run_prelude
        run_prelude()
    out = []
    for c in payload["cases"]:
        try:
            out.append(run_case(c))
        except Exception as ex:  # noqa: BLE001
            import traceback

            out.append({"ok": False, "exn": type(ex).__name__, "msg": str(ex)[:300], "tb": traceback.format_exc()[-600:]})
    print("RESULT " + json.dumps(out))


main()
