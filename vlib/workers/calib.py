"""Implementation side of C12: runs calibration histories on real quantized models and logs, per
module and per batch, the batch range scale that each hook computed and the resulting running scales."""
import json
import sys
import warnings

warnings.filterwarnings("ignore")
import torch  # noqa: E402

import optimum.quanto as Q  # noqa: E402
import optimum.quanto.calibrate as C  # noqa: E402
from optimum.quanto import Calibration, quantize  # noqa: E402
from optimum.quanto.tensor import QBytesTensor  # noqa: E402

QT = {"qint8": Q.qint8, "qfloat8_e4m3fn": Q.qfloat8_e4m3fn, "qfloat8_e5m2": Q.qfloat8_e5m2}
DT = {"float32": torch.float32, "float16": torch.float16, "bfloat16": torch.bfloat16}
LOG = []
CUR = {"module": None, "kind": None}


def bits(t):
    t = t.detach().reshape(-1)[:1].contiguous()
    if t.dtype == torch.float32:
        return int(t.view(torch.int32)[0]) & 0xFFFFFFFF
    return int(t.view(torch.int16)[0]) & 0xFFFF


orig_absmax = C.absmax_scale


def logged_absmax(base, qtype=Q.qint8, axis=None):
    r = orig_absmax(base, qtype, axis)
    if CUR["module"] is not None and axis is None:
        LOG.append({"module": CUR["module"], "kind": CUR["kind"], "bits": bits(r), "dtype": str(r.dtype).replace("torch.", ""),
                    "absmax": float(base.detach().abs().max())})
    return r


C.absmax_scale = logged_absmax
orig_in, orig_out = Calibration.calibrate_input, Calibration.calibrate_output


def expect_hook(module, input):
    """the worker's OWN global forward pre-hook, registered around every calibration context before the context is entered (so it runs
    first, and whether or not the context registers its hooks): what this batch must contribute to the input scale of the module,
    computed from the tensor itself"""
    name = getattr(module, "name", None)
    if name is not None and input and not isinstance(input[0], QBytesTensor) and isinstance(input[0], torch.Tensor) and getattr(module, "activation_qtype", None) is not None:
        qt = module.activation_qtype
        qmax = float(torch.iinfo(qt.dtype).max) if not qt.is_floating_point else float(torch.finfo(qt.dtype).max)
        exp = torch.max(torch.abs(input[0].detach())) / qmax
        LOG.append({"module": name, "kind": "in_expected", "bits": bits(exp), "dtype": str(exp.dtype).replace("torch.", "")})


def wrap_in(self, module, input, *a, **k):
    name = getattr(module, "name", None)
    CUR.update(module=name, kind="in")
    if name is not None and isinstance(input[0], QBytesTensor) and getattr(module, "activation_qtype", None) is not None:
        LOG.append({"module": name, "kind": "in_quantized", "bits": bits(torch.max(input[0]._scale)), "dtype": str(input[0]._scale.dtype).replace("torch.", "")})
    try:
        return orig_in(self, module, input, *a, **k)
    finally:
        CUR.update(module=None, kind=None)


def wrap_out(self, module, input, output):
    CUR.update(module=getattr(module, "name", None), kind="out")
    try:
        return orig_out(self, module, input, output)
    finally:
        CUR.update(module=None, kind=None)


Calibration.calibrate_input = wrap_in
Calibration.calibrate_output = wrap_out


class Shared(torch.nn.Module):
    """a projection applied to a quantized activation and, in the same forward, to a float tensor"""

    def __init__(self, n):
        super().__init__()
        self.fc = torch.nn.Linear(n, n)
        self.proj = torch.nn.Linear(n, n)

    def forward(self, x):
        a = self.proj(self.fc(x))
        b = self.proj(x * 0.5)
        return a, b


def build(case, dtype):
    if case["layers"] == ["shared"]:
        return Shared(case["width"]).to(dtype)
    layers = []
    n = case["width"]
    for k in case["layers"]:
        if k == "linear":
            layers.append(torch.nn.Linear(n, n))
        elif k == "relu":
            layers.append(torch.nn.ReLU())
        elif k == "layernorm":
            layers.append(torch.nn.LayerNorm(n))
        elif k == "conv":
            layers.append(torch.nn.Conv2d(n, n, 1))
    return torch.nn.Sequential(*layers).to(dtype)


def main():
    payload = json.loads(sys.stdin.read())
    if payload.get("prelude", True):
        import os as _os
        sys.path.insert(0, _os.path.dirname(_os.path.abspath(__file__)))
        from prelude import run_prelude
        run_prelude()
    out = []
    for case in payload["cases"]:
        LOG.clear()
        try:
            torch.manual_seed(case["seed"])
            dtype = DT[case["dtype"]]
            model = build(case, dtype)
            quantize(model, weights=Q.qint8, activations=QT[case["activations"]])
            snaps = []
            gen = torch.Generator().manual_seed(case["seed"] + 1)
            shape = (2, case["width"], 2, 2) if "conv" in case["layers"] else (3, case["width"])
            ctxobj = None
            for ctx in case["contexts"]:
                # (reuse_ctx: ONE Calibration object entered again for every successive context)
                if case.get("reuse_ctx"):
                    ctxobj = ctxobj if ctxobj is not None else Calibration(momentum=case["momentum"], streamline=case.get("streamline", True))
                    cal = ctxobj
                else:
                    cal = Calibration(momentum=case["momentum"], streamline=case.get("streamline", True))
                own = torch.nn.modules.module.register_module_forward_pre_hook(expect_hook)
                with torch.no_grad(), cal:
                    for mag in ctx:
                        if mag == "sentinel":
                            x = torch.zeros(shape, dtype=dtype)
                            x.view(-1)[0] = float(torch.iinfo(torch.int8).max) if case["activations"] == "qint8" else float(torch.finfo(QT[case["activations"]].dtype).max)
                        else:
                            x = (torch.randn(shape, generator=gen) * mag).to(dtype)
                        if case.get("staging"):
                            # batches delivered through ONE reused buffer (a pinned / staging tensor overwritten in place for each batch)
                            if "_buf" not in case:
                                case["_buf"] = torch.empty(shape, dtype=dtype)
                            case["_buf"].copy_(x)
                            x = case["_buf"]
                        nlog = len(LOG)
                        model(x)
                        snap = {}
                        for name, m in model.named_modules():
                            if hasattr(m, "input_scale") and getattr(m, "name", None) is not None:
                                snap[m.name] = {"in": bits(m.input_scale), "out": bits(m.output_scale), "in_dtype": str(m.input_scale.dtype).replace("torch.", ""),
                                                "out_dtype": str(m.output_scale.dtype).replace("torch.", ""), "act": None if m.activation_qtype is None else m.activation_qtype.name}
                        snaps.append({"scales": snap, "log": LOG[nlog:]})
                own.remove()
            out.append({"ok": True, "snaps": snaps})
        except Exception as ex:  # noqa: BLE001
            import traceback

            out.append({"ok": False, "exn": type(ex).__name__, "msg": str(ex)[:300], "tb": traceback.format_exc()[-600:]})
    print("RESULT " + json.dumps(out))


main()
