"""Implementation side of C06 for the SOURCES of quantized tensors other than op programs: quantization (all qtypes,
axes, shapes with size-1 axes) followed by rank-changing ops, freezing, and deserialization into unfrozen / frozen
targets of the same or another float dtype.  Every quantized tensor met is described by qops.meta_of."""
import copy
import json
import os
import sys
import warnings

warnings.filterwarnings("ignore")
sys.argv = sys.argv[:1]
import torch  # noqa: E402

sys.path.insert(0, os.path.dirname(os.path.abspath(__file__)))
import optimum.quanto as Q  # noqa: E402
from optimum.quanto import freeze, quantize, quantize_weight  # noqa: E402
from optimum.quanto.tensor import QTensor  # noqa: E402

DT = {"float32": torch.float32, "float16": torch.float16, "bfloat16": torch.bfloat16}
QT = {"qint8": Q.qint8, "qfloat8_e4m3fn": Q.qfloat8_e4m3fn, "qfloat8_e5m2": Q.qfloat8_e5m2, "qint4": Q.qint4, "qint2": Q.qint2}


def load_meta_of():
    # qops.py runs its main() on import: take only its function
    import ast
    import types
    src = open(os.path.join(os.path.dirname(os.path.abspath(__file__)), "qops.py")).read()
    tree = ast.parse(src)
    tree.body = [n for n in tree.body if not (isinstance(n, ast.Expr) and isinstance(n.value, ast.Call) and getattr(n.value.func, "id", "") == "main")]
    mod = types.ModuleType("qops_lib")
    exec(compile(tree, "qops.py", "exec"), mod.__dict__)
    return mod.meta_of


meta_of = load_meta_of()


def weights_case(c, out):
    gen = torch.Generator().manual_seed(c["seed"])
    w = torch.randn(c["shape"], generator=gen).to(DT[c["dtype"]])
    try:
        q = quantize_weight(w, QT[c["qtype"]], c["axis"], c.get("group_size"))
    except Exception as ex:  # noqa: BLE001
        out.append({"what": "quantize_weight", "case": c, "raised": type(ex).__name__})
        return
    out.append({"what": "quantize_weight", "case": c, "meta": meta_of(q)})
    if not isinstance(q, QTensor):
        return
    for name, f in (("view(-1)", lambda t: t.view(-1)), ("reshape(-1)", lambda t: t.reshape(-1)), ("select(0,0)", lambda t: t.select(0, 0)), ("[0]", lambda t: t[0]),
                    ("flatten", lambda t: t.flatten()), ("t", lambda t: t.t() if t.ndim == 2 else t), ("unsqueeze(0)", lambda t: t.unsqueeze(0)),
                    ("select then unsqueeze", lambda t: t.select(0, 0).unsqueeze(0))):
        try:
            r = f(q)
            ref = f(q.dequantize())
        except Exception as ex:  # noqa: BLE001
            out.append({"what": "op " + name, "case": c, "raised": type(ex).__name__})
            continue
        m = meta_of(r)
        m["ref_shape"] = list(ref.shape)
        out.append({"what": "op " + name, "case": c, "meta": m})


def model_of(c, dtype):
    torch.manual_seed(c["seed"])
    m = torch.nn.Sequential(torch.nn.Linear(c["in"], 8), torch.nn.ReLU(), torch.nn.Linear(8, 4)).to(DT[dtype])
    return m


def reload_case(c, out):
    src = model_of(c, c["dtype"])
    quantize(src, weights=QT[c["weights"]])
    if c["src_frozen"]:
        freeze(src)
    for name, mod in src.named_modules():
        if hasattr(mod, "weight") and isinstance(mod.weight, QTensor):
            out.append({"what": "freeze", "case": c, "module": name, "meta": meta_of(mod.weight)})
    sd = src.state_dict()
    tgt = model_of(dict(c, seed=c["seed"] + 1), c["target_dtype"])
    quantize(tgt, weights=QT[c["weights"]])
    if c["target_frozen"]:
        freeze(tgt)
    try:
        tgt.load_state_dict(copy.deepcopy(sd), assign=c.get("assign", False))
    except Exception as ex:  # noqa: BLE001
        out.append({"what": "load_state_dict", "case": c, "raised": type(ex).__name__ + ": " + str(ex)[:100]})
        return
    for name, mod in tgt.named_modules():
        w = getattr(mod, "weight", None)
        if isinstance(w, QTensor):
            m = meta_of(w)
            sw = dict(src.named_modules())[name].weight
            if isinstance(sw, QTensor):
                m["codes_equal_saved"] = bool(torch.equal(w._data if not hasattr(w._data, "_data") else w._data._data, sw._data if not hasattr(sw._data, "_data") else sw._data._data))
                m["scale_equal_saved"] = bool(torch.equal(w._scale.double(), sw._scale.double()))
            out.append({"what": "load_state_dict into " + ("frozen" if c["target_frozen"] else "unfrozen") + " target", "case": c, "module": name, "meta": m})


def main():
    payload = json.loads(sys.stdin.read())
    if payload.get("prelude", True):
        import os as _os
        sys.path.insert(0, _os.path.dirname(_os.path.abspath(__file__)))
        from prelude import run_prelude
        run_prelude()
    out = []
    for c in payload["weights"]:
        weights_case(c, out)
    for c in payload["reload"]:
        try:
            reload_case(c, out)
        except Exception as ex:  # noqa: BLE001
            out.append({"what": "reload", "case": c, "raised": type(ex).__name__ + ": " + str(ex)[:160]})
    print("RESULT " + json.dumps(out))


main()
