"""Implementation side of C15: the AWQ packers / unpackers and the optimised int4 tensor, executed on the CPU.
The device assertions (`assert x.device.type == "cuda"`) are removed at AST level from a private copy of the two
modules; nothing else is changed.  The reference packer is imported from /repo/external/awq."""
import ast
import importlib.util
import json
import os
import sys
import types
import warnings

warnings.filterwarnings("ignore")
import torch  # noqa: E402

import optimum.quanto  # noqa: E402,F401
from optimum.quanto import qint4, quantize_weight  # noqa: E402
from optimum.quanto.tensor.qbits import QBitsTensor  # noqa: E402

REPO = os.environ.get("VERIF_REPO", "/repo")


class DropCudaAsserts(ast.NodeTransformer):
    dropped = 0

    def visit_Assert(self, node):
        if "cuda" in ast.unparse(node.test):
            DropCudaAsserts.dropped += 1
            return ast.Pass()
        return node


def load_patched(modname, path):
    tree = DropCudaAsserts().visit(ast.parse(open(path).read()))
    ast.fix_missing_locations(tree)
    mod = types.ModuleType(modname)
    mod.__package__ = modname.rpartition(".")[0]
    mod.__file__ = path
    sys.modules[modname] = mod
    exec(compile(tree, path, "exec"), mod.__dict__)
    return mod


base = os.path.join(REPO, "optimum/quanto/tensor/qbits/awq")
packed = load_patched("optimum.quanto.tensor.qbits.awq.packed", os.path.join(base, "packed.py"))
qbits = load_patched("optimum.quanto.tensor.qbits.awq.qbits", os.path.join(base, "qbits.py"))
spec = importlib.util.spec_from_file_location("pack_intweight_ref", os.path.join(REPO, "external/awq/pack_intweight.py"))
refmod = importlib.util.module_from_spec(spec)
spec.loader.exec_module(refmod)


def flat(t):
    return [int(v) for v in t.contiguous().reshape(-1).tolist()]


def tens(t):
    return {"shape": list(t.shape), "data": flat(t), "dtype": str(t.dtype)}


def layout_case(c):
    gen = torch.Generator().manual_seed(c["seed"])
    N, K = c["N"], c["K"]
    if c.get("pattern") == "iota":
        t = (torch.arange(N * K) % 16).reshape(N, K).to(torch.uint8)
    elif c.get("pattern") == "max":
        t = torch.full((N, K), 15, dtype=torch.uint8)
    else:
        t = torch.randint(0, 16, (N, K), generator=gen, dtype=torch.uint8)
    r = {"ok": True, "t": tens(t)}
    # the packers must accept the 4-bit matrix in any integer dtype (the reference packers are fed int32), must not
    # modify it, and must return a tensor of their own (no aliasing of the argument)
    pure = {}
    for dt in (torch.uint8, torch.int32, torch.int64, torch.int16):
        x = t.to(dt)
        keep = x.clone()
        fns = [("pack", lambda a: packed.pack(a, reorder=False), lambda q: packed.unpack(q, reorder=False)),
               ("pack_reorder", lambda a: packed.pack(a, reorder=True), lambda q: packed.unpack(q, reorder=True))]
        if N % 4 == 0 and K % 64 == 0:
            fns.append(("pack_v2", packed.pack_v2, packed.unpack_v2))
        for name, f, g in fns:
            try:
                q = f(x)
                ok = bool(torch.equal(x, keep)) and bool(torch.equal(g(q).to(torch.int64), keep.to(torch.int64)))
                alias = q.untyped_storage().data_ptr() == x.untyped_storage().data_ptr()
                pure[f"{name}/{str(dt)[6:]}"] = "ok" if ok and not alias else ("input modified or round trip differs" if not ok else "result aliases the input")
            except Exception as ex:  # noqa: BLE001
                pure[f"{name}/{str(dt)[6:]}"] = "raised " + type(ex).__name__
            x = keep.clone()
    # non-contiguous code matrices (a transposed view of the same values) through the tensor subclass: unpack must return t
    lay = {}
    tv = t.t().contiguous().t()
    for name, kw in (("V1", {"packing": packed.AWQPacking.V1, "reorder": False}), ("V1r", {"packing": packed.AWQPacking.V1, "reorder": True}), ("V2", {"packing": packed.AWQPacking.V2})):
        if name == "V2" and not (N % 4 == 0 and K % 64 == 0):
            continue
        try:
            pt_ = packed.AWQPackedTensor.pack(tv, **kw)
            un = pt_.unpack()
            lay[name] = "ok" if list(un.shape) == [N, K] and bool(torch.equal(un.contiguous(), t)) else "unpack(pack(t)) differs from t"
            if lay[name] == "ok":
                # a history on the packed object: detach() (twice) re-wraps the payload - the copy denotes the same codes
                d_ = pt_.detach().detach()
                un2 = d_.unpack()
                if type(d_) is not type(pt_) or list(un2.shape) != [N, K] or not bool(torch.equal(un2.contiguous(), t)):
                    lay[name] = "unpack() after detach() differs from t (the re-wrapped tensor does not denote the same codes)"
        except Exception as ex:  # noqa: BLE001
            lay[name] = "raised " + type(ex).__name__
    r["transposed_view"] = lay
    r["pure"] = pure
    p1 = packed.pack(t, reorder=False)
    p1r = packed.pack(t, reorder=True)
    r["p1"], r["p1r"] = tens(p1), tens(p1r)
    r["u1"] = tens(packed.unpack(p1, reorder=False))
    r["u1r"] = tens(packed.unpack(p1r, reorder=True))
    r["u1_cross"] = bool(torch.equal(packed.unpack(p1r, reorder=False), t)) if K >= 8 else None
    if N % 4 == 0 and K % 64 == 0:
        p2 = packed.pack_v2(t)
        r["p2"] = tens(p2)
        r["u2"] = tens(packed.unpack_v2(p2))
        r["ref"] = tens(refmod.pack_intweight(t.to(torch.int32), interleave=4, kstride=64))
        # through the tensor subclass
        try:
            pt = packed.AWQPackedTensor.pack(t, packing=packed.AWQPacking.V2)
            r["cls_v2"] = {"data_equal": bool(torch.equal(pt._data, p2)), "unpack_equal": bool(torch.equal(pt.unpack(), t)), "size": list(pt.size()), "dtype": str(pt.dtype)}
            pt1 = packed.AWQPackedTensor.pack(t, packing=packed.AWQPacking.V1, reorder=True)
            r["cls_v1"] = {"data_equal": bool(torch.equal(pt1._data, p1r)), "unpack_equal": bool(torch.equal(pt1.unpack(), t))}
        except Exception as ex:  # noqa: BLE001
            r["cls_exn"] = type(ex).__name__ + ": " + str(ex)[:200]
    return r


def repr_case(c):
    """the optimised representation against the standard one built from the same codes / scales / zero-points"""
    gen = torch.Generator().manual_seed(c["seed"])
    out_f, in_f = c["out"], c["in"]
    w = (torch.randn(out_f, in_f, generator=gen) * c.get("std", 1.0) + c.get("mean", 0.0)).to(torch.float16)
    # degenerate groups (pruned / padded blocks): all-zero, constant, tiny
    for kind, (row, g) in c.get("degenerate", []):
        row, g = row % out_f, g % (in_f // 128)
        blk = {"zero": 0.0, "const": 0.75, "tiny": 1e-7}[kind]
        w[row, g * 128:(g + 1) * 128] = blk
    std = quantize_weight(w, qint4, axis=0, group_size=128)
    assert type(std) is QBitsTensor
    codes = std._data.unpack()
    r = {"ok": True, "std_shapes": {"codes": list(codes.shape), "scale": list(std._scale.shape), "zeropoint": list(std._zeropoint.shape)}}
    awq = qbits.AWQBitsTensor(std.qtype, std.axis, std._group_size, std.size(), std.stride(), codes, std._scale, std._zeropoint)
    d_std = std.dequantize().double()
    d_awq = awq.dequantize().double()
    s = std._scale.double()
    z = std._zeropoint.double()
    # magnitude of the two products the optimised path rounds: scale*code and scale*zeropoint, per element
    from optimum.quanto.tensor.qbits.group import ungroup
    mag = ungroup((s * codes.double()).abs() + (s * z).abs(), axis=0, orig_shape=std.shape)
    u = 2.0 ** -11
    err = (d_awq - d_std).abs()
    r["deq_finite"] = bool(torch.isfinite(d_awq).all()) and bool(torch.isfinite(d_std).all())
    err = torch.where(torch.isfinite(err), err, torch.full_like(err, float("inf")))
    r["deq_ratio"] = float((err / (2 * u * mag + 2.0 ** -24)).max())
    r["deq_worst"] = {"err": float(err.max()), "mag": float(mag.max())}
    r["awq_dtype"] = str(awq.dtype)
    r["awq_data_is_v2"] = bool(torch.equal(awq._data._data, packed.pack_v2(ungroup(codes, axis=0, orig_shape=std.shape))))
    # rebuilding the optimised tensor from its flattened form (what torch.compile and subclass-aware (de)serialization do):
    # same class, same dequantized values
    try:
        names, meta = awq.__tensor_flatten__()
        inner = {n_: getattr(awq, n_) for n_ in names}
        rebuilt = type(awq).__tensor_unflatten__(inner, meta, None, None)
        d_re = rebuilt.dequantize().double()
        r["unflatten"] = {"cls": type(rebuilt).__name__, "deq_equal": list(d_re.shape) == list(d_awq.shape) and bool(torch.equal(d_re, d_awq))}
    except Exception as ex:  # noqa: BLE001
        r["unflatten"] = {"exn": type(ex).__name__ + ": " + str(ex)[:160]}
    # serialization must go through the standard representation
    try:
        dest = {}
        awq.save_to_state_dict(dest, "w.", False)
        pl = dest.get("w._data._data")
        r["saved"] = {"keys": sorted(dest.keys()), "payload_dtype": None if pl is None else str(pl.dtype), "standard_meta": all(k in dest for k in ("w._data.bits", "w._data.size", "w._data.stride")),
                      "scale_equal": "w._scale" in dest and list(dest["w._scale"].shape) == list(std._scale.shape) and bool(torch.equal(dest["w._scale"], std._scale)),
                      "all_plain": all(isinstance(v, str) or type(v) is torch.Tensor for v in dest.values())}
    except Exception as ex:  # noqa: BLE001
        r["saved"] = {"exn": type(ex).__name__ + ": " + str(ex)[:200]}
    # back conversion (serialization / leaving the GPU)
    try:
        back = awq.qbits_tensor()
        bcodes = back._data.unpack()
        r["back"] = {"cls": type(back).__name__, "codes_shape": list(bcodes.shape), "codes_equal": list(bcodes.shape) == list(codes.shape) and bool(torch.equal(bcodes, codes)),
                     "scale_equal": list(back._scale.shape) == list(std._scale.shape) and bool(torch.equal(back._scale, std._scale)),
                     "zeropoint_equal": list(back._zeropoint.shape) == list(std._zeropoint.shape) and back._zeropoint.dtype == std._zeropoint.dtype and bool(torch.equal(back._zeropoint, std._zeropoint)),
                     "zeropoint_dtype": str(back._zeropoint.dtype), "orig_zeropoint_dtype": str(std._zeropoint.dtype)}
        try:
            db = back.dequantize().double()
            r["back"]["deq_equal"] = list(db.shape) == list(d_std.shape) and bool(torch.equal(db, d_std))
        except Exception as ex:  # noqa: BLE001
            r["back"]["deq_exn"] = type(ex).__name__ + ": " + str(ex)[:160]
    except Exception as ex:  # noqa: BLE001
        r["back"] = {"exn": type(ex).__name__ + ": " + str(ex)[:200]}
    return r


def main():
    payload = json.loads(sys.stdin.read())
    out = {"layout": [], "repr": [], "dropped_asserts": DropCudaAsserts.dropped}
    for c in payload.get("layout", []):
        try:
            out["layout"].append(layout_case(c))
        except Exception as ex:  # noqa: BLE001
            import traceback

            out["layout"].append({"ok": False, "exn": type(ex).__name__, "msg": str(ex)[:300], "tb": traceback.format_exc()[-500:]})
    for c in payload.get("repr", []):
        try:
            out["repr"].append(repr_case(c))
        except Exception as ex:  # noqa: BLE001
            import traceback

            out["repr"].append({"ok": False, "exn": type(ex).__name__, "msg": str(ex)[:300], "tb": traceback.format_exc()[-500:]})
    print("RESULT " + json.dumps(out))


main()
