"""Implementation side of C09: life-cycle histories (forward / calibrate / freeze / freeze again / to / deepcopy /
state_dict) on quantized models; outputs are compared bit for bit, storage is measured."""
import copy
import json
import os
import sys
import warnings

warnings.filterwarnings("ignore")
sys.path.insert(0, os.path.dirname(os.path.abspath(__file__)))
import torch  # noqa: E402
from modlib import make_optimizer, DT, QT, QBytesTensor, QModuleMixin, QTensor, bits, build, deq  # noqa: E402

from optimum.quanto import Calibration, freeze, quantize  # noqa: E402
from optimum.quanto.tensor.qbits import QBitsTensor  # noqa: E402


def out_bits(y):
    if isinstance(y, QTensor):
        return {"q": True, "qtype": y.qtype.name, "data": bits(y._data.view(torch.uint8) if y._data.dtype != torch.int8 else y._data), "scale": bits(y._scale), "deq": bits(y.dequantize())}
    return {"q": False, "deq": bits(y), "finite": bool(torch.isfinite(y).all())}


def inner(t):
    """raw storage of a quantized weight"""
    d = {"cls": type(t).__name__, "qtype": t.qtype.name, "axis": t.axis, "shape": list(t.shape)}
    data = t._data
    if isinstance(t, QBitsTensor):
        d["group_size"] = t._group_size
        d["packed_cls"] = type(data).__name__
        d["payload_bytes"] = data._data.numel() * data._data.element_size()
        d["payload_storage_bytes"] = data._data.untyped_storage().nbytes()
        d["payload_dtype"] = str(data._data.dtype)
        d["unpacked_shape"] = list(data.shape)
        d["payload_bits"] = bits(data._data)
        d["zp_numel"] = t._zeropoint.numel()
        d["zp_bits"] = bits(t._zeropoint)
    else:
        d["payload_bytes"] = data.numel() * data.element_size()
        d["payload_storage_bytes"] = data.untyped_storage().nbytes()
        d["payload_dtype"] = str(data.dtype)
        d["unpacked_shape"] = list(data.shape)
        d["payload_bits"] = bits(data.view(torch.uint8) if data.dtype != torch.int8 else data)
    d["scale_numel"] = t._scale.numel()
    d["scale_dtype"] = str(t._scale.dtype)
    d["scale_bits"] = bits(t._scale)
    return d


def snapshot(model):
    """every tensor of the model, bit for bit, by dotted name"""
    s = {}
    for n, m in model.named_modules():
        for pn, p in m.named_parameters(recurse=False):
            key = (n + "." if n else "") + pn
            if isinstance(p.data, QTensor):
                s[key] = {"quantized": inner(p.data), "requires_grad": p.requires_grad}
            else:
                s[key] = {"bits": bits(p), "dtype": str(p.dtype), "shape": list(p.shape), "requires_grad": p.requires_grad}
        for bn, b in m.named_buffers(recurse=False):
            s[(n + "." if n else "") + bn] = {"bits": bits(b), "dtype": str(b.dtype), "shape": list(b.shape)}
        if isinstance(m, QModuleMixin):
            s[(n + "." if n else "") + "<meta>"] = {"frozen": m.frozen, "weight_qtype": None if m.weight_qtype is None else m.weight_qtype.name,
                                                    "activation_qtype": None if m.activation_qtype is None else m.activation_qtype.name, "group_size": m.weight_group_size,
                                                    "float_weight_shape": list(m.weight.shape) if m.weight is not None else None, "cls": type(m).__name__}
    return s


def run_case(c):
    torch.manual_seed(c["seed"])
    gen = torch.Generator().manual_seed(c["seed"] + 1)
    dtype = DT[c["dtype"]]
    model = build(c["tree"]).to(dtype).eval()
    quantize(model, weights=QT[c["weights"]], activations=QT[c["activations"]], **({"optimizer": make_optimizer(c["optimizer"], c["weights"])} if c.get("optimizer") else {}))
    probes = [(torch.randn(*c["input"], generator=gen) * s).to(dtype) for s in (1.0, 3.0)]
    log = []
    if c.get("qinput"):
        # a third probe that is ALREADY quantized (what an upstream quantized module, or the caller, hands over); dropped when the
        # model does not accept it in its initial state
        try:
            from optimum.quanto import absmax_scale, quantize_activation
            qp = quantize_activation(probes[0], QT[c["qinput"]], absmax_scale(probes[0], QT[c["qinput"]]))
            with torch.no_grad():
                model(qp)
            probes.append(qp)
        except Exception:  # noqa: BLE001
            pass
    with torch.no_grad():
        init_out = [out_bits(model(x)) for x in probes]
        for step in c["history"]:
            ev = {"op": step}
            try:
                if step == "forward":
                    ev["out"] = [out_bits(model(x)) for x in probes]
                elif step == "calibrate":
                    with Calibration(streamline=False):
                        model((torch.randn(*c["input"], generator=gen) * 2).to(probes[0].dtype))
                    ev["out"] = [out_bits(model(x)) for x in probes]
                elif step == "freeze":
                    before = [out_bits(model(x)) for x in probes]
                    snap_before = snapshot(model)
                    freeze(model)
                    ev["before"] = before
                    ev["after"] = [out_bits(model(x)) for x in probes]
                    ev["snap_before"] = snap_before
                    ev["snap_after"] = snapshot(model)
                    ev["dtype"] = str(probes[0].dtype).replace("torch.", "")
                elif step == "to_cpu":
                    before = [out_bits(model(x)) for x in probes]
                    model = model.to("cpu")
                    ev["before"], ev["after"] = before, [out_bits(model(x)) for x in probes]
                elif step == "to_device_obj":
                    before = [out_bits(model(x)) for x in probes]
                    model = model.to(torch.device("cpu"), non_blocking=True)
                    ev["before"], ev["after"] = before, [out_bits(model(x)) for x in probes]
                elif step == "to_dtype":
                    # conversion of the whole model to another float dtype (Module.to keeps the Parameter objects and their version
                    # counters): outputs may change, but the model must keep re-quantizing from its current weights
                    order = [torch.float32, torch.float16, torch.bfloat16, torch.float64]
                    cur = probes[0].dtype
                    new = order[(order.index(cur) + 1 + (c["seed"] % 2)) % 3] if cur in order[:3] else torch.float32
                    model = model.to(new)
                    probes = [p_.to(new) for p_ in probes]
                    ev["out"] = [out_bits(model(x)) for x in probes]
                elif step == "deepcopy":
                    before = [out_bits(model(x)) for x in probes]
                    snap_before = snapshot(model)
                    model = copy.deepcopy(model)
                    ev["before"], ev["after"] = before, [out_bits(model(x)) for x in probes]
                    ev["snap_before"], ev["snap_after"] = snap_before, snapshot(model)
                elif step == "state_dict_reload":
                    before = [out_bits(model(x)) for x in probes]
                    sd = model.state_dict()
                    model.load_state_dict(sd)
                    ev["before"], ev["after"] = before, [out_bits(model(x)) for x in probes]
                else:
                    raise ValueError(step)
            except Exception as ex:  # noqa: BLE001
                import traceback

                ev["exn"] = type(ex).__name__
                ev["msg"] = str(ex)[:300]
                ev["tb"] = traceback.format_exc()[-500:]
                log.append(ev)
                break
            log.append(ev)
    return {"ok": True, "log": log, "final": snapshot(model), "init_out": init_out}


def main():
    payload = json.loads(sys.stdin.read())
    if payload.get("prelude", True):
        import os as _os
        sys.path.insert(0, _os.path.dirname(_os.path.abspath(__file__)))
        from prelude import run_prelude
        run_prelude()
    out = []
    for c in payload["cases"]:
        try:
            out.append(run_case(c))
        except Exception as ex:  # noqa: BLE001
            import traceback

            out.append({"ok": False, "exn": type(ex).__name__, "msg": str(ex)[:300], "tb": traceback.format_exc()[-600:]})
    print("RESULT " + json.dumps(out))


main()
