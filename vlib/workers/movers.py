"""Implementation side of the C05 / C06 mover correspondence: programs of data-movement ops run by torch on an integer
tensor (the payload of a per-tensor quantized tensor is such a tensor; the ops are forwarded to it unchanged) and on
a real QBytesTensor, whose payload after the program must be the same.  Output per program: the resulting shape and
flat data, or 'err' when torch raises."""
import json
import sys
import warnings

warnings.filterwarnings("ignore")
import torch  # noqa: E402

from optimum.quanto import qint8  # noqa: E402
from optimum.quanto.tensor.qbytes import QBytesTensor  # noqa: E402


def apply(t, op):
    k = op["op"]
    if k == "reshape":
        return t.reshape(op["shape"])
    if k == "view":
        return t.view(op["shape"])
    if k == "permute":
        return t.permute(op["perm"])
    if k == "transpose":
        return t.transpose(op["a"], op["b"])
    if k == "slice0":
        return t[op["start"]:op["stop"]]
    if k == "select0":
        return t.select(0, op["i"])
    if k == "unsqueeze0":
        return t.unsqueeze(0)
    if k == "expand":
        return t.expand(op["shape"])
    raise ValueError(k)


def main():
    payload = json.loads(sys.stdin.read())
    if payload.get("prelude", True):
        import os as _os
        sys.path.insert(0, _os.path.dirname(_os.path.abspath(__file__)))
        from prelude import run_prelude
        run_prelude()
    out = []
    for c in payload["cases"]:
        n = 1
        for d in c["shape"]:
            n *= d
        base = (torch.arange(n) % 251 - 125).to(torch.int8).reshape(c["shape"])
        r = {}
        try:
            t = base
            for op in c["ops"]:
                t = apply(t, op)
            t = t.contiguous()
            r["plain"] = {"shape": list(t.shape), "data": [int(v) for v in t.reshape(-1).tolist()]}
        except Exception as ex:  # noqa: BLE001
            r["plain"] = "err"
            r["plain_exn"] = type(ex).__name__
        # the same program on a per-tensor quantized tensor holding these codes
        try:
            q = QBytesTensor(qint8, None, base.size(), base.stride(), base.clone(), torch.tensor(0.5))
            for op in c["ops"]:
                q = apply(q, op)
            if isinstance(q, QBytesTensor):
                d = q._data.contiguous()
                r["quant"] = {"shape": list(d.shape), "data": [int(v) for v in d.reshape(-1).tolist()], "size": list(q.shape)}
            else:
                r["quant"] = "float"
        except Exception as ex:  # noqa: BLE001
            r["quant"] = "err"
            r["quant_exn"] = type(ex).__name__
        out.append(r)
    print("RESULT " + json.dumps(out))


main()
