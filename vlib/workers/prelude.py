"""A history before the measurements of a worker: the library has already been used in this process for its usual flow
(quantize a model with quantized activations, calibrate it, run it, freeze it, run it, save / reload its state_dict).
Nothing of that may change what is measured afterwards (process-wide float modes, caches keyed by object identity,
registries, default dtypes): every check is made in this *used* process.  A failure of the flow itself is another
property's matter and is ignored here."""
import copy
import warnings


def run_prelude():
    try:
        with warnings.catch_warnings():
            warnings.simplefilter("ignore")
            import torch
            import optimum.quanto as Q
            from optimum.quanto import Calibration, freeze, quantize

            state = torch.random.get_rng_state()
            torch.manual_seed(0)
            m = torch.nn.Sequential(torch.nn.Linear(8, 8), torch.nn.ReLU(), torch.nn.Linear(8, 4))
            quantize(m, weights=Q.qint8, activations=Q.qint8)
            with torch.no_grad(), Calibration():
                m(torch.randn(2, 8))
            with torch.no_grad():
                m(torch.randn(2, 8))
            freeze(m)
            with torch.no_grad():
                m(torch.randn(2, 8))
            sd = copy.deepcopy(m.state_dict())
            m2 = torch.nn.Sequential(torch.nn.Linear(8, 8), torch.nn.ReLU(), torch.nn.Linear(8, 4))
            quantize(m2, weights=Q.qint8, activations=Q.qint8)
            m2.load_state_dict(sd)
            m4 = torch.nn.Sequential(torch.nn.Linear(128, 4))
            quantize(m4, weights=Q.qint4)
            with torch.no_grad():
                m4(torch.randn(2, 128))
            freeze(m4)
            torch.random.set_rng_state(state)
    except Exception:  # noqa: BLE001
        pass
