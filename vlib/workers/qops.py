"""Implementation side of C05 / C06: runs programs of tensor operations on quantized tensors and, after
every step, reports (a) the comparison with the same operation on the dequantized operands and (b) the
metadata the result reports vs. what it holds."""
import hashlib
import json
import sys
import traceback
import warnings

warnings.filterwarnings("ignore")
import torch  # noqa: E402
import torch.nn.functional as Fn  # noqa: E402

import optimum.quanto as Q  # noqa: E402
from optimum.quanto import absmax_scale, quantize_activation, quantize_weight  # noqa: E402
from optimum.quanto.tensor import QTensor  # noqa: E402
from optimum.quanto.tensor.qbits import QBitsTensor  # noqa: E402
from optimum.quanto.tensor.qbytes import QBytesTensor  # noqa: E402

DT = {"float32": torch.float32, "float16": torch.float16, "bfloat16": torch.bfloat16}
QT = {"qint8": Q.qint8, "qfloat8_e4m3fn": Q.qfloat8_e4m3fn, "qfloat8_e5m2": Q.qfloat8_e5m2, "qint4": Q.qint4, "qint2": Q.qint2}


def dig(t):
    t = t.detach().cpu().contiguous()
    return hashlib.sha1(t.reshape(-1).view(torch.uint8).numpy().tobytes() if t.numel() else b"").hexdigest()[:12]


def deq(x):
    if isinstance(x, QTensor):
        try:
            return x.dequantize()
        except Exception:  # noqa: BLE001
            return torch.full(tuple(x.shape), float("nan"))
    if isinstance(x, (list, tuple)):
        return type(x)(deq(v) for v in x)
    return x


def make(spec, gen):
    kind = spec["kind"]
    dtype = DT[spec.get("dtype", "float32")]
    if kind == "scalar":
        return spec["value"]
    shape = spec["shape"]
    base = (torch.randn(shape, generator=gen) * spec.get("mag", 1.0)).to(dtype)
    if spec.get("rowshift"):
        # every other row (along the first dimension) sits far below the tensor maximum
        base[1::2] = base[1::2] - spec["rowshift"]
    if spec.get("saturate"):
        base.view(-1)[0] = base.abs().max() * 4
    if spec.get("zeros"):
        # signed zeros and values that underflow to +-0 in the 8-bit type: half of the elements, alternating signs
        flat = base.view(-1)
        tiny = torch.tensor([0.0, -0.0, 1e-9, -1e-9], dtype=dtype)
        off = int(spec["zeros"])
        for i in range(0, flat.numel(), 2):
            flat[i] = tiny[(i // 2 + off) % 4]
    if kind == "plain":
        return base
    if kind == "bool":
        return torch.rand(shape, generator=gen) > 0.5
    if kind == "qact":  # per-tensor activation
        qt = QT[spec["qtype"]]
        s = absmax_scale(base, qt) if not spec.get("scale") else torch.tensor(spec["scale"], dtype=dtype)
        if spec.get("tight"):
            s = s / 3  # forces saturated codes (+-127 / -128)
        return quantize_activation(base, qt, s)
    if kind == "qweight":  # per-axis 8-bit, or int2/int4 packed
        return quantize_weight(base, QT[spec["qtype"]], spec.get("axis", 0), spec.get("group_size"))
    raise KeyError(kind)


def _to_then_overwrite(x, dt, z):
    x1 = x.clone()
    y = x1.to(dt)
    x1.copy_(z)
    return y


def _clone_then_overwrite(x, z):
    x1 = x.clone()
    y = x1.detach().clone()
    x1.copy_(z)
    return y


def _copy_q(dst, src):
    d = dst.clone()
    d.copy_(src)
    return d


OPS = {
    # name: (class, function on (args...))
    # in-place copy between two quantized tensors (possibly quantized along different axes): the destination then holds the
    # source's values, and what it reports (axis, scale shape) matches what it holds
    "copy_q": ("copy", lambda dst, src: _copy_q(dst, src)),
    "view_flat": ("move", lambda x: x.view(-1)),
    "reshape": ("move", lambda x, sh: x.reshape(sh)),
    "transpose01": ("move", lambda x: x.transpose(0, 1)),
    "t": ("move", lambda x: x.t()),
    "permute_rev": ("move", lambda x: x.permute(*reversed(range(x.ndim)))),
    "select0": ("move", lambda x, i: x.select(0, i)),
    "index0": ("move", lambda x, i: x[i]),
    "index1d": ("move", lambda x, i: x[i]),  # on a 1-D tensor: a 0-dim (quantized) tensor
    "transpose_dd": ("move", lambda x, d: x.transpose(d, d)),  # both dims name the same dimension: the identity
    "slice": ("move", lambda x, a, b: x[a:b]),
    "slice_last": ("move", lambda x, a, b: x[..., a:b]),
    "expand": ("move", lambda x, n: x.unsqueeze(0).expand(n, *x.shape)),
    "unsqueeze": ("move", lambda x, d: x.unsqueeze(d)),
    "clone": ("move", lambda x: x.clone()),
    "detach": ("move", lambda x: x.detach()),
    "contiguous": ("move", lambda x: x.contiguous()),
    "to_cpu": ("move", lambda x: x.to("cpu")),
    "to_dtype": ("dtype", lambda x, dt: x.to(DT[dt])),
    # a history: convert a private copy to another dtype, overwrite the copy in place (copy_ is the one intercepted op that
    # writes), then read the converted tensor: it must still hold the values it had (torch's .to(other dtype) never aliases)
    "to_dtype_then_overwrite": ("dtype", lambda x, dt, z: _to_then_overwrite(x, DT[dt], z)),
    "clone_then_overwrite": ("move", lambda x, z: _clone_then_overwrite(x, z)),
    "cat_self": ("move", lambda x: torch.cat([x, x])),
    "cat2": ("move", lambda x, y: torch.cat([x, y])),
    "stack_self": ("move", lambda x: torch.stack([x, x])),
    "stack3": ("move", lambda x: torch.stack([x, x, x])),
    "stack2": ("move", lambda x, y: torch.stack([x, y])),
    "split": ("move_list", lambda x, n: list(torch.split(x, n))),
    "chunk": ("move_list", lambda x, n: list(torch.chunk(x, n))),
    "pick": ("move", lambda xs, i: xs[i % len(xs)]),
    "mul_scalar": ("rescale", lambda x, k: x * k),
    "rmul_scalar": ("rescale", lambda x, k: k * x),
    "div_scalar": ("rescale", lambda x, k: x / k),
    "mul_1elem": ("passthrough_or_rescale", lambda x, r: x * torch.full([1] * r, 0.5, dtype=x.dtype)),
    "div_1elem": ("passthrough_or_rescale", lambda x, r: x / torch.full([1] * r, 2.0, dtype=x.dtype)),
    "cat_neg": ("move", lambda x, d: torch.cat([x, -x], dim=d)),
    "cat_relu": ("move", lambda x, d: torch.cat([x, torch.relu(x)], dim=d)),
    "neg": ("sign", lambda x: -x),
    "relu": ("sign", lambda x: torch.relu(x)),
    "softmax": ("requant", lambda x: torch.softmax(x, dim=-1)),
    "where": ("requant", lambda c, x, y: torch.where(c, x, y)),
    "where_other_q": ("requant", lambda c, x, y: torch.where(c, x, y)),
    "lt": ("passthrough", lambda x, y: x < y),
    "copy_into_plain": ("copy", lambda x: torch.empty(x.shape, dtype=x.dtype).copy_(x)),
    "div_tensor": ("passthrough", lambda x, y: x / y),
    "mul_tensor": ("passthrough", lambda x, y: x * y),
    "add": ("passthrough", lambda x, y: x + y),
    "sum": ("passthrough", lambda x: x.sum(-1)),
    "mean": ("passthrough", lambda x: x.mean()),
    "abs": ("passthrough", lambda x: x.abs()),
    "gelu": ("passthrough", lambda x: Fn.gelu(x)),
    "layer_norm": ("passthrough", lambda x: Fn.layer_norm(x, x.shape[-1:])),
    "topk": ("passthrough", lambda x: torch.topk(x, 2)[0]),
    "topk_kw": ("passthrough", lambda x: torch.topk(input=x, k=2)[0]),                      # the quantized tensor passed BY KEYWORD
    "cosine_kw": ("passthrough", lambda x, y: Fn.cosine_similarity(x1=x, x2=y, dim=-1)),
    "log_softmax_kw": ("passthrough", lambda x: Fn.log_softmax(input=x, dim=-1)),
    "softmax_masked": ("requant", lambda x: torch.softmax(x + torch.triu(torch.full((x.shape[-1], x.shape[-1]), -1e4, dtype=x.dtype), 1)[: x.shape[-2]] if x.ndim >= 2 else x, dim=-1)),
    "log_softmax": ("passthrough", lambda x: Fn.log_softmax(x, dim=-1)),
    "cosine": ("passthrough", lambda x, y: Fn.cosine_similarity(x, y, dim=-1)),
    "mm": ("contraction", lambda x, y: torch.mm(x, y)),
    "matmul": ("contraction", lambda x, y: torch.matmul(x, y)),
    "bmm": ("contraction", lambda x, y: torch.bmm(x, y)),
    "linear": ("contraction", lambda x, w, b: Fn.linear(x, w, b)),
}


def meta_of(r):
    """what a quantized result reports vs. what it holds (C06)"""
    out = {"cls": type(r).__name__}
    if not isinstance(r, QTensor):
        return out
    try:
        d = r.dequantize()
    except Exception as ex:  # noqa: BLE001
        out.update(deq_error=type(ex).__name__ + ": " + str(ex)[:120], shape=list(r.shape), axis=r.axis, scale_shape=list(r._scale.shape))
        return out
    out.update(shape=list(r.shape), dtype=str(r.dtype), device=str(r.device), deq_shape=list(d.shape), deq_dtype=str(d.dtype), deq_device=str(d.device),
               qtype=r.qtype.name, axis=r.axis, scale_shape=list(r._scale.shape), scale_dtype=str(r._scale.dtype),
               scale_min=float(r._scale.double().min()) if r._scale.numel() else 0.0)
    if isinstance(r, QBytesTensor):
        out.update(data_shape=list(r._data.shape), data_dtype=str(r._data.dtype), storage=str(r.qtype.dtype), data_device=str(r._data.device))
    elif isinstance(r, QBitsTensor):
        un = r._data.unpack()
        out.update(data_shape=list(un.shape), data_dtype=str(un.dtype), storage="torch.uint8", zp_shape=list(r._zeropoint.shape), zp_dtype=str(r._zeropoint.dtype), group=r._group_size,
                   packed_rows=r._data._data.shape[0], bits=r.qtype.bits, data_device=str(r._data.device))
    inner, m = r.__tensor_flatten__()
    out["flat_meta"] = m
    return out


def codes_digest(r):
    if isinstance(r, QBytesTensor):
        return dig(r._data.contiguous().view(torch.uint8) if r._data.dtype != torch.int8 else r._data)
    if isinstance(r, QBitsTensor):
        return dig(r._data.unpack())
    return None


def compare(q, ref):
    """numeric comparison of a (possibly quantized) result with the float reference"""
    if isinstance(q, (list, tuple)):
        if not isinstance(ref, (list, tuple)) or len(q) != len(ref):
            return {"struct": "list length differs"}
        parts = [compare(a, b) for a, b in zip(q, ref)]
        return {"list": parts}
    qd = deq(q)
    if not isinstance(qd, torch.Tensor):
        return {"equal": qd == ref}
    if list(qd.shape) != list(ref.shape):
        return {"struct": f"shape {list(qd.shape)} vs {list(ref.shape)}"}
    if qd.dtype == torch.bool or ref.dtype == torch.bool:
        return {"exact": bool(torch.equal(qd, ref)), "maxdiff": 0.0 if torch.equal(qd, ref) else 1.0, "refmax": 1.0}
    a, b = qd.double(), ref.double()
    nan_same = bool(torch.equal(torch.isnan(a), torch.isnan(b)))
    diff = (a - b).abs()
    diff = torch.where(torch.isnan(diff), torch.zeros_like(diff), diff)
    am, bm = torch.nan_to_num(a, nan=0.0), torch.nan_to_num(b, nan=0.0)
    out = {"exact": nan_same and bool(torch.equal(am, bm)), "maxdiff": float(diff.max()) if diff.numel() else 0.0,
           "refmax": float(b.abs().max()) if b.numel() else 0.0, "nan_same": nan_same, "dtype_same": qd.dtype == ref.dtype, "finite": bool(torch.isfinite(a).all()), "ref_finite": bool(torch.isfinite(b).all())}
    # relative: max over elements of |diff| / (|ref| + tiny)
    if diff.numel():
        out["maxrel"] = float((diff / (b.abs() + 1e-30)).max())
    out["dtype"] = str(qd.dtype).replace("torch.", "")
    if isinstance(q, QTensor):
        out["out_scale_max"] = float(q._scale.double().abs().max())
        out["out_qtype"] = q.qtype.name
    return out


def main():
    payload = json.loads(sys.stdin.read())
    if payload.get("prelude", True):
        import os as _os
        sys.path.insert(0, _os.path.dirname(_os.path.abspath(__file__)))
        from prelude import run_prelude
        run_prelude()
    results = []
    for prog in payload["programs"]:
        gen = torch.Generator().manual_seed(prog["seed"])
        regs = []
        fregs = []  # the float twin program (same ops on float tensors, its own registers)
        steps = []
        try:
            for spec in prog["operands"]:
                regs.append(make(spec, gen))
                fregs.append(deq(regs[-1]))
        except Exception as ex:  # noqa: BLE001
            results.append({"setup_error": type(ex).__name__ + ": " + str(ex)[:200]})
            continue
        opmeta = [meta_of(r) for r in regs]
        for st in prog["steps"]:
            name = st["op"]
            cls, fn = OPS[name]
            args = [regs[a["reg"]] if isinstance(a, dict) and "reg" in a else (a["lit"] if isinstance(a, dict) else a) for a in st["args"]]
            fargs = [fregs[a["reg"]] if isinstance(a, dict) and "reg" in a else (a["lit"] if isinstance(a, dict) else a) for a in st["args"]]
            rec = {"op": name, "class": cls}
            # validity of the float program: the twin chain (keeps views / strides of the float tensors)
            try:
                with torch.no_grad():
                    fout = fn(*fargs)
                rec["float_ok"] = True
            except Exception as ex:  # noqa: BLE001
                rec["float_ok"] = False
                rec["float_exn"] = type(ex).__name__
                fout = None
            # the property's oracle for this step: the same op on the dequantized operands
            ref = None
            if rec["float_ok"]:
                try:
                    with torch.no_grad():
                        ref = fn(*[deq(a) for a in args])
                except Exception:  # noqa: BLE001
                    ref = fout
            in_codes = [codes_digest(a) for a in args]
            in_meta = [meta_of(a) if isinstance(a, QTensor) else None for a in args]
            try:
                with torch.no_grad():
                    out = fn(*args)
                rec["q_ok"] = True
            except Exception as ex:  # noqa: BLE001
                rec["q_ok"] = False
                rec["q_exn"] = type(ex).__name__
                rec["q_msg"] = str(ex)[:160]
                rec["tb"] = traceback.format_exc()[-300:]
                out = None
            if rec["q_ok"]:
                outs = out if isinstance(out, (list, tuple)) else [out]
                rec["meta"] = [meta_of(o) if isinstance(o, torch.Tensor) else {"cls": type(o).__name__} for o in outs]
                rec["codes"] = [codes_digest(o) if isinstance(o, torch.Tensor) else None for o in outs]
                rec["in_codes"] = in_codes
                rec["in_meta"] = in_meta
                if rec["float_ok"]:
                    try:
                        rec["cmp"] = compare(out, ref)
                    except Exception as ex:  # noqa: BLE001
                        rec["cmp"] = {"struct": "compare failed: " + str(ex)[:100]}
                # inputs must not have been modified (except by in-place ops, none here)
                rec["inputs_unchanged"] = [codes_digest(a) for a in args] == in_codes
                # a copy (clone, or a move to a different dtype) must own its payload: torch's .to(other dtype) / .clone() never alias
                if name in ("clone", "to_dtype") and isinstance(out, QTensor) and isinstance(args[0], QTensor):
                    def payload_ptr(t):
                        d = t._data
                        d = d._data if not type(d) is torch.Tensor else d
                        return d.data_ptr()
                    if name == "clone" or out.dtype != args[0].dtype:
                        rec["aliases_source_payload"] = payload_ptr(out) == payload_ptr(args[0])
                # the same quantized OBJECT fed again after its codes were overwritten in place (copy_ from a tensor of the same
                # qtype / scale): the op must act on the current codes, i.e. give what a fresh tensor holding them gives
                a0 = args[0] if args else None
                if (isinstance(a0, QBytesTensor) and a0.axis is None and cls in ("move", "rescale", "sign", "requant", "dtype", "copy", "passthrough")
                        and not name.endswith("_then_overwrite") and prog["seed"] % 3 == 0):
                    try:
                        with torch.no_grad():
                            work = a0.clone()
                            fn(work, *args[1:])  # first use of the object
                            newvals = quantize_activation(torch.flip(a0.dequantize(), dims=[-1]) * 0.5, a0.qtype, a0._scale.clone())
                            work.copy_(newvals)
                            again = fn(work, *args[1:])
                            fresh = fn(newvals.clone(), *args[1:])
                        ca, cf = compare(again, deq(fresh)), None
                        rec["reused_object_ok"] = bool(ca.get("exact", False)) if "struct" not in ca else False
                    except Exception:  # noqa: BLE001
                        pass
                # min code of int8 inputs (the -128 case of neg)
                mins = []
                for a in args:
                    if isinstance(a, QBytesTensor) and a._data.dtype == torch.int8:
                        mins.append(int(a._data.min()))
                rec["min_code"] = min(mins) if mins else None
            steps.append(rec)
            regs.append(out if rec["q_ok"] else (ref if ref is not None else torch.zeros(1)))
            fregs.append(fout if fout is not None else torch.zeros(1))
        results.append({"operands": opmeta, "steps": steps})
    print("RESULT " + json.dumps(results))


main()
