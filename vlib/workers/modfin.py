"""Implementation side of C16's module part: zero-weight layers and calibration on degenerate batches."""
import json
import sys
import warnings

warnings.filterwarnings("ignore")
import torch  # noqa: E402

import optimum.quanto as Q  # noqa: E402
from optimum.quanto import Calibration, freeze, quantize  # noqa: E402

QT = {None: None, "qint2": Q.qint2, "qint4": Q.qint4, "qint8": Q.qint8, "qfloat8": Q.qfloat8}
DT = {"float32": torch.float32, "float16": torch.float16, "bfloat16": torch.bfloat16}


def batch(kind, n, dtype):
    if kind == "zeros":
        return torch.zeros(4, n, dtype=dtype)
    if kind == "const":
        return torch.full((4, n), 2.5, dtype=dtype)
    if kind == "tiny":
        return (torch.rand(4, n) * 1e-7).to(dtype)
    if kind == "huge":
        return (torch.rand(4, n) * (3e4 if dtype == torch.float16 else 1e30)).to(dtype)
    return torch.randn(4, n).to(dtype)


def main():
    payload = json.loads(sys.stdin.read())
    if payload.get("prelude", True):
        import os as _os
        sys.path.insert(0, _os.path.dirname(_os.path.abspath(__file__)))
        from prelude import run_prelude
        run_prelude()
    torch.manual_seed(payload.get("seed", 0))
    out = []
    for c in payload["cases"]:
        try:
            dtype = DT[c["dtype"]]
            model = torch.nn.Sequential(torch.nn.Linear(c["in"], c["out"])).to(dtype)
            if c["kind"] == "zero_layer":
                with torch.no_grad():
                    model[0].weight.zero_()
                    model[0].bias.copy_(torch.randn(c["out"]).to(dtype))
                quantize(model, weights=QT[c["weights"]], activations=QT[c["activations"]])
                x = torch.randn(3, c["in"]).to(dtype)
                if c["activations"]:
                    with Calibration():
                        model(x)
                y = model(x)
                yd = y.dequantize() if isinstance(y, Q.QTensor) else y
                bias = model[0].bias.detach()
                r = {"ok": True}
                if isinstance(y, Q.QTensor):
                    # the output is re-quantized with the output scale: it must be the quantization of exactly the bias
                    from optimum.quanto import quantize_activation
                    want = quantize_activation(bias.expand(3, -1).contiguous(), QT[c["activations"]], model[0].output_scale).dequantize()
                    r["equals_bias"] = bool(torch.equal(yd, want))
                else:
                    r["equals_bias"] = bool(torch.equal(yd, bias.expand(3, -1)))
                r["finite"] = bool(torch.isfinite(yd).all())
                freeze(model)
                y2 = model(x)
                y2 = y2.dequantize() if isinstance(y2, Q.QTensor) else y2
                r["equals_bias"] = r["equals_bias"] and bool(torch.equal(y2, yd))
            elif c["kind"] == "dead_chain":
                # a dead producer (all-zero weights, no bias: a pruned / zero-initialised branch) feeding a consumer whose activation
                # qtype differs; both are called directly (no parent container), calibrated, then run: the consumer must output its bias
                from optimum.quanto import quantize_activation
                prod_ = torch.nn.Sequential(torch.nn.Linear(c["in"], c["in"], bias=False)).to(dtype)
                cons = torch.nn.Sequential(torch.nn.Linear(c["in"], c["out"])).to(dtype)
                with torch.no_grad():
                    prod_[0].weight.zero_()
                    cons[0].bias.copy_(torch.randn(c["out"]).to(dtype))
                quantize(prod_, weights=QT[c["weights"]], activations=QT[c["activations"]])
                quantize(cons, weights=QT[c["weights"]], activations=QT[c["consumer_activations"]])
                q1, q2 = prod_[0], cons[0]
                x = torch.randn(3, c["in"]).to(dtype)
                with torch.no_grad(), Calibration(streamline=c.get("streamline", True)):
                    for _ in range(2):
                        q2(q1(x))
                with torch.no_grad():
                    mid = q1(x)
                    y = q2(mid)
                yd = y.dequantize() if isinstance(y, Q.QTensor) else y
                md = mid.dequantize() if isinstance(mid, Q.QTensor) else mid
                bias = q2.bias.detach()
                r = {"ok": True, "finite": bool(torch.isfinite(yd).all()) and bool(torch.isfinite(md).all()), "mid_cls": type(mid).__name__,
                     "scales": [float(q1.output_scale), float(q2.input_scale), float(q2.output_scale)]}
                if isinstance(y, Q.QTensor):
                    want = quantize_activation(bias.expand(3, -1).contiguous(), y.qtype, q2.output_scale).dequantize()
                    r["equals_bias"] = bool(torch.equal(yd, want))
                else:
                    r["equals_bias"] = bool(torch.equal(yd, bias.expand(3, -1)))
            else:
                quantize(model, weights=QT[c["weights"]], activations=QT[c["activations"]])
                with torch.no_grad(), Calibration():
                    for b in c["batches"]:
                        model(batch(b, c["in"], dtype))
                m = model[0]
                r = {"ok": True, "input_scale": float(m.input_scale), "output_scale": float(m.output_scale)}
                r["scales_finite"] = bool(torch.isfinite(m.input_scale).all() and torch.isfinite(m.output_scale).all())
                ok = True
                with torch.no_grad():
                    for b in c["batches"] + ["noise"]:
                        y = model(batch(b, c["in"], dtype))
                        yd = y.dequantize() if isinstance(y, Q.QTensor) else y
                        ok = ok and bool(torch.isfinite(yd).all())
                r["output_finite"] = ok
        except Exception as ex:  # noqa: BLE001
            r = {"ok": False, "exn": type(ex).__name__, "msg": str(ex)[:200]}
        out.append(r)
    print("RESULT " + json.dumps(out))


main()
