"""Shared by the numeric checks (C01, C02, C03, C14, C16): exact decoding of IEEE bit patterns to
Fractions, input generators, Coq case-file writers for the generated numeric model (GenNum.v) and
the parallel correspondence runner."""
import os
import struct
import subprocess
from concurrent.futures import ThreadPoolExecutor
from fractions import Fraction

from common import COQ, coq_tensor, parse_nat_list, sh, zlist

FMT = {
    # name: (coq fmt, prec, emax, total bits)
    "float32": ("F32", 24, 128, 32),
    "float16": ("F16", 11, 16, 16),
    "bfloat16": ("BF16", 8, 128, 16),
}
QTYPES = ["qint2", "qint4", "qint8", "qfloat8_e4m3fn", "qfloat8_e5m2"]
QINFO = {
    # name: (is_float, bits, storage min, storage max)
    "qint2": (False, 2, -128, 127),
    "qint4": (False, 4, -128, 127),
    "qint8": (False, 8, -128, 127),
    "qfloat8_e4m3fn": (True, 8, -448, 448),
    "qfloat8_e5m2": (True, 8, -57344, 57344),
}


def u_eta(dtype):
    """unit roundoff u = 2^-prec and half the smallest subnormal eta = 2^(emin-1) of the dtype"""
    _, prec, emax, _ = FMT[dtype]
    emin = 3 - emax - prec
    return Fraction(1, 2**prec), Fraction(2) ** (emin - 1)


def decode(bits, dtype):
    """bit pattern -> Fraction, or 'nan' / 'inf' / '-inf'"""
    _, prec, emax, w = FMT[dtype]
    mw = prec - 1
    ew = w - 1 - mw
    s = (bits >> (w - 1)) & 1
    e = (bits >> mw) & ((1 << ew) - 1)
    m = bits & ((1 << mw) - 1)
    if e == (1 << ew) - 1:
        return "nan" if m else ("-inf" if s else "inf")
    bias = emax - 1
    if e == 0:
        v = Fraction(m) * Fraction(2) ** (1 - bias - mw)
    else:
        v = Fraction(m + (1 << mw)) * Fraction(2) ** (e - bias - mw)
    return -v if s else v


def is_finite(v):
    return isinstance(v, Fraction)


def encode_nearest(x, dtype):
    """Fraction -> bit pattern of the nearest-even float of dtype (saturating to the largest finite)"""
    if dtype == "float32":
        return struct.unpack("<I", struct.pack("<f", float(x)))[0] if abs(x) < Fraction(2) ** 128 else (0x7F7FFFFF | (0x80000000 if x < 0 else 0))
    if dtype == "float16":
        try:
            return struct.unpack("<H", struct.pack("<e", float(x)))[0]
        except (OverflowError, struct.error):
            return 0x7BFF | (0x8000 if x < 0 else 0)
    # bfloat16: round the float32 pattern to 16 bits, ties to even (x is first rounded to float32: adequate for generators)
    b = struct.unpack("<I", struct.pack("<f", float(x)))[0]
    lower = b & 0xFFFF
    b16 = b >> 16
    if lower > 0x8000 or (lower == 0x8000 and (b16 & 1)):
        b16 += 1
    if (b16 & 0x7F80) == 0x7F80:
        b16 = 0x7F7F | (b16 & 0x8000)
    return b16


def fp8_grid(qtype):
    """all finite values of the 8-bit type as Fractions (sorted)"""
    if qtype in ("qint8",):
        return [Fraction(v) for v in range(-128, 128)]
    vals = set()
    if qtype == "qfloat8_e4m3fn":
        for b in range(256):
            s, e, m = b >> 7, (b >> 3) & 15, b & 7
            if e == 15 and m == 7:
                continue
            v = Fraction(m, 8) * Fraction(2) ** (-6) if e == 0 else (1 + Fraction(m, 8)) * Fraction(2) ** (e - 7)
            vals.add(-v if s else v)
    else:
        for b in range(256):
            s, e, m = b >> 7, (b >> 2) & 31, b & 3
            if e == 31:
                continue
            v = Fraction(m, 4) * Fraction(2) ** (-14) if e == 0 else (1 + Fraction(m, 4)) * Fraction(2) ** (e - 15)
            vals.add(-v if s else v)
    return sorted(vals)


def code_value(byte, qtype):
    """numeric value of a stored code byte"""
    if qtype in ("qint8", "qint4", "qint2"):
        return Fraction(byte)
    if qtype == "qfloat8_e4m3fn":
        s, e, m = byte >> 7, (byte >> 3) & 15, byte & 7
        if e == 15 and m == 7:
            return "nan"
        v = Fraction(m, 8) * Fraction(2) ** (-6) if e == 0 else (1 + Fraction(m, 8)) * Fraction(2) ** (e - 7)
    else:
        s, e, m = byte >> 7, (byte >> 2) & 31, byte & 3
        if e == 31:
            return "nan" if m else ("-inf" if s else "inf")
        v = Fraction(m, 4) * Fraction(2) ** (-14) if e == 0 else (1 + Fraction(m, 4)) * Fraction(2) ** (e - 15)
    return -v if s else v


# ------------------------------------------------------------------------------------ Coq literals
def opt(x):
    return "None" if x is None else f"(Some {x if x >= 0 else '(%d)' % x})"


def optk(o):
    return {None: "None", "absmax": "(Some AbsmaxOpt)", "max": "(Some MaxOpt)"}[o]


def coq_obsd(r):
    """expected (obs * deq) as a Coq term from a worker result"""
    if not r["ok"]:
        return f'(Err "{r["exn"]}"%string)'
    ax = -9 if r["axis"] is None else r["axis"]
    gs = -9 if r.get("group") is None else r["group"]
    o = (
        f"(Obs {r['kind']} {zlist(r['size'])} {coq_tensor(r['codes']['shape'], r['codes']['data'])} "
        f"{coq_tensor(r['scale']['shape'], r['scale']['data'])} {coq_tensor(r['zp']['shape'], r['zp']['data'])} "
        f"{ax if ax >= 0 else '(%d)' % ax} {gs if gs >= 0 else '(%d)' % gs})"
    )
    return f"(Ok ({o}, {coq_tensor(r['deq']['shape'], r['deq']['data'])}))"


IMPORTS = """From Coq Require Import String List ZArith Bool.
From QV Require Import Lib.Res Lib.Tensor Lib.ND Lib.Num Lib.QTensor Float.F Float.FCorr.
From QD Require Import GenNum.
Import ListNotations.
Open Scope Z_scope.
"""


def case_term(call, result):
    fn = call["fn"]
    t = coq_tensor(call["shape"], call["bits"])
    if fn == "quantize_weight":
        return "chk_qw", f"({t}, {call['qtype']}, {opt(call['axis'])}, {opt(call.get('group_size'))}, {optk(call.get('optimizer'))}, {coq_obsd(result)})"
    if fn == "sym_quantize":
        return "chk_sym", f"({t}, {call['qtype']}, {opt(call['axis'])}, {coq_tensor(call['scale_shape'], call['scale_bits'])}, {coq_obsd(result)})"
    if fn == "quantize_activation":
        return "chk_act", f"({t}, {call['qtype']}, {coq_tensor(call['scale_shape'], call['scale_bits'])}, {coq_obsd(result)})"
    if fn == "absmax_scale":
        exp = f"(Ok {coq_tensor(result['scale']['shape'], result['scale']['data'])})" if result["ok"] else f'(Err "{result["exn"]}"%string)'
        return "chk_absmax", f"({t}, {call['qtype']}, {opt(call['axis'])}, {exp})"
    raise KeyError(fn)


CHK_ARGS = {
    "chk_qw": "(@src_quantize_weight _ (fnum {f})) (@src_qbytes_dequantize _ (fnum {f})) (@src_qbits_dequantize _ (fnum {f}))",
    "chk_sym": "(@src_sym_forward _ (fnum {f})) (@src_qbytes_dequantize _ (fnum {f})) (@src_qbits_dequantize _ (fnum {f}))",
    "chk_act": "(@src_quantize_activation _ (fnum {f})) (@src_qbytes_dequantize _ (fnum {f})) (@src_qbits_dequantize _ (fnum {f}))",
    "chk_absmax": "(@src_absmax_scale _ (fnum {f}))",
}


CASE_TY = {
    "chk_qw": "tensor Z * qtype * option Z * option Z * option optkind * res (obs * tensor Z)",
    "chk_sym": "tensor Z * qtype * option Z * tensor Z * res (obs * tensor Z)",
    "chk_act": "tensor Z * qtype * tensor Z * res (obs * tensor Z)",
    "chk_absmax": "tensor Z * qtype * option Z * res (tensor Z)",
}


def run_correspondence(ck, calls, results, shard=60, timeout=1200):
    """evaluates the generated model on every call and compares with the implementation's result;
    returns list of (call, result) that differ; updates ck.corr_checked / ck.corr_mismatch"""
    groups = {}
    for i, (c, r) in enumerate(zip(calls, results)):
        fn, term = case_term(c, r)
        groups.setdefault((c["dtype"], fn), []).append((i, term))
    jobs = []
    for (dtype, fn), items in groups.items():
        f = FMT[dtype][0]
        for s in range(0, len(items), shard):
            part = items[s : s + shard]
            name = f"corr_{f}_{fn}_{s}"
            body = f"Definition cases : list ({CASE_TY[fn]}) := [\n" + ";\n".join(t for _, t in part) + f"].\nEval vm_compute in (failing ({fn} {f} {CHK_ARGS[fn].format(f=f)}) cases).\n"
            with open(os.path.join(ck.dyn, name + ".v"), "w") as fh:
                fh.write(IMPORTS + body)
            jobs.append((name, [i for i, _ in part]))

    def runjob(job):
        name, idx = job
        rc, out, err = sh(["coqc", "-Q", COQ, "QV", "-Q", ck.dyn, "QD", name + ".v"], timeout, cwd=ck.dyn)
        return job, rc, out, err

    bad = []
    with ThreadPoolExecutor(max_workers=14) as ex:
        for (name, idx), rc, out, err in ex.map(runjob, jobs):
            fails = parse_nat_list(out) if rc == 0 else None
            if fails is None:
                ck.corr_mismatch.append({"file": name + ".v", "error": (err or out).strip()[-400:]})
                continue
            ck.corr_checked += len(idx)
            for k in fails:
                i = idx[k]
                bad.append((calls[i], results[i]))
                ck.corr_mismatch.append({"call": {k_: v for k_, v in calls[i].items() if k_ != "bits"} | {"bits": calls[i]["bits"][:64]}, "implementation": {k_: results[i].get(k_) for k_ in ("ok", "exn", "codes", "scale", "zp", "deq") if k_ in results[i]}})
    return bad
