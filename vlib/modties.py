"""Tie text for the module-level checks (C08, C09, C10, C11)."""

HEADER = """(* Tie (assembled per check): module-level facts read from the current source are the modelled ones. *)
From Coq Require Import String List.
From QV Require Import Model.Module Model.ModuleFacts.
From QD Require Import GenMod.
Import ListNotations.
Open Scope string_scope.
"""


def tie_text():
    t = HEADER
    t += "Lemma tie_registry : src_registry = registry. Proof. reflexivity. Qed.\n"
    for n in ("qcreate", "qweight_call", "qweight_early", "freeze_body", "quantize_module", "quantize_loop", "mod_prints"):
        t += f"Lemma tie_{n} : src_{n} = exp_{n}. Proof. reflexivity. Qed.\n"
    return t
