"""Tie text for the module-level checks (C08, C09, C10, C11)."""

HEADER = """(* Tie (assembled per check): module-level facts read from the current source are the modelled ones. *)
From Coq Require Import String List.
From QV Require Import Model.Module Model.ModuleFacts.
From QD Require Import GenMod.
Import ListNotations.
Open Scope string_scope.
"""


def tie_text():
    t = HEADER
    t += "Lemma tie_registry : src_registry = registry. Proof. reflexivity. Qed.\n"
    for n in ("qcreate", "qweight_call", "qweight_early", "freeze_body", "quantize_module", "quantize_loop", "mod_prints"):
        t += f"Lemma tie_{n} : src_{n} = exp_{n}. Proof. reflexivity. Qed.\n"
    return t


SER_HEADER = """(* Tie (assembled per check): the (de)serialization code translated from the current source is the modelled one. *)
From Coq Require Import String List ZArith Bool.
From QV Require Import Model.Codec Model.Serial Model.SerialFacts.
From QD Require Import GenSer.
Import ListNotations.
Open Scope string_scope.
"""


def ser_tie_text():
    t = SER_HEADER
    for rec in ("packed", "qbytes", "qbits"):
        t += f"Lemma tie_flat_{rec} : @src_flat_{rec} = @flat_{rec}. Proof. reflexivity. Qed.\n"
        t += f"Lemma tie_load_{rec} : @src_load_{rec} = @load_{rec}. Proof. reflexivity. Qed.\n"
    t += "Lemma tie_ser_prints : src_ser_prints = exp_ser_prints. Proof. reflexivity. Qed.\n"
    return t


def grad_tie_text():
    t = """(* Tie (assembled per check): autograd facts read from the current source are the modelled ones. *)
From Coq Require Import String List.
From QV Require Import Model.GradFacts.
From QD Require Import GenGrad.
Import ListNotations.
Open Scope string_scope.
"""
    for n in ("linear_backward", "ste_backward", "grad_prints"):
        t += f"Lemma tie_{n} : src_{n} = exp_{n}. Proof. reflexivity. Qed.\n"
    return t


def awq_tie_text():
    return """(* Tie (assembled per check): AWQ facts read from the current source are the modelled ones. *)
From Coq Require Import String List ZArith.
From QV Require Import Model.Awq Model.AwqFacts.
From QD Require Import GenAwq.
Import ListNotations.
Open Scope string_scope.
Lemma tie_awq_order : src_AWQ_ORDER = AWQ_ORDER. Proof. reflexivity. Qed.
Lemma tie_awq_reverse_order : src_AWQ_REVERSE_ORDER = AWQ_REVERSE_ORDER. Proof. reflexivity. Qed.
Lemma tie_v2_constants : src_v2_constants = exp_v2_constants. Proof. reflexivity. Qed.
Lemma tie_awq_prints : src_awq_prints = exp_awq_prints. Proof. reflexivity. Qed.
"""
