"""Per-property tie files for the numeric core: only the functions a property's theorems mention, so
that an edit of an unrelated function does not disturb the property."""

HEADER = """(* Tie (assembled per check): definitions generated from /repo's current source are convertible
   with coq/Model/Quant.v.  A failing lemma names the function whose code changed. *)
From Coq Require Import String List ZArith Bool.
From QV Require Import Lib.Res Lib.Tensor Lib.ND Lib.Num Lib.QTensor Model.Quant.
From QD Require Import GenNum.
"""

NUM_TIES = {
    "C01": ["sym_forward", "qbytes_dequantize", "quantize_activation"],
    "C02": ["group", "ungroup", "affine_forward", "max_optimize", "aff_opt_call", "qbits_dequantize"],
    "C03": ["absmax_optimize", "max_optimize", "absmax_scale", "axis_to_dim", "sym_opt_call", "aff_opt_call", "group", "quantize_weight", "sym_forward", "qbytes_dequantize"],
    "C14": ["quantize_weight", "quantize_activation", "sym_forward", "affine_forward", "group", "sym_opt_call", "aff_opt_call", "auto_group_size"],
    "C16": ["sym_forward", "affine_forward", "absmax_optimize", "max_optimize", "absmax_scale", "qbytes_dequantize", "qbits_dequantize", "quantize_weight"],
    "C12": ["updated_scale", "absmax_scale"],
}


def tie_text(pid):
    return HEADER + "".join(f"Lemma tie_{n} : @src_{n} = @{n}. Proof. reflexivity. Qed.\n" for n in NUM_TIES[pid])


CALIB_HEADER = """(* Tie (assembled per check) for the calibration / side-effect facts read from calibrate.py,
   library/ops.py and the module code by translators/gen_calib.py. *)
From Coq Require Import String List ZArith Bool.
From QV Require Import Model.Calib.
From QD Require Import GenCalib.
Import ListNotations.
Open Scope string_scope.
"""

PURE = ["qmodule_forward", "qmodule_qweight", "qlinear_qforward", "qconv2d_qforward", "qlayernorm_qforward",
        "quantize_weight", "quantize_activation", "sym_forward", "affine_forward", "qbytes_dequantize",
        "qbits_dequantize", "group", "ungroup", "absmax_optimize", "max_optimize", "sym_opt_call",
        "aff_opt_call", "absmax_scale", "freeze_model"]


def calib_tie_text(pid):
    t = CALIB_HEADER
    if pid == "C12":
        t += "Lemma tie_input_momentum : src_input_momentum = MConfigured. Proof. reflexivity. Qed.\n"
        t += "Lemma tie_output_momentum : src_output_momentum = MConfigured. Proof. reflexivity. Qed.\n"
        t += "Lemma tie_init_stores_momentum : src_init_stores_momentum = true. Proof. reflexivity. Qed.\n"
        t += "Lemma tie_output_hook_recomputes : src_output_hook_recomputes = true. Proof. reflexivity. Qed.\n"
        t += 'Lemma tie_input_hook_writes : src_input_hook_writes = ["module.input_scale"]. Proof. reflexivity. Qed.\n'
    if pid == "C13":
        t += "Lemma tie_enter : src_enter = enter_actions. Proof. reflexivity. Qed.\n"
        t += "Lemma tie_exit : src_exit = exit_actions. Proof. reflexivity. Qed.\n"
        t += "Lemma tie_disable_extensions : src_disable_extensions_restores = true. Proof. reflexivity. Qed.\n"
        t += 'Lemma tie_inplace_ops : src_inplace_ops = ["aten.copy_"]. Proof. reflexivity. Qed.\n'
        t += 'Lemma tie_op_inplace_arith : src_op_inplace_arith = []. Proof. reflexivity. Qed.\n'
        for n in PURE:
            t += f"Lemma tie_effects_{n} : src_effects_{n} = []. Proof. reflexivity. Qed.\n"
        t += 'Lemma tie_effects_freeze : src_effects_freeze = ["store self.weight"]. Proof. reflexivity. Qed.\n'
        t += 'Lemma tie_effects_quantize : src_effects_quantize = ["call setattr"; "store qmodule.name"]. Proof. reflexivity. Qed.\n'
        t += 'Lemma tie_hook_writes : src_input_hook_writes = ["module.input_scale"] /\\ src_output_hook_writes = ["child.activation_qtype"; "module.output_scale"; "output.src_module"]. Proof. split; reflexivity. Qed.\n'
    return t
