"""Per-property tie files for the numeric core: only the functions a property's theorems mention, so
that an edit of an unrelated function does not disturb the property."""

HEADER = """(* Tie (assembled per check): definitions generated from /repo's current source are convertible
   with coq/Model/Quant.v.  A failing lemma names the function whose code changed. *)
From Coq Require Import String List ZArith Bool.
From QV Require Import Lib.Res Lib.Tensor Lib.ND Lib.Num Lib.QTensor Model.Quant.
From QD Require Import GenNum.
"""

NUM_TIES = {
    "C01": ["sym_forward", "qbytes_dequantize", "quantize_activation"],
    "C02": ["group", "ungroup", "affine_forward", "max_optimize", "aff_opt_call", "qbits_dequantize"],
    "C03": ["absmax_optimize", "max_optimize", "absmax_scale", "axis_to_dim", "sym_opt_call", "aff_opt_call", "group", "quantize_weight", "sym_forward", "qbytes_dequantize"],
    "C14": ["quantize_weight", "quantize_activation", "sym_forward", "affine_forward", "group", "sym_opt_call", "aff_opt_call", "auto_group_size"],
    "C16": ["sym_forward", "affine_forward", "absmax_optimize", "max_optimize", "absmax_scale", "qbytes_dequantize", "qbits_dequantize", "quantize_weight"],
    "C12": ["updated_scale", "absmax_scale"],
}


def tie_text(pid):
    return HEADER + "".join(f"Lemma tie_{n} : @src_{n} = @{n}. Proof. reflexivity. Qed.\n" for n in NUM_TIES[pid])
