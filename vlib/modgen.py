"""Generators for module-tree specs (C08-C11) and their Coq encoding (Model/Module.v mtree)."""

KCODE = {"Linear": 0, "Conv2d": 1, "LayerNorm": 2, "Other": 3, "QLinear": 4, "QConv2d": 5, "QLayerNorm": 6}
KCTOR = {"linear": "KLinear", "conv": "KConv2d", "ln": "KLayerNorm"}
CONTAINERS = ("seq", "list", "dict", "block")


def children(spec):
    t = spec["t"]
    if t in ("seq", "list"):
        return [(str(i), c) for i, c in enumerate(spec["ch"])]
    if t in ("dict", "block"):
        return [(n, c) for n, c in spec["ch"]]
    return []


def named_specs(spec, prefix="", shared=None, out=None):
    """(dotted name, spec) in torch's named_modules(remove_duplicate=False) order; refs resolved"""
    shared = {} if shared is None else shared
    out = [] if out is None else out
    if spec["t"] == "ref":
        spec = shared[spec["to"]]
    if "key" in spec:
        shared[spec["key"]] = spec
    out.append((prefix, spec))
    for n, c in children(spec):
        named_specs(c, (prefix + "." if prefix else "") + n, shared, out)
    return out


def coq_tree(spec):
    ids = {}
    shared = {}

    def go(s):
        if s["t"] == "ref":
            s = shared[s["to"]]
        if "key" in s:
            shared[s["key"]] = s
        i = ids.setdefault(id(s), len(ids))
        ch = "; ".join(f'("{n}", {go(c)})' for n, c in children(s))
        return f"(Node {KCTOR.get(s['t'], 'KOther')} {i}%nat [{ch}])"

    return go(spec)


def rand_linear(rng, small=True):
    fin = rng.choice([4, 8, 12, 16, 24, 32, 48, 64, 96, 160, 256] if not small else [4, 8, 12, 16, 32, 48, 64, 160])
    return {"t": "linear", "in": fin, "out": rng.choice([1, 2, 4, 8, 16, 24]), "bias": rng.random() < 0.7}


def rand_conv(rng):
    groups = rng.choice([1, 1, 2, 4])
    cin = groups * rng.choice([1, 2, 4, 8])
    cout = groups * rng.choice([1, 2, 4])
    k = rng.choice([1, 2, 3, [1, 3], [3, 2], [2, 2], 3])
    dil = rng.choice([1, 1, 2, [1, 2], [2, 1]])
    stride = rng.choice([1, 1, 2, [1, 2], [2, 1]])
    pm = rng.choice(["zeros", "zeros", "reflect", "replicate", "circular"])
    pad = rng.choice([0, 1, [1, 0], [0, 1], "same", "valid", 2 if pm == "zeros" else 1])
    if pad == "same":
        stride = 1
    kk = k if isinstance(k, list) else [k, k]
    dd = dil if isinstance(dil, list) else [dil, dil]
    if pm in ("reflect", "circular") and pad not in ("same", "valid"):
        # reflect / circular padding must be smaller than the input; inputs are at least 4 wide (leaf_input)
        pad = rng.choice([0, 1, [1, 0]])
    return {"t": "conv", "cin": cin, "cout": cout, "k": k, "stride": stride, "padding": pad, "dilation": dil, "groups": groups, "bias": rng.random() < 0.7, "padding_mode": pm}


def rand_ln(rng, affine_only=False):
    shape = rng.choice([[8], [16], [4, 6], [3, 4, 5], [32]])
    affine = True if affine_only else rng.random() < 0.8
    return {"t": "ln", "shape": shape, "affine": affine, "bias": affine and rng.random() < 0.7, "eps": rng.choice([1e-5, 1e-3, 1e-6, 0.1])}


def rand_other(rng):
    return rng.choice([{"t": "relu"}, {"t": "gelu"}, {"t": "dropout"}, {"t": "identity"}, {"t": "bn", "n": 4}, {"t": "gn", "n": 4}, {"t": "conv1d", "cin": 2, "cout": 2, "k": 3},
                       {"t": "emb", "n": 5, "d": 4}, {"t": "bilinear", "in": 4, "out": 3}])


def random_tree(rng, depth, ln_affine_only=True, root=True):
    """a random tree whose root is a container"""
    if depth == 0 and not root:
        r = rng.random()
        if r < 0.3:
            return rand_linear(rng)
        if r < 0.55:
            return rand_conv(rng)
        if r < 0.7:
            return rand_ln(rng, ln_affine_only)
        return rand_other(rng)
    kind = rng.choice(CONTAINERS)
    n = rng.randint(1, 4) if not root else rng.randint(2, 5)
    ch = [random_tree(rng, rng.randint(0, depth - 1) if depth > 0 else 0, ln_affine_only, root=False) for _ in range(n)]
    if kind in ("seq", "list"):
        return {"t": kind, "ch": ch}
    names = rng.sample(["attn", "mlp", "proj", "fc1", "fc2", "norm", "conv", "head", "blk", "down"], n)
    return {"t": kind, "ch": [[nm, c] for nm, c in zip(names, ch)]}


# ---- runnable models (forward composes): MLPs and conv nets, nested in containers --------------------
MLP_DIMS = [6, 10, 16, 32, 48, 64, 160, 192, 256, 320]


def wrap(rng, layers):
    """nest a list of layer specs in random containers that run their children in order"""
    if len(layers) >= 3 and rng.random() < 0.5:
        k = rng.randint(1, len(layers) - 1)
        a, b = layers[:k], layers[k:]
        parts = [wrap(rng, a) if len(a) > 1 else a[0], wrap(rng, b) if len(b) > 1 else b[0]]
    else:
        parts = layers
    if rng.random() < 0.5:
        return {"t": "seq", "ch": parts}
    names = rng.sample(["attn", "mlp", "proj", "fc1", "fc2", "norm", "head", "blk", "down", "up"], len(parts)) if len(parts) <= 10 else [f"m{i}" for i in range(len(parts))]
    return {"t": "block", "ch": [[n, p] for n, p in zip(names, parts)]}


def random_mlp(rng, nlin=None):
    n = nlin or rng.randint(1, 4)
    dims = [rng.choice(MLP_DIMS) for _ in range(n + 1)]
    layers = []
    for i in range(n):
        if i > 0:
            r = rng.random()
            if r < 0.4:
                layers.append({"t": "relu"})
            elif r < 0.6:
                layers.append({"t": "ln", "shape": [dims[i]], "affine": rng.random() < 0.8, "bias": True, "eps": 1e-5})
                if not layers[-1]["affine"]:
                    layers[-1]["bias"] = False
            elif r < 0.7:
                layers.append({"t": "gelu"})
        layers.append({"t": "linear", "in": dims[i], "out": dims[i + 1], "bias": rng.random() < 0.7})
    lead = rng.choice([[3], [2, 3], [1]])
    return wrap(rng, layers), lead + [dims[0]]


def random_convnet(rng):
    n = rng.randint(1, 3)
    ch = [rng.choice([2, 4, 8])]
    layers = []
    for i in range(n):
        groups = rng.choice([1, 1, 2])
        cout = groups * rng.choice([1, 2, 4])
        if ch[-1] % groups:
            groups = 1
        pm = rng.choice(["zeros", "zeros", "reflect", "replicate", "circular"])
        k = rng.choice([1, 3, [3, 1], 2])
        pad = rng.choice(["same", 1, 0, [1, 0]]) if k != 2 else rng.choice([0, 1])
        layers.append({"t": "conv", "cin": ch[-1], "cout": cout, "k": k, "stride": 1 if pad == "same" else rng.choice([1, 1, 2]), "padding": pad, "dilation": rng.choice([1, 1, 2]) if k != 2 else 1,
                       "groups": groups, "bias": rng.random() < 0.7, "padding_mode": pm})
        ch.append(cout)
        if i < n - 1 and rng.random() < 0.6:
            layers.append(rng.choice([{"t": "relu"}, {"t": "bn", "n": cout}, {"t": "gn", "n": cout}]) if cout == 4 or rng.random() < 0.5 else {"t": "relu"})
            if layers[-1]["t"] in ("bn", "gn"):
                layers[-1]["n"] = cout
    return wrap(rng, layers), [rng.choice([1, 2]), ch[0], 20, 18]


def random_model(rng):
    return random_mlp(rng) if rng.random() < 0.6 else random_convnet(rng)
