"""Builds quanto's C++ unpack extension by hand from the CURRENT sources (quanto's own loader needs
ninja, which this sandbox lacks) and injects it, so that the real quanto:: -> quanto_ext:: route runs.
Cached under build/cpp/<hash of sources>/."""
import hashlib
import importlib.util
import os
import subprocess
import sys
import sysconfig

VERIF = os.path.dirname(os.path.dirname(os.path.abspath(__file__)))
REPO = os.environ.get("VERIF_REPO", "/repo")


def build():
    import torch

    src_dir = os.path.join(REPO, "optimum/quanto/library/ext/cpp")
    srcs = [os.path.join(src_dir, f) for f in ("unpack.cpp", "pybind_module.cpp")]
    h = hashlib.sha1()
    for f in sorted(os.listdir(src_dir)):
        p = os.path.join(src_dir, f)
        if os.path.isfile(p) and f.endswith((".cpp", ".h")):
            h.update(f.encode())
            h.update(open(p, "rb").read())
    h.update(torch.__version__.encode())
    name = "quanto_cpp_verif_" + h.hexdigest()[:12]
    out_dir = os.path.join(VERIF, "build", "cpp")
    os.makedirs(out_dir, exist_ok=True)
    so = os.path.join(out_dir, name + ".so")
    if not os.path.exists(so):
        tdir = os.path.dirname(torch.__file__)
        cmd = [
            "g++", "-O1", "-std=c++20", "-shared", "-fPIC",
            f"-DTORCH_EXTENSION_NAME={name}", "-DTORCH_API_INCLUDE_EXTENSION_H",
            f"-I{tdir}/include", f"-I{tdir}/include/torch/csrc/api/include",
            f"-I{sysconfig.get_paths()['include']}",
            *srcs, "-o", so + ".tmp",
            f"-L{tdir}/lib", "-ltorch", "-ltorch_cpu", "-lc10", "-ltorch_python", f"-Wl,-rpath,{tdir}/lib",
        ]
        p = subprocess.run(cmd, capture_output=True, text=True, timeout=900)
        if p.returncode != 0:
            raise RuntimeError("C++ kernel build failed: " + p.stderr[-1500:])
        os.replace(so + ".tmp", so)
    return name, so


def inject():
    """load the freshly built module and make quanto use it; returns the module"""
    name, so = build()
    spec = importlib.util.spec_from_file_location(name, so)
    mod = importlib.util.module_from_spec(spec)
    spec.loader.exec_module(mod)
    import optimum.quanto.library.ext.cpp as cpp_ext

    cpp_ext.ext._lib = mod
    return mod


if __name__ == "__main__":
    print(build())
