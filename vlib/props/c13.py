"""C13 — calibration is scoped; inference and quantization are free of side effects."""
import os
import sys

sys.path.insert(0, os.path.dirname(os.path.dirname(os.path.abspath(__file__))))
sys.path.insert(0, os.path.join(os.path.dirname(os.path.dirname(os.path.dirname(os.path.abspath(__file__)))), "translators"))
import gen_calib  # noqa: E402
import ties  # noqa: E402
from common import COQ, Check, REPO, sh  # noqa: E402


def gen_prog(rng, depth, nctx, used):
    r = rng.random()
    if depth <= 0 or r < 0.25:
        return [rng.choice(["forward", "forward", "raise"])] if rng.random() < 0.85 else ["seq"]
    if r < 0.6:
        free = [c for c in range(nctx) if c not in used]
        if not free:
            return ["forward"]
        c = rng.choice(free)
        return ["with", c, gen_prog(rng, depth - 1, nctx, used | {c})]
    return ["seq"] + [gen_prog(rng, depth - 1, nctx, used) for _ in range(rng.randint(1, 3))]


def coq_prog(p):
    k = p[0]
    if k == "seq":
        out = "Skip"
        for q in reversed(p[1:]):
            out = f"(Seq {coq_prog(q)} {out})"
        return out
    if k == "with":
        return f"(With {p[1]}%nat {coq_prog(p[2])})"
    return {"forward": "Forward", "raise": "Raise"}[k]


def model_raises(p):
    k = p[0]
    if k == "seq":
        for q in p[1:]:
            if model_raises(q):
                return True
        return False
    if k == "with":
        return model_raises(p[2])
    return k == "raise"


def main(tier):
    ck = Check("C13", tier)
    ck.coverage["rule"] = (
        "random programs of nested / sequential Calibration contexts (re-using context objects sequentially), forwards and exceptions raised at any depth: torch's global forward(-pre) hook "
        "registries, the function-mode stack and the extension switch are snapshotted before / inside / after; purity runs: digests of every state_dict entry, qtypes and float inputs around forward, "
        "repeated evaluation, quantize(), freeze(), quantize_weight(), quantize_activation(); non-trivial = program with at least one context and one exception or nesting"
    )
    ck.ensure_static_build()
    errs = gen_calib.generate(REPO, os.path.join(ck.dyn, "GenCalib.v"))
    broken = ck.stage_a(errs, ["GenCalib.v"], "TieC13.v", "C13.v", tie_text=ties.calib_tie_text("C13"))
    gen_ok = not any(o[0].startswith("compile:") for o in broken)
    rng = ck.rng
    nprog = 60 if tier == "quick" else 500
    cases = []
    for i in range(nprog):
        nctx = rng.randint(1, 3)
        p = gen_prog(rng, rng.randint(1, 4), nctx, frozenset())
        if i == 0:
            p = ["seq", ["with", 0, ["seq", ["forward"], ["with", 1, ["seq", ["forward"], ["raise"]]]]], ["forward"]]
            nctx = 2
        if i == 1:
            p = ["seq", ["with", 0, ["forward"]], ["with", 0, ["raise"]], ["with", 0, ["forward"]]]
        # half of the programs raise INSIDE a forward pass (at the first or the last quantized module), the others between forwards
        cases.append({"kind": "program", "seed": ck.seed + i, "prog": p, "nctx": nctx, "raise_at": [None, 0, 2, None, 2][i % 5]})
    for wq in ("qint8", "qint4", "qint2", "qfloat8"):
        for aq in (None, "qint8", "qfloat8"):
            for frozen in (False, True):
                cases.append({"kind": "purity", "seed": ck.seed, "weights": wq, "activations": aq, "frozen": frozen})
                if aq is not None and wq in ("qint8", "qint4"):
                    cases.append({"kind": "purity", "seed": ck.seed, "weights": wq, "activations": aq, "frozen": frozen, "inplace": True})
                if aq is not None and wq in ("qint8", "qfloat8"):
                    # attention scores: bmm of two quantized activations (their scales are the modules' own output_scale buffers)
                    cases.append({"kind": "purity", "seed": ck.seed, "weights": wq, "activations": aq, "frozen": frozen, "attn": True})
    cases += [{"kind": "ext", "seed": 0, "raise": False}, {"kind": "ext", "seed": 0, "raise": True}]
    res = ck.impl("scoped", {"cases": cases}, timeout=1800)
    if isinstance(res, dict):
        ck.violation("implementation worker crashed: " + res.get("stderr", "")[-300:], {"stderr": res.get("stderr")})
        ck.finish("coqc GenCalib.v TieC13.v C13.v")
    progs = []
    for c, r in zip(cases, res):
        ck.count("kind", c["kind"])
        if not r["ok"]:
            ck.violation(f"{c['kind']} run raised {r['exn']}: {r.get('msg')}", {"case": c, "exception": r})
            continue
        if c["kind"] == "program":
            nontrivial = "with" in str(c["prog"]) and ("raise" in str(c["prog"]) or str(c["prog"]).count("with") > 1)
            ck.case(("prog", str(c["prog"])), nontrivial=nontrivial, sample=c["prog"] if len(ck.samples) < 3 and nontrivial else None)
            b, a = r["before"], r["after"]
            if (a["pre_ids"], a["post_ids"], a["modes"]) != (b["pre_ids"], b["post_ids"], b["modes"]):
                ck.violation("global hook registries / function-mode stack not restored after leaving the Calibration contexts", {"program": c["prog"], "before": b, "after": a})
            if r["raised"] != model_raises(c["prog"]):
                ck.violation("an exception raised inside a Calibration context was swallowed (or appeared from nowhere)", {"program": c["prog"], "raised": r["raised"]})
            if r.get("after_matches_control") is False:
                ck.violation("after leaving the Calibration contexts" + (" through an exception raised inside a forward pass" if c.get("raise_at") is not None and r["raised"] else "")
                             + " the model no longer behaves as its state_dict says (a freshly quantized control model loaded with the same state_dict gives other outputs: " + str(r.get("after_cls")) + ")",
                             {"program": c["prog"], "raise_at": c.get("raise_at"), "observed": r.get("after_cls")})
            if not r["fresh_unchanged"]:
                ck.violation("a model created and run after the contexts were left is modified by a forward pass", {"program": c["prog"]})
            if any(not x["restored"] for x in r.get("left", [])):
                ck.violation("leaving a (nested) Calibration context did not restore the global hook registries / mode stack to what they held when that context was entered "
                             "(e.g. the enclosing context's hooks were removed too)", {"program": c["prog"], "exits": r["left"]})
            progs.append((c, r))
        elif c["kind"] == "purity":
            ck.case(("purity", c["weights"], c["activations"], c["frozen"], c.get("inplace", False), c.get("attn", False)), nontrivial=True)
            cfg = {k: c.get(k) for k in ("weights", "activations", "frozen", "inplace", "attn")}
            if r["forward_changes_state"]:
                ck.violation("running a quantized model outside a Calibration context changed a parameter, buffer, scale or qtype", {"config": cfg})
            if r["input_changed"] or r["library_inputs_changed"]:
                ck.violation("a float tensor read by forward / quantize_weight / quantize_activation was modified", {"config": cfg, "observed": r})
            if not r["repeat_identical"]:
                ck.violation("repeated evaluation on the same input is not bit-identical", {"config": cfg})
            if r.get("held_params_changed"):
                ck.violation("quantize() modified float Parameter objects it read (references held by the caller: " + ", ".join(r["held_params_changed"][:3]) + " changed shape or content)", {"config": cfg, "changed": r["held_params_changed"]})
            if not r["quantize_keeps_params"]:
                ck.violation("quantize() changed float parameter bits", {"config": cfg})
            if r.get("freeze_touched_other"):
                ck.violation("freeze() modified something other than the weight", {"config": cfg, "keys": r["freeze_touched_other"]})
        else:
            ck.case(("ext", c["raise"]), nontrivial=True)
            if r["inside"] is not False or not r["restored"]:
                ck.violation("disable_extensions() did not disable / restore the extension switch", {"case": c, "observed": r})
    # ---- correspondence: the model's run on the same programs (registries restored, exception flag)
    if gen_ok and progs:
        body = "From Coq Require Import String List ZArith Bool.\nFrom QV Require Import Model.Calib.\nFrom QD Require Import GenCalib.\nImport ListNotations.\n"
        body += "Definition g0 := G [100%nat] [101%nat] [].\n"
        body += "Definition same (a b : gstate) : bool := (if list_eq_dec Nat.eq_dec (pre_hooks a) (pre_hooks b) then true else false) && (if list_eq_dec Nat.eq_dec (post_hooks a) (post_hooks b) then true else false) && (if list_eq_dec Nat.eq_dec (modes a) (modes b) then true else false).\n"
        body += "Definition chk (c : prog * bool * bool) : bool := let '(p, restored, raised) := c in let '(g1, ex) := run src_enter src_exit p g0 in Bool.eqb (same g1 g0) restored && Bool.eqb ex raised.\n"
        body += "Fixpoint failing_from {A} (f : A -> bool) (l : list A) (i : nat) : list nat := match l with [] => [] | a :: l' => if f a then failing_from f l' (S i) else i :: failing_from f l' (S i) end.\n"
        items = []
        for c, r in progs:
            restored = (r["after"]["pre_ids"], r["after"]["post_ids"], r["after"]["modes"]) == (r["before"]["pre_ids"], r["before"]["post_ids"], r["before"]["modes"])
            items.append(f"({coq_prog(c['prog'])}, {'true' if restored else 'false'}, {'true' if r['raised'] else 'false'})")
        body += "Definition cases : list (prog * bool * bool) := [\n" + ";\n".join(items) + "].\nEval vm_compute in (failing_from chk cases 0).\n"
        with open(os.path.join(ck.dyn, "corr_prog.v"), "w") as f:
            f.write(body)
        rc, out, err = sh(["coqc", "-Q", COQ, "QV", "-Q", ck.dyn, "QD", "corr_prog.v"], 600, cwd=ck.dyn)
        from common import parse_nat_list

        bad = parse_nat_list(out) if rc == 0 else None
        if bad is None:
            ck.corr_mismatch.append({"file": "corr_prog.v", "error": (err or out).strip()[-300:]})
        else:
            ck.corr_checked += len(progs)
            for k in bad:
                ck.corr_mismatch.append({"program": progs[k][0]["prog"], "implementation": progs[k][1]})
    ck.assumptions += [
        "Python's `with` statement (runs __exit__ on normal and exceptional completion, re-raises) and torch's hook handles / TorchFunctionMode stack are MODELLED (Model/Calib.v), tied by the program runs",
        "PARTIAL: that no torch kernel called on the way mutates its inputs' storage cannot be exhibited by the model; it is covered by the digest monitoring only",
    ]
    ck.finish("make -C coq ; coqc GenCalib.v TieC13.v C13.v (per run, against /repo's current source)",
              trusted_extra=["translators/gen_calib.py (event / write-set extractor)"], extra_cov={"programs": len(cases)})


if __name__ == "__main__":
    main(sys.argv[1] if len(sys.argv) > 1 else "quick")
