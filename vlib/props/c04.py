"""C04 — sub-byte packing: lossless, dense, identical across unpack kernels."""
import json
import os
import sys

sys.path.insert(0, os.path.dirname(os.path.dirname(os.path.abspath(__file__))))
sys.path.insert(0, os.path.join(os.path.dirname(os.path.dirname(os.path.dirname(os.path.abspath(__file__)))), "translators"))
from common import Check, REPO, coq_tensor, parse_nat_list  # noqa: E402

import gen_c04  # noqa: E402

IMPORTS = """From Coq Require Import String List ZArith Bool.
From QV Require Import Lib.Res Lib.Tensor.
From QD Require Import GenC04.
Import ListNotations.
Open Scope Z_scope.
"""

TRAILS = [[], [3], [2, 3], [2, 1, 2], [1], [5], [4, 4]]
OPS = ["add1", "sum0", "reshape_flat", "eq3", "mul_self", "cat_self", "max", "clone", "index0", "bitand",
       "narrow_last", "narrow_first_neg", "aten_slice_neg", "aten_slice_first", "slice_last", "select_neg", "flip_last"]
SLICING = OPS[10:]


def prod(l):
    p = 1
    for x in l:
        p *= x
    return p


def gen_cases(ck, tier):
    rng = ck.rng
    rmax = 33 if tier == "quick" else 130
    cases = []
    for bits in (2, 4):
        for R in range(1, rmax + 1):
            trails = [TRAILS[(R + bits) % len(TRAILS)]] if tier == "quick" else TRAILS
            if R <= 9:
                trails = TRAILS[:4] if tier == "quick" else TRAILS
            for tr in trails:
                n = R * prod(tr)
                kind = rng.choice(["rand", "rand", "max", "pos", "zero"])
                if kind == "rand":
                    data = [rng.randrange(2**bits) for _ in range(n)]
                elif kind == "max":
                    data = [2**bits - 1] * n
                elif kind == "zero":
                    data = [0] * n
                else:
                    data = [(i * 7 + i // 3) % (2**bits) for i in range(n)]
                c = {"bits": bits, "shape": [R] + tr, "data": data, "layout": rng.choice(["contig", "contig", "strided", "offset"]), "kind": kind}
                if rng.random() < (0.25 if tier == "quick" else 0.5):
                    c["ops"] = rng.sample(OPS, 3 if tier == "quick" else 6)
                    c["dispatch"] = True
                cases.append(c)
    # directed: every slicing op on rank-1, rank-2 and rank-3 packed tensors, both bit widths
    for bits in (2, 4):
        for shape in ([12], [7], [8, 3], [5, 4], [4, 2, 3]):
            n = prod(shape)
            cases.append({"bits": bits, "shape": shape, "data": [(i * 5 + i // 2 + 1) % (2**bits) for i in range(n)], "layout": "contig", "kind": "pos", "ops": list(SLICING), "dispatch": True})
    # byte-level stream: every byte value in every position class, plus random byte tensors
    bytecases = []
    for bits in (2, 4):
        bytecases.append({"bits": bits, "shape": [256], "data": list(range(256))})
        bytecases.append({"bits": bits, "shape": [4, 64], "data": list(range(255, -1, -1))})
        bytecases.append({"bits": bits, "shape": [2, 2, 64], "data": [(i * 37) % 256 for i in range(256)]})
        for _ in range(6 if tier == "quick" else 40):
            sh = [rng.randrange(1, 9)] + rng.choice(TRAILS)
            bytecases.append({"bits": bits, "shape": sh, "data": [rng.randrange(256) for _ in range(prod(sh))]})
    # malformed stream (outside the property's domain; exercised for model/implementation agreement only)
    mal = []
    for bits, sh in [(0, [3, 2]), (1, [9, 2]), (3, [5]), (8, [3, 2]), (2, [0, 3]), (4, [0]), (1, [17]), (3, [4, 3])]:
        n = prod(sh)
        hi = 2 ** min(max(bits, 1), 8)
        mal.append({"bits": bits, "shape": sh, "data": [rng.randrange(hi) for _ in range(n)], "layout": "contig", "malformed": True})
    return cases, bytecases, mal


def res_coq(o):
    if o is None:
        return None
    if o["ok"]:
        return f"(Ok {coq_tensor(o['shape'], o['data'])})"
    return f'(Err "{o["exn"]}"%string)'


def main(tier):
    ck = Check("C04", tier)
    ck.coverage["rule"] = (
        "cases: every leading dimension R=1..%d for bits 2 and 4 with trailing shapes of rank 0..3, values random / all-max / zero / "
        "position-coded, contiguous / strided / storage-offset layouts; byte stream: all 256 byte values in several shapes + random bytes; "
        "a case is non-trivial when it has at least one non-zero value; distinct = distinct (bits, shape, data, layout)" % (33 if tier == "quick" else 130)
    )
    ck.ensure_static_build()
    # ---------------- stage A: regenerate the model from the source, tie, theorems
    gen_path = os.path.join(ck.dyn, "GenC04.v")
    errs = gen_c04.generate(REPO, gen_path)
    broken = ck.stage_a(errs, ["GenC04.v"], "TieC04.v", "C04.v")
    gen_ok = not any(o[0].startswith(("translate:", "compile:")) for o in broken)

    # ---------------- implementation runs (crash isolated)
    cases, bytecases, mal = gen_cases(ck, tier)
    rng = ck.rng
    # pairs of packed tensors: equal shapes, and shapes that differ only in rows hidden by the padding (same packed rows)
    pairs = []
    for bits in (2, 4):
        vpi = 8 // bits
        for R in (vpi * 2, vpi * 3 - 1, vpi + 1, 5, 11, 12):
            for tr in ([], [3]):
                n = R * prod(tr)
                d1 = [rng.randrange(2**bits) for _ in range(n)]
                pairs.append({"a": {"bits": bits, "shape": [R] + tr, "data": d1}, "b": {"bits": bits, "shape": [R] + tr, "data": list(d1)}})
                d2 = list(d1)
                d2[rng.randrange(n)] ^= 1
                pairs.append({"a": {"bits": bits, "shape": [R] + tr, "data": d1}, "b": {"bits": bits, "shape": [R] + tr, "data": d2}})
                if R % vpi != 0:
                    # one more row, all zero: the packed payloads coincide, the tensors do not
                    w = prod(tr)
                    pairs.append({"a": {"bits": bits, "shape": [R] + tr, "data": d1}, "b": {"bits": bits, "shape": [R + 1] + tr, "data": d1 + [0] * w}})
    # payloads beyond 2**20 bytes (vectors and matrices; generated inside the worker from a seed)
    big = [{"seed": ck.seed + 1, "bits": 4, "shape": [2 ** 21 + 2 ** 19 + 3]}, {"seed": ck.seed + 2, "bits": 2, "shape": [2 ** 22 + 2 ** 20 + 5]},
           {"seed": ck.seed + 3, "bits": 4, "shape": [2051, 1031]}, {"seed": ck.seed + 4, "bits": 2, "shape": [4099, 3, 347]}]
    if tier == "thorough":
        big += [{"seed": ck.seed + 5, "bits": 2, "shape": [12000001]}, {"seed": ck.seed + 6, "bits": 4, "shape": [1, 2 ** 21 + 7]}, {"seed": ck.seed + 7, "bits": 4, "shape": [2 ** 21 + 9, 1]}]
    r = ck.impl("c04", {"cases": cases + mal, "bytes": bytecases, "pairs": pairs, "big": big}, timeout=1500)
    if r.get("crashed"):
        ck.violation("implementation worker crashed on the C04 case set (rc=%s): %s" % (r.get("rc"), r.get("stderr", "")[-300:]), {"cases": "whole C04 set", "stderr": r.get("stderr")})
        ck.finish("coqc (Gen, Tie, Props/C04.v)")
    have_cpp = r["cpp"] == "built-and-injected"
    ck.notes.append("C++ kernel: " + r["cpp"] + " (compiled by hand from the current unpack.cpp; quanto's own loader needs ninja)")
    allc = cases + mal

    # ---------------- stage C: the property itself, on the implementation
    for c, o in zip(allc, r["cases"]):
        if c.get("malformed"):
            ck.count("malformed", "bits=%d" % c["bits"])
            continue
        sig = (c["bits"], tuple(c["shape"]), tuple(c["data"]), c["layout"])
        ck.count("bits", c["bits"]); ck.count("layout", c["layout"]); ck.count("kind", c["kind"]); ck.count("rank", len(c["shape"]))
        ck.count("R mod vpi", c["shape"][0] % (8 // c["bits"]))
        ck.case(sig, nontrivial=any(c["data"]), sample={"bits": c["bits"], "shape": c["shape"], "data": c["data"][:24], "layout": c["layout"]})
        rep = {"case": c, "observed": o}
        if "pack_exn" in o:
            ck.violation(f"PackedTensor.pack raised {o['pack_exn']} on a valid tensor", rep)
            continue
        R, bits = c["shape"][0], c["bits"]
        want_rows = -(-R * bits // 8)
        if o["packed_data"]["shape"] != [want_rows] + c["shape"][1:]:
            ck.violation(f"payload shape {o['packed_data']['shape']} != ceil(rows*bits/8) x trailing = {[want_rows] + c['shape'][1:]}", rep)
        for route in ("unpack_ext_on", "unpack_ext_off"):
            u = o[route]
            if not u["ok"] or u["shape"] != c["shape"] or u["data"] != c["data"]:
                ck.violation(f"pack/unpack round trip differs via {route} (bits={bits}, shape={c['shape']})", rep)
        if have_cpp and o["ext"] is not None and o["ext"] != o["py"]:
            ck.violation(f"C++ and python unpack kernels differ on a packed payload (bits={bits}, shape={c['shape']})", rep)
        if have_cpp and o.get("fallback_warning"):
            ck.notes.append("quanto::unpack fell back to python although the C++ kernel is present: " + o["fallback_warning"][0])
        for name, ab in o.get("ops", {}).items():
            ck.count("op", name)
            a, b = ab["packed"], ab["plain"]
            if a["ok"] != b["ok"] or (a["ok"] and (a["shape"], a["data"], a["dtype"]) != (b["shape"], b["data"], b["dtype"])):
                ck.violation(f"op {name} on a PackedTensor differs from the op on its unpacked value", {"case": c, "op": name, "packed": a, "plain": b})
        if c.get("dispatch"):
            if o["detach"]["cls"] != "PackedTensor" or o["detach"]["value"].get("data") != c["data"]:
                ck.violation("detach() of a PackedTensor lost the packed class or changed the values", rep)
            if o["to_float"].get("ok") or o["to_float"].get("exn") != "ValueError":
                ck.violation("dtype change of a PackedTensor is not refused with ValueError", rep)
            if o["to_uint8"]["cls"] != "PackedTensor" or o["to_uint8"]["value"].get("data") != c["data"]:
                ck.violation("to(uint8) of a PackedTensor changed class or values", rep)
    for c, o in zip(cases, r["cases"]):
        h = o.get("history")
        if h:
            for key, what in (("input_unchanged", "packing modified its argument"),
                              ("packed_kept_after_input_update", "a packed tensor changed when the tensor it was packed from was later updated in place (the payload aliases its source)"),
                              ("repack_sees_update", "packing the same tensor object again after an in-place update does not pack its current values"),
                              ("payload_kept_after_unpacked_update", "modifying an unpacked tensor in place changed the packed payload / a later unpack")):
                if h.get(key) is False:
                    ck.violation(f"{what} (bits={c['bits']}, shape={c['shape']})", {"case": c, "history": h})
    for o in r.get("big", []):
        ck.count("big tensor", f"{o['bits']} bits {o['shape']}")
        ck.case(("big", o["bits"], tuple(o["shape"])), nontrivial=True)
        if "exn" in o:
            ck.violation(f"packing / unpacking a large tensor raised {o['exn']} (bits={o['bits']}, shape={o['shape']})", {"case": o})
            continue
        for key, what in (("payload_rows_ok", "payload does not have ceil(rows*bits/8) rows"), ("unpack_ext_on", "pack/unpack round trip differs (extensions on)"),
                          ("unpack_ext_off", "pack/unpack round trip differs (extensions off)"), ("py_is_definition", "the Python unpack kernel differs from the shift / mask / concatenate definition"),
                          ("ext_is_definition", "the C++ unpack kernel differs from the shift / mask / concatenate definition")):
            if o.get(key) is False:
                ck.violation(f"{what} on a large tensor (bits={o['bits']}, shape={o['shape']})", {"case": o})
    for pc, o in zip(pairs, r.get("pairs", [])):
        ck.case(("pair", pc["a"]["bits"], tuple(pc["a"]["shape"]), tuple(pc["b"]["shape"]), tuple(pc["a"]["data"]), tuple(pc["b"]["data"])), nontrivial=True)
        if "exn" in o:
            ck.violation("packing a pair of valid tensors raised " + o["exn"], {"pair": pc})
            continue
        for name, ab in o.items():
            ck.count("pair op", name)
            a, b = ab["packed"], ab["plain"]
            if a["ok"] != b["ok"] or (a["ok"] and (a["shape"], a["data"]) != (b["shape"], b["data"])):
                ck.violation(f"op {name} on two PackedTensors differs from the op on their unpacked values (shapes {pc['a']['shape']} and {pc['b']['shape']})", {"pair": pc, "op": name, "packed": a, "plain": b})
    for bc, o in zip(bytecases, r["bytes"]):
        sig = ("bytes", bc["bits"], tuple(bc["shape"]), tuple(bc["data"]))
        ck.count("bytecase bits", bc["bits"])
        ck.case(sig, nontrivial=True)
        routes = {k: o[k] for k in ("py", "ext", "routed_on", "routed_off") if o.get(k) is not None}
        vals = list(routes.values())
        if any(v != vals[0] for v in vals[1:]):
            ck.violation(f"unpack routes disagree on a byte tensor (bits={bc['bits']}, shape={bc['shape']}): " + ", ".join(k for k, v in routes.items() if v != vals[0]), {"case": bc, "observed": o})

    # ---------------- stage B: the generated model evaluated by Coq on the same cases
    if gen_ok:
        items, bitems = [], []
        for c, o in zip(allc, r["cases"]):
            pw = o.get("pack_weights")
            if pw is None:
                continue
            exp_pack = res_coq(pw)
            if c.get("malformed") or "pack_exn" in o:
                items.append(f"({c['bits']}, {coq_tensor(c['shape'], c['data'])}, {exp_pack}, None, None)")
            else:
                items.append(
                    f"({c['bits']}, {coq_tensor(c['shape'], c['data'])}, {exp_pack}, Some {res_coq(o['unpack_ext_off'])}, "
                    + (f"Some {res_coq(o['unpack_ext_on'])}" if have_cpp else "None")
                    + ")"
                )
        for bc, o in zip(bytecases, r["bytes"]):
            bitems.append(f"({bc['bits']}, {coq_tensor(bc['shape'], bc['data'])}, {res_coq(o['py'])}, " + (f"Some {res_coq(o['ext'])}" if o.get("ext") else "None") + ")")
        body = """
Definition opt_chk (m : res (tensor Z)) (e : option (res (tensor Z))) : bool :=
  match e with None => true | Some e => res_t_eqb m e end.
Definition chk (c : Z * tensor Z * res (tensor Z) * option (res (tensor Z)) * option (res (tensor Z))) : bool :=
  let '(bits, t, ep, eu_py, eu_cpp) := c in
  let mp := src_pack_weights "cpu" t bits in
  res_t_eqb mp ep &&
  match mp with
  | Ok p => opt_chk (src_packed_unpack (src_unpack_py "cpu") p bits (shape t)) eu_py
            && opt_chk (src_packed_unpack src_unpack_cpp p bits (shape t)) eu_cpp
  | Err _ => true
  end.
Definition bchk (c : Z * tensor Z * res (tensor Z) * option (res (tensor Z))) : bool :=
  let '(bits, t, epy, ecpp) := c in
  res_t_eqb (src_unpack_py "cpu" t bits) epy && opt_chk (src_unpack_cpp t bits) ecpp.
"""
        shard = 150
        mism = []
        nfiles = 0
        for kind, its, fn in (("case", items, "chk"), ("bytes", bitems, "bchk")):
            for s in range(0, len(its), shard):
                part = its[s : s + shard]
                text = body + "Definition cases := [\n" + ";\n".join(part) + "].\nEval vm_compute in (failing " + fn + " cases).\n"
                ok, out, err = ck.coq_eval(f"corr_{kind}_{s}", text, IMPORTS)
                nfiles += 1
                bad = parse_nat_list(out) if ok else None
                if bad is None:
                    ck.corr_mismatch.append({"file": f"corr_{kind}_{s}.v", "error": err.strip()[-400:]})
                else:
                    ck.corr_checked += len(part)
                    for i in bad:
                        mism.append((kind, s + i))
        for kind, i in mism:
            src = (allc[i], r["cases"][i]) if kind == "case" else (bytecases[i], r["bytes"][i])
            ck.corr_mismatch.append({"kind": kind, "input": src[0], "implementation": src[1]})
    else:
        ck.notes.append("correspondence skipped: generated model did not compile")

    ck.assumptions += [
        "torch's uint8 <<, >>, &, |=, cat, slicing are modelled by coq/Lib/Tensor.v (checked only by the correspondence run)",
        "MPS device branches (t * 2**bits, t // 2**bits) are proved equivalent in the model but never executed here",
        "quanto's own extension loader (ninja) is not exercised; the kernel is compiled by hand from the same unpack.cpp",
    ]
    ck.finish(
        "make -C coq (static proofs) ; coqc GenC04.v TieC04.v C04.v (per run, against /repo's current source)",
        trusted_extra=["translators/cpp_unpack.py pattern reader for unpack.cpp", "g++ build of the C++ kernel"],
        extra_cov={"programs": len(allc) + len(bytecases), "cpp_kernel": r["cpp"]},
    )


if __name__ == "__main__":
    main(sys.argv[1] if len(sys.argv) > 1 else "quick")
