"""C12 — calibration scales are the configured-momentum average of batch absmax ranges."""
import math
import os
import sys
from fractions import Fraction

sys.path.insert(0, os.path.dirname(os.path.dirname(os.path.abspath(__file__))))
sys.path.insert(0, os.path.join(os.path.dirname(os.path.dirname(os.path.dirname(os.path.abspath(__file__)))), "translators"))
import gen_calib  # noqa: E402
import gen_num  # noqa: E402
import numcorr as N  # noqa: E402
import ties  # noqa: E402
from common import COQ, Check, REPO, parse_nat_list, sh, zlist  # noqa: E402

QMAX = {"qint8": 127, "qfloat8_e4m3fn": 448, "qfloat8_e5m2": 57344}


def b64_parts(x):
    m, e = math.frexp(x)
    return int(m * (1 << 53)), e - 53


def ema_exact(news, m):
    """the property's oracle: EMA with momentum m initialised by the first batch (exact rationals, m as the double)"""
    mm = Fraction(m)
    s = None
    for x in news:
        s = x if s is None else mm * s + (1 - mm) * x
    return s


def main(tier):
    ck = Check("C12", tier)
    ck.coverage["rule"] = (
        "histories of 1..6 batches with magnitudes over 6 decades, momenta {0, 0.5, 0.75, 0.9, 0.99}, activations qint8/e4m3/e5m2, Linear / Conv2d / LayerNorm alone and chained (quantized inputs), "
        "one or two successive contexts, streamline on/off, dtypes float32/float16/bfloat16, plus the directed sentinel history; per module and per hook the logged batch range scales are folded "
        "(a) by the generated _updated_scale in Flocq arithmetic (bit-exact) and (b) by the exact EMA oracle; non-trivial = history with >= 2 batches and momentum != 0"
    )
    ck.ensure_static_build()
    errs = gen_num.generate(REPO, os.path.join(ck.dyn, "GenNum.v")) + gen_calib.generate(REPO, os.path.join(ck.dyn, "GenCalib.v"))
    broken = ck.stage_a(errs, ["GenNum.v", "GenCalib.v"], "TieC12.v", "C12.v", tie_text=ties.calib_tie_text("C12"),
                        more_ties=[("TieC12N.v", ties.tie_text("C12").replace("TieC12", "TieC12N"))])
    gen_ok = not any(o[0].startswith("compile:") for o in broken)
    rng = ck.rng
    ncase = 50 if tier == "quick" else 400
    archs = [["linear"], ["linear", "linear"], ["linear", "relu", "linear"], ["layernorm", "linear"], ["conv"], ["conv", "conv"], ["linear", "linear", "linear"], ["shared"]]
    cases = []
    for i in range(ncase):
        nb = rng.randint(1, 6)
        ctxs = [[10.0 ** rng.uniform(-3, 3) for _ in range(nb)]]
        if rng.random() < 0.2:
            # a history that starts with all-zero batches: the running scale is exactly 0 before the first real batch
            ctxs[0] = [0.0] * rng.randint(1, 2) + ctxs[0]
        if rng.random() < 0.3:
            ctxs.append([10.0 ** rng.uniform(-3, 3) for _ in range(rng.randint(1, 3))])
        cases.append({"seed": ck.seed * 1000 + i, "dtype": ["float32", "float32", "float16", "bfloat16"][i % 4], "activations": ["qint8", "qfloat8_e4m3fn", "qfloat8_e5m2"][i % 3],
                      "momentum": rng.choice([0.0, 0.5, 0.75, 0.9, 0.99]), "layers": archs[i % len(archs)], "width": 8, "contexts": ctxs, "streamline": rng.random() < 0.7, "staging": i % 3 == 1, "reuse_ctx": len(ctxs) > 1 and rng.random() < 0.5})
    # directed: the running scale hits the sentinel value 1 exactly after the first batch (known finding F9)
    cases.append({"seed": 7, "dtype": "float32", "activations": "qint8", "momentum": 0.5, "layers": ["linear"], "width": 8, "contexts": [["sentinel", 3.0, 0.5]], "streamline": False, "directed": "sentinel"})
    # directed: one Calibration object entered for three successive contexts (no streamlining, so that every context calibrates)
    for k, (dt, act) in enumerate([("float32", "qint8"), ("float16", "qfloat8_e4m3fn"), ("bfloat16", "qint8"), ("float32", "qfloat8_e5m2")]):
        cases.append({"seed": 900 + k, "dtype": dt, "activations": act, "momentum": [0.9, 0.5, 0.0, 0.75][k], "layers": archs[k], "width": 8,
                      "contexts": [[1.0, 3.0], [20.0], [0.05, 7.0]], "streamline": False, "reuse_ctx": True})
    res = ck.impl("calib", {"cases": cases}, timeout=2400)
    if isinstance(res, dict):
        ck.violation("implementation worker crashed: " + res.get("stderr", "")[-300:], {"stderr": res.get("stderr")})
        ck.finish("coqc GenNum.v GenCalib.v TieC12.v C12.v")
    ema_items = {}  # dtype -> list of (news, mm, me, expected, ref)
    for c, r in zip(cases, res):
        cfg = {k: c[k] for k in ("dtype", "activations", "momentum", "layers", "streamline")} | {"batches": sum(len(x) for x in c["contexts"]), "seed": c["seed"]}
        if not r["ok"]:
            ck.violation(f"calibration raised {r['exn']}: {r.get('msg')}", {"case": c, "exception": r})
            continue
        ck.count("arch", "-".join(c["layers"])); ck.count("momentum", c["momentum"]); ck.count("dtype", c["dtype"]); ck.count("activations", c["activations"])
        nb = len(r["snaps"])
        ck.case((c["seed"], c["dtype"], c["activations"], c["momentum"], tuple(c["layers"])), nontrivial=nb >= 2 and c["momentum"] != 0,
                sample={"config": cfg, "first_batch_scales": r["snaps"][0]["scales"]} if len(ck.samples) < 3 else None)
        hist = {}  # (module, kind) -> list of (bits, dtype)
        mixed = set()  # modules fed both quantized and float tensors: their input scale has no single defining history
        mm, me = b64_parts(c["momentum"])
        qmax = QMAX[c["activations"]]
        for bi, snap in enumerate(r["snaps"]):
            last_in = {}
            for ev in snap["log"]:
                if ev["kind"] in ("in", "in_quantized"):
                    last_in[ev["module"]] = ev["kind"]
            # every float batch entering a module with quantized activations must contribute its own range max|x|/qmax
            exp_seq, got_seq = {}, {}
            for ev in snap["log"]:
                if ev["kind"] == "in_expected":
                    exp_seq.setdefault(ev["module"], []).append(ev["bits"])
                elif ev["kind"] == "in":
                    got_seq.setdefault(ev["module"], []).append(ev["bits"])
            for mod_, want_bits in exp_seq.items():
                if got_seq.get(mod_, []) != want_bits:
                    ck.violation("a float batch entering a module did not contribute its own range max|x|/qmax to the input scale (the range used is missing or is another tensor's)",
                                 {"case": cfg, "module": mod_, "batch": bi, "expected_range_bits": want_bits, "used_range_bits": got_seq.get(mod_, []), "staging": c.get("staging")})
            for ev in snap["log"]:
                if ev["kind"] == "in_expected":
                    continue
                if ev["kind"] == "in_quantized":
                    if last_in.get(ev["module"]) != "in_quantized":
                        hist.pop((ev["module"], "in"), None)
                        mixed.add(ev["module"])
                        continue
                    # a module fed an already quantized tensor adopts that tensor's scale
                    got = snap["scales"].get(ev["module"])
                    if got and got["act"] is not None and got["in"] != ev["bits"]:
                        ck.violation("a module fed a quantized tensor did not adopt that tensor's scale as its input scale", {"case": cfg, "module": ev["module"], "batch": bi, "input_scale_bits": got["in"], "tensor_scale_bits": ev["bits"]})
                    hist.pop((ev["module"], "in"), None)
                    mixed.add(ev["module"])
                    continue
                hist.setdefault((ev["module"], ev["kind"]), []).append(ev)
            for (mod, kind), evs in hist.items():
                if kind == "in" and mod in mixed:
                    continue
                got = snap["scales"].get(mod)
                if got is None or not evs or evs[-1] is None:
                    continue
                dtype = evs[0]["dtype"]
                news_bits = [e["bits"] for e in evs]
                final_bits = got[kind]
                final_dtype = got[kind + "_dtype"]
                if final_dtype != dtype:
                    continue
                # (a) bit-exact: fold of the generated _updated_scale
                ema_items.setdefault(dtype, []).append((news_bits, mm, me, final_bits, {"case": cfg, "module": mod, "hook": kind, "batch": bi}))
                # (b) the property's oracle: true EMA of the batch ranges with the configured momentum
                news = [N.decode(b, dtype) for b in news_bits]
                final = N.decode(final_bits, dtype)
                if not all(N.is_finite(v) for v in news) or not N.is_finite(final):
                    ck.violation("non-finite calibration scale", {"case": cfg, "module": mod, "hook": kind})
                    continue
                want = ema_exact(news, c["momentum"])
                u, eta = N.u_eta(dtype)
                tol = 4 * len(news) * (u * max(abs(v) for v in news) + eta)
                if abs(final - want) > tol:
                    what = f"{'input' if kind == 'in' else 'output'} scale after {len(news)} batches is not the momentum-{c['momentum']} moving average of the batch ranges"
                    if any(v == 1 for v in [ema_exact(news[:k], c["momentum"]) for k in range(1, len(news))]):
                        what += " (the running scale passed through the sentinel value 1 and was re-initialised)"
                    ck.violation(what, {"case": cfg, "module": mod, "hook": kind, "batch_scales": [float(v) for v in news], "observed": float(final), "expected": float(want), "history": c["contexts"]})
                if bi == 0 and len(evs) == 1:
                    # after a single batch (one call of the module) no activation of that batch saturates
                    am = Fraction(evs[0]["absmax"])
                    if final > 0 and am / final > qmax * (1 + 2 * u) * (1 + eta / final) * (1 + 2 * u):
                        ck.violation("after a single batch an activation of that batch saturates", {"case": cfg, "module": mod, "hook": kind, "absmax": float(am), "scale": float(final)})
    # ---- correspondence: the generated _updated_scale, evaluated by Coq/Flocq, reproduces every running scale bit for bit
    if gen_ok:
        imports = N.IMPORTS
        jobs = []
        for dtype, items in ema_items.items():
            f = N.FMT[dtype][0]
            for s in range(0, len(items), 300):
                part = items[s : s + 300]
                name = f"ema_{f}_{s}"
                body = "Definition cases : list (list Z * Z * Z * Z) := [\n" + ";\n".join(f"({zlist(n)}, {mm_}, ({me_}), {fb})" for n, mm_, me_, fb, _ in part) + "].\n"
                body += f"Eval vm_compute in (failing (chk_ema {f} (@src_updated_scale _ (fnum {f}))) cases).\n"
                with open(os.path.join(ck.dyn, name + ".v"), "w") as fh:
                    fh.write(imports + body)
                jobs.append((name, part))
        for name, part in jobs:
            rc, out, err = sh(["coqc", "-Q", COQ, "QV", "-Q", ck.dyn, "QD", name + ".v"], 1200, cwd=ck.dyn)
            bad = parse_nat_list(out) if rc == 0 else None
            if bad is None:
                ck.corr_mismatch.append({"file": name + ".v", "error": (err or out).strip()[-300:]})
            else:
                ck.corr_checked += len(part)
                for k in bad:
                    n, mm_, me_, fb, ref = part[k]
                    ck.corr_mismatch.append({"ref": ref, "batch_scale_bits": n, "final_bits": fb})
    ck.assumptions += [
        "per-batch range scales (absmax/qmax of the float input and of the raw output) are the values the hooks themselves computed (logged by wrapping absmax_scale); their own correctness is C03's subject",
        "the EMA oracle tolerance is 4*n*(u*max|s|+eta) for n batches (float32/16 accumulation of the running average)",
    ]
    ck.finish("make -C coq ; coqc GenNum.v GenCalib.v TieC12.v TieC12N.v C12.v (per run, against /repo's current source)",
              trusted_extra=["translators/gen_calib.py (call-site / event extractor)", "Flocq 4.1.0 as IEEE semantics", "Reals axioms for the exact EMA theorem"],
              extra_cov={"programs": len(cases)})


if __name__ == "__main__":
    main(sys.argv[1] if len(sys.argv) > 1 else "quick")
