"""C16 — finite tensors never quantize to NaN/Inf, whatever their range."""
import os
import sys
from fractions import Fraction

sys.path.insert(0, os.path.dirname(os.path.dirname(os.path.abspath(__file__))))
sys.path.insert(0, os.path.join(os.path.dirname(os.path.dirname(os.path.dirname(os.path.abspath(__file__)))), "translators"))
import gen_num  # noqa: E402
import numcorr as N  # noqa: E402
import ties  # noqa: E402
from c02 import CLASSES, gen_values, groups_of, prod  # noqa: E402
from common import Check, REPO  # noqa: E402


def fmax_of(dtype):
    _, prec, emax, _ = N.FMT[dtype]
    return Fraction(2) ** emax - Fraction(2) ** (emax - prec)


def main(tier):
    ck = Check("C16", tier)
    ck.coverage["rule"] = (
        "weights assembled row by row / group by group from the degenerate classes " + ", ".join(CLASSES) + " in every mixture; 5 qtypes x 3 dtypes x axis 0/-1 x group sizes; "
        "calibration followed by inference on zero / constant / tiny / huge batches; zero-weight layers; audit: every dequantized value finite, C01/C02 error bounds still hold, zero layer outputs exactly its bias; "
        "non-trivial = tensor containing at least one degenerate row or group"
    )
    ck.ensure_static_build()
    errs = gen_num.generate(REPO, os.path.join(ck.dyn, "GenNum.v"))
    broken = ck.stage_a(errs, ["GenNum.v"], "TieC16.v", "C16.v", tie_text=ties.tie_text("C16"))
    gen_ok = not any(o[0].startswith("compile:") for o in broken)
    rng = ck.rng
    shapes = [([4, 6], 0), ([4, 6], -1), ([6, 8], 0), ([3, 2, 4], 0), ([2, 3, 4], -1), ([2, 16], 0), ([1, 8], 0), ([8, 1], -1)]
    ncase = 120 if tier == "quick" else 1200
    calls = []
    for i in range(ncase):
        dtype = ["float32", "float16", "bfloat16"][i % 3]
        qt = N.QTYPES[i % 5]
        shape, axis = shapes[i % len(shapes)]
        per = prod(shape) // (shape[0] if axis == 0 else shape[-1])
        gs = None
        if qt in ("qint2", "qint4") and rng.random() < 0.5:
            gs = rng.choice([g for g in range(1, per + 1) if per % g == 0])
        grp = groups_of(shape, axis, gs)
        bits = [0] * prod(shape)
        kinds = []
        for g, js in grp.items():
            cls = rng.choice(CLASSES + ["dtypemax"])
            kinds.append(cls)
            if cls == "dtypemax":
                # magnitudes up to the largest finite number of the dtype itself (both signs)
                fmax = fmax_of(dtype)
                vals = [N.encode_nearest(fmax * Fraction(rng.choice([1, 1, -1, -1, 0.999, 0.75, -0.6, 0.5, 0.3])).limit_denominator(1 << 30), dtype) for _ in js]
            else:
                vals = gen_values(rng, dtype, len(js), cls)
            for j, b in zip(js, vals):
                bits[j] = b
        calls.append({"fn": "quantize_weight", "layout": rng.choice([None, None, None, "transposed", "strided", "offset"]), "dtype": dtype, "shape": shape, "bits": bits, "qtype": qt, "axis": axis, "group_size": gs, "optimizer": None, "kinds": kinds})
    for c_ in calls:
        ck.count("layout", c_.get("layout") or "contiguous")
    res = ck.impl("numq", {"calls": calls}, timeout=2400)
    if isinstance(res, dict):
        ck.violation("implementation worker crashed: " + res.get("stderr", "")[-300:], {"stderr": res.get("stderr")})
        ck.finish("coqc GenNum.v TieC16.v C16.v")
    for c, r in zip(calls, res):
        cfg = {k: c[k] for k in ("dtype", "qtype", "shape", "axis", "group_size")}
        dtype, qt, shape, axis, gs = c["dtype"], c["qtype"], c["shape"], c["axis"], c["group_size"]
        for k in c["kinds"]:
            ck.count("class", k)
        ck.count("qtype", qt)
        if not r["ok"]:
            ck.violation(f"quantize_weight raised {r['exn']} on a finite tensor", {"config": cfg, "exception": r, "bits": c["bits"]})
            continue
        xs = [N.decode(b, dtype) for b in c["bits"]]
        deq = [N.decode(b, dtype) for b in r["deq"]["data"]]
        ck.case((dtype, qt, tuple(shape), axis, gs, tuple(c["bits"])), nontrivial=any(k != "noise" for k in c["kinds"]),
                sample={"config": cfg, "classes": c["kinds"][:6]} if len(ck.samples) < 4 else None)
        bad = [j for j, d in enumerate(deq) if not N.is_finite(d)]
        if bad:
            # the one situation the theorems exclude by hypothesis (grid qmax*scale not representable): identified precisely
            grp0 = groups_of(shape, axis, gs)
            fmax = fmax_of(dtype)
            u0, _ = N.u_eta(dtype)
            why = "NaN code / zero scale"
            bad_groups = [js for js in grp0.values() if any(j in bad for j in js)]
            if N.QINFO[qt][1] == 8:
                if all(max(abs(xs[j]) for j in js) * Fraction(128, 127) * (1 + 4 * u0) > fmax for js in bad_groups):
                    why = "absmax within 1% of the largest finite float: qmax x scale is not representable (scale or code rounded up)"
            else:
                if all(max([xs[j] for j in js] + [Fraction(0)]) - min([xs[j] for j in js] + [Fraction(0)]) > fmax * (1 - 4 * u0) for js in bad_groups):
                    why = "group range hi - lo exceeds the largest finite float: the scale overflows"
            ck.violation(f"finite weights dequantize to NaN/Inf ({qt}, {dtype}): {why}", {"config": cfg, "positions": bad[:8], "classes": c["kinds"], "bits": c["bits"]})
            continue
        u, eta = N.u_eta(dtype)
        grp = groups_of(shape, axis, gs)
        is8 = N.QINFO[qt][1] == 8
        for gi, (g, js) in enumerate(grp.items()):
            members = [xs[j] for j in js]
            worst = max(abs(deq[j] - xs[j]) for j in js)
            am = max(abs(v) for v in members)
            if is8:
                # C01's bound with the optimizer's own scale: half a step (int8) / half a grid spacing (float8), plus the
                # optimizer-scale slack qmax*(u*s + eta)
                s = N.decode(r["scale"]["data"][gi], dtype)
                if qt == "qint8":
                    half = s / 2
                else:
                    rel = Fraction(1, 16) if qt == "qfloat8_e4m3fn" else Fraction(1, 8)
                    half = max(rel * am, s * (Fraction(2) ** (-10 if qt == "qfloat8_e4m3fn" else -17)))
                slack = 127 * (2 * u * s + eta) + 4 * u * am + 4 * eta
                if worst > half + slack:
                    ck.violation(f"8-bit error bound of C01 violated on a degenerate row ({c['kinds'][gi]})", {"config": cfg, "cell": gi, "worst": float(worst), "allowed": float(half + slack), "bits": c["bits"]})
            else:
                L = 2 ** N.QINFO[qt][1] - 1
                lo, hi = min(members + [Fraction(0)]), max(members + [Fraction(0)])
                step = (hi - lo) / L
                slack = (L + 1) * (2 * u * am + 2 * u * step) + (L + 2) * eta
                if worst > step / 2 + slack:
                    ck.violation(f"half-step bound of C02 violated on a degenerate group ({c['kinds'][gi]})", {"config": cfg, "group": gi, "worst": float(worst), "half_step": float(step / 2), "bits": c["bits"]})
    # modules: zero layer outputs exactly its bias; calibration on degenerate batches then inference
    mods = []
    for qt in ("qint2", "qint4", "qint8", "qfloat8"):
        for act in (None, "qint8", "qfloat8"):
            for dtype in ("float32", "float16", "bfloat16"):
                if tier == "quick" and rng.random() > 0.5:
                    continue
                mods.append({"kind": "zero_layer", "weights": qt, "activations": act, "dtype": dtype, "in": rng.choice([16, 32, 256]), "out": 8})
    for batches in (["zeros"], ["zeros", "noise"], ["const"], ["tiny"], ["huge"], ["noise", "zeros"], ["zeros", "zeros"]):
        for act in ("qint8", "qfloat8"):
            for dtype in ("float32", "float16", "bfloat16"):
                mods.append({"kind": "calib", "weights": rng.choice(["qint8", "qint4", "qfloat8"]), "activations": act, "dtype": dtype, "batches": batches, "in": 16, "out": 8})
    # a dead producer feeding a consumer with another activation qtype (both called directly), calibrated then run
    for a1, a2 in (("qint8", "qfloat8"), ("qfloat8", "qint8"), ("qint8", "qint8")):
        for dtype in ("float32", "float16", "bfloat16"):
            for stream in (True, False):
                mods.append({"kind": "dead_chain", "weights": rng.choice(["qint8", "qint4", "qfloat8"]), "activations": a1, "consumer_activations": a2, "dtype": dtype, "in": 16, "out": 8, "streamline": stream})
    mres = ck.impl("modfin", {"cases": mods, "seed": ck.seed}, timeout=1800)
    if isinstance(mres, dict):
        ck.violation("module worker crashed: " + mres.get("stderr", "")[-400:], {"stderr": mres.get("stderr")})
    else:
        for c, r in zip(mods, mres):
            ck.count("module", c["kind"])
            ck.case(("mod", c["kind"], c["weights"], c["activations"], c["dtype"], tuple(c.get("batches", []))), nontrivial=True)
            if not r["ok"]:
                ck.violation(f"{c['kind']} raised {r['exn']}: {r.get('msg')}", {"module": c, "exception": r})
                continue
            if c["kind"] == "dead_chain" and not (r["finite"] and r["equals_bias"]):
                ck.violation("a dead (all-zero) producer feeding a consumer with another activation qtype: after calibration the consumer does not output exactly its bias"
                             + (" (NaN / Inf: NaN code / zero scale)" if not r["finite"] else ""), {"module": c, "observed": r})
            if c["kind"] == "zero_layer" and not r["equals_bias"]:
                ck.violation("a layer whose weights are all zero does not output exactly its bias", {"module": c, "observed": r})
            if c["kind"] == "calib" and not (r["scales_finite"] and r["output_finite"]):
                ck.violation("calibration on finite batches followed by inference gives non-finite scales or activations (NaN code / zero scale)", {"module": c, "observed": r})
    if gen_ok:
        N.run_correspondence(ck, calls, res, shard=40)
    ck.assumptions += [
        "theorems cover qint8, both float8 types and the int2/int4 zero-scale case for all three float formats, under the hypothesis that the grid qmax*scale is representable; where it is not (absmax within 1% of the dtype's largest number) the implementation overflows: known findings F33 / F34",
        "8-bit audit tolerance on degenerate rows includes the optimizer-scale slack qmax*(u*s+eta) (a scale that underflows to zero dequantizes the row to zero: error <= 127*eta)",
    ]
    ck.finish("make -C coq ; coqc GenNum.v TieC16.v C16.v (per run, against /repo's current source)",
              trusted_extra=["Flocq 4.1.0 as IEEE semantics", "Reals axioms (via Flocq)"], extra_cov={"programs": len(calls) + len(mods)})


if __name__ == "__main__":
    main(sys.argv[1] if len(sys.argv) > 1 else "quick")
