"""C10 — state_dict save/load round trips reproduce the quantized model exactly."""
import os
import sys

sys.path.insert(0, os.path.dirname(os.path.dirname(os.path.abspath(__file__))))
sys.path.insert(0, os.path.join(os.path.dirname(os.path.dirname(os.path.dirname(os.path.abspath(__file__)))), "translators"))
import gen_ser  # noqa: E402
import modties  # noqa: E402
from common import COQ, Check, REPO, parse_nat_list, sh, zlist  # noqa: E402
from modgen import named_specs, random_model  # noqa: E402

IMPORTS = "From Coq Require Import String List ZArith Bool.\nFrom QV Require Import Model.Codec Model.Serial.\nFrom QD Require Import GenSer.\nImport ListNotations.\nOpen Scope string_scope.\n"


def cs(s):
    return '"' + s.replace('"', '""') + '"'


def zl(xs):
    return zlist(xs) + "%Z"


def opt(v):
    return "None" if v is None else f"(Some ({int(v)})%Z)"


def pyval(v, tuple_=False):
    if v is None:
        return "PNone"
    if isinstance(v, int):
        return f"(PInt ({v})%Z)"
    return f"({'PTuple' if tuple_ else 'PList'} {zl(v)})"


def group_size_of(sp):
    """QModuleMixin.__init__'s rule on a layer spec"""
    feat = sp["in"] if sp["t"] == "linear" else (sp["cin"] // sp["groups"]) * (sp["k"] if isinstance(sp["k"], int) else sp["k"][0]) * (sp["k"] if isinstance(sp["k"], int) else sp["k"][1])
    gs = 128
    if feat > gs:
        while feat % gs != 0 and gs > 32:
            gs -= 32
        if feat % gs == 0:
            return gs
    return None


def main(tier):
    ck = Check("C10", tier)
    ck.coverage["rule"] = (
        "runnable models (MLPs / conv nets as in C09, LayerNorm with and without parameters), weights in six qtypes (per-axis and grouped), activations None/qint8/qfloat8, dtypes float32/float16/bfloat16, "
        "calibrated or not, frozen or not; serializers torch.save+load, weights_only, safetensors; targets same-quantized, default-quantized (quantize(model)) and requantize(); second save/load cycle; "
        "all values of the state_dict typed, every meta string checked against str()/literal_eval models in Coq, every frozen weight's keys run through the generated loaders inside Coq; "
        "non-trivial = frozen model with >= 1 quantized weight reloaded with bit-identical outputs"
    )
    ck.ensure_static_build()
    errs = gen_ser.generate(REPO, os.path.join(ck.dyn, "GenSer.v"))
    broken = ck.stage_a(errs, ["GenSer.v"], "TieSer.v", "C10.v", tie_text=modties.ser_tie_text())
    gen_ok = not any(o[0].startswith("compile:") or o[0].startswith("translate:") for o in broken)
    rng = ck.rng
    ncase = 36 if tier == "quick" else 800
    wq = ["qint8", "qint4", "qint2", "qfloat8", "qfloat8_e4m3fn", "qfloat8_e5m2", "qint4", "qint2"]
    aq = [None, "qint8", "qfloat8", None, "qint8"]
    cases = []
    for i in range(ncase):
        tree, inp = random_model(rng)
        dtype = ["float32", "float16", "bfloat16"][i % 3]
        w = wq[i % 8]
        a = aq[(i // 3) % 5]
        cal = a is not None and rng.random() < 0.8
        stream = cal and rng.random() < 0.4
        if dtype == "bfloat16" and w == "qint8" and (a is None or stream):
            # F14: bfloat16 activations x qint8 weights are routed to torch._weight_int8pack_mm, which crashes the interpreter on weights whose
            # rows are not aligned (in_features % 16 != 0, or a payload loaded from safetensors): exercised by the crash-isolated case below
            w = "qint4"
        if dtype != "float32" and a is not None:
            for _, sp in named_specs(tree):
                if sp["t"] == "ln" and not sp["affine"]:
                    sp["affine"], sp["bias"] = True, True  # F28 (C08): exercised by the directed case below
        frz = rng.random() < 0.75
        cases.append({"seed": ck.seed * 1000 + i, "dtype": dtype, "weights": w, "activations": a, "tree": tree, "input": inp, "calibrate": cal, "freeze": frz,
                      "optimizer": "clip" if frz and rng.random() < 0.25 else None, "streamline": stream,
                      "load_from": [rng.choice(["pickle", "weights_only", "safetensors"])] if tier == "quick" else ["pickle", "weights_only", "safetensors"], "second_cycle": rng.random() < 0.5, "no_grad_params": rng.random() < 0.35})
    # directed (F28): a calibrated half-precision model with a parameterless LayerNorm, reloaded
    cases.append({"seed": 21, "dtype": "float16", "weights": "qint4", "activations": "qfloat8", "calibrate": True, "freeze": True, "input": [2, 32], "load_from": ["pickle"], "second_cycle": False, "directed": "F28",
                  "tree": {"t": "seq", "ch": [{"t": "linear", "in": 32, "out": 16, "bias": True}, {"t": "ln", "shape": [16], "affine": False, "bias": False, "eps": 1e-5}, {"t": "linear", "in": 16, "out": 8, "bias": True}]}})
    # directed: unfrozen grouped int2 / int4 convolutions (kernel fan-in 288 -> group size 96, while in_channels = 32 alone would
    # not be grouped) and a wide Linear, reloaded: the group size of the reloaded module must be the saved module's
    for k, (wq_, dt_) in enumerate([("qint4", "float32"), ("qint2", "float32"), ("qint4", "float16")]):
        cases.append({"seed": 30 + k, "dtype": dt_, "weights": wq_, "activations": None, "calibrate": False, "freeze": k == 2, "input": [1, 32, 6, 6], "load_from": ["pickle"], "second_cycle": True,
                      "optimizer": None, "streamline": False, "directed": "grouped-conv",
                      "tree": {"t": "seq", "ch": [{"t": "conv", "cin": 32, "cout": 16, "k": 3, "stride": 1, "padding": 1, "dilation": 1, "groups": 1, "bias": True, "padding_mode": "zeros"},
                                                  {"t": "relu"},
                                                  {"t": "conv", "cin": 16, "cout": 4, "k": [3, 3], "stride": 1, "padding": 0, "dilation": 1, "groups": 1, "bias": False, "padding_mode": "zeros"}]}})
    crash = {"seed": 22, "dtype": "bfloat16", "weights": "qint8", "activations": None, "calibrate": False, "freeze": True, "input": [1, 64], "load_from": ["safetensors"], "second_cycle": False,
             "tree": {"t": "seq", "ch": [{"t": "linear", "in": 64, "out": 6, "bias": True}]}}
    rc = ck.impl("ser", {"cases": [crash]}, timeout=600)
    if isinstance(rc, dict) or not rc[0]["ok"] or any(not t.get("ok") or not t.get("outputs_equal") for t in rc[0]["targets"].values()):
        ck.violation("bfloat16 model with frozen qint8 weights and float activations reloaded from safetensors: forward is routed to torch._weight_int8pack_mm, which crashes the interpreter "
                     "on a payload that is not aligned in memory", {"case": crash, "result": rc if isinstance(rc, dict) else rc[0]["targets"]})
    res = ck.impl("ser", {"cases": cases}, timeout=3300)
    if isinstance(res, dict):
        ck.violation("implementation worker crashed: " + res.get("stderr", "")[-300:], {"stderr": res.get("stderr")})
        ck.finish("coqc GenSer.v TieSer.v C10.v")
    codec_items = []
    load_items = {"qbytes": [], "qbits": []}
    for c, r in zip(cases, res):
        cfg = {k: c.get(k) for k in ("seed", "dtype", "weights", "activations", "calibrate", "freeze", "input", "tree", "optimizer", "streamline")}
        if not r["ok"]:
            ck.violation(f"building the saved model raised {r['exn']}: {r.get('msg')}", {"case": cfg, "exception": r})
            continue
        has_ln = any(sp["t"] == "ln" for _, sp in named_specs(c["tree"]))
        ck.count("dtype", c["dtype"]); ck.count("weights", c["weights"]); ck.count("activations", c["activations"]); ck.count("frozen", c["freeze"]); ck.count("calibrated", c["calibrate"])
        if r["bad_values"]:
            ck.violation(f"state_dict contains values that are neither plain tensors nor strings: {r['bad_values'][:3]} ({r['kinds']})", {"case": cfg, "keys": r["bad_values"]})
        for name, s in r["serializers"].items():
            ck.count("serializer", name)
            if not s["ok"]:
                ck.violation(f"{name} serializer raised {s['exn']}: {s['msg'][:150]}", {"case": cfg, "serializer": name, "result": s})
            elif not s["equal"]:
                ck.violation(f"state_dict changed through the {name} serializer", {"case": cfg, "serializer": name, "keys": s["diff"]})
        good = False
        for key, t in r["targets"].items():
            how, sname = key.split("/")
            ck.count("target", how)
            tctx = {"case": cfg, "target": how, "serializer": sname, "result": t}
            if not t["ok"]:
                what = f"loading into a {how} model raised {t['exn']}: {t['msg'][:160]}"
                if how in ("default", "requantize") and has_ln and c["activations"] is not None and "nexpected key" in t["msg"]:
                    what = "a model with a quantized LayerNorm cannot be reloaded by requantize() / into a default-quantized model: quantize(model) without activations leaves LayerNorm float, load_state_dict reports unexpected keys"
                if c.get("directed") == "F28":
                    what = "half-precision model with a LayerNorm(elementwise_affine=False) and quantized activations, reloaded from its state_dict: the target's float32 scale buffers receive the saved values by copy, the LayerNorm output is float32 and the next layer raises"
                ck.violation(what, tctx)
                continue
            grouped = any(sp["t"] in ("linear", "conv") and group_size_of(sp) is not None for _, sp in named_specs(c["tree"]))
            if not t["outputs_equal"] and how in ("default", "requantize") and not c["freeze"] and c["weights"] in ("qint2", "qint4") and grouped and t["state_equal"]:
                ck.violation("an unfrozen int2/int4 state_dict loaded into a default-quantized model or through requantize() keeps weight_group_size = None (it is derived in __init__ from the constructor's qtype, not from the loaded one): "
                             "weights that the saved model quantizes in groups are quantized per-axis, outputs differ", tctx)
            elif not t["outputs_equal"]:
                ck.violation(f"outputs of the {how} model after loading differ from the saved model's ({'frozen' if c['freeze'] else 'unfrozen'}, weights {c['weights']}, activations {c['activations']})", tctx)
            if t.get("first_state_dict_unchanged") is False or t.get("saved_model_unchanged") is False:
                ck.violation("loading a second checkpoint into a model modified the first state_dict it had been loaded from (or the model that state_dict came from): storage shared by the first load is written through",
                             tctx)
            if t["outputs_equal"] and t["state_equal"] and (t.get("requantize_twice_outputs_equal") is False or t.get("requantize_twice_state_equal") is False or t.get("requantize_twice_exn")):
                ck.violation(f"requantize() of a target that had already been requantized from a checkpoint in the opposite state (frozen <-> not frozen) does not reproduce the saved model "
                             f"({'frozen' if c['freeze'] else 'unfrozen'}, weights {c['weights']}): {t.get('requantize_twice_exn') or 'outputs / state differ'}", tctx)
            if not t["state_equal"]:
                ck.violation(f"state_dict of the {how} model after loading differs from the saved one: {t['diff'][:3]}", tctx)
            if t["devices"] not in (["cpu"], []):
                ck.violation("loaded model is not on the device of the target model", tctx)
            if c["freeze"] and not all(t["frozen"]):
                ck.violation("a frozen model reloads as unfrozen", tctx)
            if t.get("second_outputs_equal") is False or t.get("second_state_equal") is False:
                ck.violation("a second save / load cycle changes the model", tctx)
            good = good or (t["outputs_equal"] and t["state_equal"])
        ck.case((c["seed"],), nontrivial=good and c["freeze"] and len(r["meta"]) > 0,
                sample={"config": {k: cfg[k] for k in ("dtype", "weights", "activations", "calibrate", "freeze")}, "keys": r["keys"][:12]} if len(ck.samples) < 3 else None)
        # ---- material for the Coq-side correspondence
        keys = r["keys"]
        strings = r["strings"]
        for rec, rb in zip(r["meta"], r["rebuilt"]):
            p = rec["prefix"]
            if not rb["ok"]:
                ck.violation(f"{rec['cls']}.load_from_state_dict raised {rb['exn']} on the module's own keys", {"case": cfg, "prefix": p, "result": rb})
                continue
            for f in ("qtype", "axis", "size", "stride", "group_size", "packed"):
                if rec.get(f) != rb.get(f):
                    ck.violation(f"{rec['cls']} rebuilt from its flattened keys has {f} = {rb.get(f)}, saved {rec.get(f)}", {"case": cfg, "prefix": p, "saved": rec, "rebuilt": rb})
            codec_items += [(pyval(rec["axis"]), strings[p + "axis"]), (pyval(rec["size"]), strings[p + "size"]), (pyval(rec["stride"]), strings[p + "stride"])]
            sd = "[" + "; ".join(f"({cs(k)}, {'LS ' + cs(strings[k]) if k in strings else 'LT ' + str(i) + '%nat'})" for i, k in enumerate(keys)) + "]"
            rest = "[" + "; ".join(cs(k) for k in keys if not k.startswith(p)) + "]"
            idx = {k: i for i, k in enumerate(keys)}
            if rec["cls"] == "QBytesTensor":
                want = f"{{| qb_data := {idx[p + '_data']}%nat; qb_scale := {idx[p + '_scale']}%nat; qb_qtype := {cs(rb['qtype'])}; qb_axis := {opt(rb['axis'])}; qb_size := {zl(rb['size'])}; qb_stride := {zl(rb['stride'])} |}}"
                load_items["qbytes"].append((f"({cs(p)}, {sd}, {want}, {rest})", {"case": cfg, "prefix": p}))
            else:
                pk = rb["packed"]
                codec_items += [(pyval(rec["group_size"]), strings[p + "group_size"]), (pyval(rec["packed"]["bits"]), strings[p + "_data.bits"]),
                                (pyval(rec["packed"]["size"]), strings[p + "_data.size"]), (pyval(rec["packed"]["stride"], True), strings[p + "_data.stride"])]
                want = (f"{{| qi_data := {{| pk_data := {idx[p + '_data._data']}%nat; pk_bits := ({pk['bits']})%Z; pk_size := {zl(pk['size'])}; pk_stride := {zl(pk['stride'])} |}}; "
                        f"qi_scale := {idx[p + '_scale']}%nat; qi_zp := {idx[p + '_zeropoint']}%nat; qi_qtype := {cs(rb['qtype'])}; qi_axis := {opt(rb['axis'])}; qi_group := {opt(rb['group_size'])}; "
                        f"qi_size := {zl(rb['size'])}; qi_stride := {zl(rb['stride'])} |}}")
                load_items["qbits"].append((f"({cs(p)}, {sd}, {want}, {rest})", {"case": cfg, "prefix": p}))
    # ---- correspondence inside Coq: str()/literal_eval models on every meta string; generated loaders on every frozen weight
    if gen_ok:
        jobs = []
        uniq = sorted(set(codec_items))
        for s in range(0, len(uniq), 400):
            part = uniq[s : s + 400]
            body = "Definition cases : list (pyval * string) := [\n" + ";\n".join(f"({v}, {cs(t)})" for v, t in part) + "].\nEval vm_compute in (failing chk_codec cases).\n"
            jobs.append((f"codec_{s}", body, [{"value": v, "string": t} for v, t in part]))
        for rec in ("qbytes", "qbits"):
            items = load_items[rec]
            for s in range(0, len(items), 60):
                part = items[s : s + 60]
                body = f"Definition cases : list (string * sdict * {rec} * list string) := [\n" + ";\n".join(x for x, _ in part) + f"].\nEval vm_compute in (failing (chk_load src_load_{rec} {rec}_eqb) cases).\n"
                jobs.append((f"load_{rec}_{s}", body, [ref for _, ref in part]))
        for name, body, refs in jobs:
            with open(os.path.join(ck.dyn, name + ".v"), "w") as fh:
                fh.write(IMPORTS + body)
            rc, out, err = sh(["coqc", "-Q", COQ, "QV", "-Q", ck.dyn, "QD", name + ".v"], 900, cwd=ck.dyn)
            bad = parse_nat_list(out) if rc == 0 else None
            if bad is None:
                ck.corr_mismatch.append({"file": name + ".v", "error": (err or out).strip()[-300:]})
            else:
                ck.corr_checked += len(refs)
                for k in bad:
                    ck.corr_mismatch.append({"file": name, "ref": refs[k]})
    ck.assumptions += [
        "tensors are identified by their key position in the Coq-side state_dict (the loaders only move them); bit equality of tensor contents is checked by the audit (sha1 of raw bytes)",
        "only the cpu device exists here: 'on the device of the target model' is checked for cpu only",
        "str.replace(prefix, '') in the loaders is modelled as stripping the leading prefix (meta names contain no '.', so no second occurrence exists)",
    ]
    ck.finish("make -C coq ; coqc GenSer.v TieSer.v C10.v codec_*.v load_*.v (per run, against /repo's current source)",
              trusted_extra=["translators/gen_ser.py (flatten / loader translator, AST fingerprints of module-level save/load, safe_save/safe_load, requantize)",
                             "torch.save / torch.load / safetensors as byte-faithful containers (checked by the audit's digests)"],
              extra_cov={"programs": len(cases)})


if __name__ == "__main__":
    main(sys.argv[1] if len(sys.argv) > 1 else "quick")
