"""C08 — quantize() swaps exactly the eligible modules and each computes its float twin."""
import json
import os
import sys

sys.path.insert(0, os.path.dirname(os.path.dirname(os.path.abspath(__file__))))
sys.path.insert(0, os.path.join(os.path.dirname(os.path.dirname(os.path.dirname(os.path.abspath(__file__)))), "translators"))
import gen_mod  # noqa: E402
import modties  # noqa: E402
from common import COQ, Check, REPO, parse_nat_list, sh  # noqa: E402
from modgen import KCODE, coq_tree, named_specs, random_tree  # noqa: E402

IMPORTS = "From Coq Require Import String List ZArith Bool.\nFrom QV Require Import Model.Module.\nImport ListNotations.\nOpen Scope string_scope.\n"


def expected_kind(spec_t, selected, act):
    base = {"linear": "Linear", "conv": "Conv2d", "ln": "LayerNorm"}.get(spec_t)
    if base is None:
        return "Other"
    if not selected:
        return base
    if base == "LayerNorm" and act is None:
        return base
    return "Q" + base


def main(tier):
    ck = Check("C08", tier)
    ck.coverage["rule"] = (
        "random module trees (depth <= 4; Sequential / ModuleList / ModuleDict / user-defined blocks; Linear, Conv2d over stride / padding ints, tuples, 'same', 'valid' / dilation / groups / "
        "padding_mode / bias, LayerNorm over normalized_shape / affine / bias / eps; ReLU, GELU, BatchNorm2d, GroupNorm, Conv1d, Embedding, Bilinear, Dropout, Identity as other layers), "
        "weights in six qtypes, activations None/qint8/qfloat8 variants, dtypes float32/float16/bfloat16, filters None / random subsets / empty / containers only; plus directed trees "
        "(module instance registered under two names, eligible root); each replaced leaf is run against its float twin on float and pre-quantized inputs of several ranks; "
        "non-trivial = a tree with >= 1 replaced and >= 1 untouched module"
    )
    ck.ensure_static_build()
    errs = gen_mod.generate(REPO, os.path.join(ck.dyn, "GenMod.v"))
    ck.stage_a(errs, ["GenMod.v"], "TieMod.v", "C08.v", tie_text=modties.tie_text())
    rng = ck.rng
    ncase = 60 if tier == "quick" else 1200
    wq = ["qint8", "qint4", "qint2", "qfloat8", "qfloat8_e4m3fn", "qfloat8_e5m2"]
    aq = [None, "qint8", "qfloat8", None, "qint8", "qfloat8_e5m2"]
    cases = []
    for i in range(ncase):
        tree = random_tree(rng, depth=rng.randint(1, 4), ln_affine_only=False)
        names = [n for n, _ in named_specs(tree)]
        fm = rng.random()
        if fm < 0.45:
            flt = None
        elif fm < 0.85:
            flt = [n for n in names if rng.random() < 0.5]
        elif fm < 0.92:
            flt = []
        else:
            flt = [n for n, s in named_specs(tree) if s["t"] in ("seq", "list", "dict", "block")]
        cases.append({"seed": ck.seed * 1000 + i, "dtype": ["float32", "float16", "bfloat16"][i % 3], "weights": wq[i % 6], "activations": aq[(i // 2) % 6], "tree": tree, "filter": flt,
                      "variants": [rng.randint(0, 11), rng.randint(0, 35)], "explicit_none_filter": flt is None and rng.random() < 0.3, "optimizer": "clip" if rng.random() < 0.2 else None})
    for c in cases:
        if c["dtype"] == "bfloat16" and c["weights"] == "qint8" and c["activations"] is None:
            # F14 (C07): bfloat16 activations x qint8 weights with in_features % 4 == 0 and % 16 != 0 crash the interpreter in torch._weight_int8pack_mm;
            # that configuration is exercised by the directed, crash-isolated case below and kept out of the random trees
            for _, sp in named_specs(c["tree"]):
                if sp["t"] == "linear" and sp["in"] % 4 == 0 and sp["in"] % 16 != 0:
                    sp["in"] = 16 * (sp["in"] // 16 + 1)
    # directed: one module instance registered under two names
    lin = {"t": "linear", "in": 8, "out": 8, "bias": True, "key": "s"}
    cases.append({"seed": 11, "dtype": "float32", "weights": "qint8", "activations": None, "filter": None, "variants": [0], "directed": "shared",
                  "tree": {"t": "dict", "ch": [["a", lin], ["b", {"t": "seq", "ch": [{"t": "ref", "to": "s"}, {"t": "relu"}]}]]}})
    cases.append({"seed": 12, "dtype": "float32", "weights": "qint4", "activations": "qint8", "filter": None, "variants": [1], "directed": "shared",
                  "tree": {"t": "seq", "ch": [{"t": "conv", "cin": 4, "cout": 4, "k": 3, "stride": 1, "padding": 1, "dilation": 1, "groups": 1, "bias": True, "padding_mode": "zeros", "key": "c"},
                                              {"t": "relu"}, {"t": "ref", "to": "c"}]}})
    # directed: a shared instance SELECTED THROUGH THE FILTER (by any one of its names): every name must point to the one quantized module
    for k, fl in enumerate((["a"], ["b.0"], ["a", "c"])):
        lin2 = {"t": "linear", "in": 8, "out": 8, "bias": True, "key": "s2"}
        cases.append({"seed": 50 + k, "dtype": "float32", "weights": ["qint8", "qint4", "qfloat8"][k], "activations": None, "filter": fl, "variants": [0], "directed": "shared-filter",
                      "tree": {"t": "dict", "ch": [["a", lin2], ["b", {"t": "seq", "ch": [{"t": "ref", "to": "s2"}, {"t": "relu"}]}], ["c", {"t": "linear", "in": 8, "out": 4, "bias": False}]]}})
    # directed: weight tying between an eligible module and one that must stay untouched (lm_head.weight is embedding.weight)
    for k, (wq_, aq_, dt_) in enumerate([("qint8", None, "float32"), ("qint4", "qint8", "float16")]):
        cases.append({"seed": 17 + k, "dtype": dt_, "weights": wq_, "activations": aq_, "filter": None, "variants": [0], "directed": "tied",
                      "tree": {"t": "block", "ch": [["embed", {"t": "emb", "n": 24, "d": 16, "key": "e"}], ["body", {"t": "seq", "ch": [{"t": "linear", "in": 16, "out": 16, "bias": True}, {"t": "relu"}]}],
                                                    ["head", {"t": "linear", "in": 16, "out": 24, "bias": False, "tie_weight_to": "e"}]]}})
    # directed: weights-only 8-bit convolutions / linears in half precision (frozen and on large-magnitude inputs in the worker)
    for k, (wq_, dt_) in enumerate([("qint8", "float16"), ("qfloat8", "float16"), ("qint8", "bfloat16"), ("qfloat8_e5m2", "float16")]):
        cases.append({"seed": 70 + k, "dtype": dt_, "weights": wq_, "activations": None, "filter": None, "variants": [0, 2], "directed": "weights-only-half",
                      "tree": {"t": "seq", "ch": [{"t": "conv", "cin": 4, "cout": 4, "k": 3, "stride": 1, "padding": 1, "dilation": 1, "groups": 1, "bias": True, "padding_mode": "zeros"},
                                                  {"t": "relu"}, {"t": "conv", "cin": 4, "cout": 2, "k": 1, "stride": 1, "padding": 0, "dilation": 1, "groups": 1, "bias": False, "padding_mode": "zeros"}]}})
    # directed: LayerNorm without affine parameters, with quantized activations
    cases.append({"seed": 15, "dtype": "float32", "weights": "qint8", "activations": "qint8", "filter": None, "variants": [0, 1], "directed": "ln-no-affine",
                  "tree": {"t": "seq", "ch": [{"t": "ln", "shape": [8], "affine": False, "bias": False, "eps": 1e-5}, {"t": "linear", "in": 8, "out": 4, "bias": True}]}})
    # directed: LayerNorm with quantized activations on small-magnitude inputs / with a large eps (float and pre-quantized inputs)
    for k, (eps, vs) in enumerate([(1e-5, [13, 25, 12, 24]), (0.1, [1, 13, 0]), (1e-3, [25, 29])]):
        cases.append({"seed": 40 + k, "dtype": "float32", "weights": "qint8", "activations": ["qint8", "qfloat8", "qint8"][k], "filter": None, "variants": vs, "directed": "ln-small",
                      "tree": {"t": "seq", "ch": [{"t": "ln", "shape": [16], "affine": True, "bias": True, "eps": eps}]}})
    # directed: a half-precision chain through a LayerNorm without parameters, run before any calibration
    cases.append({"seed": 16, "dtype": "float16", "weights": "qint4", "activations": "qfloat8", "filter": None, "variants": [0], "directed": "ln-no-affine-half", "chain_input": [3, 16],
                  "tree": {"t": "seq", "ch": [{"t": "linear", "in": 16, "out": 16, "bias": True}, {"t": "ln", "shape": [16], "affine": False, "bias": False, "eps": 1e-5},
                                              {"t": "linear", "in": 16, "out": 4, "bias": True}]}})
    # directed: the root itself is eligible
    cases.append({"seed": 13, "dtype": "float32", "weights": "qint8", "activations": None, "filter": None, "variants": [0], "directed": "root",
                  "tree": {"t": "linear", "in": 8, "out": 4, "bias": True}})
    crash = {"seed": 14, "dtype": "bfloat16", "weights": "qint8", "activations": None, "filter": None, "variants": [0], "tree": {"t": "seq", "ch": [{"t": "linear", "in": 8, "out": 4, "bias": True}]}}
    rc = ck.impl("mods", {"cases": [crash]}, timeout=600)
    if isinstance(rc, dict) or not rc[0]["ok"] or any("exn" in t or "bad" in t or t.get("ratio", 0) > 1 for t in rc[0]["twins"]):
        ck.violation("bfloat16 Linear with qint8 weights and in_features % 4 == 0 but % 16 != 0: forward is routed to torch._weight_int8pack_mm, which crashes the interpreter",
                     {"case": crash, "result": rc if isinstance(rc, dict) else rc[0]["twins"]})
    res = ck.impl("mods", {"cases": cases}, timeout=3000)
    if isinstance(res, dict):
        ck.violation("implementation worker crashed: " + res.get("stderr", "")[-300:], {"stderr": res.get("stderr")})
        ck.finish("coqc GenMod.v TieMod.v C08.v")
    coq_cases = []
    for c, r in zip(cases, res):
        cfg = {k: c[k] for k in ("seed", "dtype", "weights", "activations", "filter")} | {"tree": c["tree"], "directed": c.get("directed"), "optimizer": c.get("optimizer")}
        if not r["ok"]:
            ck.violation(f"quantize() raised {r['exn']}: {r.get('msg')}", {"case": cfg, "exception": r})
            continue
        specs = named_specs(c["tree"])
        pre = r["pre"]
        post = {p["name"]: p for p in r["post"]}
        if [p["name"] for p in pre] != [n for n, _ in specs]:
            ck.violation("harness: module names differ from the spec walk", {"case": cfg})
            continue
        ck.count("dtype", c["dtype"]); ck.count("weights", c["weights"]); ck.count("activations", c["activations"]); ck.count("filter", "none" if c["filter"] is None else "empty" if not c["filter"] else "subset")
        sel_ids = None if c["filter"] is None else {p["id"] for p in pre if p["name"] in c["filter"]}
        replaced = untouched = 0
        observed = []
        directed = c.get("directed")
        for k, pp in enumerate(r["post"]):
            if pp["name"] not in {p["name"] for p in pre}:
                what = f"after quantize() the model has an extra module named {pp['name']!r}"
                if directed == "root":
                    what = "the root module is itself eligible: quantize() registers a quantized copy as a child named '' and clears the root's parameters"
                ck.violation(what, {"case": cfg, "extra": pp})
        for (name, spec), p in zip(specs, pre):
            q = post.get(name)
            if q is None:
                ck.violation(f"module {name!r} disappeared", {"case": cfg})
                continue
            ck.count("leaf", spec["t"])
            selected = sel_ids is None or p["id"] in sel_ids
            want = expected_kind(spec["t"], selected and name != "", c["activations"])
            tag = f"{spec['t']} (selected={selected}, activations={c['activations']})"
            ctx = {"case": cfg, "module": name, "before": p, "after": q}
            ident_ok = True
            if q["kind"] != want:
                what = f"{tag}: expected {want} after quantize(), found {q['kind']}"
                if directed == "shared" and q["kind"] in ("Linear", "Conv2d"):
                    what = "a module instance registered under two names is replaced under the first name only; under the second it stays the float module with its parameters cleared"
                if directed == "root":
                    what = "the root module is itself eligible: quantize() registers a quantized copy as a child named '' and clears the root's parameters"
                ck.violation(what, ctx)
            if q["kind"] == p["kind"]:
                untouched += 1
                if not q["same_object"] or {k2: v for k2, v in q.items() if k2 not in ("same_object",)} != {k2: v for k2, v in p.items() if k2 != "id"}:
                    ident_ok = False
                    what = f"{tag}: a module that is not replaced was modified"
                    if directed == "shared":
                        what = "a module instance registered under two names is replaced under the first name only; under the second it stays the float module with its parameters cleared"
                    if directed == "root":
                        what = "the root module is itself eligible: quantize() registers a quantized copy as a child named '' and clears the root's parameters"
                    ck.violation(what, ctx)
            else:
                replaced += 1
                for fld in ("hp", "extra_repr"):
                    if q[fld] != p[fld]:
                        ident_ok = False
                        ck.violation(f"{tag}: {fld} changed by quantize()", ctx | {"field": fld})
                for pn, pv in p["params"].items():
                    qv = q["params"].get(pn, "<missing>")
                    if pv is None or qv is None or qv == "<missing>":
                        if pv != qv:
                            ident_ok = False
                            ck.violation(f"{tag}: parameter {pn} presence changed", ctx)
                        continue
                    for fld in ("bits", "dtype", "device", "shape", "requires_grad"):
                        if pv[fld] != qv[fld]:
                            ident_ok = False
                            ck.violation(f"{tag}: parameter {pn} {fld} not kept by quantize()", ctx | {"param": pn})
                if q.get("qname") not in [p2["name"] for p2 in pre if p2["id"] == p["id"]]:
                    ck.violation(f"{tag}: quantized module does not carry its dotted name", ctx)
                ewq = None if spec["t"] == "ln" else c["weights"]
                if q.get("weight_qtype") != ewq:
                    ck.violation(f"{tag}: weight qtype is {q.get('weight_qtype')}, requested {ewq}", ctx)
                eaq = c["activations"]
                if q.get("activation_qtype") != eaq:
                    ck.violation(f"{tag}: activation qtype is {q.get('activation_qtype')}, requested {eaq}", ctx)
                if q.get("frozen"):
                    ck.violation(f"{tag}: freshly quantized module is frozen", ctx)
            observed.append((name, p["id"] if ident_ok else 1000 + p["id"], KCODE[q["kind"]]))
        for pp in r["post"]:
            if pp["name"] not in {p["name"] for p in pre}:
                observed.append((pp["name"], 2000, KCODE[pp["kind"]]))
        if r.get("whole") is not None and not r["whole"]["ok"]:
            what = f"the quantized model raised {r['whole']['exn']} in forward: {r['whole']['msg'][:120]}"
            if directed == "ln-no-affine-half":
                what = "half-precision model, LayerNorm(elementwise_affine=False) with quantized activations, before calibration: its scales are float32 (no parameter to take the dtype from), its output is float32 and the next layer raises"
            ck.violation(what, {"case": cfg, "whole": r["whole"]})
        coq_cases.append((c, cfg, sel_ids, observed))
        # twins
        for t in r["twins"]:
            tctx = {"case": cfg, "module": t["name"], "spec": t["spec"], "result": t}
            kind = t["spec"]["t"]
            ck.count("twin", f"{kind}/{t.get('input_mode')}")
            if "exn" in t:
                ck.violation(f"quantized {kind} raised {t['exn']} in forward: {t['msg'][:120]}", tctx)
                continue
            if t.get("reused_input_object_ok") is False:
                ck.violation(f"quantized {kind} fed the same input object again after it was overwritten in place returns something else than for a fresh tensor holding the same values (stale result keyed by object identity)", tctx)
            if "bad" in t:
                ck.violation(f"quantized {kind}: {t['bad']}", tctx)
                continue
            if t["ratio"] > 1.0 and c["dtype"] == "float16" and t.get("scale_prod_exact_min", 1.0) < 2.0 ** -14:
                ck.violation(f"quantized linear, float16 model: the float16 product of the activation and weight scales is subnormal ({t['scale_prod_exact_min']:.3g}), output off by {t['ratio']:.3g}x the bound", tctx)
            elif t["ratio"] > 1.0:
                ck.violation(f"quantized {kind} output differs from its float twin (dequantized weight, {t['input_mode']} input) beyond rounding: {t['ratio']:.3g}x the bound", tctx)
            for tag_, what_ in (("frozen_ratio", "the same input"), ("frozen_big_ratio", "a large-magnitude input (x200)")):
                if t.get(tag_, 0) > 1.0:
                    ck.violation(f"frozen quantized {kind} (weights {c['weights']}, no activations, {c['dtype']}) on {what_} differs from its float twin beyond rounding: {t[tag_]:.3g}x the bound", tctx)
            if not t["dtype_ok"]:
                ck.violation(f"quantized {kind} output dtype differs from the module dtype", tctx)
            if c["activations"] is not None:
                ea = c["activations"]
                if t["out_qtype"] != ea or t["out_axis"] is not None or not t["out_scale_is_output_scale"]:
                    ck.violation(f"quantized {kind} output is not re-quantized per-tensor with the module's output scale and activation qtype", tctx)
            ck.case(("twin", kind, c["dtype"], c["weights"], c["activations"], t.get("input_mode"), json.dumps(t["spec"], sort_keys=True)), nontrivial=True)
        ck.case(("tree", c["seed"]), nontrivial=replaced > 0 and untouched > 1,
                sample={"config": cfg, "replaced": replaced, "untouched": untouched} if len(ck.samples) < 3 else None)
    # ---- correspondence: Coq's quantize_tree on the same trees lists exactly what named_modules() lists
    for s in range(0, len(coq_cases), 100):
        part = coq_cases[s : s + 100]
        body = "Definition cases : list (bool * option (list nat) * mtree * list (string * nat * Z)) := [\n"
        rows = []
        for c, cfg, sel, obs in part:
            flt = "None" if sel is None else "(Some [" + "; ".join(f"{i}%nat" for i in sorted(sel)) + "])"
            o = "[" + "; ".join(f'("{n}", {i}%nat, {k}%Z)' for n, i, k in obs) + "]"
            rows.append(f"({'true' if c['activations'] else 'false'}, {flt}, {coq_tree(c['tree'])}, {o})")
        body += ";\n".join(rows) + "].\nEval vm_compute in (failing chk_quantize cases).\n"
        name = f"trees_{s}"
        with open(os.path.join(ck.dyn, name + ".v"), "w") as fh:
            fh.write(IMPORTS + body)
        rc, out, err = sh(["coqc", "-Q", COQ, "QV", "-Q", ck.dyn, "QD", name + ".v"], 900, cwd=ck.dyn)
        bad = parse_nat_list(out) if rc == 0 else None
        if bad is None:
            ck.corr_mismatch.append({"file": name + ".v", "error": (err or out).strip()[-300:]})
        else:
            ck.corr_checked += len(part)
            for k in bad:
                c, cfg, sel, obs = part[k]
                if c.get("directed") in ("shared", "root") and any(kf["id"] in ("F17", "F26") and kf.get("status") == "known" for kf in ck.known):
                    continue
                ck.corr_mismatch.append({"case": cfg, "observed": obs})
    ck.assumptions += [
        "identity of a module = its hyper-parameters (attribute reprs and extra_repr), parameter bits / dtype / device / shape / requires_grad, buffers, training flag",
        "eligible modules are leaves (torch's Linear / Conv2d / LayerNorm have no children); user subclasses with children are outside the modelled trees",
        "twin tolerance: ((K+2)u_acc + 5u) * sum|x||w| per output (K = fan-in), plus half a grid step of the output qtype when activations are quantized (see C07 for the matmul itself)",
    ]
    ck.finish("make -C coq ; coqc GenMod.v TieMod.v C08.v trees_*.v (per run, against /repo's current source)",
              trusted_extra=["translators/gen_mod.py (registry / qcreate / loop extractor, AST fingerprints of the module methods)"], extra_cov={"programs": len(cases)})


if __name__ == "__main__":
    main(sys.argv[1] if len(sys.argv) > 1 else "quick")
