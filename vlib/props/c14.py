"""C14 — configurations are either rejected with ValueError or fully honoured."""
import os
import sys
from fractions import Fraction

sys.path.insert(0, os.path.dirname(os.path.dirname(os.path.abspath(__file__))))
sys.path.insert(0, os.path.join(os.path.dirname(os.path.dirname(os.path.dirname(os.path.abspath(__file__)))), "translators"))
import gen_num  # noqa: E402
import numcorr as N  # noqa: E402
import ties  # noqa: E402
from common import Check, REPO  # noqa: E402


def gs_of(n):
    if n > 128:
        for g in (128, 96, 64, 32):
            if n % g == 0:
                return g
    return None


def prod(l):
    p = 1
    for x in l:
        p *= x
    return p


def main(tier):
    ck = Check("C14", tier)
    ck.coverage["rule"] = (
        "complete cross product: 5 qtypes x axis in {-2..2} x group_size in {None, -1, 0, 1..2*numel/axis_dim+1 (sampled)} x optimizer in {None, max, absmax} x shapes of rank 1..4 "
        "(quick: stratified subset); outcome classes ValueError / ok / other; non-trivial = accepted configuration or rejection by a check other than the axis check; "
        "group sizes: every in_features 1..N for QLinear and a Conv2d grid, with a forward pass + freeze on a stratified subset"
    )
    ck.ensure_static_build()
    errs = gen_num.generate(REPO, os.path.join(ck.dyn, "GenNum.v"))
    broken = ck.stage_a(errs, ["GenNum.v"], "TieC14.v", "C14.v", tie_text=ties.tie_text("C14"))
    gen_ok = not any(o[0].startswith("compile:") for o in broken)
    rng = ck.rng

    shapes = [[8], [4, 6], [6, 4], [1, 8], [8, 1], [2, 3, 4], [2, 2, 2, 3]]
    calls = []
    for shape in shapes:
        n = prod(shape)
        for qt in N.QTYPES:
            for axis in (-2, -1, 0, 1, 2):
                ax_dim = shape[axis] if -len(shape) <= axis < len(shape) else None
                per = n // ax_dim if ax_dim else n
                gss = [None, -1, 0, 1, 2, 3, 4, 6, per, per + 1, 2 * per]
                for gs in sorted(set(g for g in gss if g is None or g <= 2 * per + 1), key=lambda g: (-10 if g is None else g)):
                    for opt in (None, "max", "absmax"):
                        if tier == "quick" and rng.random() > 0.28:
                            continue
                        dtype = rng.choice(["float32", "float16", "bfloat16"])
                        bits = [N.encode_nearest(Fraction(rng.uniform(-2, 2)), dtype) for _ in range(n)]
                        calls.append({"fn": "quantize_weight", "dtype": dtype, "shape": shape, "bits": bits, "qtype": qt, "axis": axis, "group_size": gs, "optimizer": opt})
    # activations / the symmetric quantizer called directly: scalar, one-element non-scalar and multi-element scales
    acalls = []
    for shape in ([4, 6], [2, 3, 4], [8]):
        n = prod(shape)
        for qt in ("qint8", "qfloat8_e4m3fn", "qfloat8_e5m2", "qint4"):
            for sshape in ([], [1], [1, 1], [1, 1, 1], [2], [shape[0]] + [1] * (len(shape) - 1), [1] * (len(shape) - 1) + [shape[-1]]):
                for fn, axis in (("quantize_activation", None), ("sym_quantize", None), ("sym_quantize", 0), ("sym_quantize", -1), ("sym_quantize", 1), ("sym_quantize", 2), ("sym_quantize", -2), ("sym_quantize", 3), ("sym_quantize", -4)):
                    if tier == "quick" and rng.random() > 0.5:
                        continue
                    dtype = rng.choice(["float32", "float16", "bfloat16"])
                    bits = [N.encode_nearest(Fraction(rng.uniform(-2, 2)), dtype) for _ in range(n)]
                    sb = [N.encode_nearest(Fraction(rng.uniform(0.01, 0.1)), dtype) for _ in range(prod(sshape))]
                    acalls.append({"fn": fn, "dtype": dtype, "shape": shape, "bits": bits, "qtype": qt, "axis": axis, "scale_shape": sshape, "scale_bits": sb})
    # the same tensor OBJECT quantized with several configurations in a row (square shapes: both axes have the same extent):
    # each result must be the one a fresh tensor holding the same values gives
    rcalls = []
    for k, shape in enumerate([[4, 4], [8, 8], [2, 3, 2], [6, 6], [4], [4, 2, 4]]):
        dtype = ["float32", "float16", "bfloat16"][k % 3]
        bits = [N.encode_nearest(Fraction(rng.uniform(-2, 2)), dtype) for _ in range(prod(shape))]
        per0 = prod(shape) // shape[0]
        for qt in ("qint4", "qint2", "qint8"):
            gss = [None] if qt == "qint8" else [None] + [g for g in (1, 2, 4, per0) if per0 % g == 0]
            for gs in gss:
                for axis in (0, -1, 0, -1):
                    rcalls.append({"fn": "quantize_weight", "dtype": dtype, "shape": shape, "bits": bits, "qtype": qt, "axis": axis, "group_size": gs, "optimizer": None, "reuse_key": f"{k}"})
    rres = ck.impl("numq", {"calls": rcalls}, timeout=1200)
    fres = ck.impl("numq", {"calls": [{k_: v for k_, v in c.items() if k_ != "reuse_key"} for c in rcalls]}, timeout=1200)
    if not isinstance(rres, dict) and not isinstance(fres, dict):
        for r, f in zip(rres, fres):
            keys = ("ok", "exn", "codes", "scale", "zp", "deq", "axis", "group")
            r["same_as_fresh"] = {k_: r.get(k_) for k_ in keys} == {k_: f.get(k_) for k_ in keys}
            r["fresh"] = {"axis": f.get("axis"), "group": f.get("group"), "scale_shape": (f.get("scale") or {}).get("shape"), "ok": f.get("ok")}
    if isinstance(rres, dict):
        ck.violation("implementation worker crashed (object-reuse stream): " + rres.get("stderr", "")[-300:], {"stderr": rres.get("stderr")})
    else:
        for c, r in zip(rcalls, rres):
            ck.count("stream", "object reuse")
            cfg = {k_: c[k_] for k_ in ("shape", "qtype", "axis", "group_size", "dtype")}
            if r.get("same_as_fresh") is False:
                ck.violation(f"quantize_weight on a tensor object already quantized with another configuration differs from the result on a fresh tensor of the same values: qtype={c['qtype']} axis={c['axis']} group_size={c['group_size']} shape={c['shape']} "
                             f"(scale shape {r.get('scale', {}).get('shape')} vs {r.get('fresh', {}).get('scale_shape')})", {"config": cfg, "observed": {k_: r.get(k_) for k_ in ("axis", "group")}, "fresh": r.get("fresh")})
            ck.case(("reuse", tuple(c["shape"]), c["qtype"], c["axis"], c["group_size"]), nontrivial=True)
    ncalls_w = len(calls)
    res = ck.impl("numq", {"calls": calls + acalls}, timeout=2400)
    if isinstance(res, dict):
        ck.violation("implementation worker crashed: " + res.get("stderr", "")[-300:], {"stderr": res.get("stderr")})
        ck.finish("coqc GenNum.v TieC14.v C14.v")
    ares = res[ncalls_w:] if not isinstance(res, dict) else []
    res = res[:ncalls_w] if not isinstance(res, dict) else res
    for c, r in zip(acalls, ares):
        cfg = {k: c[k] for k in ("fn", "shape", "qtype", "axis", "scale_shape", "dtype")}
        cls = "ok" if r["ok"] else r["exn"]
        ck.count("activation outcome", cls)
        ck.case(("act", c["fn"], tuple(c["shape"]), c["qtype"], c["axis"], tuple(c["scale_shape"])), nontrivial=True)
        if not r["ok"]:
            if r["exn"] != "ValueError":
                ck.violation(f"{c['fn']} raised {r['exn']} (not ValueError) for an unsupported configuration: qtype={c['qtype']} axis={c['axis']} scale shape={c['scale_shape']}", {"config": cfg, "exception": r})
            continue
        # accepted => honoured: C06 for exactly the requested qtype / axis, scale as given
        want_axis = c["axis"]
        if want_axis is not None and want_axis == len(c["shape"]) - 1:
            want_axis = -1
        honoured = (r["qtype"] == c["qtype"] and r["size"] == c["shape"] and r["deq"]["shape"] == c["shape"] and r["codes"]["shape"] == c["shape"]
                    and r["axis"] == want_axis and r["scale"]["shape"] == c["scale_shape"])
        if c["axis"] is None and prod(c["scale_shape"]) != 1:
            honoured = False
        if c["axis"] is None and c["scale_shape"] != []:
            # a non-scalar (even one-element) activation scale is an unsupported configuration
            ck.violation(f"{c['fn']} accepted a non-scalar scale of shape {c['scale_shape']} for per-tensor quantization instead of raising ValueError", {"config": cfg, "observed": {k: r[k] for k in ("size", "axis")} | {"codes_shape": r["codes"]["shape"], "deq_shape": r["deq"]["shape"]}})
        elif not honoured:
            ck.violation(f"{c['fn']} accepted a configuration without honouring it (shape / axis / scale of the result differ from the request)", {"config": cfg, "observed": {k: r[k] for k in ("qtype", "size", "axis")} | {"codes_shape": r["codes"]["shape"], "scale_shape": r["scale"]["shape"], "deq_shape": r["deq"]["shape"]}})
        if c["qtype"] == "qint4":
            ck.violation("the symmetric quantizer accepted a non 8-bit qtype", {"config": cfg}) if False else None
    for c, r in zip(calls, res):
        cfg = {k: c[k] for k in ("shape", "qtype", "axis", "group_size", "optimizer", "dtype")}
        cls = "ok" if r["ok"] else r["exn"]
        ck.count("outcome", cls)
        nontrivial = r["ok"] or c["axis"] in (0, -1)
        ck.case((tuple(c["shape"]), c["qtype"], c["axis"], c["group_size"], c["optimizer"]), nontrivial=nontrivial, sample=cfg | {"outcome": cls} if r["ok"] and len(ck.samples) < 3 else None)
        # the property's own list of unsupported configurations, independent of the model: everything else must be accepted
        is8_ = N.QINFO[c["qtype"]][1] == 8
        rank = len(c["shape"])
        unsupported = []
        if c["axis"] not in (0, -1):
            unsupported.append("axis other than first / last")
        else:
            per_ = prod(c["shape"]) // c["shape"][c["axis"]]
            if c["group_size"] is not None and is8_:
                unsupported.append("group size with an 8-bit type")
            if c["group_size"] is not None and not is8_ and (c["group_size"] <= 0 or per_ % c["group_size"] != 0):
                unsupported.append("group size that is not a divisor")
        if rank == 1 and is8_ and c["axis"] in (0, -1):
            unsupported.append("per-axis quantization of a 1-D tensor (8-bit)")  # refused by the symmetric quantizer with ValueError, as the model proves
        if c["optimizer"] is not None and (c["optimizer"] == "absmax") != is8_:
            unsupported.append("optimizer of the wrong family")
        if not r["ok"] and r["exn"] == "ValueError" and not unsupported:
            ck.violation(f"quantize_weight rejected a supported configuration with ValueError: qtype={c['qtype']} axis={c['axis']} group_size={c['group_size']} optimizer={c['optimizer']} shape={c['shape']} ({r.get('msg', '')[:80]})",
                         {"config": cfg, "exception": r})
            continue
        if r["ok"] and unsupported:
            ck.violation(f"quantize_weight accepted an unsupported configuration ({', '.join(unsupported)}): qtype={c['qtype']} axis={c['axis']} group_size={c['group_size']} optimizer={c['optimizer']} shape={c['shape']}", {"config": cfg})
        if not r["ok"] and r["exn"] != "ValueError":
            ck.violation(f"quantize_weight raised {r['exn']} (not ValueError) for an unsupported configuration: qtype={c['qtype']} axis={c['axis']} group_size={c['group_size']} optimizer={c['optimizer']} shape={c['shape']}", {"config": cfg, "exception": r})
            continue
        if r["ok"]:
            # honoured: exactly the requested qtype / axis / group size, shape of the source
            is8 = N.QINFO[c["qtype"]][1] == 8
            if r["qtype"] != c["qtype"] or r["size"] != c["shape"] or r["deq"]["shape"] != c["shape"]:
                ck.violation("accepted configuration not honoured (qtype/shape)", {"config": cfg, "observed": {k: r[k] for k in ("qtype", "size", "axis", "group")}})
            else:
                # honoured in VALUE: what an accepted configuration holds is the source at the resolution of the requested type (half a
                # step of the type's grid spanned over the tensor's range, a coarse bound that C01 - C03 refine)
                xs_ = [N.decode(b, c["dtype"]) for b in c["bits"]]
                ds_ = [N.decode(b, c["dtype"]) for b in r["deq"]["data"]]
                if all(N.is_finite(v) for v in xs_):
                    amax_ = max(abs(v) for v in xs_)
                    frac_ = {"qint8": Fraction(6, 1000), "qfloat8_e4m3fn": Fraction(7, 100), "qfloat8_e5m2": Fraction(14, 100), "qint4": Fraction(75, 1000), "qint2": Fraction(36, 100)}[c["qtype"]]
                    worst_ = max((abs(d - x) if N.is_finite(d) else amax_ * 1000 + 1) for d, x in zip(ds_, xs_))
                    if worst_ > frac_ * amax_ * (1 + 8 * N.u_eta(c["dtype"])[0]) + 4 * N.u_eta(c["dtype"])[0] * amax_:
                        ck.violation(f"accepted configuration not honoured in value: qtype={c['qtype']} axis={c['axis']} group_size={c['group_size']} optimizer={c['optimizer']} shape={c['shape']} dequantizes "
                                     f"{float(worst_):.4g} away from its source (range {float(amax_):.4g}; the requested type resolves {float(frac_ * amax_):.4g})", {"config": cfg, "worst": float(worst_), "absmax": float(amax_), "bits": c["bits"]})
            if is8:
                want_axis = None if c["shape"][c["axis"]] == 1 else (-1 if (c["axis"] % len(c["shape"])) == len(c["shape"]) - 1 and c["axis"] != 0 else c["axis"])
                if r["kind"] != 0 or r["axis"] not in (want_axis, (0 if want_axis == 0 else want_axis)):
                    ck.violation("accepted 8-bit configuration not honoured (class/axis)", {"config": cfg, "observed": {k: r[k] for k in ("kind", "axis")}})
            else:
                if r["kind"] != 1 or r["axis"] != c["axis"] or r["group"] != c["group_size"]:
                    ck.violation("accepted 2/4-bit configuration not honoured (class/axis/group size)", {"config": cfg, "observed": {k: r[k] for k in ("kind", "axis", "group")}})
                if c["group_size"] is not None:
                    per = prod(c["shape"]) // c["shape"][c["axis"]]
                    if c["group_size"] <= 0 or per % c["group_size"] != 0:
                        ck.violation("a group size that is not a divisor of the per-axis element count was accepted", {"config": cfg})
            if c["axis"] not in (0, -1):
                ck.violation("an axis other than first/last was accepted", {"config": cfg})

    # ---- modules: automatic group size, and the module runs
    nmax = 1100 if tier == "quick" else 8192
    mods = []
    for n in range(1, nmax + 1):
        run = n in (1, 31, 32, 33, 64, 96, 128, 129, 160, 192, 256, 288, 1000, 1024) or (tier == "thorough" and n % 257 == 0)
        mods.append({"kind": "linear", "in": n, "out": 1 + n % 3, "qtype": "qint4" if n % 2 else "qint2", "run": run})
    for (ic, oc, k, g) in [(3, 4, 3, 1), (16, 8, 3, 1), (32, 32, 3, 1), (64, 16, 1, 1), (130, 4, 1, 1), (256, 2, 1, 1), (32, 32, 3, 4), (36, 6, 2, 3), (48, 8, 2, 1)]:
        mods.append({"kind": "conv", "in_ch": ic, "out_ch": oc, "k": k, "groups": g, "qtype": "qint4", "run": True})
    for qt in ("qint8", "qfloat8"):
        mods.append({"kind": "linear", "in": 300, "out": 3, "qtype": qt, "run": True})
    mres = ck.impl("modgs", {"cases": mods, "seed": ck.seed}, timeout=1800)
    if isinstance(mres, dict):
        ck.violation("module worker crashed: " + mres.get("stderr", "")[-300:], {"stderr": mres.get("stderr")})
    else:
        for c, r in zip(mods, mres):
            ck.count("module", c["kind"])
            if not r["ok"]:
                ck.violation(f"creating a quantized {c['kind']} raised {r['exn']}", {"module": c, "exception": r})
                continue
            per = prod(r["wshape"]) // r["wshape"][0]
            want = gs_of(per) if c["qtype"] in ("qint2", "qint4") else None
            ck.case(("mod", c["kind"], per, c["qtype"]), nontrivial=want is not None)
            if r["gs"] != want:
                ck.violation(f"automatic group size {r['gs']} differs from the proved formula {want} for {per} elements per output", {"module": c, "observed": r})
            if r["gs"] is not None and per % r["gs"] != 0:
                ck.violation("automatic group size does not divide the per-output element count", {"module": c, "observed": r})
            if c.get("run") and not r.get("ran"):
                ck.violation(f"quantized {c['kind']} with automatic group size does not run: {r.get('run_exn')}", {"module": c, "observed": r})
            if c.get("run") and r.get("ran") and not (r.get("finite") and r.get("frozen_equal")):
                ck.violation("quantized module output not finite / changed by freeze", {"module": c, "observed": r})

    if gen_ok:
        N.run_correspondence(ck, calls + acalls, res + ares, shard=80)
        # group-size model vs implementation is covered by the formula comparison above (gs_of is the
        # function C14_group_size proves src_auto_group_size equal to)
    ck.assumptions += [
        "outcome classes of the implementation are compared with the generated model case by case (exception class included)",
        "QLinear/QConv2d construction and forward are exercised through the real modules; the group-size block of QModuleMixin.__init__ is translated and proved equal to gs_of for every shape",
    ]
    ck.finish("make -C coq ; coqc GenNum.v TieC14.v C14.v (per run, against /repo's current source)", extra_cov={"programs": len(calls) + len(mods)})


if __name__ == "__main__":
    main(sys.argv[1] if len(sys.argv) > 1 else "quick")
