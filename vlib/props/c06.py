"""C06 — a quantized tensor's reported metadata always matches what it holds (same program runs as C05)."""
import os
import sys

sys.path.insert(0, os.path.dirname(os.path.abspath(__file__)))
import c05  # noqa: E402

if __name__ == "__main__":
    c05.run("C06", sys.argv[1] if len(sys.argv) > 1 else "quick")
